import OdmlModel.Props.C04
#print axioms C04.sibling_names_unique
#print axioms C04.append_clash_refused
#print axioms C04.insert_clash_refused
#print axioms C04.rename_clash_refused
#print axioms C04.rename_empty_falls_back_to_id
#print axioms C04.extend_duplicate_refused
#print axioms C04.names_never_empty
#print axioms C04.ctor_id_canonical
#print axioms C04.ctor_malformed_id_replaced
#print axioms C04.new_id_malformed_rejected
#print axioms C04.new_id_canonical
#print axioms C04.canonical_nonempty
#print axioms C04.ids_canonical_after_any_history
#print axioms C04.ctor_op_canonical
#print axioms C04.new_id_op_canonical
#print axioms C04.cleared_name_is_canonical_id
#print axioms C04.names_never_empty_of_canonical
