import OdmlModel.Props.C03
#print axioms C03.wf_empty
#print axioms C03.wf_step
#print axioms C03.wf_reachable_partial
#print axioms C03.wf_run
#print axioms C03.parent_chain_terminates
#print axioms C03.not_own_ancestor
#print axioms C03.in_exactly_one_list
#print axioms C03.document_is_chain_root
