import OdmlModel.Props.C19
#print axioms C19.validate_order_independent
#print axioms C19.crash_order_independent
#print axioms C19.report_depends_on_sets
#print axioms C19.run_changes_nothing
#print axioms C19.validate_repeatable
#print axioms C19.registry_isolated
#print axioms C19.ctor_and_setter_validations_private
#print axioms C19.reset_starts_empty
#print axioms C19.default_uses_global
#print axioms C19.default_report_stable
#print axioms C19.custom_rule_private
#print axioms C19.custom_rule_not_in_default
#print axioms C19.fresh_custom_is_private
#print axioms C19.custom_on_default_object_leaks
#print axioms C19.register_global_changes
