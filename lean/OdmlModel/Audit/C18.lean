import OdmlModel.Props.C18
#print axioms C18.resolve_is_direct_parse
#print axioms C18.load_result_schedule_independent
#print axioms C18.table_entries_resolved
#print axioms C18.cached_identity
#print axioms C18.cache_monotone
#print axioms C18.failed_fetch_writes_nothing
#print axioms C18.no_exception
