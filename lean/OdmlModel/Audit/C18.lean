import OdmlModel.Props.C18
#print axioms C18.resolve_is_direct_parse
#print axioms C18.load_result_schedule_independent
#print axioms C18.table_entries_resolved
#print axioms C18.cached_identity
#print axioms C18.cache_monotone
#print axioms C18.failed_fetch_writes_nothing
#print axioms C18.no_exception
#print axioms C18.join_names_started_thread
#print axioms C18.progress
#print axioms C18.waits_for_decreases_rank
#print axioms C18.measure_decreases
#print axioms C18.effective_steps_bounded
#print axioms C18.fair_schedule_terminates
#print axioms C18.maximal_run_completes
#print axioms C18.load_none_iff_unloadable
#print axioms C18.maximal_run_requested_loaded_or_failed
