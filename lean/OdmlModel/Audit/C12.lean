import OdmlModel.Props.C12
#print axioms C12.link_adds_only
#print axioms C12.copy_is_faithful
#print axioms C12.link_adds_only_general
#print axioms C12.unmerge_restores
#print axioms C12.clean_after_link
#print axioms C12.clean_finalize_restores
#print axioms C12.filled_definition_taken_back
#print axioms C12.clean_keeps_user_edit
#print axioms C12.unmerge_notMerged
#print axioms C12.clean_restores_attrs_general
#print axioms C12.cycle_stable
#print axioms C12.cleanSec_noLinks
#print axioms C12.clean_sec_restores
#print axioms C12.finalize_step_not_linker
#print axioms C12.finalize_step_at_linker
#print axioms C12.finalize_step_frame
#print axioms C12.finalize_loop_frame
