import OdmlModel.Props.C09
#print axioms C09.fmt_normal
#print axioms C09.set_refused_keeps
#print axioms C09.set_accepted
#print axioms C09.slot_always_stored
#print axioms C09.fmt_domain
#print axioms C09.fmt_single
#print axioms C09.fmt_pair
#print axioms C09.report_iff_outside
#print axioms C09.report_cause
#print axioms C09.never_enforced_add
#print axioms C09.never_enforced_remove
#print axioms C09.history_exact
#print axioms C09.stored_fixpoint
#print axioms C09.persist_text
#print axioms C09.persist_list
#print axioms C09.persist_end_to_end
#print axioms C09.card_keys_in_format
