import OdmlModel.Props.C20
#print axioms C20.query_vocabulary_matches_writer
#print axioms C20.query_never_fails
#print axioms C20.evalBGP_sound
#print axioms C20.evalBGP_complete
#print axioms C20.combinations_exact
#print axioms C20.combinations_most_specific_first
#print axioms C20.hitless_omitted
#print axioms C20.fuzzy_equals_match_on_pairs
#print axioms C20.typed_literal_never_matches_counterexample
#print axioms C20.value_query_never_matches_counterexample
#print axioms C20.id_never_matches_counterexample
#print axioms C20.query_sound_complete_counterexample
#print axioms C20.query_tables_ok
#print axioms C20.query_sound_complete
