import OdmlModel.Props.C10
#print axioms C10.rdf_tables_wellformed
#print axioms C10.reader_accepts_rdf_keys
#print axioms C10.formats_supported
#print axioms C10.export_shape
#print axioms C10.export_one_hub
#print axioms C10.export_hub_links_every_document
#print axioms C10.export_object_nodes
#print axioms C10.export_property_node
#print axioms C10.export_values_ordered
#print axioms C10.export_section_typed
#print axioms C10.objects_perm
#print axioms C10.rdf_roundtrip
#print axioms C10.rdf_roundtrip_partial
#print axioms C10.import_perm_invariant
#print axioms C10.uncertainty_imported_as_text
#print axioms C10.rdf_roundtrip_counterexample
#print axioms C10.empty_attribute_dropped_counterexample
