import OdmlModel.Props.C06
#print axioms C06.refused_changes_nothing
#print axioms C06.refused_changes_nothing_anywhere
#print axioms C06.constructor_refused_adds_nothing
#print axioms C06.extend_all_or_nothing
#print axioms C06.cardinality_refused_keeps
#print axioms C06.merge_refused_up_front_changes_nothing
#print axioms C06.link_unresolvable_changes_nothing
#print axioms C06.link_unresolvable_raises
#print axioms C06.link_refused_up_front_changes_nothing
#print axioms C06.merge_all_or_nothing
#print axioms C06.merge_raises_iff
#print axioms C06.clone_refused_changes_nothing
#print axioms C06.link_all_or_nothing
#print axioms C06.merge_all_or_nothing_anywhere
#print axioms C06.refused_compound_changes_nothing
