import OdmlModel.Props.C06
#print axioms C06.refused_changes_nothing
#print axioms C06.refused_changes_nothing_anywhere
#print axioms C06.constructor_refused_adds_nothing
#print axioms C06.extend_all_or_nothing
#print axioms C06.cardinality_refused_keeps
