import OdmlModel.Props.C02
#print axioms C02.format_keys_valid
#print axioms C02.dict_layout
#print axioms C02.dict_denote
#print axioms C02.strict_lenient_agree
#print axioms C02.foreign_key_strict
#print axioms C02.foreign_key_lenient
#print axioms C02.dict_roundtrip_partial
#print axioms C02.write_denotes
#print axioms C02.roundtrip_direct
#print axioms C02.roundtrip_json
#print axioms C02.roundtrip_yaml
#print axioms C02.json_yaml_agree
#print axioms C02.prop_roundtrip
#print axioms C02.card_roundtrip
#print axioms C02.falsy_attributes_kept
#print axioms C02.tuple_comma_counterexample
