/-
C14 — Paths address exactly one object and traversals enumerate exactly the tree.

Property theorems only; helper lemmas are in `Proofs/Path*.lean`.
Model: `Model/Path.lean`, `Model/PathTree.lean`, `Py/Posix.lean` (tied to /repo and to the real
`posixpath` by `harness/c14.py`). Objects are identified by their position (index path).
All statements are for every Document tree `d` that is well formed and path-safe (`d.wf`:
sibling names pairwise distinct, non-empty, free of `/` and `:`, different from `.` and `..`),
without any bound on size or depth.
-/
import OdmlModel.Model.Path
import OdmlModel.Proofs.Path
import OdmlModel.Proofs.PathRel
import OdmlModel.Proofs.PathIter
import OdmlModel.Proofs.PathMem
import OdmlModel.Proofs.PathRelated
import OdmlModel.Model.PathName
import OdmlModel.Proofs.PathName
import OdmlModel.Model.PathMove
import OdmlModel.Proofs.PathMove

set_option linter.unusedSimpArgs false
set_option linter.unusedVariables false

namespace C14
open PathTree Path Py Py.Posix PathName PathMove

/-! ## 1. Absolute paths -/

/-- Looking `s.get_path()` up from the Document or from any Section (`cur` is arbitrary)
    returns that very Section. -/
theorem abs_path_resolves (d : Doc) (hw : d.wf = true) (cur p : Pos) (s : Sec)
    (hp : secAt d.secs p = some s) :
    ∃ path, getPath d p = some path ∧ getSectionByPath d cur path = .ok p := by
  obtain ⟨ns, hn⟩ := namesAlong_of_secAt _ _ _ hp
  refine ⟨'/' :: joinSlash ns, by simp [getPath, hn], ?_⟩
  exact resolve_absolute d cur p ns hw (secAt_ne_nil _ _ _ hp) hn

/-- Looking `p.get_path()` of a Property up from anywhere returns that very Property. -/
theorem abs_prop_path_resolves (d : Doc) (hw : d.wf = true) (cur p : Pos) (s : Sec) (k : Nat)
    (pr : PropT) (hp : secAt d.secs p = some s) (hk : s.props[k]? = some pr) :
    ∃ path, propPath d p k = some path ∧ getPropertyByPath d cur path = .ok (p, k) := by
  obtain ⟨ns, hn⟩ := namesAlong_of_secAt _ _ _ hp
  have hres := resolve_absolute d cur p ns hw (secAt_ne_nil _ _ _ hp) hn
  have hplain := namesAlong_plain _ _ _ hw hn
  have hcolon : ':' ∉ ('/' :: joinSlash ns) := by
    simp only [List.mem_cons, not_or]
    exact ⟨by decide, not_mem_joinSlash ':' (by decide) ns
      (fun n hn' => ((plainName_iff n).1 (hplain n hn')).2.2.1)⟩
  refine ⟨('/' :: joinSlash ns) ++ ':' :: pr.name, by simp [propPath, getPath, hn, hp, hk], ?_⟩
  exact property_lookup d cur p s k pr _ hw hcolon hres hp hk

/-! ## 2. Relative paths -/

/-- What `a.get_relative_path(b)` is, in terms of the names along the two positions
    (character-wise `commonprefix` + `dirname` + `relpath` + `normpath` collapse to the
    segment-wise description `relSpec`, also for names that are prefixes of one another). -/
theorem rel_path_spec (d : Doc) (hw : d.wf = true) (a b : Pos) (sa sb : Sec)
    (ha : secAt d.secs a = some sa) (hb : secAt d.secs b = some sb) (na nb : List Str)
    (hna : namesAlong d.secs a = some na) (hnb : namesAlong d.secs b = some nb) :
    getRelativePath d a b = some (relSpec na nb) := by
  have hpa := namesAlong_plain _ _ _ hw hna
  have hpb := namesAlong_plain _ _ _ hw hnb
  have hane : na ≠ [] := by
    intro h; subst h
    have := namesAlong_length _ _ _ hna
    exact secAt_ne_nil _ _ _ ha (List.length_eq_zero_iff.1 this.symm)
  have hbne : nb ≠ [] := by
    intro h; subst h
    have := namesAlong_length _ _ _ hnb
    exact secAt_ne_nil _ _ _ hb (List.length_eq_zero_iff.1 this.symm)
  simp only [getRelativePath, getPath, hna, hnb, Option.map_some]
  rw [relativePath_segments na nb hane hbne (fun n hn => SegOk_of_plain (hpa n hn))
    (fun n hn => SegOk_of_plain (hpb n hn))]

/-- For any two Sections `a` and `b` (including `b = a`, `b` an ancestor of `a`, names sharing
    a prefix, only the Document in common): resolving `a.get_relative_path(b)` from `a`
    returns `b`. -/
theorem rel_path_resolves (d : Doc) (hw : d.wf = true) (a b : Pos) (sa sb : Sec)
    (ha : secAt d.secs a = some sa) (hb : secAt d.secs b = some sb) :
    ∃ path, getRelativePath d a b = some path ∧ getSectionByPath d a path = .ok b := by
  obtain ⟨c, a', b', lc, nc, na, nb, h1, h2, h3, hlc, hnc, hna, hnb, hfa, hfb⟩ :=
    rel_setup d a b sa sb ha hb
  refine ⟨relSpec (nc ++ na) (nc ++ nb), rel_path_spec d hw a b sa sb ha hb _ _ hfa hfb, ?_⟩
  subst h1 h2
  exact resolve_relSpec d hw c a' b' lc nc na nb sa sb ha hb hlc hnc hna hnb h3

/-- The same through `get_property_by_path`: `a.get_relative_path(b) + ":" + p.name`
    looked up from `a` returns the Property `p` of `b`. -/
theorem rel_prop_path_resolves (d : Doc) (hw : d.wf = true) (a b : Pos) (sa sb : Sec) (k : Nat)
    (pr : PropT) (ha : secAt d.secs a = some sa) (hb : secAt d.secs b = some sb)
    (hk : sb.props[k]? = some pr) :
    ∃ path, getRelativePath d a b = some path ∧
      getPropertyByPath d a (path ++ ':' :: pr.name) = .ok (b, k) := by
  obtain ⟨path, h1, h2⟩ := rel_path_resolves d hw a b sa sb ha hb
  refine ⟨path, h1, ?_⟩
  obtain ⟨na, hna⟩ := namesAlong_of_secAt _ _ _ ha
  obtain ⟨nb, hnb⟩ := namesAlong_of_secAt _ _ _ hb
  have hspec := rel_path_spec d hw a b sa sb ha hb na nb hna hnb
  rw [h1] at hspec
  have hcolon : ':' ∉ path := by
    rw [Option.some.inj hspec]
    exact relSpec_no_colon na nb
      (fun n hn => ((plainName_iff n).1 (namesAlong_plain _ _ _ hw hna n hn)).2.2.1)
      (fun n hn => ((plainName_iff n).1 (namesAlong_plain _ _ _ hw hnb n hn)).2.2.1)
  exact property_lookup d a b sb k pr path hw hcolon h2 hb hk

/-- Why the `fix:` commit was needed: before it, a last path step `.` / `..` was looked up as
    a child *name*, so the relative path from a Section to its parent (`..`) could not be
    resolved; with the fix it resolves to the parent. -/
def legacyDoc : Doc := ⟨[.mk ['a'] ['t'] [] [.mk ['b'] ['t'] [] []]]⟩

theorem legacy_last_step_counterexample :
    legacyDoc.wf = true ∧ getRelativePath legacyDoc [0, 0] [0] = some ['.', '.'] ∧
    resolveSegsLegacy legacyDoc [0, 0] (Py.splitOn '/' ['.', '.']) = .valueError ∧
    getSectionByPath legacyDoc [0, 0] ['.', '.'] = .ok [0] := by decide

/-! ## 3. Traversals -/

/-- The `while len(stack) > 0` loop with `pop(0)` / `append` visits the tree **breadth first**:
    first the whole initial queue, then all children (in child-list order) of those entries
    whose level is below `max_depth`, then their children, … -/
theorem bfs_level_order (md : Option Int) (xs : List Entry) :
    bfs md xs = levelsUpTo md xs (qsize xs + 1) :=
  bfs_eq_levels md _ xs (Nat.lt_succ_self _)

/-- the test `filter_func(sec) and (yield_self if level == 0 else True)` -/
def keeps (yieldSelf : Bool) (f : Sec → Bool) (e : Entry) : Bool :=
  f e.2.1 && (if e.2.2 = 0 then yieldSelf else true)

/-- `itersections` = the level-by-level listing, filtered. -/
theorem itersections_bfs (d : Doc) (start : Pos) (md : Option Int) (ys : Bool) (f : Sec → Bool) :
    itersections d start md ys f =
      ((levelsUpTo md (initialQueue d start md) (qsize (initialQueue d start md) + 1)).filter
        (keeps ys f)).map (·.1) := by
  unfold itersections
  rw [bfs_level_order]
  rfl

theorem itersections_pairwise (d : Doc) (start : Pos) (md : Option Int) (ys : Bool) (f : Sec → Bool) :
    (itersections d start md ys f).Pairwise (fun p q => p.length ≤ q.length ∧ p ≠ q) := by
  rw [itersections_bfs]
  obtain ⟨lvl, hl⟩ := initialQueue_levelOk d start md
  obtain ⟨h1, h2⟩ := levels_sorted_nodup md start.length
    (qsize (initialQueue d start md) + 1) lvl _ hl
  rw [List.pairwise_map]
  apply List.Pairwise.filter
  refine List.Pairwise.imp_of_mem ?_ h1
  intro a b ha hb hab
  refine ⟨?_, hab.2⟩
  rw [(h2 a ha).2, (h2 b hb).2]
  omega

/-- **Breadth first**: Sections are yielded in the order of their depth. -/
theorem itersections_level_sorted (d : Doc) (start : Pos) (md : Option Int) (ys : Bool)
    (f : Sec → Bool) :
    (itersections d start md ys f).Pairwise (fun p q => p.length ≤ q.length) :=
  (itersections_pairwise d start md ys f).imp (fun h => h.1)

/-- **Exactly once**: no Section is yielded twice. -/
theorem itersections_nodup (d : Doc) (start : Pos) (md : Option Int) (ys : Bool) (f : Sec → Bool) :
    (itersections d start md ys f).Nodup :=
  (itersections_pairwise d start md ys f).imp (fun h => h.2)

/-! ## 4. find -/

/-- `q` is a direct child Section of `cur` that satisfies the requested name / type -/
def MatchingChild (lw : Str → Str) (d : Doc) (cur : Pos) (key type : Option Str) (sub : Bool) (q : Pos) : Prop :=
  ∃ l j s, kidsAt d.secs cur = some l ∧ l[j]? = some s ∧ q = cur ++ [j] ∧
    matchesObj lw (some s) key (lowerReq lw type) sub = true

theorem find_list (lw : Str → Str) (d : Doc) (cur : Pos) (key type : Option Str) (sub : Bool) (l : List Sec)
    (hl : kidsAt d.secs cur = some l) (q : Pos) :
    q ∈ findAllIn lw cur key (lowerReq lw type) sub 0 l ↔ MatchingChild lw d cur key type sub q := by
  rw [mem_findAllIn lw]
  constructor
  · rintro ⟨j, s, hj, hq, hm⟩
    exact ⟨l, j, s, hl, hj, by simpa using hq, hm⟩
  · rintro ⟨l', j, s, hl', hj, hq, hm⟩
    rw [hl] at hl'
    cases hl'
    exact ⟨j, s, hj, by simpa using hq, hm⟩

/-- `find` returns only direct children satisfying the requested name / type. -/
theorem find_sound (lw : Str → Str) (d : Doc) (cur : Pos) (key type : Option Str) (all sub : Bool) :
    (∀ q, find lw d cur key type all sub = .one q → MatchingChild lw d cur key type sub q) ∧
    (∀ qs, find lw d cur key type all sub = .many qs →
      qs ≠ [] ∧ ∀ q ∈ qs, MatchingChild lw d cur key type sub q) := by
  unfold find
  cases hl : kidsAt d.secs cur with
  | none => simp
  | some l =>
    simp only [Found.ofList]
    constructor
    · intro q hq
      cases all with
      | true => simp only [↓reduceIte] at hq; split at hq <;> simp at hq
      | false =>
        simp only [Bool.false_eq_true, ↓reduceIte] at hq
        split at hq
        · simp at hq
        · rename_i p r heq
          cases hq
          exact (find_list lw d cur key type sub l hl q).1 (by rw [heq]; simp)
    · intro qs hq
      cases all with
      | true =>
        simp only [↓reduceIte] at hq
        split at hq
        · simp at hq
        · rename_i hne
          cases hq
          exact ⟨hne, fun q hq' => (find_list lw d cur key type sub l hl q).1 hq'⟩
      | false =>
        simp only [Bool.false_eq_true, ↓reduceIte] at hq
        split at hq <;> simp at hq

/-- `find` finds one if any exists. -/
theorem find_complete (lw : Str → Str) (d : Doc) (cur : Pos) (key type : Option Str) (all sub : Bool) (q : Pos)
    (h : MatchingChild lw d cur key type sub q) : find lw d cur key type all sub ≠ .none := by
  obtain ⟨l, j, s, hl, hj, hq, hm⟩ := h
  have hmem := (find_list lw d cur key type sub l hl q).2 ⟨l, j, s, hl, hj, hq, hm⟩
  unfold find
  simp only [hl, Found.ofList]
  cases all with
  | true =>
    simp only [↓reduceIte]
    split
    · rename_i he; rw [he] at hmem; simp at hmem
    · simp
  | false =>
    simp only [Bool.false_eq_true, ↓reduceIte]
    split
    · rename_i he; rw [he] at hmem; simp at hmem
    · simp

/-- `find(findAll=True)` returns exactly the matching children. -/
theorem find_all_exact (lw : Str → Str) (d : Doc) (cur : Pos) (key type : Option Str) (sub : Bool) (qs : List Pos)
    (h : find lw d cur key type true sub = .many qs) (q : Pos) :
    q ∈ qs ↔ MatchingChild lw d cur key type sub q := by
  unfold find at h
  cases hl : kidsAt d.secs cur with
  | none => simp [hl] at h
  | some l =>
    simp only [hl, Found.ofList, ↓reduceIte] at h
    split at h
    · simp at h
    · cases h
      exact find_list lw d cur key type sub l hl q


/-- **Exactly the tree below the start** (start on a Section): a position is yielded iff it is a
    valid Section at or below the start, passes the filter, and is either the start itself
    with `yield_self`, or strictly below it within `max_depth` levels. -/
theorem itersections_mem (d : Doc) (start : Pos) (s0 : Sec) (md : Option Int) (ys : Bool)
    (f : Sec → Bool) (hs : secAt d.secs start = some s0) (p : Pos) :
    p ∈ itersections d start md ys f ↔
      ∃ r sec, p = start ++ r ∧ secAt d.secs p = some sec ∧ f sec = true ∧
        ((r = [] ∧ ys = true) ∨ (r ≠ [] ∧ withinDepth md r.length)) :=
  mem_itersections_section d start s0 md ys f hs p

/-- Started on the Document: every Section of the document within `max_depth` levels that
    passes the filter, and nothing else (the Document itself is never yielded). -/
theorem itersections_mem_document (d : Doc) (md : Option Int) (ys : Bool) (f : Sec → Bool) (p : Pos) :
    p ∈ itersections d [] md ys f ↔
      ∃ sec, secAt d.secs p = some sec ∧ f sec = true ∧ withinDepth md p.length :=
  mem_itersections_document d md ys f p

/-- `iterproperties` yields exactly the Properties (passing the filter) of the Sections that
    `itersections(yield_self=True)` visits … -/
theorem iterproperties_mem (d : Doc) (start : Pos) (md : Option Int) (f : PropT → Bool)
    (x : Pos × Nat) :
    x ∈ iterproperties d start md f ↔
      x.1 ∈ itersections d start md true (fun _ => true) ∧
      ∃ s pr, secAt d.secs x.1 = some s ∧ s.props[x.2]? = some pr ∧ f pr = true :=
  mem_iterproperties d start md f x

/-- … each exactly once, Sections in breadth-first order. -/
theorem iterproperties_once_bfs (d : Doc) (start : Pos) (md : Option Int) (f : PropT → Bool) :
    (iterproperties d start md f).Nodup ∧
    (iterproperties d start md f).Pairwise (fun a b => a.1.length ≤ b.1.length) :=
  ⟨(iterproperties_pairwise d start md f).imp (fun h => h.2),
   (iterproperties_pairwise d start md f).imp (fun h => h.1)⟩

/-- `itervalues` yields exactly the value lists (identified by their Property) that pass the
    filter, of the Properties of the visited Sections, each once, breadth first. -/
theorem itervalues_spec (d : Doc) (start : Pos) (md : Option Int) (f : List Int → Bool) :
    (∀ x, x ∈ itervalues d start md f ↔
      x.1 ∈ itersections d start md true (fun _ => true) ∧
      ∃ s pr, secAt d.secs x.1 = some s ∧ s.props[x.2]? = some pr ∧ f pr.vals = true) ∧
    (itervalues d start md f).Nodup ∧
    (itervalues d start md f).Pairwise (fun a b => a.1.length ≤ b.1.length) := by
  unfold itervalues
  exact ⟨fun x => mem_iterproperties d start md _ x,
    (iterproperties_pairwise d start md _).imp (fun h => h.2),
    (iterproperties_pairwise d start md _).imp (fun h => h.1)⟩

/-! ## 5. find_related -/

/-- the Document (`[]`) has neither name nor type -/
def nodeAt (d : Doc) (q : Pos) : Option Sec :=
  match q with
  | [] => none
  | _ => secAt d.secs q

/-- `q` satisfies the requested name / type **and** stands in one of the requested relations
    to `cur`: below it (directly, or at any depth when `recursive`), a child of its parent,
    or its parent (any ancestor up to the Document when `recursive`). -/
def RelatedMatch (lw : Str → Str) (d : Doc) (cur : Pos) (key type : Option Str)
    (children siblings parents recursive : Bool) (q : Pos) : Prop :=
  (children = true ∧ ∃ l r sec, kidsAt d.secs cur = some l ∧ r ≠ [] ∧ q = cur ++ r ∧
      secAt l r = some sec ∧ (recursive = true ∨ r.length = 1) ∧
      matchesObj lw (some sec) key (lowerReq lw type) false = true) ∨
  (siblings = true ∧ cur ≠ [] ∧ MatchingChild lw d cur.dropLast key (lowerReq lw type) false q) ∨
  (parents = true ∧ ∃ k, k < cur.length ∧ q = cur.take k ∧ (recursive = true ∨ k + 1 = cur.length) ∧
      matchesObj lw (nodeAt d q) key (lowerReq lw type) false = true)

theorem find_related_mem (lw : Str → Str) (d : Doc) (cur : Pos) (key type : Option Str)
    (c s p r : Bool) (q : Pos) :
    q ∈ findRelatedAll lw d cur key type c s p r ↔ RelatedMatch lw d cur key type c s p r q := by
  unfold findRelatedAll RelatedMatch
  simp only [List.mem_append]
  have hC : (q ∈ (if c = true then
        match kidsAt d.secs cur with
        | some l => ((preList l cur 0).filter (fun e =>
            (r || decide (e.1.length = cur.length + 1)) &&
              matchesObj lw (some e.2) key (lowerReq lw type) false)).map (·.1)
        | Option.none => []
      else [])) ↔
      (c = true ∧ ∃ l rr sec, kidsAt d.secs cur = some l ∧ rr ≠ [] ∧ q = cur ++ rr ∧
        secAt l rr = some sec ∧ (r = true ∨ rr.length = 1) ∧
        matchesObj lw (some sec) key (lowerReq lw type) false = true) := by
    cases c with
    | false => simp
    | true =>
      simp only [↓reduceIte, true_and]
      cases hl : kidsAt d.secs cur with
      | none => simp
      | some l =>
        simp only [List.mem_map, List.mem_filter, Bool.and_eq_true, Bool.or_eq_true,
          decide_eq_true_eq]
        constructor
        · rintro ⟨⟨q', sec⟩, ⟨hmem, hcond, hm⟩, hq⟩
          simp only at hq hcond hm
          subst hq
          obtain ⟨rr, hrr, hq, hs⟩ := (mem_preList l cur q' sec).1 hmem
          refine ⟨l, rr, sec, rfl, hrr, hq, hs, ?_, hm⟩
          rcases hcond with h | h
          · exact Or.inl h
          · right; rw [hq] at h; simp at h; exact h
        · rintro ⟨l', rr, sec, hl', hrr, hq, hs, hcond, hm⟩
          cases hl'
          refine ⟨(q, sec), ⟨(mem_preList l cur q sec).2 ⟨rr, hrr, hq, hs⟩, ?_, hm⟩, rfl⟩
          rcases hcond with h | h
          · exact Or.inl h
          · right; rw [hq]; simp [h]
  have hS : (q ∈ (if s = true then
        match parentOf cur with
        | some par =>
          match kidsAt d.secs par with
          | some l => findAllIn lw par key (lowerReq lw (lowerReq lw type)) false 0 l
          | Option.none => []
        | Option.none => []
      else [])) ↔
      (s = true ∧ cur ≠ [] ∧ MatchingChild lw d cur.dropLast key (lowerReq lw type) false q) := by
    cases s with
    | false => simp
    | true =>
      simp only [↓reduceIte, true_and]
      by_cases hc : cur = []
      · simp [parentOf, hc]
      · simp only [parentOf, hc, ↓reduceIte, ne_eq, not_false_eq_true, true_and]
        cases hl : kidsAt d.secs cur.dropLast with
        | none =>
          simp only [List.not_mem_nil, false_iff]
          rintro ⟨l, _, _, hl', _⟩
          rw [hl] at hl'; cases hl'
        | some l => exact find_list lw d cur.dropLast key (lowerReq lw type) false l hl q
  have hP : (q ∈ (if p = true then
        ((if r = true then ancestors cur else (ancestors cur).take 1).filter (fun a =>
          matchesObj lw (nodeAt d a) key (lowerReq lw type) false))
      else [])) ↔
      (p = true ∧ ∃ k, k < cur.length ∧ q = cur.take k ∧ (r = true ∨ k + 1 = cur.length) ∧
        matchesObj lw (nodeAt d q) key (lowerReq lw type) false = true) := by
    cases p with
    | false => simp
    | true =>
      simp only [↓reduceIte, true_and, List.mem_filter]
      cases r with
      | true =>
        simp only [↓reduceIte, mem_ancestors, true_or, true_and]
        constructor
        · rintro ⟨⟨k, hk, hq⟩, hm⟩; exact ⟨k, hk, hq, hm⟩
        · rintro ⟨k, hk, hq, hm⟩; exact ⟨⟨k, hk, hq⟩, hm⟩
      | false =>
        simp only [Bool.false_eq_true, ↓reduceIte, ancestors_take_one, false_or]
        constructor
        · rintro ⟨⟨hc, hq⟩, hm⟩
          refine ⟨cur.length - 1, ?_, ?_, ?_, hm⟩
          · cases cur with
            | nil => exact absurd rfl hc
            | cons i t => simp
          · rw [hq, List.dropLast_eq_take]
          · cases cur with
            | nil => exact absurd rfl hc
            | cons i t => simp
        · rintro ⟨k, hk, hq, hk1, hm⟩
          refine ⟨⟨?_, ?_⟩, hm⟩
          · intro hc; subst hc; simp at hk
          · rw [hq, List.dropLast_eq_take]; congr 1; omega
  rw [or_assoc]
  exact or_congr hC (or_congr hS hP)

/-- `find_related` returns only objects satisfying the requested name / type within the
    requested relation (per flag). -/
theorem find_related_sound (lw : Str → Str) (d : Doc) (cur : Pos) (key type : Option Str) (c s p r all : Bool) :
    (∀ q, findRelated lw d cur key type c s p r all = .one q → RelatedMatch lw d cur key type c s p r q) ∧
    (∀ qs, findRelated lw d cur key type c s p r all = .many qs →
      qs ≠ [] ∧ ∀ q, q ∈ qs ↔ RelatedMatch lw d cur key type c s p r q) := by
  unfold findRelated Found.ofList
  constructor
  · intro q hq
    apply (find_related_mem lw d cur key type c s p r q).1
    cases all with
    | true => simp only [↓reduceIte] at hq; split at hq <;> simp at hq
    | false =>
      simp only [Bool.false_eq_true, ↓reduceIte] at hq
      split at hq
      · simp at hq
      · rename_i x t heq
        cases hq
        rw [heq]; simp
  · intro qs hq
    cases all with
    | true =>
      simp only [↓reduceIte] at hq
      split at hq
      · simp at hq
      · rename_i hne
        cases hq
        exact ⟨hne, fun q => find_related_mem lw d cur key type c s p r q⟩
    | false =>
      simp only [Bool.false_eq_true, ↓reduceIte] at hq
      split at hq <;> simp at hq

/-- … and finds one if any exists. -/
theorem find_related_complete (lw : Str → Str) (d : Doc) (cur : Pos) (key type : Option Str) (c s p r all : Bool)
    (q : Pos) (h : RelatedMatch lw d cur key type c s p r q) :
    findRelated lw d cur key type c s p r all ≠ .none := by
  have hmem := (find_related_mem lw d cur key type c s p r q).2 h
  unfold findRelated Found.ofList
  cases all with
  | true =>
    simp only [↓reduceIte]
    split
    · rename_i he; rw [he] at hmem; simp at hmem
    · simp
  | false =>
    simp only [Bool.false_eq_true, ↓reduceIte]
    split
    · rename_i he; rw [he] at hmem; simp at hmem
    · simp

/-! ## 5b. The type comparison is "equal after `str.lower`", whatever `str.lower` does to a letter

Added after seeded round 4. `lw` (= `str.lower`) is a parameter of the model, so theorems 16-21 hold
for every such function. The theorems below spell the comparison out. They use two facts about
`str.lower` only: it maps the empty string to the empty string (`find` does not lower-case a falsy
request) and, for the siblings relation of `find_related` (the request is lower-cased by
`find_related` and once more by `parent.find`), it is idempotent. -/

/-- the requested name: none, or the name of the Section -/
def NameOk (key : Option Str) (s : Sec) : Prop := key = none ∨ key = some s.name

theorem lowerReq_some (lw : Str → Str) (h0 : lw [] = []) (t : Str) :
    lowerReq lw (some t) = some (lw t) := by
  unfold lowerReq
  by_cases ht : t = []
  · subst ht; simp [h0]
  · simp [ht]

theorem lowerReq_idem (lw : Str → Str) (h0 : lw [] = []) (hid : ∀ x, lw (lw x) = lw x)
    (ty : Option Str) : lowerReq lw (lowerReq lw ty) = lowerReq lw ty := by
  cases ty with
  | none => rfl
  | some t => rw [lowerReq_some lw h0, lowerReq_some lw h0, hid]

/-- `_matches` after the caller's lower-casing: the name is the requested one and the types are
    equal after `str.lower` - or, with `include_subtype`, the lower-cased request is one of the
    leading components of the lower-cased type. -/
theorem matches_caseless (lw : Str → Str) (h0 : lw [] = []) (s : Sec) (key : Option Str) (t : Str)
    (sub : Bool) :
    matchesObj lw (some s) key (lowerReq lw (some t)) sub = true ↔
      NameOk key s ∧ (lw s.type = lw t ∨
        (sub = true ∧ lw t ∈ (Py.splitOn '/' (lw s.type)).dropLast)) := by
  rw [lowerReq_some lw h0]
  unfold matchesObj NameOk
  cases key with
  | none => cases sub <;> simp
  | some k =>
    have hk : (some k = some s.name) ↔ s.name = k := by
      constructor
      · intro h; cases h; rfl
      · intro h; rw [h]
    cases sub <;> simp [hk]

/-- **find compares types after `str.lower` on both sides.** -/
theorem find_caseless (lw : Str → Str) (h0 : lw [] = []) (d : Doc) (cur : Pos) (key : Option Str)
    (t : Str) (sub : Bool) (q : Pos) :
    MatchingChild lw d cur key (some t) sub q ↔
      ∃ l j s, kidsAt d.secs cur = some l ∧ l[j]? = some s ∧ q = cur ++ [j] ∧ NameOk key s ∧
        (lw s.type = lw t ∨ (sub = true ∧ lw t ∈ (Py.splitOn '/' (lw s.type)).dropLast)) := by
  unfold MatchingChild
  constructor
  · rintro ⟨l, j, s, hl, hj, hq, hm⟩
    exact ⟨l, j, s, hl, hj, hq, (matches_caseless lw h0 s key t sub).1 hm⟩
  · rintro ⟨l, j, s, hl, hj, hq, hm⟩
    exact ⟨l, j, s, hl, hj, hq, (matches_caseless lw h0 s key t sub).2 hm⟩

/-- **A child whose type is the requested string is found** (and so is one whose type differs from
    it by what `str.lower` removes), whatever `str.lower` does to the letters of the type: the
    clause "find one if any exists" for types with letters outside ASCII. -/
theorem find_type_as_stored (lw : Str → Str) (h0 : lw [] = []) (d : Doc) (cur : Pos) (l : List Sec)
    (j : Nat) (s : Sec) (key : Option Str) (t : Str) (all sub : Bool)
    (hl : kidsAt d.secs cur = some l) (hj : l[j]? = some s) (hk : NameOk key s)
    (ht : t = s.type ∨ lw t = lw s.type) :
    find lw d cur key (some t) all sub ≠ .none ∧
    (∀ qs, find lw d cur key (some t) true sub = .many qs → cur ++ [j] ∈ qs) := by
  have hlt : lw s.type = lw t := by
    rcases ht with h | h
    · rw [h]
    · exact h.symm
  have hm : MatchingChild lw d cur key (some t) sub (cur ++ [j]) :=
    (find_caseless lw h0 d cur key t sub _).2 ⟨l, j, s, hl, hj, rfl, hk, Or.inl hlt⟩
  exact ⟨find_complete lw d cur key (some t) all sub _ hm,
    fun qs hqs => (find_all_exact lw d cur key (some t) sub qs hqs _).2 hm⟩

/-- **find_related compares types after `str.lower` in each of the three relations** (the same
    comparison as `find`; the second lower-casing on the siblings path changes nothing). -/
theorem find_related_caseless (lw : Str → Str) (h0 : lw [] = []) (hid : ∀ x, lw (lw x) = lw x)
    (d : Doc) (cur : Pos) (key : Option Str) (t : Str) (c s p r : Bool) (q : Pos) :
    RelatedMatch lw d cur key (some t) c s p r q ↔
      (c = true ∧ ∃ l rr sec, kidsAt d.secs cur = some l ∧ rr ≠ [] ∧ q = cur ++ rr ∧
        secAt l rr = some sec ∧ (r = true ∨ rr.length = 1) ∧ NameOk key sec ∧ lw sec.type = lw t) ∨
      (s = true ∧ cur ≠ [] ∧ ∃ l j sec, kidsAt d.secs cur.dropLast = some l ∧ l[j]? = some sec ∧
        q = cur.dropLast ++ [j] ∧ NameOk key sec ∧ lw sec.type = lw t) ∨
      (p = true ∧ ∃ k sec, k < cur.length ∧ q = cur.take k ∧ (r = true ∨ k + 1 = cur.length) ∧
        nodeAt d q = some sec ∧ NameOk key sec ∧ lw sec.type = lw t) := by
  have hm : ∀ sec : Sec, matchesObj lw (some sec) key (lowerReq lw (some t)) false = true ↔
      NameOk key sec ∧ lw sec.type = lw t := by
    intro sec
    rw [matches_caseless lw h0]
    simp
  unfold RelatedMatch
  refine or_congr ?_ (or_congr ?_ ?_)
  · constructor
    · rintro ⟨hc, l, rr, sec, h1, h2, h3, h4, h5, h6⟩
      exact ⟨hc, l, rr, sec, h1, h2, h3, h4, h5, (hm sec).1 h6⟩
    · rintro ⟨hc, l, rr, sec, h1, h2, h3, h4, h5, h6⟩
      exact ⟨hc, l, rr, sec, h1, h2, h3, h4, h5, (hm sec).2 h6⟩
  · unfold MatchingChild
    rw [lowerReq_idem lw h0 hid]
    constructor
    · rintro ⟨hs, hc, l, j, sec, h1, h2, h3, h4⟩
      exact ⟨hs, hc, l, j, sec, h1, h2, h3, (hm sec).1 h4⟩
    · rintro ⟨hs, hc, l, j, sec, h1, h2, h3, h4⟩
      exact ⟨hs, hc, l, j, sec, h1, h2, h3, (hm sec).2 h4⟩
  · constructor
    · rintro ⟨hp, k, h1, h2, h3, h4⟩
      cases hn : nodeAt d q with
      | none =>
        rw [hn, lowerReq_some lw h0] at h4
        unfold matchesObj at h4
        cases key <;> simp at h4
      | some sec =>
        rw [hn] at h4
        exact ⟨hp, k, sec, h1, h2, h3, rfl, (hm sec).1 h4⟩
    · rintro ⟨hp, k, sec, h1, h2, h3, h4, h5⟩
      refine ⟨hp, k, h1, h2, h3, ?_⟩
      rw [h4]
      exact (hm sec).2 h5

/-- **A Section in a requested relation whose type is the requested string is found** by
    `find_related`, whatever `str.lower` does to its letters. -/
theorem find_related_type_as_stored (lw : Str → Str) (h0 : lw [] = [])
    (hid : ∀ x, lw (lw x) = lw x) (d : Doc) (cur : Pos) (key : Option Str) (t : Str)
    (c s p r all : Bool) (q : Pos)
    (h : (c = true ∧ ∃ l rr sec, kidsAt d.secs cur = some l ∧ rr ≠ [] ∧ q = cur ++ rr ∧
          secAt l rr = some sec ∧ (r = true ∨ rr.length = 1) ∧ NameOk key sec ∧ sec.type = t) ∨
        (s = true ∧ cur ≠ [] ∧ ∃ l j sec, kidsAt d.secs cur.dropLast = some l ∧ l[j]? = some sec ∧
          q = cur.dropLast ++ [j] ∧ NameOk key sec ∧ sec.type = t) ∨
        (p = true ∧ ∃ k sec, k < cur.length ∧ q = cur.take k ∧ (r = true ∨ k + 1 = cur.length) ∧
          nodeAt d q = some sec ∧ NameOk key sec ∧ sec.type = t)) :
    findRelated lw d cur key (some t) c s p r all ≠ .none := by
  apply find_related_complete lw d cur key (some t) c s p r all q
  rw [find_related_caseless lw h0 hid]
  rcases h with ⟨hc, l, rr, sec, h1, h2, h3, h4, h5, h6, h7⟩ | ⟨hs, hc, l, j, sec, h1, h2, h3, h4, h5⟩ |
      ⟨hp, k, sec, h1, h2, h3, h4, h5, h6⟩
  · exact Or.inl ⟨hc, l, rr, sec, h1, h2, h3, h4, h5, h6, by rw [h7]⟩
  · exact Or.inr (Or.inl ⟨hs, hc, l, j, sec, h1, h2, h3, h4, by rw [h5]⟩)
  · exact Or.inr (Or.inr ⟨hp, k, sec, h1, h2, h3, h4, h5, by rw [h6]⟩)

/-- What goes wrong when the two sides do NOT go through the same function (the request through
    `fold`, the type of the Section through `lw`): a child whose type is the requested string is
    missed as soon as the two functions differ on it. Concrete instance with a two-letter
    alphabet: `lw` keeps the string, `fold` maps `s` to `z`. -/
theorem mixed_folding_counterexample :
    let lw : Str → Str := id
    let fold : Str → Str := fun t => t.map (fun ch => if ch = 's' then 'z' else ch)
    let d : Doc := ⟨[.mk ['a'] ['s'] [] []]⟩
    find lw d [] none (some ['s']) false false = .one [0] ∧
    Found.ofList false (findAllIn lw [] none (some (fold ['s'])) false 0 d.secs) = .none := by
  decide

/-! ## 5c. The hypothesis "sibling names are pairwise distinct" is kept by the name setter
(added after seeded round 5; model `Model/PathName.lean`, tied to /repo by the stream `setname`) -/

/-- The name setter keeps the sibling names pairwise distinct, whatever it is given (a name, `None`,
    `""`), whatever the id of the object is - also when the id is the name of a sibling. -/
theorem set_name_keeps_distinct (sibs : List Str) (i : Nat) (oid : Str) (new : Option Str)
    (r : List Str) (hd : distinct sibs = true) (h : setName sibs i oid new = .ok r) :
    distinct r = true := by
  unfold setName at h
  split at h
  · cases h; exact hd
  · split at h
    · cases h; exact hd
    · split at h
      · cases h; exact hd
      · split at h
        · cases h
        · rename_i hc
          cases h
          exact distinct_set sibs i _ hd (by simpa using hc)


/-- ... and plain (inside the property's quantifier), provided the id and a non-empty given name are. -/
theorem set_name_keeps_plain (sibs : List Str) (i : Nat) (oid : Str) (new : Option Str)
    (r : List Str) (hp : sibs.all plainName = true) (hid : plainName oid = true)
    (hnew : ∀ n, new = some n → n ≠ [] → plainName n = true)
    (h : setName sibs i oid new = .ok r) : r.all plainName = true := by
  have hst : plainName (stored oid new) = true := by
    unfold stored
    cases new with
    | none => simpa [falsy] using hid
    | some n =>
      by_cases hn : n = []
      · simpa [falsy, hn] using hid
      · have : (n == []) = false := by simpa using hn
        simpa [falsy, this] using hnew n rfl hn
  unfold setName at h
  split at h
  · cases h; exact hp
  · split at h
    · cases h; exact hp
    · split at h
      · cases h; exact hp
      · split at h
        · cases h
        · cases h; exact all_plain_set sibs i _ hp hst

/-- What the setter stores: the given name, or the id when the given name is `None` / `""`; the other
    entries of the child list keep their names and places (the current name is not empty: the setter
    never stores an empty one). -/
theorem set_name_stores (sibs : List Str) (i : Nat) (oid : Str) (new : Option Str) (r : List Str)
    (hi : i < sibs.length) (hne : sibs[i] ≠ []) (h : setName sibs i oid new = .ok r) :
    r = sibs.set i (stored oid new) := by
  unfold setName at h
  have hget : sibs[i]? = some sibs[i] := List.getElem?_eq_getElem hi
  rw [hget] at h
  simp only at h
  split at h
  · rename_i hc
    cases h
    have hf : (sibs[i] == []) = false := by simpa using hne
    have : stored oid new = sibs[i] := by
      rw [hc]; simp [stored, falsy, hf]
    rw [this]; simp
  · split at h
    · rename_i hc
      cases h
      simp only [Bool.and_eq_true, beq_iff_eq] at hc
      rw [← hc.2]; simp
    · split at h
      · cases h
      · cases h; rfl

/-- The first clause of the property after a rename: a forest whose top-level names are what the setter
    leaves (`l'` = `l` with entry `i` renamed; nothing below a Section depends on its own name) is well
    formed and path safe again, so every path theorem applies to it. -/
theorem set_name_keeps_wf (l l' : List Sec) (i : Nat) (oid : Str) (new : Option Str)
    (hw : wfForest l = true) (hbelow : wfList l' = true)
    (hid : plainName oid = true) (hnew : ∀ n, new = some n → n ≠ [] → plainName n = true)
    (h : setName (l.map (·.name)) i oid new = .ok (l'.map (·.name))) : wfForest l' = true := by
  simp only [wfForest, Bool.and_eq_true] at hw ⊢
  exact ⟨⟨hbelow, set_name_keeps_plain _ i oid new _ hw.1.2 hid hnew h⟩,
    set_name_keeps_distinct _ i oid new _ hw.2 h⟩

/-- ... in particular: after `child.name = new` on a top-level Section of a well-formed Document every
    Section is found again by its path, from the Document and from every Section. -/
theorem paths_resolve_after_set_name (d d' : Doc) (i : Nat) (oid : Str) (new : Option Str)
    (hw : d.wf = true) (hbelow : wfList d'.secs = true)
    (hid : plainName oid = true) (hnew : ∀ n, new = some n → n ≠ [] → plainName n = true)
    (h : setName (d.secs.map (·.name)) i oid new = .ok (d'.secs.map (·.name)))
    (cur p : Pos) (s : Sec) (hp : secAt d'.secs p = some s) :
    ∃ path, getPath d' p = some path ∧ getSectionByPath d' cur path = .ok p :=
  abs_path_resolves d' (set_name_keeps_wf d.secs d'.secs i oid new hw hbelow hid hnew h) cur p s hp

/-- The order of the two steps matters (the change seeded in round 5): with the sibling check on the
    value as given and the fall-back to the id in the final assignment, clearing the name of an object
    whose id is the name of a sibling yields two siblings of one name; the setter as it is refuses. -/
theorem late_fallback_counterexample :
    let sibs : List Str := [['s'], ['i', 'd']]
    setNameLate sibs 0 ['i', 'd'] none = .ok [['i', 'd'], ['i', 'd']] ∧
    distinct [['i', 'd'], ['i', 'd']] = false ∧
    setName sibs 0 ['i', 'd'] none = .keyError ∧
    setName sibs 0 ['i', 'd'] (some []) = .keyError := by
  decide

/-- the hypotheses are satisfiable, and the setter does rename / fall back / refuse -/
example : setName [['a'], ['b']] 0 ['i'] (some ['c']) = .ok [['c'], ['b']] ∧
    setName [['a'], ['b']] 0 ['i'] none = .ok [['i'], ['b']] ∧
    setName [['a'], ['b']] 0 ['i'] (some ['b']) = .keyError ∧
    setName [['i'], ['b']] 0 ['i'] (some []) = .ok [['i'], ['b']] := by decide

/-! ## 5d. A refused move leaves every path valid; an accepted one keeps the tree well formed
(added after seeded round 6; model `Model/PathMove.lean`, tied to /repo by the stream `setparent`) -/

/-- A refused move is no edit: whenever `x.parent = new_parent` raises - the name is taken in the new
    child list (by a Section of whatever type, content or id), or the new parent is `x` or lies below
    it - both child lists and the parent reference of `x` are what they were. -/
theorem set_parent_refused_keeps (old : List Kid) (i : Nat) (new : List Kid) (below : Bool)
    (h : (setParent old i new below).raised = true) :
    setParent old i new below = ⟨true, old, new, .old⟩ := by
  revert h
  unfold setParent setParentWith
  cases hx : old[i]? with
  | none => simp
  | some x =>
    simp only
    by_cases h1 : nameTaken new x = true
    · simp [h1]
    · by_cases hb : below = true
      · simp [h1, hb]
      · simp [h1, hb]

/-- An accepted move takes the object out of the old child list and puts it at the end of the new one,
    where its name was free. -/
theorem set_parent_accepted_moves (old : List Kid) (i : Nat) (new : List Kid) (below : Bool) (x : Kid)
    (hx : old[i]? = some x) (h : (setParent old i new below).raised = false) :
    setParent old i new below = ⟨false, old.eraseIdx i, new ++ [x], .new⟩ ∧ nameTaken new x = false ∧
      below = false := by
  revert h
  unfold setParent setParentWith
  rw [hx]
  simp only
  by_cases h1 : nameTaken new x = true
  · simp [h1]
  · by_cases hb : below = true
    · simp [h1, hb]
    · simp [h1, hb]

/-- Refused or accepted, child lists and parent reference agree afterwards: the object is an entry of
    exactly the child list of the holder it names as its parent. -/
theorem set_parent_consistent (old : List Kid) (i : Nat) (new : List Kid) (below : Bool) (x : Kid)
    (hx : old[i]? = some x) : (setParent old i new below).consistent old i new x := by
  unfold setParent setParentWith Moved.consistent
  rw [hx]
  simp only
  by_cases h1 : nameTaken new x = true
  · simp [h1]
  · by_cases hb : below = true
    · simp [h1, hb]
    · simp [h1, hb]

/-- The move keeps the sibling names of both child lists pairwise distinct. -/
theorem set_parent_keeps_distinct (old : List Kid) (i : Nat) (new : List Kid) (below : Bool)
    (ho : distinct (old.map (·.name)) = true) (hn : distinct (new.map (·.name)) = true) :
    distinct ((setParent old i new below).old.map (·.name)) = true ∧
    distinct ((setParent old i new below).new.map (·.name)) = true := by
  cases hx : old[i]? with
  | none => simp [setParent, setParentWith, hx, ho, hn]
  | some x =>
    cases hr : (setParent old i new below).raised with
    | true => rw [set_parent_refused_keeps old i new below hr]; exact ⟨ho, hn⟩
    | false =>
      obtain ⟨he, ht, _⟩ := set_parent_accepted_moves old i new below x hx hr
      rw [he]
      refine ⟨?_, ?_⟩
      · rw [map_name_eraseIdx]
        exact distinct_eraseIdx _ i ho
      · simp only [List.map_append, List.map_cons, List.map_nil]
        exact distinct_append_one _ _ hn (nameTaken_false new x ht)

/-- The first clause of the property after `x.parent = doc` for a Section `x` (entry `i` of the child
    list `old` of another holder - another Document, or a Section of another Document) and a
    well-formed Document `d`: refused (`d` stays as it is) or accepted (`x` is the last top-level
    Section of `d'`), every Section of the Document is found by its path, from the Document and from
    every Section, and the child list of the Document is the one the setter leaves. -/
theorem paths_resolve_after_set_parent (d : Doc) (old : List Sec) (i : Nat) (x : Sec) (below : Bool)
    (hw : d.wf = true) (hx : old[i]? = some x) (hxw : x.wf = true) (hxn : plainName x.name = true)
    (d' : Doc)
    (hd' : d' = if (setParent (kids old) i (kids d.secs) below).raised then d else ⟨d.secs ++ [x]⟩) :
    kids d'.secs = (setParent (kids old) i (kids d.secs) below).new ∧
    ∀ (cur p : Pos) (s : Sec), secAt d'.secs p = some s →
      ∃ path, getPath d' p = some path ∧ getSectionByPath d' cur path = .ok p := by
  have hkx : (kids old)[i]? = some ⟨x.name, x.type⟩ := by simp [kids, hx]
  cases hr : (setParent (kids old) i (kids d.secs) below).raised with
  | true =>
    rw [hr] at hd'
    simp only [if_true] at hd'
    subst hd'
    rw [set_parent_refused_keeps _ i _ below hr]
    exact ⟨rfl, fun cur p s hp => abs_path_resolves d' hw cur p s hp⟩
  | false =>
    rw [hr] at hd'
    simp only [Bool.false_eq_true, if_false] at hd'
    obtain ⟨he, ht, _⟩ := set_parent_accepted_moves _ i _ below _ hkx hr
    subst hd'
    rw [he]
    refine ⟨kids_append d.secs x, ?_⟩
    have hw' : Doc.wf ⟨d.secs ++ [x]⟩ = true := by
      simp only [Doc.wf, wfForest, Bool.and_eq_true] at hw ⊢
      refine ⟨⟨wfList_append_one _ _ hw.1.1 hxw, ?_⟩, ?_⟩
      · simp only [List.map_append, List.map_cons, List.map_nil, List.all_append, Bool.and_eq_true]
        exact ⟨hw.1.2, by simp [hxn]⟩
      · simp only [List.map_append, List.map_cons, List.map_nil]
        have := nameTaken_false _ _ ht
        rw [kids_names] at this
        exact distinct_append_one _ _ hw.2 this
    exact fun cur p s hp => abs_path_resolves _ hw' cur p s hp

/-- The pre-check has to refuse what the child list refuses (the change seeded in round 6): with
    `Sectionable.contains` (name AND type) as the pre-check, a Section asked into a holder that has a
    Section of the same name and ANOTHER type is taken out of its old child list, names the new holder
    as its parent, and is then refused by the child list: the call raises and the Section is in no
    list. The setter as it is refuses before anything is touched; for a namesake of the same type the
    two agree. -/
theorem contains_precheck_counterexample :
    let x : Kid := ⟨['p'], ['e']⟩
    let old : List Kid := [x, ⟨['q'], ['e']⟩]
    let new : List Kid := [⟨['p'], ['a']⟩]
    setParentContains old 0 new false = ⟨true, [⟨['q'], ['e']⟩], new, .new⟩ ∧
    ¬ (setParentContains old 0 new false).consistent old 0 new x ∧
    setParent old 0 new false = ⟨true, old, new, .old⟩ ∧
    setParentContains old 0 [⟨['p'], ['e']⟩] false = setParent old 0 [⟨['p'], ['e']⟩] false := by
  refine ⟨by decide, ?_, by decide, by decide⟩
  intro h
  rcases h with ⟨h1, _, _⟩ | ⟨_, _, h3⟩
  · revert h1; decide
  · revert h3; decide

/-- the hypotheses are satisfiable, and the setter does move / refuse -/
example : setParent [⟨['a'], ['t']⟩, ⟨['b'], ['t']⟩] 1 [⟨['a'], ['u']⟩] false
      = ⟨false, [⟨['a'], ['t']⟩], [⟨['a'], ['u']⟩, ⟨['b'], ['t']⟩], .new⟩ ∧
    (setParent [⟨['a'], ['t']⟩, ⟨['b'], ['t']⟩] 0 [⟨['a'], ['u']⟩] false).raised = true ∧
    (setParent [⟨['a'], ['t']⟩] 0 [] true).raised = true := by decide

/-! ## 6. The hypotheses are satisfiable (non-vacuity) -/

/-- a well-formed, path-safe document with names that are prefixes of one another -/
def exDoc : Doc := ⟨[
  .mk ['a'] ['t'] [⟨['p'], [1]⟩] [
    .mk ['a', 'b'] ['s', 't', 'i', 'm', '/', 'w'] [⟨['p'], [2]⟩, ⟨['a'], [3, 4]⟩] [.mk ['e'] ['t'] [] []],
    .mk ['a', 'b', 'c'] ['T'] [] []],
  .mk ['a', 'b'] ['t'] [] []]⟩

example : exDoc.wf = true := by decide
example : secAt exDoc.secs [0, 0, 0] ≠ none ∧ secAt exDoc.secs [0, 1] ≠ none := by decide
/-- instances of `rel_path_resolves` on `exDoc`: sibling with a longer name, ancestor, self -/
example : getRelativePath exDoc [0, 0] [0, 1] = some ['.', '.', '/', 'a', 'b', 'c'] ∧
    getSectionByPath exDoc [0, 0] ['.', '.', '/', 'a', 'b', 'c'] = .ok [0, 1] := by decide
example : getRelativePath exDoc [0, 0, 0] [0] = some ['.', '.', '/', '.', '.'] ∧
    getSectionByPath exDoc [0, 0, 0] ['.', '.', '/', '.', '.'] = .ok [0] := by decide
example : getRelativePath exDoc [0, 0] [1] = some ['/', 'a', 'b'] := by decide
/-- the hypotheses of the `find` / `find_related` theorems -/
example : MatchingChild Py.lower exDoc [0] (some ['a', 'b']) none false [0, 0] :=
  ⟨_, 0, _, rfl, rfl, rfl, by decide⟩
example : RelatedMatch Py.lower exDoc [0, 0, 0] none (some ['T']) false false true true [0] :=
  Or.inr (Or.inr ⟨rfl, 1, by decide, rfl, Or.inl rfl, by decide⟩)

end C14
