/-
C17 — Batch conversion tools never touch their inputs and isolate bad files.

  "Running odmlconvert, odmltordf or the format converter over a directory leaves every input
   file byte-identical and writes only into a newly created (or the explicitly given, distinct)
   output location. […] For the two command line tools a file that is empty, not XML, not odML
   or otherwise unconvertible is reported and skipped without stopping the run, so every
   convertible file still gets its output."

Property theorems only; helper lemmas are in `Proofs/Batch.lean`.
Model: `Model/Batch.lean` (tied to the repository by `harness/c17.py`).

Every theorem holds for an arbitrary `Tool` (what loading / converting / exporting one file
does, including every way of failing), an arbitrary list of input paths (any order, nesting and
mixture of good and bad files) and an arbitrary file system.
-/
import OdmlModel.Model.Batch
import OdmlModel.Proofs.Batch

set_option linter.unusedSimpArgs false
set_option linter.unusedVariables false

namespace C17
open FS Batch

/-- `p` lies in directory `dir` (given without trailing slash) or below. -/
def Under (dir p : Path) : Prop := ∃ rest, p = dir ++ '/' :: rest

/-- `tempfile.mkdtemp`: nothing exists under the new directory. -/
def Fresh (fs : Fs) (dir : Path) : Prop := ∀ p, Under dir p → fs p = none

theorem convOut_under (outDir f : Path) : Under outDir (convOut outDir f) := ⟨_, rfl⟩
theorem rdfOut_under (rdfDir src : Path) : Under rdfDir (rdfOut rdfDir src) := ⟨_, rfl⟩

theorem under_trans {a b p : Path} (hab : Under a b) (hbp : Under b p) : Under a p := by
  obtain ⟨r1, rfl⟩ := hab
  obtain ⟨r2, rfl⟩ := hbp
  exact ⟨r1 ++ '/' :: r2, by simp [List.append_assoc]⟩

/-! ## 1. The two command line tools never raise -/

/-- odmlconvert: whatever the files are and however loading or converting them fails, the run
    goes through all of them and reports once per file. -/
theorem batch_never_raises_convert (T : Tool) (outDir : Path) (files : List Path) (fs : Fs) :
    ∃ rs, (loop (convStep T outDir) files fs).2 = .ok rs ∧ rs.length = files.length :=
  loop_total (convStep_isolated T outDir) files fs

/-- odmltordf: the same, with its three nested `try` levels. -/
theorem batch_never_raises_rdf (T : Tool) (outDir rdfDir : Path) (files : List Path) (fs : Fs) :
    ∃ rs, (loop (rdfStep T outDir rdfDir) files fs).2 = .ok rs ∧ rs.length = files.length :=
  loop_total (rdfStep_isolated T outDir rdfDir) files fs

/-! ## 2. Outputs only in the output location; inputs (and everything else) untouched -/

/-- odmlconvert changes a path only if it is `<outDir>/<stem>_conv.xml` of one of the files. -/
theorem batch_outputs_only_in_out_convert (T : Tool) (outDir : Path) (files : List Path) (fs : Fs)
    (p : Path) (h : (loop (convStep T outDir) files fs).1 p ≠ fs p) :
    (∃ f ∈ files, p = convOut outDir f) ∧ Under outDir p := by
  have : ∃ f ∈ files, p = convOut outDir f := by
    apply Classical.byContradiction
    intro hn
    apply h
    apply loop_frame (convStep_isolated T outDir).toConfined
    intro g hg hp
    simp only [convOuts, List.mem_singleton] at hp
    exact hn ⟨g, hg, hp⟩
  obtain ⟨f, hf, rfl⟩ := this
  exact ⟨⟨f, hf, rfl⟩, convOut_under outDir f⟩

/-- odmltordf changes a path only if it is one of the two output paths (`<out>/<stem>_conv.xml`,
    `<rdf>/<stem>.rdf`) of one of the files: all under the out directory when the RDF directory is
    created inside it. -/
theorem batch_outputs_only_in_out_rdf (T : Tool) (outDir rdfDir : Path) (hr : Under outDir rdfDir)
    (files : List Path) (fs : Fs) (p : Path)
    (h : (loop (rdfStep T outDir rdfDir) files fs).1 p ≠ fs p) :
    (∃ f ∈ files, p ∈ rdfOuts outDir rdfDir f) ∧ Under outDir p := by
  have : ∃ f ∈ files, p ∈ rdfOuts outDir rdfDir f := by
    apply Classical.byContradiction
    intro hn
    apply h
    apply loop_frame (rdfStep_isolated T outDir rdfDir).toConfined
    intro g hg hp
    exact hn ⟨g, hg, hp⟩
  obtain ⟨f, hf, hp⟩ := this
  refine ⟨⟨f, hf, hp⟩, ?_⟩
  simp only [rdfOuts, List.mem_cons, List.mem_nil_iff, or_false] at hp
  rcases hp with rfl | rfl
  · exact convOut_under _ _
  · exact under_trans hr (rdfOut_under _ _)

/-- With a freshly made output directory, **every file that existed before the run** — the
    inputs in particular — **is byte-identical afterwards** (odmlconvert). -/
theorem batch_inputs_unchanged_convert (T : Tool) (outDir : Path) (files : List Path) (fs : Fs)
    (hfresh : Fresh fs outDir) (p : Path) (hp : fs p ≠ none) :
    (loop (convStep T outDir) files fs).1 p = fs p := by
  apply Classical.byContradiction
  intro h
  exact hp (hfresh p (batch_outputs_only_in_out_convert T outDir files fs p h).2)

/-- … and odmltordf. -/
theorem batch_inputs_unchanged_rdf (T : Tool) (outDir rdfDir : Path) (hr : Under outDir rdfDir)
    (files : List Path) (fs : Fs) (hfresh : Fresh fs outDir) (p : Path) (hp : fs p ≠ none) :
    (loop (rdfStep T outDir rdfDir) files fs).1 p = fs p := by
  apply Classical.byContradiction
  intro h
  exact hp (hfresh p (batch_outputs_only_in_out_rdf T outDir rdfDir hr files fs p h).2)

/-! ## 3. Isolation: bad files, wherever they stand, cost no good file its output -/

/-- odmlconvert: for any list of distinct files with distinct base names, in any order, and a
    fresh output directory: what the run leaves at `f`'s output path is exactly what converting
    `f` alone would leave there — whatever the other files are and wherever they stand. -/
theorem batch_isolation_convert (T : Tool) (outDir : Path) (files : List Path) (fs : Fs)
    (nd : files.Nodup) (hfresh : Fresh fs outDir) (hex : ∀ g ∈ files, fs g ≠ none)
    (f : Path) (hf : f ∈ files) (hstem : ∀ g ∈ files, g ≠ f → stem g ≠ stem f) :
    (loop (convStep T outDir) files fs).1 (convOut outDir f) =
      (convStep T outDir f fs).1 (convOut outDir f) := by
  apply loop_isolation (convStep_isolated T outDir) files nd f hf
  · intro g hg hgf hmem
    simp only [convOuts, List.mem_singleton] at hmem
    exact hex f hf (hmem ▸ hfresh _ (convOut_under outDir g))
  · intro g hg hgf p hp hpg
    simp only [convOuts, List.mem_singleton] at hp hpg
    exact hstem g hg hgf (convOut_inj outDir g f (hpg ▸ hp ▸ rfl))
  · simp [convOuts]

/-- In the words of the property: every file that is convertible alone (it does not load as a
    current-version document and the version converter yields a document `d`) has its output,
    holding `d`, after the batch. -/
theorem convertible_file_gets_output (T : Tool) (outDir : Path) (files : List Path) (fs : Fs)
    (nd : files.Nodup) (hfresh : Fresh fs outDir) (hex : ∀ g ∈ files, fs g ≠ none)
    (f : Path) (hf : f ∈ files) (hstem : ∀ g ∈ files, g ≠ f → stem g ≠ stem f)
    (d : Bytes) (hl : T.loads f (fs f) = false) (hc : T.convert f (fs f) = .ok (some d)) :
    (loop (convStep T outDir) files fs).1 (convOut outDir f) = some d := by
  rw [batch_isolation_convert T outDir files fs nd hfresh hex f hf hstem]
  simp [convStep, hl, writeToFile, hc, ensureXmlExt_conv]

/-- odmltordf: the same for each of `f`'s two output paths, provided no other file's output
    paths coincide with `f`'s (distinct base names are enough for that, see
    `batch_isolation_rdf_base_names`; before fix b7276cb they were not, see
    `legacy_rdf_name_collision`). -/
theorem batch_isolation_rdf (T : Tool) (outDir rdfDir : Path) (hr : Under outDir rdfDir)
    (files : List Path) (fs : Fs)
    (nd : files.Nodup) (hfresh : Fresh fs outDir) (hex : ∀ g ∈ files, fs g ≠ none)
    (f : Path) (hf : f ∈ files)
    (hdis : ∀ g ∈ files, g ≠ f → ∀ p ∈ rdfOuts outDir rdfDir f, p ∉ rdfOuts outDir rdfDir g)
    (p : Path) (hp : p ∈ rdfOuts outDir rdfDir f) :
    (loop (rdfStep T outDir rdfDir) files fs).1 p = (rdfStep T outDir rdfDir f fs).1 p := by
  apply loop_isolation (rdfStep_isolated T outDir rdfDir) files nd f hf _ hdis fs p hp
  intro g hg hgf hmem
  simp only [rdfOuts, List.mem_cons, List.mem_nil_iff, or_false] at hmem
  apply hex f hf
  rcases hmem with h | h
  · exact h ▸ hfresh _ (convOut_under outDir g)
  · exact h ▸ hfresh _ (under_trans hr (rdfOut_under _ _))

/-- odmltordf, in the vocabulary of the property: distinct files with distinct base names (exactly
    the hypothesis of odmlconvert), RDF directory made inside the fresh out directory — then what
    the batch leaves at each of `f`'s output paths is what processing `f` alone leaves. -/
theorem batch_isolation_rdf_base_names (T : Tool) (outDir r : Path) (files : List Path) (fs : Fs)
    (nd : files.Nodup) (hfresh : Fresh fs outDir) (hex : ∀ g ∈ files, fs g ≠ none)
    (f : Path) (hf : f ∈ files) (hstem : ∀ g ∈ files, g ≠ f → stem g ≠ stem f)
    (p : Path) (hp : p ∈ rdfOuts outDir (outDir ++ '/' :: r) f) :
    (loop (rdfStep T outDir (outDir ++ '/' :: r)) files fs).1 p =
      (rdfStep T outDir (outDir ++ '/' :: r) f fs).1 p :=
  batch_isolation_rdf T outDir _ ⟨r, rfl⟩ files fs nd hfresh hex f hf
    (fun g hg hgf => rdfOuts_disjoint outDir r f g (fun h => hstem g hg hgf h.symm)) p hp

/-- … so a current-version file that exports alone to `d` has `<rdf dir>/<stem>.rdf = d` after the
    batch, whatever else is in the list. -/
theorem exportable_file_gets_rdf (T : Tool) (outDir r : Path) (files : List Path) (fs : Fs)
    (nd : files.Nodup) (hfresh : Fresh fs outDir) (hex : ∀ g ∈ files, fs g ≠ none)
    (f : Path) (hf : f ∈ files) (hstem : ∀ g ∈ files, g ≠ f → stem g ≠ stem f)
    (d : Bytes) (hl : T.loads f (fs f) = true) (hd : T.render f (fs f) = .ok d) :
    (loop (rdfStep T outDir (outDir ++ '/' :: r)) files fs).1 (rdfOut (outDir ++ '/' :: r) f) =
      some d := by
  rw [batch_isolation_rdf_base_names T outDir r files fs nd hfresh hex f hf hstem _
        (by simp [rdfOuts])]
  simp [rdfStep, hl, rdfExport, hd]

/-- … and an old-version file that converts alone to `d`, which exports to `d2`, has both
    `<out dir>/<stem>_conv.xml = d` and `<rdf dir>/<stem>.rdf = d2` after the batch, whatever else
    is in the list — a current-version file named `<stem>_conv` included. -/
theorem converted_file_gets_rdf (T : Tool) (outDir r : Path) (files : List Path) (fs : Fs)
    (nd : files.Nodup) (hfresh : Fresh fs outDir) (hex : ∀ g ∈ files, fs g ≠ none)
    (f : Path) (hf : f ∈ files) (hstem : ∀ g ∈ files, g ≠ f → stem g ≠ stem f)
    (d d2 : Bytes) (hl : T.loads f (fs f) = false) (hc : T.convert f (fs f) = .ok (some d))
    (hd : T.render (convOut outDir f) (some d) = .ok d2) :
    (loop (rdfStep T outDir (outDir ++ '/' :: r)) files fs).1 (convOut outDir f) = some d ∧
    (loop (rdfStep T outDir (outDir ++ '/' :: r)) files fs).1 (rdfOut (outDir ++ '/' :: r) f) =
      some d2 := by
  have hne : rdfOut (outDir ++ '/' :: r) f ≠ convOut outDir f :=
    fun h => convOut_ne_rdfOut outDir r f f h.symm
  constructor
  · rw [batch_isolation_rdf_base_names T outDir r files fs nd hfresh hex f hf hstem _
          (by simp [rdfOuts])]
    simp [rdfStep, hl, rdfViaConversion, writeToFile, hc, ensureXmlExt_conv, rdfExport, hd,
      write_other _ _ _ _ hne.symm]
  · rw [batch_isolation_rdf_base_names T outDir r files fs nd hfresh hex f hf hstem _
          (by simp [rdfOuts])]
    simp [rdfStep, hl, rdfViaConversion, writeToFile, hc, ensureXmlExt_conv, rdfExport, hd]

/-- Before fix b7276cb odmltordf named the RDF export of a converted file `<stem>_conv.rdf`: an
    old-version file `a.xml` and a current-version file `a_conv.xml` have distinct base names and
    yet shared the output path `a_conv.rdf`; whichever came last won (both orders shown), the
    other file was left without its RDF output. -/
theorem legacy_rdf_name_collision :
    let T : Tool := { loads := fun _ c => c == some "CUR".toList,
                      convert := fun _ c => if c == some "OLD".toList then .ok (some "CONV".toList)
                                            else .error .valueError,
                      render := fun _ c => if c == some "CUR".toList then .ok "RDF-CUR".toList
                                           else if c == some "CONV".toList then .ok "RDF-OLD".toList
                                           else .error .valueError }
    let fs := Fs.ofList [("in/a.xml".toList, "OLD".toList), ("in/a_conv.xml".toList, "CUR".toList)]
    let r1 := loop (rdfStepLegacy T "o".toList "o/r".toList)
                ["in/a.xml".toList, "in/a_conv.xml".toList] fs
    let r2 := loop (rdfStepLegacy T "o".toList "o/r".toList)
                ["in/a_conv.xml".toList, "in/a.xml".toList] fs
    stem "in/a.xml".toList ≠ stem "in/a_conv.xml".toList ∧
    rdfOut "o/r".toList (convOut "o".toList "in/a.xml".toList) =
      rdfOut "o/r".toList "in/a_conv.xml".toList ∧
    r1.1 "o/r/a_conv.rdf".toList = some "RDF-CUR".toList ∧ r1.1 "o/r/a.rdf".toList = none ∧
    r2.1 "o/r/a_conv.rdf".toList = some "RDF-OLD".toList ∧ r2.1 "o/r/a.rdf".toList = none := by
  decide

/-- The same two runs after the fix: each file has its own RDF output, in both orders. -/
theorem fixed_rdf_name_witness :
    let T : Tool := { loads := fun _ c => c == some "CUR".toList,
                      convert := fun _ c => if c == some "OLD".toList then .ok (some "CONV".toList)
                                            else .error .valueError,
                      render := fun _ c => if c == some "CUR".toList then .ok "RDF-CUR".toList
                                           else if c == some "CONV".toList then .ok "RDF-OLD".toList
                                           else .error .valueError }
    let fs := Fs.ofList [("in/a.xml".toList, "OLD".toList), ("in/a_conv.xml".toList, "CUR".toList)]
    let r1 := loop (rdfStep T "o".toList "o/r".toList)
                ["in/a.xml".toList, "in/a_conv.xml".toList] fs
    let r2 := loop (rdfStep T "o".toList "o/r".toList)
                ["in/a_conv.xml".toList, "in/a.xml".toList] fs
    r1.1 "o/r/a.rdf".toList = some "RDF-OLD".toList ∧
    r1.1 "o/r/a_conv.rdf".toList = some "RDF-CUR".toList ∧
    r2.1 "o/r/a.rdf".toList = some "RDF-OLD".toList ∧
    r2.1 "o/r/a_conv.rdf".toList = some "RDF-CUR".toList ∧
    r1.1 "o/a_conv.xml".toList = some "CONV".toList := by
  decide

example : ∃ (T : Tool) (fs : Fs), Fresh fs "o".toList ∧ fs "in/a.xml".toList ≠ none ∧
    T.loads "in/a.xml".toList (fs "in/a.xml".toList) = false ∧
    T.convert "in/a.xml".toList (fs "in/a.xml".toList) = .ok (some "D".toList) :=
  ⟨{ loads := fun _ _ => false, convert := fun _ _ => .ok (some "D".toList),
     render := fun _ _ => .error .valueError },
   fun p => if p = "in/a.xml".toList then some "OLD".toList else none,
   by
     intro p hp
     obtain ⟨r, rfl⟩ := hp
     simp,
   by simp, rfl, rfl⟩

/-! ## 4. FormatConverter.convert_dir -/

/-- One `(dir_path, file_name)` produced by `os.walk(input_dir)`: the directory starts with the
    input directory, the remainder does not start with a separator, the file name has none. -/
def WalkEntry (inDir : Path) (e : Path × List Char) : Prop :=
  ∃ rel, e.1 = inDir ++ rel ∧ rel.head? ≠ some '/' ∧ '/' ∉ e.2

/-- The output directory of a walked directory is the output root followed by the part of the
    path below the input root: a plain prefix replacement, for **every** directory name. -/
theorem convert_dir_mapping (inDir outDir rel : Path) (ho : outDir.getLast? = some '/')
    (hr : rel.head? ≠ some '/') : mapDir inDir outDir (inDir ++ rel) = outDir ++ rel := by
  unfold mapDir pyJoin
  rw [List.drop_left]
  have h1 : (rel.head? == some '/') = false := by
    cases hh : rel.head? with
    | none => rfl
    | some c =>
      have : c ≠ '/' := fun hc => hr (hc ▸ hh)
      simp [this]
  simp [h1, ho]

/-- Every path `convert_dir` writes to starts with the output directory, for all three kinds of
    target format and whatever extension juggling `_convert_file` does. -/
theorem convert_dir_output_under_out (fmt : ResFormat) (outDir rel name : Path)
    (ho : outDir.getLast? = some '/') (hn : '/' ∉ name) :
    outDir <+: outName fmt (pyJoin (outDir ++ rel) name) := by
  have hne : outDir ≠ [] := by intro h; simp [h] at ho
  have hhead : (name.head? == some '/') = false := by
    cases hh : name.head? with
    | none => rfl
    | some c =>
      have hc : c ∈ name := List.mem_of_mem_head? hh
      have : c ≠ '/' := fun h => hn (h ▸ hc)
      simp [this]
  -- the joined path is X ++ name with X ending in the separator and starting with outDir
  have hj : ∃ X, pyJoin (outDir ++ rel) name = X ++ name ∧ X.getLast? = some '/' ∧ outDir <+: X := by
    unfold pyJoin
    simp only [hhead, Bool.false_eq_true, if_false]
    by_cases hl : ((outDir ++ rel).isEmpty || (outDir ++ rel).getLast? == some '/') = true
    · simp only [hl, if_true]
      refine ⟨outDir ++ rel, rfl, ?_, List.prefix_append _ _⟩
      simp only [Bool.or_eq_true, List.isEmpty_iff, List.append_eq_nil_iff, beq_iff_eq] at hl
      rcases hl with h | h
      · exact absurd h.1 hne
      · exact h
    · simp only [hl]
      refine ⟨outDir ++ rel ++ ['/'], by simp [List.append_assoc], by simp, ?_⟩
      rw [List.append_assoc]; exact List.prefix_append _ _
  obtain ⟨X, hX, hXl, hXp⟩ := hj
  rw [hX]
  have hsplit : outDir <+: (splitextPath (X ++ name)).1 := by
    unfold splitextPath
    rw [dirPart_append X name hXl hn]
    exact List.IsPrefix.trans hXp (List.prefix_append _ _)
  have hplain : outDir <+: X ++ name := List.IsPrefix.trans hXp (List.prefix_append _ _)
  cases fmt with
  | v1_1 =>
    show outDir <+: ensureXmlExt (X ++ name)
    unfold ensureXmlExt
    split
    · exact hplain
    · exact List.IsPrefix.trans hplain (List.prefix_append _ _)
  | odml =>
    show outDir <+: (if endsWith (X ++ name) ".odml".toList then X ++ name
                     else (splitextPath (X ++ name)).1 ++ ".odml".toList)
    split
    · exact hplain
    · exact List.IsPrefix.trans hsplit (List.prefix_append _ _)
  | rdf ext =>
    show outDir <+: (if endsWith (X ++ name) ext then X ++ name
                     else (splitextPath (X ++ name)).1 ++ ext)
    split
    · exact hplain
    · exact List.IsPrefix.trans hsplit (List.prefix_append _ _)

/-- The run changes nothing but the output paths of the walked entries — also when it is cut
    short by a file that cannot be converted. -/
theorem convert_dir_frame (T : Tool) (fmt : ResFormat) (mapd : Path → Path)
    (entries : List (Path × List Char)) (fs : Fs) (p : Path)
    (hp : ∀ e ∈ entries, p ≠ outName fmt (pyJoin (mapd e.1) e.2)) :
    (convertDirLoop T fmt mapd entries fs).1 p = fs p := by
  induction entries generalizing fs with
  | nil => rfl
  | cons e rest ih =>
    have hstep : (convertDirStep T fmt mapd e fs).1 p = fs p := by
      have hne := hp e List.mem_cons_self
      unfold convertDirStep
      cases fmt with
      | v1_1 =>
        simp only []
        cases T.convert (pyJoin e.1 e.2) (fs (pyJoin e.1 e.2)) with
        | error x => rfl
        | ok o =>
          cases o with
          | none => rfl
          | some d => exact write_other fs _ p d hne
      | odml =>
        simp only []
        cases T.render (pyJoin e.1 e.2) (fs (pyJoin e.1 e.2)) with
        | error x => rfl
        | ok d => exact write_other fs _ p d hne
      | rdf ext =>
        simp only []
        cases T.render (pyJoin e.1 e.2) (fs (pyJoin e.1 e.2)) with
        | error x => rfl
        | ok d => exact write_other fs _ p d hne
    unfold convertDirLoop
    generalize hs : convertDirStep T fmt mapd e fs = x at hstep
    obtain ⟨fs1, o⟩ := x
    cases o with
    | error x => exact hstep
    | ok r =>
      simp only []
      rw [ih fs1 (fun e' he' => hp e' (List.mem_cons_of_mem _ he'))]
      exact hstep

/-- **convert_dir writes only into the output location** (any directory names, any nesting,
    any target format, with or without an abort), … -/
theorem batch_outputs_only_in_out_convert_dir (T : Tool) (fmt : ResFormat) (inDir outDir : Path)
    (ho : outDir.getLast? = some '/') (entries : List (Path × List Char))
    (hw : ∀ e ∈ entries, WalkEntry inDir e) (fs : Fs) (p : Path)
    (h : (convertDirLoop T fmt (mapDir inDir outDir) entries fs).1 p ≠ fs p) : outDir <+: p := by
  apply Classical.byContradiction
  intro hn
  apply h
  apply convert_dir_frame
  intro e he hpe
  obtain ⟨rel, h1, h2, h3⟩ := hw e he
  rw [h1, convert_dir_mapping inDir outDir rel ho h2] at hpe
  exact hn (hpe ▸ convert_dir_output_under_out fmt outDir rel e.2 ho h3)

/-- … hence **every file outside the output directory — every input, when the output location is
    distinct — is byte-identical afterwards**. -/
theorem batch_inputs_unchanged_convert_dir (T : Tool) (fmt : ResFormat) (inDir outDir : Path)
    (ho : outDir.getLast? = some '/') (entries : List (Path × List Char))
    (hw : ∀ e ∈ entries, WalkEntry inDir e) (fs : Fs) (p : Path) (hp : ¬ outDir <+: p) :
    (convertDirLoop T fmt (mapDir inDir outDir) entries fs).1 p = fs p := by
  apply Classical.byContradiction
  intro h
  exact hp (batch_outputs_only_in_out_convert_dir T fmt inDir outDir ho entries hw fs p h)

/-- Without an explicit output directory `convert_dir` makes up `<root>/<name>_<format>` for the
    input directory `<root>/<name>` (regenerated semantics of `dirname`/`basename`/`join`), … -/
theorem implicit_output_location (root name fmt : List Char) (hr1 : root ≠ [])
    (hr2 : root.getLast? ≠ some '/') (hn1 : name ≠ []) (hn2 : '/' ∉ name) (trailing : Bool) :
    implicitOutDir (root ++ '/' :: name ++ (if trailing then ['/'] else [])) fmt =
      root ++ '/' :: (name ++ '_' :: fmt) :=
  implicitOutDir_closed root name fmt hr1 hr2 hn1 hn2 trailing

/-- … a location distinct from the input tree: **nothing at or below the input directory
    changes** when the output directory is the made-up one, for any directory name. -/
theorem batch_inputs_unchanged_convert_dir_implicit (T : Tool) (fmt : ResFormat)
    (root name fmtName : List Char) (hr1 : root ≠ []) (hr2 : root.getLast? ≠ some '/')
    (hn1 : name ≠ []) (hn2 : '/' ∉ name) (trailing : Bool)
    (entries : List (Path × List Char))
    (hw : ∀ e ∈ entries, WalkEntry ((root ++ '/' :: name) ++ ['/']) e) (fs : Fs) (rest : Path) :
    let outDir := implicitOutDir (root ++ '/' :: name ++ (if trailing then ['/'] else [])) fmtName ++ ['/']
    (convertDirLoop T fmt (mapDir ((root ++ '/' :: name) ++ ['/']) outDir) entries fs).1
        ((root ++ '/' :: name) ++ '/' :: rest) = fs ((root ++ '/' :: name) ++ '/' :: rest) := by
  intro outDir
  apply batch_inputs_unchanged_convert_dir T fmt _ outDir (getLast?_snoc _ _) entries hw
  show ¬ (implicitOutDir _ fmtName ++ ['/']) <+: _
  rw [implicitOutDir_closed root name fmtName hr1 hr2 hn1 hn2 trailing]
  exact implicit_out_not_prefix root name fmtName rest

example : WalkEntry "in+dir(1)/".toList ("in+dir(1)/sub".toList, "b.xml".toList) :=
  ⟨"sub".toList, by decide, by decide, by decide⟩

/-! ## 4b. convert_dir run again: each output holds the content of its source *as it is now*

"Each output loads as a current-version document (or parses as RDF) with the content of its
source" is a statement about the file system after the run, for **every** file system before it:
the output location may be the one of an earlier run (the explicitly given directory, or
`<input>_<format>`, which `convert_dir` reuses when it exists) and may hold results of earlier
runs, of other formats with the same file ending, or unrelated files, older or newer than the
sources; the sources may have been replaced since.  The model has no time stamps and no memory of
earlier runs because the code has none; the theorems say that nothing of the kind can matter. -/

/-- For every file system before the run: a completed run leaves at the output path of an entry
    what `_convert_file` makes **of the bytes the source holds now** (`cdData`, a function of the
    source path and its bytes only) — whatever the output path held before, provided the source
    is not itself an output path (distinct output location) and no other entry shares the output
    path (unique base names). -/
theorem convert_dir_output_current (T : Tool) (fmt : ResFormat) (mapd : Path → Path)
    (entries : List (Path × List Char)) (fs : Fs)
    (hok : (convertDirLoop T fmt mapd entries fs).2 = .ok ())
    (e : Path × List Char) (he : e ∈ entries)
    (hin : ∀ e' ∈ entries, cdIn e ≠ cdOut fmt mapd e')
    (hout : ∀ e' ∈ entries, e' ≠ e → cdOut fmt mapd e' ≠ cdOut fmt mapd e)
    (d : Bytes) (hd : cdData T fmt (cdIn e) (fs (cdIn e)) = some d) :
    (convertDirLoop T fmt mapd entries fs).1 (cdOut fmt mapd e) = some d := by
  induction entries generalizing fs with
  | nil => cases he
  | cons e0 rest ih =>
    obtain ⟨h1, h2⟩ := convertDirLoop_cons_ok T fmt mapd e0 rest fs hok
    rw [h1]
    have hsrc : (convertDirStep T fmt mapd e0 fs).1 (cdIn e) = fs (cdIn e) :=
      convertDirStep_other T fmt mapd e0 fs _ (hin e0 List.mem_cons_self)
    by_cases hr : e ∈ rest
    · exact ih _ h2 hr (fun e' he' => hin e' (List.mem_cons_of_mem _ he'))
        (fun e' he' => hout e' (List.mem_cons_of_mem _ he')) (hsrc ▸ hd)
    · have hee : e = e0 := by
        rcases List.mem_cons.mp he with h | h
        · exact h
        · exact absurd h hr
      subst hee
      rw [convertDirLoop_other T fmt mapd rest _ _
            (fun e' he' => (hout e' (List.mem_cons_of_mem _ he')
              (fun h => hr (h ▸ he'))).symm)]
      exact convertDirStep_out T fmt mapd e fs d hd

/-- In the words of the property, target `odml` / any RDF format: a source that loads and renders
    to `d` now has `d` at its output path after a completed run, whatever was there. -/
theorem convert_dir_output_current_render (T : Tool) (fmt : ResFormat) (hf : fmt ≠ .v1_1)
    (mapd : Path → Path) (entries : List (Path × List Char)) (fs : Fs)
    (hok : (convertDirLoop T fmt mapd entries fs).2 = .ok ())
    (e : Path × List Char) (he : e ∈ entries)
    (hin : ∀ e' ∈ entries, pyJoin e.1 e.2 ≠ outName fmt (pyJoin (mapd e'.1) e'.2))
    (hout : ∀ e' ∈ entries, e' ≠ e →
      outName fmt (pyJoin (mapd e'.1) e'.2) ≠ outName fmt (pyJoin (mapd e.1) e.2))
    (d : Bytes) (hd : T.render (pyJoin e.1 e.2) (fs (pyJoin e.1 e.2)) = .ok d) :
    (convertDirLoop T fmt mapd entries fs).1 (outName fmt (pyJoin (mapd e.1) e.2)) = some d := by
  apply convert_dir_output_current T fmt mapd entries fs hok e he hin hout d
  unfold cdData cdIn
  cases fmt with
  | v1_1 => exact absurd rfl hf
  | odml => simp only [hd]
  | rdf ext => simp only [hd]

/-- … and target `v1_1`: a source the version converter turns into `d` now. -/
theorem convert_dir_output_current_v1_1 (T : Tool)
    (mapd : Path → Path) (entries : List (Path × List Char)) (fs : Fs)
    (hok : (convertDirLoop T .v1_1 mapd entries fs).2 = .ok ())
    (e : Path × List Char) (he : e ∈ entries)
    (hin : ∀ e' ∈ entries, pyJoin e.1 e.2 ≠ outName .v1_1 (pyJoin (mapd e'.1) e'.2))
    (hout : ∀ e' ∈ entries, e' ≠ e →
      outName .v1_1 (pyJoin (mapd e'.1) e'.2) ≠ outName .v1_1 (pyJoin (mapd e.1) e.2))
    (d : Bytes) (hd : T.convert (pyJoin e.1 e.2) (fs (pyJoin e.1 e.2)) = .ok (some d)) :
    (convertDirLoop T .v1_1 mapd entries fs).1 (outName .v1_1 (pyJoin (mapd e.1) e.2)) = some d := by
  apply convert_dir_output_current T .v1_1 mapd entries fs hok e he hin hout d
  unfold cdData cdIn
  simp only [hd]

/-- The history of the seeded scenario, for any tool, format, directory and first run: after a
    first run (`entries1` over any `fs0`), the source of `e` is **replaced by another revision**
    `rev` (whatever time stamp it carries — the model has none), and the directory is converted
    again into the same location: the output of `e` holds the conversion of `rev`, not the result
    of the first run. -/
theorem convert_dir_rerun_after_edit (T : Tool) (fmt : ResFormat) (mapd : Path → Path)
    (entries1 entries2 : List (Path × List Char)) (fs0 : Fs)
    (e : Path × List Char) (he : e ∈ entries2) (rev : Bytes)
    (hin : ∀ e' ∈ entries2, cdIn e ≠ cdOut fmt mapd e')
    (hout : ∀ e' ∈ entries2, e' ≠ e → cdOut fmt mapd e' ≠ cdOut fmt mapd e)
    (d : Bytes) (hd : cdData T fmt (cdIn e) (some rev) = some d) :
    let fs1 := ((convertDirLoop T fmt mapd entries1 fs0).1).write (cdIn e) rev
    (convertDirLoop T fmt mapd entries2 fs1).2 = .ok () →
    (convertDirLoop T fmt mapd entries2 fs1).1 (cdOut fmt mapd e) = some d := by
  intro fs1 hok
  apply convert_dir_output_current T fmt mapd entries2 fs1 hok e he hin hout d
  have : fs1 (cdIn e) = some rev := write_same _ _ _
  rw [this]; exact hd

/-- A concrete history: `in/a.xml` converted, replaced by another revision, converted again into
    the same directory, which also holds an unrelated `b.odml`; a file added later gets its output
    too. -/
theorem convert_dir_rerun_witness :
    let T : Tool := { loads := fun _ _ => true, convert := fun _ _ => .error .valueError,
                      render := fun _ c => if c == some "REV1".toList then .ok "OUT1".toList
                                           else if c == some "REV2".toList then .ok "OUT2".toList
                                           else .error .valueError }
    let mapd := mapDir "in/".toList "out/".toList
    let fs0 := Fs.ofList [("in/a.xml".toList, "REV1".toList), ("out/b.odml".toList, "KEEP".toList)]
    let r1 := convertDirLoop T .odml mapd [("in/".toList, "a.xml".toList)] fs0
    let fs1 := (r1.1.write "in/a.xml".toList "REV2".toList).write "in/c.xml".toList "REV1".toList
    let r2 := convertDirLoop T .odml mapd [("in/".toList, "a.xml".toList), ("in/".toList, "c.xml".toList)] fs1
    r1.2.isOk = true ∧ r1.1 "out/a.odml".toList = some "OUT1".toList ∧
    r2.2.isOk = true ∧ r2.1 "out/a.odml".toList = some "OUT2".toList ∧
    r2.1 "out/c.odml".toList = some "OUT1".toList ∧ r2.1 "out/b.odml".toList = some "KEEP".toList ∧
    r2.1 "in/a.xml".toList = some "REV2".toList := by
  decide

/-! ## 5. The mapping before the fix -/

/-- Whenever the old `re.sub(input_dir, output_dir, dir_path)` returned `dir_path` unchanged
    (the pattern — the *unescaped* directory name — did not match), converting an `.xml` file to
    `v1_1` wrote the result over the input file itself. -/
theorem legacy_unmatched_overwrites_input (T : Tool) (dir name : Path) (fs : Fs) (d : Bytes)
    (hx : endsWith (pyJoin dir name) ".xml".toList = true)
    (hc : T.convert (pyJoin dir name) (fs (pyJoin dir name)) = .ok (some d)) :
    (convertDirStep T .v1_1 id (dir, name) fs).1 (pyJoin dir name) = some d := by
  have hn : ensureXmlExt (pyJoin dir name) = pyJoin dir name := by
    unfold ensureXmlExt; rw [hx]; simp
  unfold convertDirStep
  simp only [hc, id]
  show (fs.write (ensureXmlExt (pyJoin dir name)) d) (pyJoin dir name) = some d
  rw [hn]; simp

/-- The confirmed witness: input directory `in+dir(1)`; the run ends "successfully", the input
    file holds the converted text and nothing was written elsewhere. -/
theorem legacy_convert_dir_clobbers_inputs :
    let T : Tool := { loads := fun _ _ => false, convert := fun _ _ => .ok (some "NEW".toList),
                      render := fun _ _ => .error .valueError }
    let fs := Fs.ofList [("in+dir(1)/a.xml".toList, "OLD".toList)]
    let r := convertDirLoop T .v1_1 id [("in+dir(1)/".toList, "a.xml".toList)] fs
    r.2.isOk = true ∧ r.1 "in+dir(1)/a.xml".toList = some "NEW".toList ∧
    r.1 "out/a.xml".toList = none := by
  decide

/-- The same run with the prefix mapping: input kept, output where it belongs. -/
theorem fixed_convert_dir_witness :
    let T : Tool := { loads := fun _ _ => false, convert := fun _ _ => .ok (some "NEW".toList),
                      render := fun _ _ => .error .valueError }
    let fs := Fs.ofList [("in+dir(1)/a.xml".toList, "OLD".toList)]
    let r := convertDirLoop T .v1_1 (mapDir "in+dir(1)/".toList "out/".toList)
              [("in+dir(1)/".toList, "a.xml".toList)] fs
    r.2.isOk = true ∧ r.1 "in+dir(1)/a.xml".toList = some "OLD".toList ∧
    r.1 "out/a.xml".toList = some "NEW".toList := by
  decide

/-- Even for names without metacharacters `re.sub` replaced *every* occurrence of the input
    directory name, not the prefix: with a relative input directory `in/`, the sub-directory
    `in/main/x` was sent to `out/maout/x`. -/
theorem legacy_literal_replaces_every_occurrence :
    replaceAll "in/".toList "out/".toList 50 "in/main/x".toList = "out/maout/x".toList ∧
    mapDir "in/".toList "out/".toList "in/main/x".toList = "out/main/x".toList := by
  decide

/-! ## 7. File discovery of the two command line tools (`main`)

"…over a directory … all directory trees … in every order and nesting": which files of the tree the
tools take up.  The tree is any list of entries `(directory, name)`; nothing is assumed about the
names of the directories — the directory given on the command line, the directories above and
below it may be called like the tools' own output directories (`odmlconv_…`, `odmlrdf_…`). -/

/-- A name `main` looks for: it ends in `.odml`, `.xml`, `.json` or `.yaml`. -/
def Supported (n : List Char) : Prop := ∃ ext ∈ mainExts, endsWith n ext = true

/-- Every entry of the tree with a supported ending — at the top, or anywhere with `-r` — is in the
    list `main` hands to its loop, whatever the directories are called. -/
theorem discover_complete (root : Path) (recursive : Bool) (tree : List (Path × List Char))
    (e : Path × List Char) (he : e ∈ tree) (hs : Supported e.2)
    (hd : recursive = true ∨ e.1 = root) :
    pyJoin e.1 e.2 ∈ discover root recursive tree := by
  obtain ⟨ext, hext, hends⟩ := hs
  simp only [discover, List.mem_flatMap]
  refine ⟨ext, hext, ?_⟩
  simp only [globExt, List.mem_map, List.mem_filter]
  refine ⟨e, ⟨he, ?_⟩, rfl⟩
  rcases hd with h | h <;> simp [hends, h]

/-- … and nothing else is. -/
theorem discover_sound (root : Path) (recursive : Bool) (tree : List (Path × List Char))
    (p : Path) (hp : p ∈ discover root recursive tree) :
    ∃ e ∈ tree, p = pyJoin e.1 e.2 ∧ Supported e.2 ∧ (recursive = true ∨ e.1 = root) := by
  simp only [discover, List.mem_flatMap, globExt, List.mem_map, List.mem_filter] at hp
  obtain ⟨ext, hext, e, ⟨he, hcond⟩, rfl⟩ := hp
  simp only [Bool.and_eq_true, Bool.or_eq_true, beq_iff_eq] at hcond
  exact ⟨e, he, rfl, ⟨ext, hext, hcond.1⟩, hcond.2⟩

/-- Distinct paths in the tree ⇒ no file is taken up twice (no name ends in two of the endings). -/
theorem discover_nodup (root : Path) (recursive : Bool) (tree : List (Path × List Char))
    (nd : (tree.map fun e => pyJoin e.1 e.2).Nodup) : (discover root recursive tree).Nodup := by
  have g := globExt_nodup root recursive tree nd
  have dj := globExt_disjoint root recursive tree nd
  simp only [discover, mainExts, List.flatMap_cons, List.flatMap_nil, List.append_nil]
  refine List.nodup_append.2 ⟨g _, List.nodup_append.2 ⟨g _, List.nodup_append.2 ⟨g _, g _, ?_⟩, ?_⟩, ?_⟩
  · intro x hx y hy hxy; subst hxy
    exact dj ".json".toList ".yaml".toList (by decide) (by decide) x hx hy
  · intro x hx y hy hxy; subst hxy
    rcases List.mem_append.1 hy with h | h
    · exact dj ".xml".toList ".json".toList (by decide) (by decide) x hx h
    · exact dj ".xml".toList ".yaml".toList (by decide) (by decide) x hx h
  · intro x hx y hy hxy; subst hxy
    rcases List.mem_append.1 hy with h | h
    · exact dj ".odml".toList ".xml".toList (by decide) (by decide) x hx h
    · rcases List.mem_append.1 h with h | h
      · exact dj ".odml".toList ".json".toList (by decide) (by decide) x hx h
      · exact dj ".odml".toList ".yaml".toList (by decide) (by decide) x hx h

/-- odmlconvert as a whole (`main` after `mkdtemp`): for every tree of distinct paths and distinct
    base names, every directory naming and both settings of `-r`, a file of the tree with a
    supported ending that is convertible alone has its output after the run. -/
theorem main_convert_file_gets_output (T : Tool) (outDir root : Path) (recursive : Bool)
    (tree : List (Path × List Char)) (fs : Fs)
    (nd : (tree.map fun e => pyJoin e.1 e.2).Nodup) (hfresh : Fresh fs outDir)
    (hex : ∀ g ∈ discover root recursive tree, fs g ≠ none)
    (e : Path × List Char) (he : e ∈ tree) (hs : Supported e.2) (hd : recursive = true ∨ e.1 = root)
    (hstem : ∀ g ∈ discover root recursive tree, g ≠ pyJoin e.1 e.2 → stem g ≠ stem (pyJoin e.1 e.2))
    (d : Bytes) (hl : T.loads (pyJoin e.1 e.2) (fs (pyJoin e.1 e.2)) = false)
    (hc : T.convert (pyJoin e.1 e.2) (fs (pyJoin e.1 e.2)) = .ok (some d)) :
    (mainConvert T outDir root recursive tree fs).1 (convOut outDir (pyJoin e.1 e.2)) = some d :=
  convertible_file_gets_output T outDir _ fs (discover_nodup root recursive tree nd) hfresh hex _
    (discover_complete root recursive tree e he hs hd) hstem d hl hc

/-- odmltordf as a whole: a current-version file of the tree that exports alone to `d` has
    `<rdf dir>/<stem>.rdf = d` after the run … -/
theorem main_rdf_file_gets_rdf (T : Tool) (outDir r root : Path) (recursive : Bool)
    (tree : List (Path × List Char)) (fs : Fs)
    (nd : (tree.map fun e => pyJoin e.1 e.2).Nodup) (hfresh : Fresh fs outDir)
    (hex : ∀ g ∈ discover root recursive tree, fs g ≠ none)
    (e : Path × List Char) (he : e ∈ tree) (hs : Supported e.2) (hd : recursive = true ∨ e.1 = root)
    (hstem : ∀ g ∈ discover root recursive tree, g ≠ pyJoin e.1 e.2 → stem g ≠ stem (pyJoin e.1 e.2))
    (d : Bytes) (hl : T.loads (pyJoin e.1 e.2) (fs (pyJoin e.1 e.2)) = true)
    (hr : T.render (pyJoin e.1 e.2) (fs (pyJoin e.1 e.2)) = .ok d) :
    (mainRdf T outDir (outDir ++ '/' :: r) root recursive tree fs).1
      (rdfOut (outDir ++ '/' :: r) (pyJoin e.1 e.2)) = some d :=
  exportable_file_gets_rdf T outDir r _ fs (discover_nodup root recursive tree nd) hfresh hex _
    (discover_complete root recursive tree e he hs hd) hstem d hl hr

/-- … and an old-version file that converts alone to `d`, which exports to `d2`, has both outputs. -/
theorem main_rdf_converted_file_gets_rdf (T : Tool) (outDir r root : Path) (recursive : Bool)
    (tree : List (Path × List Char)) (fs : Fs)
    (nd : (tree.map fun e => pyJoin e.1 e.2).Nodup) (hfresh : Fresh fs outDir)
    (hex : ∀ g ∈ discover root recursive tree, fs g ≠ none)
    (e : Path × List Char) (he : e ∈ tree) (hs : Supported e.2) (hd : recursive = true ∨ e.1 = root)
    (hstem : ∀ g ∈ discover root recursive tree, g ≠ pyJoin e.1 e.2 → stem g ≠ stem (pyJoin e.1 e.2))
    (d d2 : Bytes) (hl : T.loads (pyJoin e.1 e.2) (fs (pyJoin e.1 e.2)) = false)
    (hc : T.convert (pyJoin e.1 e.2) (fs (pyJoin e.1 e.2)) = .ok (some d))
    (hr : T.render (convOut outDir (pyJoin e.1 e.2)) (some d) = .ok d2) :
    (mainRdf T outDir (outDir ++ '/' :: r) root recursive tree fs).1
        (convOut outDir (pyJoin e.1 e.2)) = some d ∧
    (mainRdf T outDir (outDir ++ '/' :: r) root recursive tree fs).1
        (rdfOut (outDir ++ '/' :: r) (pyJoin e.1 e.2)) = some d2 :=
  converted_file_gets_rdf T outDir r _ fs (discover_nodup root recursive tree nd) hfresh hex _
    (discover_complete root recursive tree e he hs hd) hstem d d2 hl hc hr

/-- Witness: odmltordf pointed at the directory an odmlconvert run has made (`out1/odmlconv_k3`), with
    a sub-directory of the same kind: both files are taken up (`-r`), the top one without `-r`; a file
    with another ending and a directory named `x.xml` are treated as the patterns say. -/
theorem discover_tool_named_directories_witness :
    discover "out1/odmlconv_k3".toList true
      [("out1/odmlconv_k3".toList, "alpha_conv.xml".toList), ("out1/odmlconv_k3".toList, "notes.txt".toList),
       ("out1/odmlconv_k3".toList, "x.xml".toList),
       ("out1/odmlconv_k3/odmlconv_zz".toList, "beta.odml".toList)] =
      ["out1/odmlconv_k3/odmlconv_zz/beta.odml".toList, "out1/odmlconv_k3/alpha_conv.xml".toList,
       "out1/odmlconv_k3/x.xml".toList] ∧
    discover "out1/odmlconv_k3".toList false
      [("out1/odmlconv_k3".toList, "alpha_conv.xml".toList),
       ("out1/odmlconv_k3/odmlconv_zz".toList, "beta.odml".toList)] =
      ["out1/odmlconv_k3/alpha_conv.xml".toList] := by
  decide

end C17
