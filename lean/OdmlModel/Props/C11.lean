/-
C11 - Copies handed out are equal to, and independent of, the original.

Vocabulary (Model/Clone.lean, Proofs/Clone*.lean):
  `H`                       the store: objects, value lists, inner (tuple) lists, by address
  `clone h x children keep` `x.clone(children, keep_id)`;  `exportLeaf h x` = `x.export_leaf()`
  `getValues h p`           `p.values`;  `setValuesItems h p (h.vcell l)` = `p.values = l`
  `Ext h h'`                `h'` is `h` plus new locations: nothing that exists in `h` was written
  `Below h k`               every object / list / inner list of `h` has the same content in `k`
  `Closed k R`              no reference (parent, child lists, value list, inner lists) held inside the
                            region `R` leads out of it
  `rng h h'`, `Sn h`        the block of locations allocated between `h` and `h'` / from `h` on
  `NotBlock h h'`           everything else
  `run k ops`               the store after the edit sequence `ops` (any of the 22 operations of `Op`:
                            value edits, in-place edits of lists held by the caller and of their inner
                            lists, renames, attribute / cardinality / dtype changes, new objects, append,
                            remove, new ids, further clones and exports, merge / unmerge of a Section with
                            one that has no children)
  `OpsIn R ops`             every operation of `ops` is applied to objects / lists of `R`
  `Scoped h`                no dangling references in `h`
  `WF h`                    `Scoped h` and well-typed child lists / parents; holds in every store built by `run`
  `absTree h n x`           the pure tree below `x` to depth `n` (content, no ids, no handles); `idTree`: with ids
  `chainSpec h x`           the tree `export_leaf` has to return, computed from the store by walking `parent`
  `h.dcell d`, `(h.node x).mattrs`, `recOf h x`   the dicts `_merged_attrs` by address, the address a Section
                            holds, what its record holds; `DScoped h`: every record address is allocated
  `mergeAttrs` / `unmergeAttrs`   the statements of `Section._merge` / `unmerge` on the Section's own
                            definition / reference and on the record (merged Section without children)
All theorems hold for every store, object, flag combination and edit sequence: no bound on sizes.
-/
import OdmlModel.Proofs.CloneRecord
namespace C11
open Clone

/-! ### clone() -/

/-- Cloning writes nothing that exists - whatever the outcome. The original, and everything
    else, is as it was. -/
theorem clone_writes_only_new (h : H) (x : Nat) (children keep : Bool) :
    Ext h (clone h x children keep).1 := by
  unfold clone
  generalize hr : cloneF (fuelOf h) h x children keep = r
  obtain ⟨h1, res⟩ := r
  cases res with
  | ok c => exact (cloneF_spec _ h x children keep h1 c hr).ext
  | err e => exact Ext.refl h

/-- The copy is a new, detached object of the same kind. -/
theorem clone_detached_new {h h' : H} {x c : Nat} {children keep : Bool}
    (hc : clone h x children keep = (h', .ok c)) :
    h.nN ≤ c ∧ c < h'.nN ∧ (h'.node c).parent = none ∧ (h'.node c).kind = (h.node x).kind := by
  have sp := cloneF_spec _ h x children keep h' c (dropOnErr_ok hc)
  exact ⟨by rw [sp.c_eq]; exact Nat.le_refl _, by rw [sp.c_eq]; exact sp.lt, sp.parent, sp.kind⟩

/-- All sub-objects of the copy are new, and copy and original are separate: the block of new
    locations is closed (nothing in the copy refers to anything that existed), and what existed
    refers to nothing of the block. -/
theorem clone_separate {h h' : H} {x c : Nat} {children keep : Bool}
    (hc : clone h x children keep = (h', .ok c)) :
    Closed h' (rng h h') ∧ (Scoped h → Closed h' (Old h)) := by
  have sp := cloneF_spec _ h x children keep h' c (dropOnErr_ok hc)
  refine ⟨sp.closed, fun sc => ⟨fun a ha _ => ?_, fun a ha _ => ?_⟩⟩
  · rw [sp.ext.2.1 a ha]; exact sc.1 a ha ha
  · rw [sp.ext.2.2.1 a ha]; exact sc.2 a ha ha

/-- No edit sequence applied to the copy (its objects, lists obtained from it, anything created
    afterwards) ever changes the original - or anything else that existed when the copy was made. -/
theorem edit_copy_preserves_original {h h' : H} {x c : Nat} {children keep : Bool}
    (hc : clone h x children keep = (h', .ok c)) (ops : List Op) (ho : OpsIn (Sn h) ops) :
    Below h (run h' ops) := by
  have sp := cloneF_spec _ h x children keep h' c (dropOnErr_ok hc)
  exact later_edits_preserve sp.ext (closed_rng_sn sp.closed) ops ho

/-- ... and vice versa: no edit sequence applied to the original (or to anything that is not part
    of the copy) ever changes the copy. -/
theorem edit_original_preserves_copy {h h' : H} {x c : Nat} {children keep : Bool} (sc : Scoped h)
    (hc : clone h x children keep = (h', .ok c)) (ops : List Op) (ho : OpsIn (NotBlock h h') ops) :
    BlockSame h h' h' (run h' ops) :=
  earlier_edits_preserve sc (cloneF_spec _ h x children keep h' c (dropOnErr_ok hc)).ext ops ho

/-- With `children=False` the copy has no children: it is the only new object. -/
theorem clone_no_children {h h' : H} {x c : Nat} {keep : Bool} (hk : (h.node x).kind ≠ .prop)
    (hc : clone h x false keep = (h', .ok c)) :
    (h'.node c).secs = [] ∧ ((h.node x).kind = .sec → (h'.node c).props = []) ∧ h'.nN = h.nN + 1 := by
  have h0 := dropOnErr_ok hc
  unfold fuelOf at h0
  simp only [cloneF, if_neg hk, cloneBody, Bool.false_eq_true, if_false, allocN_ret] at h0
  split at h0
  · simp only [Prod.mk.injEq, Res.ok.injEq] at h0
    obtain ⟨rfl, rfl⟩ := h0
    refine ⟨?_, fun hs => ?_, ?_⟩
    · split <;> simp [newId_node]
    · rename_i hd; rw [hd] at hs; cases hs
    · split <;> simp
  · simp only [Prod.mk.injEq, Res.ok.injEq] at h0
    obtain ⟨rfl, rfl⟩ := h0
    refine ⟨?_, fun _ => ?_, ?_⟩
    · split <;> simp [newId_node]
    · simp
    · split <;> simp

/-- The copy carries the content of the original: kind, name and every attribute `==` compares
    are equal, the reference to a merged object is the same; the id is the original's when
    `keep_id` is set and otherwise one that was not in use (`uuid4`: at or beyond the old counter). -/
theorem clone_root_equal {h h' : H} {x c : Nat} {children keep : Bool}
    (hc : clone h x children keep = (h', .ok c)) :
    (h'.node c).kind = (h.node x).kind ∧ (h'.node c).name = (h.node x).name ∧
    (h'.node c).attrs = (h.node x).attrs ∧ (h'.node c).merged = (h.node x).merged ∧
    (keep = true → (h'.node c).id = (h.node x).id) ∧
    (keep = false → h.nextId ≤ (h'.node c).id ∧ (h'.node c).id < h'.nextId) := by
  have r := cloneF_fields _ h x children keep h' c (dropOnErr_ok hc)
  exact ⟨r.kind, r.name, r.attrs, r.merged, r.idKept, r.idFresh⟩

/-- Without `keep_id` EVERY object of the copy - at every depth: all of them lie in the block of new
    objects (`clone_separate`) - carries an id generated during the call, i.e. one that was not in use
    (`IdsBelow`: the ids in use are below the counter). -/
theorem clone_ids_fresh {h h' : H} {x c : Nat} {children : Bool}
    (hc : clone h x children false = (h', .ok c)) :
    ∀ a, h.nN ≤ a → a < h'.nN → h.nextId ≤ (h'.node a).id ∧
      (∀ b, b < h.nN → (h.node b).id < h.nextId → (h'.node a).id ≠ (h.node b).id) := by
  intro a h1 h2
  have := cloneF_ids _ h x children h' c (dropOnErr_ok hc) a h1 h2
  exact ⟨this, fun b _ hb => by omega⟩

/-- A cloned Property is equal to the original: besides the fields above its values denote the same
    atoms and tuples, held in a new list with new inner lists. -/
theorem clone_property_equal {h h' : H} {x c : Nat} {children keep : Bool} (hk : (h.node x).kind = .prop)
    (hx : x < h.nN) (hb : ∀ t, Item.ref t ∈ valsOf h x → t < h.nT)
    (hc : clone h x children keep = (h', .ok c)) :
    resolve h' (valsOf h' c) = resolve h (valsOf h x) ∧ (h'.node c).vals = some h.nV ∧
    (∀ t, Item.ref t ∈ valsOf h' c → h.nT ≤ t) := by
  have h0 := dropOnErr_ok hc
  unfold fuelOf at h0
  simp only [cloneF, if_pos hk, Prod.mk.injEq, Res.ok.injEq] at h0
  obtain ⟨rfl, rfl⟩ := h0
  have s := cloneProp_spec h x keep
  have hv : ((cloneProp h x keep).1.node (cloneProp h x keep).2).vals = some h.nV := by rw [s.node]
  refine ⟨?_, hv, ?_⟩
  · simp only [valsOf, hv]; exact s.same hx hb
  · intro t ht
    simp only [valsOf, hv] at ht
    exact (s.cell t ht).1

/-- The store stays free of dangling references. -/
theorem clone_scoped {h : H} (sc : Scoped h) (x : Nat) (children keep : Bool) :
    Scoped (clone h x children keep).1 := by
  unfold clone
  generalize hr : cloneF (fuelOf h) h x children keep = r
  obtain ⟨h1, res⟩ := r
  cases res with
  | ok c =>
    have sp := cloneF_spec _ h x children keep h1 c hr
    exact scoped_ext sc sp.ext sp.closed
  | err e => exact sc

/-! ### export_leaf() -/

theorem export_writes_only_new (h : H) (x : Nat) : Ext h (exportLeaf h x).1 := by
  unfold exportLeaf
  generalize hr : exportLeafF h x = r
  obtain ⟨h1, res⟩ := r
  cases res with
  | ok c => exact (good_sn_ext (exportLeafF_good h x h1 c hr).1).1
  | err e => exact Ext.refl h

/-- The export is made of new objects only and nothing in it refers to anything that existed. -/
theorem export_separate {h h' : H} {x r : Nat} (he : exportLeaf h x = (h', .ok r)) :
    h.nN ≤ r ∧ Closed h' (Sn h) := by
  have g := exportLeafF_good h x h' r (dropOnErr_ok he)
  exact ⟨g.2, (good_sn_ext g.1).2⟩

theorem edit_export_preserves_original {h h' : H} {x r : Nat} (he : exportLeaf h x = (h', .ok r))
    (ops : List Op) (ho : OpsIn (Sn h) ops) : Below h (run h' ops) := by
  obtain ⟨e, c⟩ := good_sn_ext (exportLeafF_good h x h' r (dropOnErr_ok he)).1
  exact later_edits_preserve e c ops ho

theorem edit_original_preserves_export {h h' : H} {x r : Nat} (sc : Scoped h)
    (he : exportLeaf h x = (h', .ok r)) (ops : List Op) (ho : OpsIn (NotBlock h h') ops) :
    BlockSame h h' h' (run h' ops) :=
  earlier_edits_preserve sc (good_sn_ext (exportLeafF_good h x h' r (dropOnErr_ok he)).1).1 ops ho

/-! ### The list returned by `values` -/

/-- `p.values` is a new list with new inner lists, equal to what the Property holds. -/
theorem values_get_new_equal (h : H) (p : Nat) :
    let r := getValues h p
    Ext h r.1 ∧ r.2 = h.nV ∧ r.1.nV = h.nV + 1 ∧ (∀ t, Item.ref t ∈ r.1.vcell r.2 → h.nT ≤ t) ∧
    ((∀ t, Item.ref t ∈ valsOf h p → t < h.nT) → resolve r.1 (r.1.vcell r.2) = resolve h (valsOf h p)) := by
  have cs := convertItems_spec (valsOf h p) h
  simp only [getValues]
  generalize convertItems h (valsOf h p) = cv at cs
  obtain ⟨h1, items⟩ := cv
  simp only at cs ⊢
  refine ⟨cs.ext.trans (ext_allocV h1 items), by simp [cs.nV], by simp [cs.nV], ?_, fun hb => ?_⟩
  · intro t ht
    simp only [allocV_ret, allocV_vcell, if_true] at ht
    exact (cs.fresh t ht).1
  · simp only [allocV_ret, allocV_vcell, if_true]
    rw [← cs.same hb]
    exact resolve_congr (fun _ _ => rfl)

/-- No edit of the returned list (or of its inner lists) changes the Property - or anything else. -/
theorem values_get_edits_preserve_store (h : H) (p : Nat) (ops : List Op) (ho : OpsIn (Sn h) ops) :
    Below h (run (getValues h p).1 ops) := by
  obtain ⟨e, c⟩ := good_sn_ext (good_getValues (st_sn_self h) p)
  exact later_edits_preserve e c ops ho

/-- ... and no edit of the Property (or of anything else) changes the returned list. -/
theorem store_edits_preserve_values_got {h : H} (sc : Scoped h) (p : Nat) (ops : List Op)
    (ho : OpsIn (NotBlock h (getValues h p).1) ops) :
    BlockSame h (getValues h p).1 (getValues h p).1 (run (getValues h p).1 ops) :=
  earlier_edits_preserve sc (good_sn_ext (good_getValues (st_sn_self h) p)).1 ops ho

/-- The getter as it was (`list(self._values)`) handed out the inner lists of the Property:
    `p.values[0][0] = "Y"` changed the Property. (Fixed in /repo; the model of the current getter
    satisfies the three theorems above.) -/
def hTuple : H := run empty [.newObj .prop "p" ["2-tuple"] [.tup ["a", "b"]]]

theorem values_get_shallow_counterexample :
    let r := getValuesShallow hTuple 0
    resolve (listInnerSet r.1 r.2 0 0 "Y").1 (valsOf (listInnerSet r.1 r.2 0 0 "Y").1 0)
      ≠ resolve hTuple (valsOf hTuple 0) := by decide

/-! ### A list passed in as `values` -/

/-- The locations of a list `l` the caller holds, plus everything allocated after `h'`. -/
def ListReg (h h' : H) (l : Nat) : Reg :=
  ⟨fun a => h'.nN ≤ a, fun c => c = l ∨ h'.nV ≤ c, fun t => Item.ref t ∈ h.vcell l ∨ h'.nT ≤ t⟩

/-- `p.values = l` binds the Property to a new list with new inner lists and equal content; the
    list passed in is only read. -/
theorem values_set_copies (h : H) (p l : Nat) (hl : l < h.nV) :
    let h' := setValuesItems h p (h.vcell l)
    (h'.node p).vals = some h.nV ∧ h.nV ≠ l ∧ h'.vcell l = h.vcell l ∧
    (∀ t, Item.ref t ∈ h'.vcell h.nV → h.nT ≤ t) ∧
    ((∀ t, Item.ref t ∈ h.vcell l → t < h.nT) → resolve h' (h'.vcell h.nV) = resolve h (h.vcell l)) := by
  obtain ⟨sp, hs⟩ := setValuesItems_spec h p (h.vcell l)
  exact ⟨by rw [sp.nodeP], by omega, sp.vB l hl, fun t ht => (sp.cell t ht).1, hs⟩

/-- No later edit of the list that was passed in (or of its inner lists) changes the Property. -/
theorem edits_of_passed_list_preserve_property (h : H) (p l : Nat) (hp : p < h.nN) (hl : l < h.nV)
    (hb : ∀ t, Item.ref t ∈ h.vcell l → t < h.nT) (ops : List Op)
    (ho : OpsIn (ListReg h (setValuesItems h p (h.vcell l)) l) ops) :
    let h' := setValuesItems h p (h.vcell l)
    let k := run h' ops
    k.node p = h'.node p ∧ k.vcell h.nV = h'.vcell h.nV ∧ (∀ t, h.nT ≤ t → t < h'.nT → k.tcell t = h'.tcell t) := by
  obtain ⟨sp, _⟩ := setValuesItems_spec h p (h.vcell l)
  generalize setValuesItems h p (h.vcell l) = h' at sp ho
  have st : St (ListReg h h' l) h' := by
    refine ⟨⟨fun a ha hlt => by simp only [ListReg] at ha; omega, fun c hc hlt => ?_⟩,
      ⟨fun a ha => ha, fun a ha => Or.inr ha, fun a ha => Or.inr ha⟩⟩
    rcases hc with hc | hc
    · subst hc; rw [sp.vB c hl]; exact fun t ht => Or.inl ht
    · omega
  have g := run_good ops h' st ho
  refine ⟨g.frame.1 p (by simp only [ListReg]; rw [sp.nN]; omega),
    g.frame.2.1 h.nV (by simp only [ListReg]; rw [sp.nV]; omega), fun t h1 h2 => g.frame.2.2 t ?_⟩
  simp only [ListReg]
  intro hc
  rcases hc with hc | hc
  · have := hb t hc; omega
  · omega

/-! ### The hypotheses are satisfiable, the statements are not vacuous -/

/-- A document with a Section holding a 2-tuple Property and a sub-Section. -/
def hDoc : H := run empty
  [.newObj .doc "" ["me"] [], .newObj .sec "s" ["t"] [], .append 0 1,
   .newObj .prop "p" ["2-tuple"] [.tup ["a", "b"], .tup ["c", "d"]], .append 1 2,
   .newObj .sec "u" ["t"] [], .append 1 3]

example : (clone hDoc 0 true false).2 = .ok 4 := by decide
example : (clone hDoc 1 false true).2 = .ok 4 := by decide
example : (exportLeaf hDoc 2).2 = .ok 6 := by decide
example : ((clone hDoc 0 true false).1.nN, (clone hDoc 0 true false).1.nV, (clone hDoc 0 true false).1.nT) = (8, 2, 4) := by
  decide
/-- an edit sequence on the copy: rename a copied Section, edit an inner list obtained through `values` -/
example : OpsIn (Sn hDoc) [.rename 5 "z", .getValues 6, .listInnerSet 2 0 0 "Y", .setValuesFrom 6 2] := by
  intro op hop
  simp only [List.mem_cons, List.mem_nil_iff, or_false] at hop
  rcases hop with rfl | rfl | rfl | rfl <;> constructor <;> intro a ha <;>
    simp [Op.objs, Op.lists] at ha <;> subst ha <;> simp only [Sn] <;> decide
/-- `Scoped` is satisfiable by stores that contain objects: the empty store is scoped and cloning keeps it. -/
example : Scoped (clone (clone empty 0 true false).1 0 true true).1 ∧ (clone (clone empty 0 true false).1 0 true true).1.nN = 2 :=
  ⟨clone_scoped (clone_scoped scoped_empty 0 true false) 0 true true, by decide⟩

/-! ### Well-formedness is an invariant: `Scoped` holds in every reachable store

`WF h` (`Proofs/CloneScoped.lean`): no dangling references (`Scoped h`) and the typing the code enforces
through `SmartList(BaseSection)` / `SmartList(BaseProperty)` and the checks of `append`: `_sections` holds
Sections, `_props` holds Properties, the parent of a Property is a Section, the parent of a Section a
Section or a Document. -/

/-- `Scoped` (no dangling references) is preserved by EVERY operation, with any arguments (`step`
    refuses handles that were never allocated). -/
theorem step_scoped {h : H} (sc : Scoped h) (op : Op) : Scoped (step h op).1 := step_scoped' sc op

/-- ... hence by every operation list. -/
theorem run_scoped {h : H} (sc : Scoped h) (ops : List Op) : Scoped (run h ops) := run_scoped' sc ops

/-- The same for the full well-formedness (references allocated, child lists and parents well-typed). -/
theorem step_wf {h : H} (wf : WF h) (op : Op) : WF (step h op).1 := step_wfg wf op

theorem run_wf {h : H} (wf : WF h) (ops : List Op) : WF (run h ops) := run_wfg ops h wf

/-- Every store built from nothing by any operation list is well-formed, in particular `Scoped`. -/
theorem reachable_wf (ops₀ : List Op) : WF (run empty ops₀) ∧ Scoped (run empty ops₀) :=
  ⟨run_empty_wf ops₀, run_empty_scoped ops₀⟩

/-- `edit_original_preserves_copy` for every reachable store, without the hypothesis `Scoped`: build any
    store (`ops₀` from the empty store), clone any object of it, then apply ANY operation list to
    anything but the copy: the block of the copy is unchanged. -/
theorem edit_original_preserves_copy_reachable (ops₀ : List Op) {h' : H} {x c : Nat} {children keep : Bool}
    (hc : clone (run empty ops₀) x children keep = (h', .ok c)) (ops : List Op)
    (ho : OpsIn (NotBlock (run empty ops₀) h') ops) :
    BlockSame (run empty ops₀) h' h' (run h' ops) :=
  edit_original_preserves_copy (run_empty_scoped ops₀) hc ops ho

/-- The same for `export_leaf`. -/
theorem edit_original_preserves_export_reachable (ops₀ : List Op) {h' : H} {x r : Nat}
    (he : exportLeaf (run empty ops₀) x = (h', .ok r)) (ops : List Op)
    (ho : OpsIn (NotBlock (run empty ops₀) h') ops) :
    BlockSame (run empty ops₀) h' h' (run h' ops) :=
  edit_original_preserves_export (run_empty_scoped ops₀) he ops ho

/-- ... and for the list returned by `values`. -/
theorem store_edits_preserve_values_got_reachable (ops₀ : List Op) (p : Nat) (ops : List Op)
    (ho : OpsIn (NotBlock (run empty ops₀) (getValues (run empty ops₀) p).1) ops) :
    BlockSame (run empty ops₀) (getValues (run empty ops₀) p).1 (getValues (run empty ops₀) p).1
      (run (getValues (run empty ops₀) p).1 ops) :=
  store_edits_preserve_values_got (run_empty_scoped ops₀) p ops ho

/-! ### Equality of the whole tree of a clone

`absTree h n x` (`Proofs/CloneTree.lean`): the pure tree below `x` unfolded to depth `n`: kind, name, all
compared attributes, `_merged`, the values a Property denotes (tuples by content), child Sections and
Properties in order - no ids, no handles.  `idTree h n x`: the same with the id at every position.
Equality for every depth `n` is equality of the (finite) trees. -/

/-- `clone()` returns an object EQUAL to the original at every depth (ids ignored); with
    `children=False`: equal root fields and no children.  The original denotes the same tree after the
    call as before. -/
theorem clone_tree_equal {h h' : H} {x c : Nat} {children keep : Bool} (wf : WF h) (hx : x < h.nN)
    (hc : clone h x children keep = (h', .ok c)) (n : Nat) :
    absTree h' n c = (if children = true then absTree h n x else absTree h 0 x) ∧
    absTree h' n x = absTree h n x := by
  have h0 := dropOnErr_ok hc
  exact ⟨cloneF_tree false wf _ h x children keep h' c (Ext.refl h) hx (fun e => by cases e) h0 n,
    absG_ext wf (cloneF_spec _ h x children keep h' c h0).ext false n x hx⟩

/-- With `keep_id` EVERY object of the copy has the id of the object it was copied from: the trees
    with the id at every position are equal. -/
theorem clone_ids_kept {h h' : H} {x c : Nat} {children : Bool} (wf : WF h) (hx : x < h.nN)
    (hc : clone h x children true = (h', .ok c)) (n : Nat) :
    idTree h' n c = (if children = true then idTree h n x else idTree h 0 x) :=
  cloneF_tree true wf _ h x children true h' c (Ext.refl h) hx (fun _ => rfl) (dropOnErr_ok hc) n

/-- Without `keep_id` the id at EVERY position of the tree of the copy was generated during the call
    and differs from every id in use (`clone_ids_fresh`, position-wise). -/
theorem clone_ids_fresh_tree {h h' : H} {x c : Nat} {children : Bool}
    (hc : clone h x children false = (h', .ok c)) (n : Nat) :
    (idTree h' n c).AllIds (fun i => h.nextId ≤ i ∧ ∀ b, b < h.nN → (h.node b).id < h.nextId → i ≠ (h.node b).id) := by
  have ok := cloneF_spec _ h x children false h' c (dropOnErr_ok hc)
  exact absG_allIds (tclosed_block ok.closed) (fun a ha => clone_ids_fresh hc a ha.1 ha.2) n c
    ⟨by rw [ok.c_eq]; exact Nat.le_refl _, by rw [ok.c_eq]; exact ok.lt⟩

/-- Tree equality for every reachable store (no well-formedness hypothesis): build any store, clone any
    object of it with its children. -/
theorem clone_tree_equal_reachable (ops₀ : List Op) {h' : H} {x c : Nat} {keep : Bool}
    (hx : x < (run empty ops₀).nN) (hc : clone (run empty ops₀) x true keep = (h', .ok c)) (n : Nat) :
    absTree h' n c = absTree (run empty ops₀) n x ∧ (keep = true → idTree h' n c = idTree (run empty ops₀) n x) := by
  refine ⟨by simpa using (clone_tree_equal (run_empty_wf ops₀) hx hc n).1, fun hk => ?_⟩
  subst hk
  simpa using clone_ids_kept (run_empty_wf ops₀) hx hc n

/-- Independence in terms of trees: after ANY operation list applied to anything but the copy, the
    copy still denotes the tree the original had when it was cloned. -/
theorem edit_original_preserves_copy_tree {h h' : H} {x c : Nat} {keep : Bool} (wf : WF h) (hx : x < h.nN)
    (hc : clone h x true keep = (h', .ok c)) (ops : List Op) (ho : OpsIn (NotBlock h h') ops) (n : Nat) :
    absTree (run h' ops) n c = absTree h n x := by
  have ok := cloneF_spec _ h x true keep h' c (dropOnErr_ok hc)
  have bs := edit_original_preserves_copy wf.scoped hc ops ho
  have e1 : absTree (run h' ops) n c = absTree h' n c :=
    absG_block false ok.closed bs n c (by rw [ok.c_eq]; exact Nat.le_refl _) (by rw [ok.c_eq]; exact ok.lt)
  rw [e1]
  simpa using (clone_tree_equal wf hx hc n).1

/-- ... and after ANY operation list applied to the copy, the original still denotes the tree it had. -/
theorem edit_copy_preserves_original_tree {h h' : H} {x c : Nat} {children keep : Bool} (wf : WF h) (hx : x < h.nN)
    (hc : clone h x children keep = (h', .ok c)) (ops : List Op) (ho : OpsIn (Sn h) ops) (n : Nat) :
    absTree (run h' ops) n x = absTree h n x := by
  obtain ⟨b1, b2, b3⟩ := edit_copy_preserves_original hc ops ho
  exact absG_frame false (tclosed_wf wf) (fun a ha => TSame.of_eq (b1 a ha)) b2 b3 n x hx

/-- An ill-typed store no operation list builds: a Section whose `_sections` holds a Property. -/
def hIll : H :=
  { empty with
    node := fun i =>
      if i = 0 then { kind := .sec, name := "s", id := 0, attrs := [], parent := none, secs := [1], props := [],
                      vals := none, merged := none }
      else { kind := .prop, name := "p", id := 1, attrs := [], parent := some 0, secs := [], props := [],
             vals := none, merged := none },
    nN := 2, nextId := 2 }

/-- The hypothesis `WF` of `clone_tree_equal` cannot be dropped for arbitrary stores: on `hIll` (free of
    dangling references, but ill-typed - the code's `SmartList(BaseSection)` refuses such a child) the
    clone succeeds and denotes a different tree: the Property listed as a Section is appended to the
    `_props` of the copy, which are then re-created. `reachable_wf`: no operation list builds such a store. -/
theorem clone_tree_equal_illtyped_counterexample :
    Scoped hIll ∧ ¬ WF hIll ∧ (clone hIll 0 true false).2 = .ok 2 ∧
    absTree (clone hIll 0 true false).1 1 2 ≠ absTree hIll 1 0 := by
  refine ⟨⟨fun a ha _ => ?_, fun c hc _ => ?_⟩, fun wf => ?_, by decide, fun e => ?_⟩
  · have : a = 0 ∨ a = 1 := by simp [Old, hIll] at ha; omega
    rcases this with rfl | rfl
    · exact ⟨fun _ p hp => by simp [hIll] at hp, fun _ c hc => by simp [hIll] at hc; subst hc; simp [Old, hIll],
        fun _ c hc => by simp [hIll] at hc, fun hk => by simp [hIll] at hk⟩
    · exact ⟨fun _ p hp => by simp [hIll] at hp; subst hp; simp [Old, hIll], fun hk => by simp [hIll] at hk,
        fun hk => by simp [hIll] at hk, fun _ c hc => by simp [hIll] at hc⟩
  · simp [Old, hIll, empty] at hc
  · have := ((wf.node 0 (by decide)).2.1 (by decide) 1 (by decide)).2 rfl
    revert this; decide
  · have h1 : ((clone hIll 0 true false).1.node 2).secs = [] := by decide
    have h2 : ((clone hIll 0 true false).1.node 2).kind = .sec := by decide
    have h3 : (hIll.node 0).secs = [1] := by decide
    have h4 : (hIll.node 0).kind = .sec := by decide
    simp only [absG, rootT, h1, h2, h3, h4] at e
    injection e with _ _ _ _ _ _ e7 _
    simp at e7

/-! ### The shape of the result of export_leaf()

`chainSpec h x` (`Proofs/CloneChain.lean`) is computed from the store alone by walking `parent` from the
start object (`x`, for a Property its parent Section) up to the root: the root of the tree is the copy of
the root of the chain, every chain object has the fields AND THE ID of the original, copies of ALL its
Properties with their ids (`chainNode`), and exactly one child Section: the next lower chain element;
the start object has none (`chainTree`). -/

/-- `export_leaf()` returns exactly the chain from the root down to the object (for a Property: to its
    Section), with all Properties of each Section on it and the original ids.  `idTree h' n r` for
    every depth `n` from `fuelOf h` (more than the length of any chain) on IS the specified tree. -/
theorem export_leaf_chain {h h' : H} {x r s : Nat} (wf : WF h) (hx : x < h.nN)
    (hs : exportStart h x = some s) (he : exportLeaf h x = (h', .ok r)) :
    ∃ t, chainSpec h x = some t ∧ ∀ n, fuelOf h ≤ n → idTree h' n r = t :=
  exportLeafF_chain wf hx hs (dropOnErr_ok he)

/-- The remaining case, a Property without a parent: the export is a copy of the Property with its id. -/
theorem export_leaf_detached_property {h h' : H} {x r : Nat} (wf : WF h) (hx : x < h.nN)
    (hs : exportStart h x = none) (he : exportLeaf h x = (h', .ok r)) (n : Nat) :
    idTree h' n r = idTree h 0 x := by
  have h0 := dropOnErr_ok he
  unfold exportStart at hs
  split at hs
  · rename_i hk
    unfold exportLeafF at h0
    rw [hk] at h0
    simp only [hs, Prod.mk.injEq, Res.ok.injEq] at h0
    obtain ⟨rfl, rfl⟩ := h0
    exact cloneProp_tree true wf h x true (Ext.refl h) hx hk (fun _ => rfl) n
  · cases hs

/-- The shape theorem for every reachable store (no well-formedness hypothesis). -/
theorem export_leaf_chain_reachable (ops₀ : List Op) {h' : H} {x r s : Nat} (hx : x < (run empty ops₀).nN)
    (hs : exportStart (run empty ops₀) x = some s) (he : exportLeaf (run empty ops₀) x = (h', .ok r)) :
    ∃ t, chainSpec (run empty ops₀) x = some t ∧ ∀ n, fuelOf (run empty ops₀) ≤ n → idTree h' n r = t :=
  export_leaf_chain (run_empty_wf ops₀) hx hs he

/-! ### The new hypotheses are satisfiable, the new statements are not vacuous -/

/-- `hDoc` (document, section with a 2-tuple Property and a sub-Section) is well-formed ... -/
example : WF hDoc := run_empty_wf _
/-- ... cloning its Section with children succeeds and allocates four objects ... -/
example : 1 < hDoc.nN ∧ (clone hDoc 1 true true).2 = .ok 4 ∧ (clone hDoc 1 true true).1.nN = 7 := by decide
/-- ... exporting the Property (2) starts at its Section (1), the chain is Section, Document ... -/
example : exportStart hDoc 2 = some 1 ∧ chainUp hDoc (fuelOf hDoc) 1 = some [1, 0] ∧ (exportLeaf hDoc 2).2 = .ok 6 := by
  decide
/-- ... a parentless Property is the case of `export_leaf_detached_property` ... -/
example : exportStart hTuple 0 = none ∧ (exportLeaf hTuple 0).2 = .ok 1 := by decide
/-- ... and edits of the original after the clone are operations outside the block of the copy. -/
example : OpsIn (NotBlock hDoc (clone hDoc 1 true true).1) [.rename 3 "z", .setValuesLits 2 [.tup ["x", "y"]], .newId 1] := by
  intro op hop
  simp only [List.mem_cons, List.mem_nil_iff, or_false] at hop
  rcases hop with rfl | rfl | rfl <;> constructor <;> intro a ha <;>
    simp [Op.objs, Op.lists] at ha <;> subst ha <;> simp only [NotBlock] <;> decide

/-- the specified export tree of `hDoc` for the Property exists -/
example : (chainSpec hDoc 2).isSome = true := by decide

/-! ### Ids repeated along the path (round 4)

`export_leaf_chain` holds for every well-formed store; ids are a field like any other. The witness below
shows that its hypotheses are met by a store in which the exported Section carries the id of one of its
ancestors - what `clone(keep_id=True)` followed by `append` builds - and spells out the result. -/

/-- A snapshot of a Section kept inside that Section: `rec.clone(keep_id=True)`, renamed, appended to
    `rec`. Objects: 0 Document, 1 Section "rec", 2 its Property, 3 the copy "snapshot" (child of 1), 4 its
    Property. -/
def hNest : H := run empty
  [.newObj .doc "" ["me"] [], .newObj .sec "rec" ["t"] [], .append 0 1,
   .newObj .prop "rate" ["int"] [], .append 1 2,
   .clone 1 true true, .rename 3 "snapshot", .append 1 3]

/-- The chain law of `export_leaf` does not depend on the ids being distinct: on `hNest` the exported
    Section 3 carries the id of its ancestor 1 (and its Property the id of the ancestor's Property), a store
    the library builds itself with `clone(keep_id=True)`. It is well-formed, the walk from the Property 4
    starts at 3 and passes [3, 1, 0], the export succeeds, the result is the tree `chainSpec` prescribes
    (`export_leaf_chain`), and that tree is not cut at the ancestor with the id of the leaf: Document copy 9
    holds exactly the copy 7 of "rec" with its Property, which holds exactly the copy 5 of "snapshot" with its
    Property and no Section; 5 and 7 carry the same id. -/
theorem export_leaf_chain_repeated_ids :
    WF hNest ∧ (hNest.node 3).id = (hNest.node 1).id ∧ (hNest.node 4).id = (hNest.node 2).id ∧
    exportStart hNest 4 = some 3 ∧ chainUp hNest (fuelOf hNest) 3 = some [3, 1, 0] ∧
    (exportLeaf hNest 4).2 = .ok 9 ∧
    (∃ t, chainSpec hNest 4 = some t ∧ ∀ n, fuelOf hNest ≤ n → idTree (exportLeaf hNest 4).1 n 9 = t) ∧
    (((exportLeaf hNest 4).1.node 9).secs, ((exportLeaf hNest 4).1.node 7).secs, ((exportLeaf hNest 4).1.node 5).secs)
      = ([7], [5], []) ∧
    (((exportLeaf hNest 4).1.node 7).props, ((exportLeaf hNest 4).1.node 5).props) = ([8], [6]) ∧
    ((exportLeaf hNest 4).1.node 5).id = ((exportLeaf hNest 4).1.node 7).id ∧
    ((exportLeaf hNest 4).1.node 5).name = "snapshot" ∧ ((exportLeaf hNest 4).1.node 7).name = "rec" := by
  refine ⟨run_empty_wf _, by decide, by decide, by decide, by decide, by decide, ?_, by decide, by decide,
    by decide, by decide, by decide⟩
  have he : exportLeaf hNest 4 = ((exportLeaf hNest 4).1, .ok 9) := by
    have : (exportLeaf hNest 4).2 = .ok 9 := by decide
    exact Prod.ext rfl this
  exact export_leaf_chain (run_empty_wf _) (by decide) (by decide : exportStart hNest 4 = some 3) he

/-! ### A copy answers for itself: nothing is taken over from the surroundings of the original -/

/-- Inside a tree a Section answers `get_repository()` (`inherited`) with the repository of the nearest
    Section above it, or of the Document, when it has none of its own. The copy `clone` hands out is
    detached and carries the attributes of the original object itself: for EVERY attribute position
    `k` (the repository is one) it answers with the original's OWN value `ownAttr h x k` - `none` when
    the original has none, whatever the Sections above the original and its Document carry. This is the
    clause "detached object equal to the original" for attributes that are looked up in the
    surroundings; `TemplateHandler.clone_section` is `doc[name].clone(children, keep_id)`. -/
theorem clone_inherits_nothing {h h' : H} {x c : Nat} {children keep : Bool}
    (hc : clone h x children keep = (h', .ok c)) (k fuel : Nat) :
    inherited h' (fuel + 1) c k = ownAttr h x k ∧ ownAttr h' c k = ownAttr h x k := by
  have hd := (clone_detached_new hc).2.2.1
  have ha := (clone_root_equal hc).2.2.1
  have ho : ownAttr h' c k = ownAttr h x k := by simp [ownAttr, ha]
  refine ⟨?_, ho⟩
  simp only [inherited, ho, hd]
  cases ownAttr h x k <;> rfl

/-- A template: Document 0 with the repository 'R', root Section 1 "rig" without one, its sub-Section 2
    "room" with its own 'Q', root Section 3 "own" with 'S'. (Attribute positions as in the harness:
    type / author, definition / version, reference / date, repository.) -/
def hRepo : H := run empty
  [.newObj .doc "" ["'me'", "'1'", "None", "'R'"] [], .newObj .sec "rig" ["'setup'", "None", "None", "None"] [],
   .append 0 1, .newObj .sec "room" ["'t'", "None", "None", "'Q'"] [], .append 1 2,
   .newObj .sec "own" ["'setup'", "None", "None", "'S'"] [], .append 0 3]

/-- The statement is not vacuous, and the hypothesis "what the Sections above carry" matters: in the
    template "rig" answers with the Document's 'R'; its copy (children and keep_id both ways) answers
    with nothing, the copies of "room" and "own" with their own, and "room" inside the copy of "rig"
    still with its own. -/
theorem clone_inherits_nothing_template :
    WF hRepo ∧ inherited hRepo 5 1 repoAttr = some "'R'" ∧ ownAttr hRepo 1 repoAttr = none ∧
    (clone hRepo 1 true false).2 = .ok 4 ∧
    inherited (clone hRepo 1 true false).1 5 4 repoAttr = none ∧
    inherited (clone hRepo 1 true false).1 5 5 repoAttr = some "'Q'" ∧
    inherited (clone hRepo 1 false true).1 5 4 repoAttr = none ∧
    inherited (clone hRepo 3 true false).1 5 4 repoAttr = some "'S'" ∧
    inherited (clone hRepo 2 true true).1 5 4 repoAttr = some "'Q'" := by
  refine ⟨run_empty_wf _, by decide, by decide, by decide, by decide, by decide, by decide, by decide,
    by decide⟩

/-! ### Hidden state a copy shares with its original: the record of a merge (`_merged_attrs`)

`clone()` is `copy.copy`: the copy of a Section holds the ADDRESS of the dict in which `merge` has noted the
definition / reference it filled in from the merged Section (`Node.mattrs` into the address space `dcell`).
Until one of the two binds another dict they share it. The code relies on every write being a binding
(`self._merged_attrs = filled` of a new `dict(...)`, `self._merged_attrs = {}`); the theorems below state
that, and what follows from it for copy and original. -/

/-- The frame lemma of the dicts, for every store, every operation list with any arguments: a dict that
    exists is never written (all 22 operations, merge and unmerge included: every write binds a new
    dict), and dicts are only added. -/
theorem record_dicts_never_written (h : H) (ops : List Op) :
    h.nD ≤ (run h ops).nD ∧ ∀ d, d < h.nD → (run h ops).dcell d = h.dcell d :=
  ⟨(run_dframe ops h).mono, (run_dframe ops h).same⟩

/-- What the operations other than `Section(…)`, merge and unmerge do to the dicts: nothing. In
    particular `clone` (whatever the outcome) makes no dict. -/
theorem clone_makes_no_dict (h : H) (x : Nat) (children keep : Bool) :
    (clone h x children keep).1.dcell = h.dcell ∧ (clone h x children keep).1.nD = h.nD :=
  ⟨(dsame_clone h x children keep).dcell, (dsame_clone h x children keep).nD⟩

/-- The copy SHARES the record with the original: it holds the same address, so it is equal to the
    original in this piece of state as well (`recOf`), and the dict is the very same one. -/
theorem clone_shares_record {h h' : H} {x c : Nat} {children keep : Bool}
    (hc : clone h x children keep = (h', .ok c)) :
    (h'.node c).mattrs = (h.node x).mattrs ∧ h'.dcell = h.dcell ∧ h'.nD = h.nD ∧ recOf h' c = recOf h x := by
  have r := cloneF_fields _ h x children keep h' c (dropOnErr_ok hc)
  have d := dsame_clone h x children keep
  rw [hc] at d
  exact ⟨r.mattrs, d.dcell, d.nD, by unfold recOf; rw [r.mattrs, d.dcell]⟩

/-- No edit sequence applied to the copy - merge, unmerge, attribute edits, further clones, anything of
    `Op` - changes what the record of the original holds, nor that of any other object that existed when
    the copy was made: although copy and original share the dict, every write on the copy's side binds a
    new one. `DScoped h`: the record addresses of `h` are allocated (holds in every reachable store). -/
theorem edit_copy_preserves_original_record {h h' : H} {x c : Nat} {children keep : Bool} (ds : DScoped h)
    (hc : clone h x children keep = (h', .ok c)) (ops : List Op) (ho : OpsIn (Sn h) ops) (a : Nat)
    (ha : a < h.nN) :
    recOf (run h' ops) a = recOf h a ∧ ((run h' ops).node a).mattrs = (h.node a).mattrs := by
  have b := edit_copy_preserves_original hc ops ho
  have e : Ext h h' := by have := clone_writes_only_new h x children keep; rwa [hc] at this
  obtain ⟨_, hd, hD, _⟩ := clone_shares_record hc
  have hn : (run h' ops).node a = h'.node a := by rw [b.1 a ha, e.2.1 a ha]
  have hm : (h'.node a).mattrs < h'.nD := by rw [e.2.1 a ha, hD]; exact ds.2 a
  refine ⟨?_, by rw [b.1 a ha]⟩
  rw [recOf_run ops a hm hn]
  unfold recOf
  rw [e.2.1 a ha, hd]

/-- ... and vice versa: no edit sequence applied to the original (or to anything that is not part of the
    copy) changes what the record of the copy - of any object of the copy - holds; the root of the copy
    keeps the record the original had when it was cloned. -/
theorem edit_original_preserves_copy_record {h h' : H} {x c : Nat} {children keep : Bool} (sc : Scoped h)
    (ds : DScoped h) (hc : clone h x children keep = (h', .ok c)) (ops : List Op)
    (ho : OpsIn (NotBlock h h') ops) :
    (∀ a, h.nN ≤ a → a < h'.nN → recOf (run h' ops) a = recOf h' a) ∧ recOf (run h' ops) c = recOf h x := by
  have bs := edit_original_preserves_copy sc hc ops ho
  have d := dsame_clone h x children keep
  rw [hc] at d
  have ds' : DScoped h' := d.frame.scoped ds
  have all : ∀ a, h.nN ≤ a → a < h'.nN → recOf (run h' ops) a = recOf h' a :=
    fun a h1 h2 => recOf_run ops a (ds'.2 a) (bs.1 a h1 h2)
  obtain ⟨c1, c2, _, _⟩ := clone_detached_new hc
  exact ⟨all, by rw [all c c1 c2, (clone_shares_record hc).2.2.2]⟩

/-- Both directions for every reachable store, no hypothesis left: build any store (`ops₀`, merges and
    unmerges included), clone any object; afterwards ANY operation list on the copy's side leaves the
    record of every object that existed as it was, and ANY operation list on the original's side leaves the
    record of every object of the copy as it was. -/
theorem record_independent_reachable (ops₀ : List Op) {h' : H} {x c : Nat} {children keep : Bool}
    (hc : clone (run empty ops₀) x children keep = (h', .ok c)) (ops : List Op) :
    (OpsIn (Sn (run empty ops₀)) ops → ∀ a, a < (run empty ops₀).nN →
      recOf (run h' ops) a = recOf (run empty ops₀) a) ∧
    (OpsIn (NotBlock (run empty ops₀) h') ops →
      (∀ a, (run empty ops₀).nN ≤ a → a < h'.nN → recOf (run h' ops) a = recOf h' a) ∧
      recOf (run h' ops) c = recOf (run empty ops₀) x) :=
  ⟨fun ho a ha => (edit_copy_preserves_original_record (run_empty_dscoped ops₀) hc ops ho a ha).1,
   fun ho => edit_original_preserves_copy_record (run_empty_scoped ops₀) (run_empty_dscoped ops₀) hc ops ho⟩

/-- Independence over the rest of the history (the counterfactual reading): what `unmerge` / `clean` later
    does to the attributes of the original is the same whether or not the copy was edited in between - the
    attributes the original has afterwards are those it had at clone time with what ITS record held then
    taken back (`takeBackL`), whatever was done to the copy. -/
theorem unmerge_original_unaffected_by_copy_edits {h h' : H} {x c : Nat} {children keep : Bool} (ds : DScoped h)
    (hc : clone h x children keep = (h', .ok c)) (ops : List Op) (ho : OpsIn (Sn h) ops) (a : Nat) (ha : a < h.nN) :
    ((unmergeAttrs (run h' ops) a).node a).attrs = ((unmergeAttrs h a).node a).attrs := by
  rw [unmergeAttrs_attrs, unmergeAttrs_attrs, (edit_copy_preserves_original_record ds hc ops ho a ha).1,
    (edit_copy_preserves_original hc ops ho).1 a ha]

/-- ... and what `unmerge` later does to the copy does not depend on what was done to the original. -/
theorem unmerge_copy_unaffected_by_original_edits {h h' : H} {x c : Nat} {children keep : Bool} (sc : Scoped h)
    (ds : DScoped h) (hc : clone h x children keep = (h', .ok c)) (ops : List Op) (ho : OpsIn (NotBlock h h') ops) :
    ((unmergeAttrs (run h' ops) c).node c).attrs = ((unmergeAttrs h' c).node c).attrs := by
  obtain ⟨c1, c2, _, _⟩ := clone_detached_new hc
  rw [unmergeAttrs_attrs, unmergeAttrs_attrs, (edit_original_preserves_copy_record sc ds hc ops ho).1 c c1 c2,
    (edit_original_preserves_copy sc hc ops ho).1 c c1 c2]

/-- The same for `merge`: the attributes and the record a later (recorded) merge of the original with any
    Section `s` of the original's side leaves on the original are the same whether or not the copy was
    edited in between (both are `fillL` / `fillR` of the two attribute lists and of the original's record,
    none of which an edit of the copy changes). -/
theorem merge_original_unaffected_by_copy_edits {h h' : H} {x c : Nat} {children keep : Bool} (ds : DScoped h)
    (hc : clone h x children keep = (h', .ok c)) (ops : List Op) (ho : OpsIn (Sn h) ops) (a s : Nat)
    (ha : a < h.nN) (hs : s < h.nN) (hne : s ≠ a) :
    ((mergeAttrs (run h' ops) a s true).node a).attrs = ((mergeAttrs h a s true).node a).attrs ∧
    recOf (mergeAttrs (run h' ops) a s true) a = recOf (mergeAttrs h a s true) a := by
  obtain ⟨p1, p2⟩ := mergeAttrs_spec (run h' ops) a s hne
  obtain ⟨q1, q2⟩ := mergeAttrs_spec h a s hne
  have b := edit_copy_preserves_original hc ops ho
  rw [p1, p2, q1, q2, (edit_copy_preserves_original_record ds hc ops ho a ha).1, b.1 a ha, b.1 s hs]
  exact ⟨rfl, rfl⟩

/-- ... and a later merge of the copy (with any Section that is not part of the original's side being
    edited: here one of the copy's block) does not depend on edits of the original. -/
theorem merge_copy_unaffected_by_original_edits {h h' : H} {x c : Nat} {children keep : Bool} (sc : Scoped h)
    (ds : DScoped h) (hc : clone h x children keep = (h', .ok c)) (ops : List Op) (ho : OpsIn (NotBlock h h') ops)
    (s : Nat) (hs1 : h.nN ≤ s) (hs2 : s < h'.nN) (hne : s ≠ c) :
    ((mergeAttrs (run h' ops) c s true).node c).attrs = ((mergeAttrs h' c s true).node c).attrs ∧
    recOf (mergeAttrs (run h' ops) c s true) c = recOf (mergeAttrs h' c s true) c := by
  obtain ⟨c1, c2, _, _⟩ := clone_detached_new hc
  obtain ⟨p1, p2⟩ := mergeAttrs_spec (run h' ops) c s hne
  obtain ⟨q1, q2⟩ := mergeAttrs_spec h' c s hne
  have bs := edit_original_preserves_copy sc hc ops ho
  rw [p1, p2, q1, q2, (edit_original_preserves_copy_record sc ds hc ops ho).1 c c1 c2, bs.1 c c1 c2, bs.1 s hs1 hs2]
  exact ⟨rfl, rfl⟩

/-- The same for the copy `export_leaf()` hands out (every Section of the exported chain is a
    `clone(children=False, keep_id=True)`, i.e. shares the dict of the Section it was copied from):
    `export_leaf` makes no dict, no edit sequence applied to the export changes what the record of any
    object that existed holds ... -/
theorem edit_export_preserves_original_record {h h' : H} {x r : Nat} (ds : DScoped h)
    (he : exportLeaf h x = (h', .ok r)) (ops : List Op) (ho : OpsIn (Sn h) ops) (a : Nat) (ha : a < h.nN) :
    h'.dcell = h.dcell ∧ h'.nD = h.nD ∧ recOf (run h' ops) a = recOf h a := by
  have b := edit_export_preserves_original he ops ho
  have e : Ext h h' := by have := export_writes_only_new h x; rwa [he] at this
  have d := dsame_exportLeaf h x
  rw [he] at d
  have hn : (run h' ops).node a = h'.node a := by rw [b.1 a ha, e.2.1 a ha]
  have hm : (h'.node a).mattrs < h'.nD := by rw [e.2.1 a ha, d.nD]; exact ds.2 a
  refine ⟨d.dcell, d.nD, ?_⟩
  rw [recOf_run ops a hm hn]
  unfold recOf
  rw [e.2.1 a ha, d.dcell]

/-- ... and no edit sequence applied to anything but the export changes what the record of any object of
    the export holds. -/
theorem edit_original_preserves_export_record {h h' : H} {x r : Nat} (sc : Scoped h) (ds : DScoped h)
    (he : exportLeaf h x = (h', .ok r)) (ops : List Op) (ho : OpsIn (NotBlock h h') ops) (a : Nat)
    (h1 : h.nN ≤ a) (h2 : a < h'.nN) : recOf (run h' ops) a = recOf h' a := by
  have bs := edit_original_preserves_export sc he ops ho
  have d := dsame_exportLeaf h x
  rw [he] at d
  exact recOf_run ops a ((d.frame.scoped ds).2 a) (bs.1 a h1 h2)

/-- A Document with a Section "s" that has no definition / reference of its own (1) and a Section "tgt"
    that has both (2); "s" is merged with "tgt" (`link` resolved): definition and reference are filled in
    and noted in the record of "s". -/
def hMerged : H := run empty
  [.newObj .doc "" ["'me'", "'1'", "None", "None"] [],
   .newObj .sec "s" ["'t'", "None", "None", "None"] [], .append 0 1,
   .newObj .sec "tgt" ["'t'", "'D'", "'R'", "None"] [], .append 0 2,
   .mergeAttrs 1 2 true]

/-- The hypotheses are met by a store with a non-empty record, and the statements are not vacuous: the
    store is `DScoped` and `Scoped`, "s" carries the filled-in values and its record holds them, the clone
    of "s" is object 3 and holds the same address; an edit list on the copy that unmerges it and merges it
    again (with the Section "tgt" of the original document, which is only read) is `OpsIn (Sn hMerged)`. -/
example : DScoped hMerged ∧ Scoped hMerged ∧ (hMerged.node 1).attrs = ["'t'", "'D'", "'R'", "None"] ∧
    recOf hMerged 1 = [(1, "'D'"), (2, "'R'")] ∧ (clone hMerged 1 true false).2 = .ok 3 ∧
    ((clone hMerged 1 true false).1.node 3).mattrs = (hMerged.node 1).mattrs :=
  ⟨run_empty_dscoped _, run_empty_scoped _, by decide, by decide, by decide, by decide⟩
example : OpsIn (Sn hMerged) [.unmergeAttrs 3, .mergeAttrs 3 2 true, .setAttr 3 1 "'X'"] := by
  intro op hop
  simp only [List.mem_cons, List.mem_nil_iff, or_false] at hop
  rcases hop with rfl | rfl | rfl <;> constructor <;> intro a ha <;>
    simp [Op.objs, Op.lists] at ha <;> subst ha <;> simp only [Sn] <;> decide

/-- The code as it is, on the witness: the copy of the merged Section is unmerged (`copy.clean()`): the
    record of the original still holds both values, and cleaning the original afterwards takes both back. -/
theorem unmerge_copy_then_original_witness :
    let h1 := (clone hMerged 1 true false).1
    let h2 := unmergeAttrs h1 3
    recOf h1 3 = recOf hMerged 1 ∧ recOf h2 3 = [] ∧ (h2.node 3).attrs = ["'t'", "None", "None", "None"] ∧
    recOf h2 1 = [(1, "'D'"), (2, "'R'")] ∧
    ((unmergeAttrs h2 1).node 1).attrs = ["'t'", "None", "None", "None"] := by decide

/-- Seeded change C11-G (`unmerge` ends with `self._merged_attrs.clear()`: a write INTO the dict that is
    bound) violates the clause on the same witness: unmerging the COPY empties the record of the ORIGINAL,
    which then keeps the definition and reference of "tgt" as if they were its own when it is cleaned. -/
theorem unmerge_in_place_counterexample :
    let h1 := (clone hMerged 1 true false).1
    let h2 := unmergeAttrsInPlace h1 3
    recOf h2 1 ≠ recOf h1 1 ∧ recOf h2 1 = [] ∧
    ((unmergeAttrs h2 1).node 1).attrs = ["'t'", "'D'", "'R'", "None"] ∧
    ((unmergeAttrs h2 1).node 1).attrs ≠ ((unmergeAttrs h1 1).node 1).attrs := by decide

/-- A Document with a Section "s" without a definition (1) and a Section "tgt" with one (2); nothing is
    merged yet. -/
def hLate : H := run empty
  [.newObj .doc "" ["'me'", "'1'", "None", "None"] [],
   .newObj .sec "s" ["'t'", "None", "None", "None"] [], .append 0 1,
   .newObj .sec "tgt" ["'t'", "'D'", "None", "None"] [], .append 0 2]

/-- Seeded change C12-G (`merge` notes what it fills in by `self._merged_attrs[attr] = …`, item assignment
    on the dict that is bound): the record is written AFTER the copy was made. "s" is cloned (3), the COPY
    is merged with "tgt"; the ORIGINAL's record now holds the definition although nothing was merged into
    it, and a definition 'D' the user then gives the original is taken away by its next `unmerge`. With the
    code as it is (`mergeAttrs`) the record of the original stays empty and the definition stays. -/
theorem merge_in_place_counterexample :
    let h1 := (clone hLate 1 true false).1
    let bad := setAttr (mergeAttrsInPlace h1 3 2) 1 defAttr "'D'"
    let good := setAttr (mergeAttrs h1 3 2 true) 1 defAttr "'D'"
    recOf h1 1 = [] ∧ recOf bad 1 = [(1, "'D'")] ∧ recOf good 1 = [] ∧ recOf good 3 = [(1, "'D'")] ∧
    ((unmergeAttrs bad 1).node 1).attrs = ["'t'", "None", "None", "None"] ∧
    ((unmergeAttrs good 1).node 1).attrs = ["'t'", "'D'", "None", "None"] := by decide

end C11
