/-
C11 - Copies handed out are equal to, and independent of, the original.

Vocabulary (Model/Clone.lean, Proofs/Clone*.lean):
  `H`                       the store: objects, value lists, inner (tuple) lists, by address
  `clone h x children keep` `x.clone(children, keep_id)`;  `exportLeaf h x` = `x.export_leaf()`
  `getValues h p`           `p.values`;  `setValuesItems h p (h.vcell l)` = `p.values = l`
  `Ext h h'`                `h'` is `h` plus new locations: nothing that exists in `h` was written
  `Below h k`               every object / list / inner list of `h` has the same content in `k`
  `Closed k R`              no reference (parent, child lists, value list, inner lists) held inside the
                            region `R` leads out of it
  `rng h h'`, `Sn h`        the block of locations allocated between `h` and `h'` / from `h` on
  `NotBlock h h'`           everything else
  `run k ops`               the store after the edit sequence `ops` (any of the 19 operations of `Op`:
                            value edits, in-place edits of lists held by the caller and of their inner
                            lists, renames, attribute / cardinality / dtype changes, new objects, append,
                            remove, new ids, further clones and exports)
  `OpsIn R ops`             every operation of `ops` is applied to objects / lists of `R`
  `Scoped h`                no dangling references in `h`
All theorems hold for every store, object, flag combination and edit sequence: no bound on sizes.
-/
import OdmlModel.Proofs.CloneIds
namespace C11
open Clone

/-! ### clone() -/

/-- Cloning writes nothing that exists - whatever the outcome. The original, and everything
    else, is as it was. -/
theorem clone_writes_only_new (h : H) (x : Nat) (children keep : Bool) :
    Ext h (clone h x children keep).1 := by
  unfold clone
  generalize hr : cloneF (fuelOf h) h x children keep = r
  obtain ⟨h1, res⟩ := r
  cases res with
  | ok c => exact (cloneF_spec _ h x children keep h1 c hr).ext
  | err e => exact Ext.refl h

/-- The copy is a new, detached object of the same kind. -/
theorem clone_detached_new {h h' : H} {x c : Nat} {children keep : Bool}
    (hc : clone h x children keep = (h', .ok c)) :
    h.nN ≤ c ∧ c < h'.nN ∧ (h'.node c).parent = none ∧ (h'.node c).kind = (h.node x).kind := by
  have sp := cloneF_spec _ h x children keep h' c (dropOnErr_ok hc)
  exact ⟨by rw [sp.c_eq]; exact Nat.le_refl _, by rw [sp.c_eq]; exact sp.lt, sp.parent, sp.kind⟩

/-- All sub-objects of the copy are new, and copy and original are separate: the block of new
    locations is closed (nothing in the copy refers to anything that existed), and what existed
    refers to nothing of the block. -/
theorem clone_separate {h h' : H} {x c : Nat} {children keep : Bool}
    (hc : clone h x children keep = (h', .ok c)) :
    Closed h' (rng h h') ∧ (Scoped h → Closed h' (Old h)) := by
  have sp := cloneF_spec _ h x children keep h' c (dropOnErr_ok hc)
  refine ⟨sp.closed, fun sc => ⟨fun a ha _ => ?_, fun a ha _ => ?_⟩⟩
  · rw [sp.ext.2.1 a ha]; exact sc.1 a ha ha
  · rw [sp.ext.2.2.1 a ha]; exact sc.2 a ha ha

/-- No edit sequence applied to the copy (its objects, lists obtained from it, anything created
    afterwards) ever changes the original - or anything else that existed when the copy was made. -/
theorem edit_copy_preserves_original {h h' : H} {x c : Nat} {children keep : Bool}
    (hc : clone h x children keep = (h', .ok c)) (ops : List Op) (ho : OpsIn (Sn h) ops) :
    Below h (run h' ops) := by
  have sp := cloneF_spec _ h x children keep h' c (dropOnErr_ok hc)
  exact later_edits_preserve sp.ext (closed_rng_sn sp.closed) ops ho

/-- ... and vice versa: no edit sequence applied to the original (or to anything that is not part
    of the copy) ever changes the copy. -/
theorem edit_original_preserves_copy {h h' : H} {x c : Nat} {children keep : Bool} (sc : Scoped h)
    (hc : clone h x children keep = (h', .ok c)) (ops : List Op) (ho : OpsIn (NotBlock h h') ops) :
    BlockSame h h' h' (run h' ops) :=
  earlier_edits_preserve sc (cloneF_spec _ h x children keep h' c (dropOnErr_ok hc)).ext ops ho

/-- With `children=False` the copy has no children: it is the only new object. -/
theorem clone_no_children {h h' : H} {x c : Nat} {keep : Bool} (hk : (h.node x).kind ≠ .prop)
    (hc : clone h x false keep = (h', .ok c)) :
    (h'.node c).secs = [] ∧ ((h.node x).kind = .sec → (h'.node c).props = []) ∧ h'.nN = h.nN + 1 := by
  have h0 := dropOnErr_ok hc
  unfold fuelOf at h0
  simp only [cloneF, if_neg hk, cloneBody, Bool.false_eq_true, if_false, allocN_ret] at h0
  split at h0
  · simp only [Prod.mk.injEq, Res.ok.injEq] at h0
    obtain ⟨rfl, rfl⟩ := h0
    refine ⟨?_, fun hs => ?_, ?_⟩
    · split <;> simp [newId_node]
    · rename_i hd; rw [hd] at hs; cases hs
    · split <;> simp
  · simp only [Prod.mk.injEq, Res.ok.injEq] at h0
    obtain ⟨rfl, rfl⟩ := h0
    refine ⟨?_, fun _ => ?_, ?_⟩
    · split <;> simp [newId_node]
    · simp
    · split <;> simp

/-- The copy carries the content of the original: kind, name and every attribute `==` compares
    are equal, the reference to a merged object is the same; the id is the original's when
    `keep_id` is set and otherwise one that was not in use (`uuid4`: at or beyond the old counter). -/
theorem clone_root_equal {h h' : H} {x c : Nat} {children keep : Bool}
    (hc : clone h x children keep = (h', .ok c)) :
    (h'.node c).kind = (h.node x).kind ∧ (h'.node c).name = (h.node x).name ∧
    (h'.node c).attrs = (h.node x).attrs ∧ (h'.node c).merged = (h.node x).merged ∧
    (keep = true → (h'.node c).id = (h.node x).id) ∧
    (keep = false → h.nextId ≤ (h'.node c).id ∧ (h'.node c).id < h'.nextId) := by
  have r := cloneF_fields _ h x children keep h' c (dropOnErr_ok hc)
  exact ⟨r.kind, r.name, r.attrs, r.merged, r.idKept, r.idFresh⟩

/-- Without `keep_id` EVERY object of the copy - at every depth: all of them lie in the block of new
    objects (`clone_separate`) - carries an id generated during the call, i.e. one that was not in use
    (`IdsBelow`: the ids in use are below the counter). -/
theorem clone_ids_fresh {h h' : H} {x c : Nat} {children : Bool}
    (hc : clone h x children false = (h', .ok c)) :
    ∀ a, h.nN ≤ a → a < h'.nN → h.nextId ≤ (h'.node a).id ∧
      (∀ b, b < h.nN → (h.node b).id < h.nextId → (h'.node a).id ≠ (h.node b).id) := by
  intro a h1 h2
  have := cloneF_ids _ h x children h' c (dropOnErr_ok hc) a h1 h2
  exact ⟨this, fun b _ hb => by omega⟩

/-- A cloned Property is equal to the original: besides the fields above its values denote the same
    atoms and tuples, held in a new list with new inner lists. -/
theorem clone_property_equal {h h' : H} {x c : Nat} {children keep : Bool} (hk : (h.node x).kind = .prop)
    (hx : x < h.nN) (hb : ∀ t, Item.ref t ∈ valsOf h x → t < h.nT)
    (hc : clone h x children keep = (h', .ok c)) :
    resolve h' (valsOf h' c) = resolve h (valsOf h x) ∧ (h'.node c).vals = some h.nV ∧
    (∀ t, Item.ref t ∈ valsOf h' c → h.nT ≤ t) := by
  have h0 := dropOnErr_ok hc
  unfold fuelOf at h0
  simp only [cloneF, if_pos hk, Prod.mk.injEq, Res.ok.injEq] at h0
  obtain ⟨rfl, rfl⟩ := h0
  have s := cloneProp_spec h x keep
  have hv : ((cloneProp h x keep).1.node (cloneProp h x keep).2).vals = some h.nV := by rw [s.node]
  refine ⟨?_, hv, ?_⟩
  · simp only [valsOf, hv]; exact s.same hx hb
  · intro t ht
    simp only [valsOf, hv] at ht
    exact (s.cell t ht).1

/-- The store stays free of dangling references. -/
theorem clone_scoped {h : H} (sc : Scoped h) (x : Nat) (children keep : Bool) :
    Scoped (clone h x children keep).1 := by
  unfold clone
  generalize hr : cloneF (fuelOf h) h x children keep = r
  obtain ⟨h1, res⟩ := r
  cases res with
  | ok c =>
    have sp := cloneF_spec _ h x children keep h1 c hr
    exact scoped_ext sc sp.ext sp.closed
  | err e => exact sc

/-! ### export_leaf() -/

theorem export_writes_only_new (h : H) (x : Nat) : Ext h (exportLeaf h x).1 := by
  unfold exportLeaf
  generalize hr : exportLeafF h x = r
  obtain ⟨h1, res⟩ := r
  cases res with
  | ok c => exact (good_sn_ext (exportLeafF_good h x h1 c hr).1).1
  | err e => exact Ext.refl h

/-- The export is made of new objects only and nothing in it refers to anything that existed. -/
theorem export_separate {h h' : H} {x r : Nat} (he : exportLeaf h x = (h', .ok r)) :
    h.nN ≤ r ∧ Closed h' (Sn h) := by
  have g := exportLeafF_good h x h' r (dropOnErr_ok he)
  exact ⟨g.2, (good_sn_ext g.1).2⟩

theorem edit_export_preserves_original {h h' : H} {x r : Nat} (he : exportLeaf h x = (h', .ok r))
    (ops : List Op) (ho : OpsIn (Sn h) ops) : Below h (run h' ops) := by
  obtain ⟨e, c⟩ := good_sn_ext (exportLeafF_good h x h' r (dropOnErr_ok he)).1
  exact later_edits_preserve e c ops ho

theorem edit_original_preserves_export {h h' : H} {x r : Nat} (sc : Scoped h)
    (he : exportLeaf h x = (h', .ok r)) (ops : List Op) (ho : OpsIn (NotBlock h h') ops) :
    BlockSame h h' h' (run h' ops) :=
  earlier_edits_preserve sc (good_sn_ext (exportLeafF_good h x h' r (dropOnErr_ok he)).1).1 ops ho

/-! ### The list returned by `values` -/

/-- `p.values` is a new list with new inner lists, equal to what the Property holds. -/
theorem values_get_new_equal (h : H) (p : Nat) :
    let r := getValues h p
    Ext h r.1 ∧ r.2 = h.nV ∧ r.1.nV = h.nV + 1 ∧ (∀ t, Item.ref t ∈ r.1.vcell r.2 → h.nT ≤ t) ∧
    ((∀ t, Item.ref t ∈ valsOf h p → t < h.nT) → resolve r.1 (r.1.vcell r.2) = resolve h (valsOf h p)) := by
  have cs := convertItems_spec (valsOf h p) h
  simp only [getValues]
  generalize convertItems h (valsOf h p) = cv at cs
  obtain ⟨h1, items⟩ := cv
  simp only at cs ⊢
  refine ⟨cs.ext.trans (ext_allocV h1 items), by simp [cs.nV], by simp [cs.nV], ?_, fun hb => ?_⟩
  · intro t ht
    simp only [allocV_ret, allocV_vcell, if_true] at ht
    exact (cs.fresh t ht).1
  · simp only [allocV_ret, allocV_vcell, if_true]
    rw [← cs.same hb]
    exact resolve_congr (fun _ _ => rfl)

/-- No edit of the returned list (or of its inner lists) changes the Property - or anything else. -/
theorem values_get_edits_preserve_store (h : H) (p : Nat) (ops : List Op) (ho : OpsIn (Sn h) ops) :
    Below h (run (getValues h p).1 ops) := by
  obtain ⟨e, c⟩ := good_sn_ext (good_getValues (st_sn_self h) p)
  exact later_edits_preserve e c ops ho

/-- ... and no edit of the Property (or of anything else) changes the returned list. -/
theorem store_edits_preserve_values_got {h : H} (sc : Scoped h) (p : Nat) (ops : List Op)
    (ho : OpsIn (NotBlock h (getValues h p).1) ops) :
    BlockSame h (getValues h p).1 (getValues h p).1 (run (getValues h p).1 ops) :=
  earlier_edits_preserve sc (good_sn_ext (good_getValues (st_sn_self h) p)).1 ops ho

/-- The getter as it was (`list(self._values)`) handed out the inner lists of the Property:
    `p.values[0][0] = "Y"` changed the Property. (Fixed in /repo; the model of the current getter
    satisfies the three theorems above.) -/
def hTuple : H := run empty [.newObj .prop "p" ["2-tuple"] [.tup ["a", "b"]]]

theorem values_get_shallow_counterexample :
    let r := getValuesShallow hTuple 0
    resolve (listInnerSet r.1 r.2 0 0 "Y").1 (valsOf (listInnerSet r.1 r.2 0 0 "Y").1 0)
      ≠ resolve hTuple (valsOf hTuple 0) := by decide

/-! ### A list passed in as `values` -/

/-- The locations of a list `l` the caller holds, plus everything allocated after `h'`. -/
def ListReg (h h' : H) (l : Nat) : Reg :=
  ⟨fun a => h'.nN ≤ a, fun c => c = l ∨ h'.nV ≤ c, fun t => Item.ref t ∈ h.vcell l ∨ h'.nT ≤ t⟩

/-- `p.values = l` binds the Property to a new list with new inner lists and equal content; the
    list passed in is only read. -/
theorem values_set_copies (h : H) (p l : Nat) (hl : l < h.nV) :
    let h' := setValuesItems h p (h.vcell l)
    (h'.node p).vals = some h.nV ∧ h.nV ≠ l ∧ h'.vcell l = h.vcell l ∧
    (∀ t, Item.ref t ∈ h'.vcell h.nV → h.nT ≤ t) ∧
    ((∀ t, Item.ref t ∈ h.vcell l → t < h.nT) → resolve h' (h'.vcell h.nV) = resolve h (h.vcell l)) := by
  obtain ⟨sp, hs⟩ := setValuesItems_spec h p (h.vcell l)
  exact ⟨by rw [sp.nodeP], by omega, sp.vB l hl, fun t ht => (sp.cell t ht).1, hs⟩

/-- No later edit of the list that was passed in (or of its inner lists) changes the Property. -/
theorem edits_of_passed_list_preserve_property (h : H) (p l : Nat) (hp : p < h.nN) (hl : l < h.nV)
    (hb : ∀ t, Item.ref t ∈ h.vcell l → t < h.nT) (ops : List Op)
    (ho : OpsIn (ListReg h (setValuesItems h p (h.vcell l)) l) ops) :
    let h' := setValuesItems h p (h.vcell l)
    let k := run h' ops
    k.node p = h'.node p ∧ k.vcell h.nV = h'.vcell h.nV ∧ (∀ t, h.nT ≤ t → t < h'.nT → k.tcell t = h'.tcell t) := by
  obtain ⟨sp, _⟩ := setValuesItems_spec h p (h.vcell l)
  generalize setValuesItems h p (h.vcell l) = h' at sp ho
  have st : St (ListReg h h' l) h' := by
    refine ⟨⟨fun a ha hlt => by simp only [ListReg] at ha; omega, fun c hc hlt => ?_⟩,
      ⟨fun a ha => ha, fun a ha => Or.inr ha, fun a ha => Or.inr ha⟩⟩
    rcases hc with hc | hc
    · subst hc; rw [sp.vB c hl]; exact fun t ht => Or.inl ht
    · omega
  have g := run_good ops h' st ho
  refine ⟨g.frame.1 p (by simp only [ListReg]; rw [sp.nN]; omega),
    g.frame.2.1 h.nV (by simp only [ListReg]; rw [sp.nV]; omega), fun t h1 h2 => g.frame.2.2 t ?_⟩
  simp only [ListReg]
  intro hc
  rcases hc with hc | hc
  · have := hb t hc; omega
  · omega

/-! ### The hypotheses are satisfiable, the statements are not vacuous -/

/-- A document with a Section holding a 2-tuple Property and a sub-Section. -/
def hDoc : H := run empty
  [.newObj .doc "" ["me"] [], .newObj .sec "s" ["t"] [], .append 0 1,
   .newObj .prop "p" ["2-tuple"] [.tup ["a", "b"], .tup ["c", "d"]], .append 1 2,
   .newObj .sec "u" ["t"] [], .append 1 3]

example : (clone hDoc 0 true false).2 = .ok 4 := by decide
example : (clone hDoc 1 false true).2 = .ok 4 := by decide
example : (exportLeaf hDoc 2).2 = .ok 6 := by decide
example : ((clone hDoc 0 true false).1.nN, (clone hDoc 0 true false).1.nV, (clone hDoc 0 true false).1.nT) = (8, 2, 4) := by
  decide
/-- an edit sequence on the copy: rename a copied Section, edit an inner list obtained through `values` -/
example : OpsIn (Sn hDoc) [.rename 5 "z", .getValues 6, .listInnerSet 2 0 0 "Y", .setValuesFrom 6 2] := by
  intro op hop
  simp only [List.mem_cons, List.mem_nil_iff, or_false] at hop
  rcases hop with rfl | rfl | rfl | rfl <;> constructor <;> intro a ha <;>
    simp [Op.objs, Op.lists] at ha <;> subst ha <;> simp only [Sn] <;> decide
/-- `Scoped` is satisfiable by stores that contain objects: the empty store is scoped and cloning keeps it. -/
example : Scoped (clone (clone empty 0 true false).1 0 true true).1 ∧ (clone (clone empty 0 true false).1 0 true true).1.nN = 2 :=
  ⟨clone_scoped (clone_scoped scoped_empty 0 true false) 0 true true, by decide⟩

end C11
