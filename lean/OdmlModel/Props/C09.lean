/-
C09 — Cardinalities: normal form, exact violation reports, never enforced, persisted.

Property theorems only; helper lemmas are in `Proofs/Card.lean`, `Proofs/Str.lean`.
Model: `Model/Card.lean` (the values), `Model/CardObj.lean` (the stored Python objects: exact int vs
bool); tied to /repo by `harness/c09.py`.
-/
import OdmlModel.Model.Card
import OdmlModel.Model.CardObj
import OdmlModel.Proofs.Card
import OdmlModel.Generated.FormatTables

set_option linter.unusedSimpArgs false

namespace C09
open Card Py

/-- What the setters can leave in a cardinality slot: `Normal` (the property's normal form)
    plus the two extra facts the implementation maintains: a maximum is never 0, and a
    minimum of 0 never stands alone. -/
def Stored (c : Card) : Prop :=
  Normal c ∧ Strong c ∧ (∀ p, c = some p → p.1 = some 0 → p.2 ≠ none)

/-! ## 1. Normal form -/

/-- Whatever value is assigned, an accepted assignment stores a normal-form cardinality. -/
theorem fmt_normal (v : In) (c : Card) (h : formatCard v = .ok c) : Stored c := by
  unfold formatCard at h
  split at h
  · cases h; simp [Stored, Normal, Strong]
  · split at h
    · rename_i t a b
      split at h
      · cases h; simp [Stored, Normal, Strong]
      · rename_i hne
        simp only [Bool.and_eq_true, Bool.not_eq_true', not_and, Bool.not_eq_false] at hne
        split at h
        · rename_i x y hx hy
          obtain ⟨hx0, hxt⟩ := nonneg_truthy hx
          obtain ⟨hy0, hyt⟩ := nonneg_truthy hy
          simp only [hxt, hyt] at h hne
          split at h
          · cases h
            refine ⟨?_, ?_, ?_⟩ <;> simp [Normal, Strong] <;> grind
          · split at h
            · cases h; refine ⟨?_, ?_, ?_⟩ <;> simp [Normal, Strong] <;> grind
            · split at h
              · cases h; refine ⟨?_, ?_, ?_⟩ <;> simp [Normal, Strong] <;> grind
              · cases h
        · rename_i y hx hy
          obtain ⟨hy0, hyt⟩ := nonneg_truthy hy
          split at h
          · cases h; rename_i haf
            simp only [Bool.not_eq_true'] at haf
            simp only [hyt, haf] at hne
            refine ⟨?_, ?_, ?_⟩ <;> simp [Normal, Strong] <;> grind
          · cases h
        · rename_i x hx hy
          obtain ⟨hx0, hxt⟩ := nonneg_truthy hx
          split at h
          · cases h; rename_i hbf
            simp only [Bool.not_eq_true'] at hbf
            simp only [hxt, hbf] at hne
            refine ⟨?_, ?_, ?_⟩ <;> simp [Normal, Strong] <;> grind
          · cases h
        · cases h
    · split at h
      · split at h
        · cases h
          refine ⟨?_, ?_, ?_⟩ <;> simp [Normal, Strong] <;> omega
        · cases h
      · cases h

/-- A refused assignment raises `ValueError` and keeps the previous setting;
    an accepted one stores exactly what `format_cardinality` returned. -/
theorem set_refused_keeps (old : Card) (v : In) (h : formatCard v = .valueError) :
    setCard old v = (old, false) := by
  simp [setCard, h]

theorem set_accepted (old : Card) (v : In) (c : Card) (h : formatCard v = .ok c) :
    setCard old v = (c, true) := by
  simp [setCard, h]

/-- The slot of an object is in normal form after **any** sequence of assignments,
    accepted or refused, starting from unset. -/
theorem slot_always_stored (vs : List In) :
    Stored (vs.foldl (fun c v => (setCard c v).1) none) := by
  suffices ∀ c, Stored c → Stored (vs.foldl (fun c v => (setCard c v).1) c) from
    this none (by simp [Stored, Normal, Strong])
  induction vs with
  | nil => intro c hc; simpa
  | cons v vs ih =>
    intro c hc
    apply ih
    show Stored (setCard c v).1
    unfold setCard
    cases hf : formatCard v with
    | ok c' => exact fmt_normal v c' hf
    | valueError => exact hc

/-! ## 2. Which assignments are accepted, and what they store -/

/-- The documented domain of a cardinality assignment. -/
def Acceptable : In → Prop
  | .seq _ [a, b] =>
      (a.truthy = false ∧ b.truthy = false) ∨
      (∃ x y, nonnegInt a = some x ∧ nonnegInt b = some y ∧ x ≤ y) ∨
      (a.truthy = false ∧ ∃ y, nonnegInt b = some y) ∨
      (b.truthy = false ∧ ∃ x, nonnegInt a = some x)
  | v => v.truthy = false ∨ ∃ i, v.asInt = some i ∧ 0 < i

/-- Any assignment outside the documented domain raises `ValueError`, any inside is accepted. -/
theorem fmt_domain (v : In) : (∃ c, formatCard v = .ok c) ↔ Acceptable v := by
  unfold formatCard
  by_cases ht : v.truthy = false
  · simp only [ht, Bool.not_false, ↓reduceIte, Res.ok.injEq, exists_eq', true_iff]
    unfold Acceptable
    split
    · simp [In.truthy] at ht
    · exact Or.inl ht
  · have ht' : v.truthy = true := by simpa using ht
    simp only [ht', Bool.not_true, Bool.false_eq_true, ↓reduceIte]
    split
    · rename_i t a b
      simp only [Acceptable]
      cases hx : nonnegInt a <;> cases hy : nonnegInt b
      · cases hat : a.truthy <;> cases hbt : b.truthy <;> simp
      · rename_i y
        cases hat : a.truthy <;> cases hbt : b.truthy <;> simp
      · rename_i x
        cases hat : a.truthy <;> cases hbt : b.truthy <;> simp
      · rename_i x y
        obtain ⟨hx0, hxt⟩ := nonneg_truthy hx
        obtain ⟨hy0, hyt⟩ := nonneg_truthy hy
        simp only [hxt, hyt]
        by_cases h0 : x = 0 <;> by_cases h1 : y = 0 <;> by_cases h2 : y ≥ x <;>
          simp [h0, h1, h2] <;> (try omega) <;> (split <;> exact ⟨_, rfl⟩)
    · rename_i hns
      have hA : Acceptable v ↔ (v.truthy = false ∨ ∃ i, v.asInt = some i ∧ 0 < i) := by
        unfold Acceptable
        split
        · rename_i t a b; exact absurd rfl (hns t a b)
        · rfl
      rw [hA]
      cases hv : v.asInt with
      | none => simp [ht']
      | some i =>
        by_cases hi : i > 0
        · simp [hi, ht']
        · simp [hi, ht']

/-- A tuple or list of any length other than 2 (and not empty) is refused whatever it holds -
    in particular `(None,)`, `(0,)`, `[None, None, None]`, whose items are all falsy - and the
    previous setting is kept.  (Seeded change C09-M merged the "no bound" edge case of pairs into
    the emptiness test and accepted exactly these.) -/
theorem wrong_length_refused (t : Bool) (xs : List In) (old : Card) (hne : xs ≠ [])
    (hlen : xs.length ≠ 2) :
    formatCard (.seq t xs) = .valueError ∧ setCard old (.seq t xs) = (old, false) := by
  have h : formatCard (.seq t xs) = .valueError := by
    unfold formatCard
    have ht : (In.seq t xs).truthy = true := by
      cases xs with
      | nil => exact absurd rfl hne
      | cons a as => rfl
    simp only [ht, Bool.not_true, Bool.false_eq_true, ↓reduceIte]
    split
    · rename_i t' a b heq
      cases heq
      exact absurd rfl hlen
    · rfl
  exact ⟨h, set_refused_keeps old _ h⟩

example : formatCard (.seq true [.nul]) = .valueError := (wrong_length_refused true [.nul] none (by simp) (by simp)).1
example : formatCard (.seq false [.int 0, .int 0, .int 0]) = .valueError := by decide

/-- A single positive integer sets the maximum. -/
theorem fmt_single (i : Int) (h : 0 < i) : formatCard (.int i) = .ok (some (none, some i)) := by
  have : (i != 0) = true := by simp; omega
  simp [formatCard, In.truthy, In.asInt, this, h]

/-- An ordered pair of non-negative integers (not both 0) is stored as given. -/
theorem fmt_pair (t : Bool) (x y : Int) (hx : 0 ≤ x) (hxy : x ≤ y) (hy : 0 < y) :
    formatCard (.seq t [.int x, .int y]) = .ok (some (some x, some y)) := by
  have h1 : (y != 0) = true := by simp; omega
  have h2 : 0 ≤ y := by omega
  simp [formatCard, In.truthy, nonnegInt, In.asInt, hx, h1, h2, hxy]

/-! ## 3. A warning exactly when the child count lies outside [min, max] -/

theorem report_iff_outside (c : Card) (hc : Stored c) (n : Nat) :
    (cardIssue c n).isSome ↔ Outside c n := by
  obtain ⟨hn, hs, _⟩ := hc
  cases c with
  | none => simp [cardIssue, Outside]
  | some p =>
    obtain ⟨a, b⟩ := p
    simp only [Normal] at hn
    simp only [Strong] at hs
    obtain ⟨ha, hb, hab, _⟩ := hn
    cases a with
    | none =>
      cases b with
      | none => simp [cardIssue, Outside]
      | some y =>
        have := hs y rfl
        have hy : (y != 0) = true := by simp; omega
        simp only [cardIssue, Outside, hy, Bool.true_and]
        by_cases h : (n : Int) > y <;> simp [h]
    | some x =>
      have hx := ha x rfl
      cases b with
      | none =>
        simp only [cardIssue, Outside]
        by_cases h0 : x = 0
        · subst h0; simp
        · have : (x != 0) = true := by simpa using h0
          by_cases h : (n : Int) < x <;> simp [this, h]
      | some y =>
        have := hs y rfl
        have hy : (y != 0) = true := by simp; omega
        simp only [cardIssue, Outside, hy, Bool.true_and]
        by_cases h0 : x = 0
        · subst h0
          by_cases h : (n : Int) > y <;> simp [h] <;> omega
        · have : (x != 0) = true := by simpa using h0
          by_cases h : (n : Int) < x <;> by_cases h' : (n : Int) > y <;> simp [this, h, h']

/-- The reported cause names the violated bound. -/
theorem report_cause (c : Card) (n : Nat) (k : Cause) (h : cardIssue c n = some k) :
    (∃ m mx, c = some (some m, mx) ∧ k = .minimum m ∧ (n : Int) < m) ∨
    (∃ mn m, c = some (mn, some m) ∧ k = .maximum m ∧ (n : Int) > m) := by
  unfold cardIssue at h
  cases c with
  | none => simp at h
  | some p =>
    obtain ⟨a, b⟩ := p
    cases a with
    | none =>
      cases b with
      | none => simp at h
      | some y =>
        simp only at h
        split at h
        · rename_i hc; simp at hc h; subst h; right; exact ⟨none, y, rfl, rfl, hc.2⟩
        · simp at h
    | some x =>
      simp only at h
      split at h
      · rename_i hc; simp at hc h; subst h; left; exact ⟨x, b, rfl, rfl, hc.2⟩
      · cases b with
        | none => simp at h
        | some y =>
          simp only at h
          split at h
          · rename_i hc; simp at hc h; subst h; right; exact ⟨some x, y, rfl, rfl, hc.2⟩
          · simp at h

/-! ## 4. Never enforced: adding and removing children ignores the cardinality -/

/-- One object with a cardinality slot and a child count. -/
structure Obj where
  card : Card
  count : Nat
  deriving Repr

inductive Op where
  | set (v : In)
  | add
  | remove
  deriving Repr

/-- `append`/`remove` of children (values, properties, sections) succeed whatever the
    cardinality says; `remove` needs a child to remove. Returns whether the op raised. -/
def step (o : Obj) : Op → Obj × Bool
  | .set v => let r := setCard o.card v; ({ o with card := r.1 }, r.2)
  | .add => ({ o with count := o.count + 1 }, true)
  | .remove => if o.count = 0 then (o, false) else ({ o with count := o.count - 1 }, true)

theorem never_enforced_add (o : Obj) : (step o .add) = ({ o with count := o.count + 1 }, true) := rfl

theorem never_enforced_remove (o : Obj) (h : 0 < o.count) :
    (step o .remove) = ({ o with count := o.count - 1 }, true) := by
  simp [step]; omega

/-- After any editing history the slot is in normal form and the warning is exact
    for the current child count. -/
theorem history_exact (ops : List Op) (n0 : Nat) :
    let o := ops.foldl (fun o op => (step o op).1) { card := none, count := n0 }
    Stored o.card ∧ ((cardIssue o.card o.count).isSome ↔ Outside o.card o.count) := by
  suffices ∀ o : Obj, Stored o.card →
      Stored (ops.foldl (fun o op => (step o op).1) o).card from by
    intro o
    have hs := this { card := none, count := n0 } (by simp [Stored, Normal, Strong])
    exact ⟨hs, report_iff_outside _ hs _⟩
  induction ops with
  | nil => intro o h; simpa
  | cons op ops ih =>
    intro o h
    apply ih
    cases op with
    | set v =>
      show Stored (setCard o.card v).1
      unfold setCard
      cases hf : formatCard v with
      | ok c' => exact fmt_normal v c' hf
      | valueError => exact h
    | add => exact h
    | remove => simp only [step]; split <;> exact h

/-! ## 5. Persistence: XML text form and JSON/YAML list form -/

/-- The tuple handed to the constructor by a reader. -/
def asIn : Card → In
  | none => .nul
  | some (a, b) => .seq true [match a with | none => .nul | some i => .int i,
                              match b with | none => .nul | some i => .int i]

/-- Re-assigning a stored cardinality to a fresh object gives the same cardinality
    (readers pass what they parsed to the constructor, which formats it again). -/
theorem stored_fixpoint (c : Card) (h : Stored c) : formatCard (asIn c) = .ok c := by
  obtain ⟨hn, hs, hz⟩ := h
  cases c with
  | none => simp [asIn, formatCard, In.truthy]
  | some p =>
    obtain ⟨a, b⟩ := p
    simp only [Normal] at hn
    simp only [Strong] at hs
    obtain ⟨ha, hb, hab, hnn⟩ := hn
    cases a with
    | none =>
      cases b with
      | none => simp at hnn
      | some y =>
        have := hs y rfl
        have hy : (y != 0) = true := by simp; omega
        have hy' : 0 ≤ y := by omega
        simp [asIn, formatCard, In.truthy, nonnegInt, In.asInt, hy, hy']
    | some x =>
      have hx := ha x rfl
      cases b with
      | none =>
        have h0 : x ≠ 0 := by
          intro h0; subst h0; exact hz _ rfl rfl rfl
        have hx' : (x != 0) = true := by simpa using h0
        simp [asIn, formatCard, In.truthy, nonnegInt, In.asInt, hx, hx']
      | some y =>
        have := hs y rfl
        have hy : (y != 0) = true := by simp; omega
        have hy' : 0 ≤ y := by omega
        have hxy := hab x y rfl rfl
        simp [asIn, formatCard, In.truthy, nonnegInt, In.asInt, hy, hy', hx, hxy]

/-- XML: `parse_cardinality(str(card)) = card` for every stored cardinality, all integer sizes. -/
theorem persist_text (p : Option Int × Option Int) (h : Stored (some p)) :
    parseCardText (renderCardText p) = some p := by
  obtain ⟨a, b⟩ := p
  obtain ⟨hn, hs, hz⟩ := h
  simp only [Normal] at hn
  obtain ⟨ha, hb, hab, hnn⟩ := hn
  have hta := renderBound_boundText a ha
  have htb := renderBound_boundText b hb
  unfold parseCardText renderCardText
  have hne : (['('] ++ renderBound a ++ [',', ' '] ++ renderBound b ++ [')']).isEmpty = false := by
    simp
  rw [hne]
  simp only [Bool.false_eq_true, ↓reduceIte]
  rw [strip_slice_render, split_inner hta htb]
  simp only [hta.strip, htb.strip_space_cons]
  cases a with
  | none =>
    cases b with
    | none => simp at hnn
    | some y =>
      have hy := hb y rfl
      obtain ⟨n, rfl⟩ := Int.eq_ofNat_of_zero_le hy
      simp [renderBound, intToStr, none_not_digitStr, none_not_digitStr', isDigitStr_natToDigits,
        natOfDigits_natToDigits, digits_ne_none]
  | some x =>
    have hx := ha x rfl
    obtain ⟨m, rfl⟩ := Int.eq_ofNat_of_zero_le hx
    cases b with
    | none =>
      simp [renderBound, intToStr, none_not_digitStr, none_not_digitStr', isDigitStr_natToDigits,
        natOfDigits_natToDigits]
    | some y =>
      have hy := hb y rfl
      obtain ⟨n, rfl⟩ := Int.eq_ofNat_of_zero_le hy
      have := hab m n rfl rfl
      have hmn : m ≤ n := by omega
      simp [renderBound, intToStr, isDigitStr_natToDigits, natOfDigits_natToDigits, hmn]

/-- JSON/YAML: the list `[min, max]` (with `null` for None) parses back to the cardinality. -/
theorem persist_list (p : Option Int × Option Int) (h : Stored (some p)) :
    parseCardList (dinOfBound p.1) (dinOfBound p.2) = some p := by
  obtain ⟨a, b⟩ := p
  obtain ⟨hn, hs, hz⟩ := h
  simp only [Normal] at hn
  simp only [Strong] at hs
  obtain ⟨ha, hb, hab, hnn⟩ := hn
  cases a with
  | none =>
    cases b with
    | none => simp at hnn
    | some y =>
      have hy' : 0 ≤ y := hb y rfl
      simp [parseCardList, dinOfBound, DIn.isNoneLike, DIn.nonnegInt, DIn.truthy, hy']
  | some x =>
    have hx := ha x rfl
    cases b with
    | none =>
      simp [parseCardList, dinOfBound, DIn.isNoneLike, DIn.nonnegInt, DIn.truthy, hx]
    | some y =>
      have hy' : 0 ≤ y := hb y rfl
      have hxy := hab x y rfl rfl
      simp [parseCardList, dinOfBound, DIn.isNoneLike, DIn.nonnegInt, hx, hy', hxy]

/-- Save then load (either form) then construct: the same cardinality, for every value
    that any assignment history can have produced. -/
theorem persist_end_to_end (v : In) (p : Option Int × Option Int)
    (h : formatCard v = .ok (some p)) :
    formatCard (asIn (parseCardText (renderCardText p))) = .ok (some p) ∧
    formatCard (asIn (parseCardList (dinOfBound p.1) (dinOfBound p.2))) = .ok (some p) := by
  have hs := fmt_normal v _ h
  rw [persist_text p hs, persist_list p hs]
  exact ⟨stored_fixpoint _ hs, stored_fixpoint _ hs⟩

/-- The three cardinality attributes are part of the file format tables of the current source
    (regenerated from /repo/odml/format.py on every run), so every writer emits them and every
    reader accepts them. -/
theorem card_keys_in_format :
    ("val_cardinality", 0) ∈ Gen.Format.propertyArgs ∧
    ("sec_cardinality", 0) ∈ Gen.Format.sectionArgs ∧
    ("prop_cardinality", 0) ∈ Gen.Format.sectionArgs ∧
    Gen.Format.propertyMap.lookup "val_cardinality" = none ∧
    Gen.Format.sectionMap.lookup "sec_cardinality" = none ∧
    Gen.Format.sectionMap.lookup "prop_cardinality" = none := by decide

/-! ## 6. The stored objects: exact ints, also for bool bounds (`Model/CardObj.lean`) -/

/-- The stored objects and the stored values are the same cardinality: whatever the `return`
    statements do with an accepted bound, as long as it keeps its value (`int(x)` does, and so did
    handing `x` back), `format_cardinality` accepts / refuses the same settings and stores the same
    (min, max) values. Every theorem above about `formatCard` therefore speaks about the objects
    `formatCardObj pyInt` stores. -/
theorem fmt_obj_view (conv : In → PyBound) (hc : KeepsValue conv) (v : In) :
    (formatCardObj conv v).view = formatCard v := by
  have hn : PyBound.nul.val = none := rfl
  by_cases hs : ∃ t a b, v = .seq t [a, b]
  · obtain ⟨t, a, b, rfl⟩ := hs
    rw [formatCardObj_pair, formatCard_pair]
    split
    · rfl
    · cases hx : nonnegInt a <;> cases hy : nonnegInt b <;> simp only
      · rfl
      · rename_i y
        have hy' := hc b y (nonneg_asInt hy)
        split <;> simp [ObjRes.view, ObjCard.view, hy', hn]
      · rename_i x
        have hx' := hc a x (nonneg_asInt hx)
        split <;> simp [ObjRes.view, ObjCard.view, hx', hn]
      · rename_i x y
        have hx' := hc a x (nonneg_asInt hx)
        have hy' := hc b y (nonneg_asInt hy)
        split
        · simp [ObjRes.view, ObjCard.view, hx', hy']
        · split
          · simp [ObjRes.view, ObjCard.view, hy', hn]
          · split <;> simp [ObjRes.view, ObjCard.view, hx', hn]
  · have hs' : ∀ t a b, v ≠ .seq t [a, b] := fun t a b h => hs ⟨t, a, b, h⟩
    rw [formatCardObj_other conv v hs', formatCard_other v hs']
    split
    · rfl
    · cases hi : v.asInt with
      | none => rfl
      | some i =>
        have := hc v i hi
        simp only
        split <;> simp [ObjRes.view, ObjCard.view, this, hn]


/-- The same for the three setters (accepted: the new object, refused: the old one kept). -/
theorem set_obj_view (conv : In → PyBound) (hc : KeepsValue conv) (old : ObjCard) (v : In) :
    ((setCardObj conv old v).1.view, (setCardObj conv old v).2) = setCard old.view v := by
  have h := fmt_obj_view conv hc v
  unfold setCardObj setCard
  cases hf : formatCardObj conv v with
  | ok c => rw [hf] at h; simp [ObjRes.view] at h; simp [← h]
  | valueError => rw [hf] at h; simp [ObjRes.view] at h; simp [← h]

/-- **Bool bounds.** `bool` is a subclass of `int`, so `True`, `(True, 5)`, `[None, True]`,
    `(False, 3)` ... pass the `isinstance(x, int)` tests. Whatever is assigned - bools included -
    every bound of an accepted cardinality is stored as `None` or an exact `int`, never as a `bool`,
    and what is stored for a setting with bool bounds is exactly what is stored for the same
    setting with each bool replaced by the int it equals (also the refusals are the same). -/
theorem bool_bound_exact (v : In) :
    (∀ a b, formatCardObj pyInt v = .ok (some (a, b)) → a.exact = true ∧ b.exact = true) ∧
    formatCardObj pyInt v = formatCardObj pyInt v.unbool :=
  ⟨fmt_obj_exact v, (fmt_obj_unbool v).symm⟩

/-- After **any** sequence of assignments (accepted or refused, bools or not) the slot holds
    `None` / exact ints only. -/
theorem slot_always_exact (vs : List In) (p : PyBound × PyBound)
    (h : vs.foldl (fun c v => (setCardObj pyInt c v).1) none = some p) :
    p.1.exact = true ∧ p.2.exact = true := by
  have key : ∀ (ws : List In) (c : ObjCard),
      (∀ q, c = some q → q.1.exact = true ∧ q.2.exact = true) →
      ∀ q, ws.foldl (fun c v => (setCardObj pyInt c v).1) c = some q →
        q.1.exact = true ∧ q.2.exact = true := by
    intro ws
    induction ws with
    | nil => intro c hc q hq; exact hc q (by simpa using hq)
    | cons v ws ih =>
      intro c hc
      apply ih
      intro q hq'
      have hq : (setCardObj pyInt c v).1 = some q := hq'
      unfold setCardObj at hq
      cases hf : formatCardObj pyInt v with
      | ok c' =>
        rw [hf] at hq; simp only at hq; subst hq
        exact fmt_obj_exact v q.1 q.2 hf
      | valueError => rw [hf] at hq; exact hc q hq
  exact key vs none (by simp) p h

/-- What is stored for any accepted setting - bool bounds included - is written by the XML writer
    (`str` of the stored tuple) and by the JSON / YAML writers (the list) in a form that the
    parsers read back to the same (min, max). -/
theorem bool_bound_persisted (v : In) (p : PyBound × PyBound)
    (h : formatCardObj pyInt v = .ok (some p)) :
    parseCardText (renderObjText p) = some (p.1.val, p.2.val) ∧
    parseCardList (dinOfPyBound p.1) (dinOfPyBound p.2) = some (p.1.val, p.2.val) := by
  obtain ⟨a, b⟩ := p
  obtain ⟨ha, hb⟩ := fmt_obj_exact v a b h
  have hv : formatCard v = .ok (some (a.val, b.val)) := by
    have := fmt_obj_view pyInt pyInt_keepsValue v
    rw [h] at this
    simpa [ObjRes.view, ObjCard.view] using this.symm
  have hs := fmt_normal v _ hv
  have hr : renderObjText (a, b) = renderCardText (a.val, b.val) := by
    simp [renderObjText, renderCardText, exact_render ha, exact_render hb]
  simp only [hr, exact_din ha, exact_din hb]
  exact ⟨persist_text _ hs, persist_list _ hs⟩

/-- Witness on the code before the repair (`return v_min, v_max`, modelled by `asGiven`): the bool
    was stored as it came, the XML writer spelled it `(True, 5)`, and `parse_cardinality` reads
    that as "no cardinality" (known finding `bool_cardinality_bound_lost`, fixed). -/
theorem bool_bound_legacy_counterexample :
    formatCardObj asGiven (.seq true [.bool true, .int 5]) = .ok (some (.bool true, .int 5)) ∧
    renderObjText (.bool true, .int 5) = "(True, 5)".toList ∧
    parseCardText (renderObjText (.bool true, .int 5)) = none := by decide

/-! ## Non-vacuity: the hypotheses are met by concrete, non-trivial states -/

example : formatCard (.seq true [.int 2, .int 2]) = .ok (some (some 2, some 2)) := by decide
example : formatCard (.seq true [.int 3, .int 1]) = .valueError := by decide
example : formatCard (.seq false [.int 2, .int 0]) = .ok (some (some 2, none)) := by decide
example : formatCard (.bool true) = .ok (some (none, some 1)) := by decide
example : formatCard (.float false) = .valueError := by decide
example : Stored (some (some 2, some 2)) := by simp [Stored, Normal, Strong]
example : cardIssue (some (some 2, some 2)) 3 = some (.maximum 2) := by decide
example : parseCardText (renderCardText (some 2, some 2)) = some (some 2, some 2) := by decide
example : parseCardText "(None, 12)".toList = some (none, some 12) := by decide
example : formatCardObj pyInt (.seq true [.bool true, .int 5]) = .ok (some (.int 1, .int 5)) := by decide
example : formatCardObj pyInt (.seq false [.nul, .bool true]) = .ok (some (.nul, .int 1)) := by decide
example : formatCardObj pyInt (.bool true) = .ok (some (.nul, .int 1)) := by decide
example : formatCardObj pyInt (.seq true [.bool true, .bool false]) = .ok (some (.int 1, .nul)) := by decide
example : formatCardObj pyInt (.seq true [.nul, .bool false]) = .ok none := by decide
example : formatCardObj pyInt (.seq true [.int 2, .bool true]) = .valueError := by decide
example : parseCardText (renderObjText (.int 1, .int 5)) = some (some 1, some 5) := by decide

end C09
