/-
C19 - Validation observes only: no side effects, repeatable, custom rules stay private.

Property theorems only; helper lemmas are in `Proofs/Valid.lean`.
Models: `Model/Registry.lean` (registry state machine) and `Model/Valid.lean` (what a handler
collection reports), tied to /repo by `harness/c19.py`.

"Validation changes nothing in the validated objects" and "the same issues in another
process" have no model-level content beyond `run_changes_nothing` /
`validate_order_independent` (the model's validation is a pure function of the tables and the
tree): their content is in the tie, see design.d/C19.md.
-/
import OdmlModel.Model.Registry
import OdmlModel.Model.TermLoad
import OdmlModel.Proofs.Valid
set_option linter.unusedSimpArgs false

namespace C19
open Valid Registry

/-! ## 1. The reported issues do not depend on the iteration order of the handler sets -/

/-- Python iterates a `set` of functions: any order of the handlers of each class yields the
    same multiset of issues.  For arbitrary handlers (`apply`), so also user-defined ones. -/
theorem validate_order_independent {ρ : Type} (apply : ρ → Visit → List Issue)
    (reg reg' : Klass → List ρ) (h : ∀ k, (reg k).Perm (reg' k)) (n : Node) :
    (issuesWith apply reg n).Perm (issuesWith apply reg' n) := by
  unfold issuesWith
  exact flatMap_perm_pointwise _ _ _ (fun v _ => List.Perm.flatMap_right _ (h v.obj.klass))

/-- Whether the validation raises does not depend on the order either. -/
theorem crash_order_independent {ρ : Type} (crashes : ρ → Visit → Bool)
    (reg reg' : Klass → List ρ) (h : ∀ k, (reg k).Perm (reg' k)) (n : Node) :
    crashesWith crashes reg n = crashesWith crashes reg' n := by
  unfold crashesWith
  congr 1
  funext v
  exact (h v.obj.klass).any_eq

/-- Two handler collections that are equal *as sets* (no duplicates, same members) report the
    same multiset: what another process (another hash seed) computes for the same registry. -/
theorem report_depends_on_sets {ρ : Type} (apply : ρ → Visit → List Issue)
    (reg reg' : Klass → List ρ) (hn : ∀ k, (reg k).Nodup) (hn' : ∀ k, (reg' k).Nodup)
    (h : ∀ k a, a ∈ reg k ↔ a ∈ reg' k) (n : Node) :
    (issuesWith apply reg n).Perm (issuesWith apply reg' n) :=
  validate_order_independent apply reg reg'
    (fun k => (List.perm_ext_iff_of_nodup (hn k) (hn' k)).mpr (h k)) n

/-- Running a validation changes no registry (and the model has nothing else it could change). -/
theorem run_changes_nothing (st : State) (i : Nat) : step st (.run i) = st := rfl

/-- Repeating a validation of the same tree with the same object reports the same list. -/
theorem validate_repeatable (cust : Nat → Visit → List Issue) (st : State) (i : Nat) (n : Node) :
    report cust (step st (.run i)) i n = report cust st i n := rfl

/-! ## 2. The default registry is changed by explicit global registration only -/

/-- The operation writes the class-level table: `Validation.register_handler`, or
    `register_custom_handler` on an object created *without* reset (whose `_handlers` is the
    class attribute). -/
def touchesGlobal (st : State) : Op → Bool
  | .registerGlobal _ _ => true
  | .registerCustom i _ _ =>
    match st.insts[i]? with
    | some none => true
    | _ => false
  | _ => false

/-- The step does not write the class-level table (what the library does on its own never
    does: `ctor_and_setter_validations_private`). -/
def stepClean (st : State) : Act → Bool
  | .op o => !touchesGlobal st o
  | .lib _ => true

def cleanB : State → List Act → Bool
  | _, [] => true
  | st, a :: as => stepClean st a && cleanB (act st a) as

/-- A history in which no step writes the class-level table. -/
def Clean (st : State) (as : List Act) : Prop := cleanB st as = true

theorem act_global_of_clean (st : State) (a : Act) (h : stepClean st a = true) :
    (act st a).global = st.global := by
  cases a with
  | lib m => rw [lib_run]
  | op o =>
    simp only [stepClean, Bool.not_eq_true'] at h
    cases o with
    | newValidation r => cases r <;> rfl
    | registerGlobal k hd => simp [touchesGlobal] at h
    | run i => rfl
    | registerCustom i k hd =>
      simp only [touchesGlobal] at h
      simp only [act, step]
      cases hi : st.insts[i]? with
      | none => rfl
      | some t =>
        cases t with
        | none => simp [hi] at h
        | some t => rfl

/-- **registry_isolated**: whatever the history of default validations, custom validations
    with added rules, object creation, cardinality changes, value assignments, saves and loads —
    as long as nobody registers a handler globally, the default registry is what it was. -/
theorem registry_isolated (as : List Act) : ∀ (st : State), Clean st as →
    (runActs st as).global = st.global := by
  induction as with
  | nil => intro st _; rfl
  | cons a as ih =>
    intro st h
    simp only [Clean, cleanB, Bool.and_eq_true] at h
    simp only [runActs, List.foldl_cons]
    have := ih (act st a) h.2
    simp only [runActs] at this
    rw [this, act_global_of_clean st a h.1]

/-- What the library does on its own (constructors, cardinality setters, value assignment,
    save, load, a default or a custom validation) never writes the class-level table and never
    touches an existing validation object: it only creates new objects; those of the setters
    are reset objects holding exactly the one cardinality rule. -/
theorem ctor_and_setter_validations_private (st : State) (m : Macro) :
    (act st (.lib m)).global = st.global ∧
    (∀ j, j < st.insts.length → (act st (.lib m)).insts[j]? = st.insts[j]?) ∧
    (act st (.lib m)).insts = st.insts ++ m.newObjects := by
  rw [lib_run]
  refine ⟨rfl, ?_, rfl⟩
  intro j hj
  simp [List.getElem?_append_left hj]

/-- A validation created with reset=True starts without any handler (its table is a fresh
    dict, not the class dict). -/
theorem reset_starts_empty (st : State) (k : Klass) :
    effective (step st (.newValidation true)) st.insts.length k = [] := by
  simp [effective, step, Table.empty]

/-- A validation created without reset uses the class-level table, now and later. -/
theorem default_uses_global (st : State) (i : Nat) (h : isReset st i = false) :
    effective st i = st.global := by
  unfold effective
  unfold isReset at h
  cases hi : st.insts[i]? with
  | none => rfl
  | some t =>
    cases t with
    | none => rfl
    | some t => simp [hi] at h

/-- In every clean history from the freshly imported library, every default validation
    reports exactly the issues of C08 (`Valid.issues`), whatever user rules were added to
    reset validations in between. -/
theorem default_report_stable (cust : Nat → Visit → List Issue) (as : List Act)
    (hc : Clean init as) (i : Nat) (hi : isReset (runActs init as) i = false) (n : Node) :
    report cust (runActs init as) i n = Valid.issues n := by
  unfold report
  rw [default_uses_global _ _ hi, registry_isolated as init hc]
  simp [init, issuesWith, Valid.issues, List.flatMap_map, applyH]

/-! ## 3. Rules added to a reset validation stay private -/

/-- The user function `h` occurs nowhere but (possibly) in the own table of object `i`. -/
def PrivateTo (h : Handler) (i : Nat) (st : State) : Prop :=
  (∀ k, h ∉ st.global k) ∧
  ∀ j t, j ≠ i → st.insts[j]? = some (some t) → ∀ k, h ∉ t k

/-- The step registers `h` somewhere else than on object `i`. -/
def RegistersElsewhere (h : Handler) (i : Nat) : Act → Prop
  | .op (.registerGlobal _ h') => h' = h
  | .op (.registerCustom j _ h') => h' = h ∧ j ≠ i
  | _ => False

instance (h : Handler) (i : Nat) (a : Act) : Decidable (RegistersElsewhere h i a) := by
  unfold RegistersElsewhere
  split <;> exact inferInstance

theorem private_step (c : Nat) (i : Nat) (st : State) (a : Act)
    (hP : PrivateTo (.custom c) i st) (hr : isReset st i = true)
    (hno : ¬ RegistersElsewhere (.custom c) i a) :
    PrivateTo (.custom c) i (act st a) ∧ isReset (act st a) i = true := by
  obtain ⟨hg, hin⟩ := hP
  obtain ⟨ti, hti⟩ := (isReset_iff st i).mp hr
  have hi : i < st.insts.length := by
    have := (List.getElem?_eq_some_iff.mp hti).1
    exact this
  have keepApp : ∀ (extra : List (Option Table)) (g : Table),
      isReset { global := g, insts := st.insts ++ extra } i = true := by
    intro extra g
    rw [isReset_iff]
    exact ⟨ti, by simp [List.getElem?_append_left hi, hti]⟩
  cases a with
  | lib m =>
    rw [lib_run]
    refine ⟨⟨hg, ?_⟩, keepApp _ _⟩
    intro j t hj ht k
    simp only [List.getElem?_append] at ht
    split at ht
    · exact hin j t hj ht k
    · exact newObjects_no_custom m c t (List.mem_of_getElem? ht) k
  | op o =>
    cases o with
    | run j => exact ⟨⟨hg, hin⟩, hr⟩
    | newValidation r =>
      cases r
      · refine ⟨⟨hg, ?_⟩, keepApp _ _⟩
        intro j t hj ht k
        simp only [act, step, List.getElem?_append] at ht
        split at ht
        · exact hin j t hj ht k
        · have := List.mem_of_getElem? ht
          simp at this
      · refine ⟨⟨hg, ?_⟩, keepApp _ _⟩
        intro j t hj ht k
        simp only [act, step, List.getElem?_append] at ht
        split at ht
        · exact hin j t hj ht k
        · have := List.mem_of_getElem? ht
          simp only [List.mem_singleton, Option.some.injEq] at this
          subst this; simp [Table.empty]
    | registerGlobal k' h' =>
      simp only [RegistersElsewhere] at hno
      refine ⟨⟨?_, hin⟩, hr⟩
      intro k hm
      rcases mem_add hm with h | h
      · exact hg k h
      · exact hno h.symm
    | registerCustom j k' h' =>
      simp only [RegistersElsewhere, not_and, Decidable.not_not] at hno
      simp only [act, step]
      cases hj : st.insts[j]? with
      | none => exact ⟨⟨hg, hin⟩, hr⟩
      | some t =>
        cases t with
        | none =>
          refine ⟨⟨?_, hin⟩, hr⟩
          intro k hm
          rcases mem_add hm with h | h
          · exact hg k h
          · have hji := hno h.symm
            subst hji
            rw [hti] at hj
            cases hj
        | some t =>
          refine ⟨⟨hg, ?_⟩, ?_⟩
          · intro j' t' hj' ht' k
            simp only [List.getElem?_set] at ht'
            split at ht'
            · rename_i hjj
              subst hjj
              split at ht'
              · simp only [Option.some.injEq] at ht'
                subst ht'
                intro hm
                rcases mem_add hm with h | h
                · exact hin j t hj' hj k h
                · exact hj' (hno h.symm)
              · cases ht'
            · exact hin j' t' hj' ht' k
          · rw [isReset_iff]
            simp only [List.getElem?_set]
            split
            · rename_i hjj
              subst hjj
              simp [hi]
            · exact ⟨ti, hti⟩

/-- **custom_rule_private**: a user rule that so far lives (at most) in the own table of the
    reset validation `i`, and that later is registered on `i` only, never shows up in the
    default registry nor in any other validation object - whatever else happens in between
    (default validations, other custom validations, object creation, cardinality changes,
    value assignments, saves, loads, global registration of *other* handlers). -/
theorem custom_rule_private (c : Nat) (i : Nat) (as : List Act) : ∀ (st : State),
    PrivateTo (.custom c) i st → isReset st i = true →
    (∀ a ∈ as, ¬ RegistersElsewhere (.custom c) i a) →
    PrivateTo (.custom c) i (runActs st as) := by
  induction as with
  | nil => intro st hP _ _; exact hP
  | cons a as ih =>
    intro st hP hr hno
    obtain ⟨hP', hr'⟩ := private_step c i st a hP hr (hno a (by simp))
    simp only [runActs, List.foldl_cons]
    exact ih (act st a) hP' hr' (fun b hb => hno b (by simp [hb]))

/-- Consequently no validation created without reset ever applies the private rule. -/
theorem custom_rule_not_in_default (c : Nat) (i : Nat) (st : State)
    (hP : PrivateTo (.custom c) i st) (j : Nat) (hj : isReset st j = false) (k : Klass) :
    Handler.custom c ∉ effective st j k := by
  rw [default_uses_global st j hj]
  exact hP.1 k

/-- A fresh user rule is private to a freshly created reset validation. -/
theorem fresh_custom_is_private (c : Nat) (st : State)
    (hg : ∀ k, Handler.custom c ∉ st.global k)
    (hin : ∀ (j : Nat) (t : Table), st.insts[j]? = some (some t) → ∀ k, Handler.custom c ∉ t k) :
    PrivateTo (.custom c) st.insts.length (step st (.newValidation true)) ∧
    isReset (step st (.newValidation true)) st.insts.length = true := by
  refine ⟨⟨hg, ?_⟩, by simp [isReset, step]⟩
  intro j t hj ht k
  simp only [step, List.getElem?_append] at ht
  split at ht
  · exact hin j t ht k
  · rename_i hlt
    have := List.mem_of_getElem? ht
    simp only [List.mem_singleton, Option.some.injEq] at this
    subst this; simp [Table.empty]

/-! ## Witnesses -/

/-- `register_custom_handler` on a validation created *without* reset writes the class-level
    table (its `_handlers` is the class attribute): the reason why the property speaks of
    reset=True only, and why `Clean` excludes this step. -/
theorem custom_on_default_object_leaks :
    (runOps init [.newValidation false, .registerCustom 0 .section (.custom 7)]).global .section ≠
      init.global .section := by decide

/-- Explicit global registration does change the default registry (the one allowed way). -/
theorem register_global_changes :
    (step init (.registerGlobal .odML (.custom 1))).global .odML =
      init.global .odML ++ [.custom 1] := by decide

/-- Non-vacuity of `Clean` / `custom_rule_private`: a history with a custom validation, a user
    rule, object creation, cardinality changes, save and load. -/
def sampleHistory : List Act :=
  [.lib .defaultValidation, .op (.newValidation true), .op (.registerCustom 1 .section (.custom 3)),
   .op (.run 1), .lib .constructSection, .lib (.constructProperty true), .lib .setValCardinality,
   .lib .save, .lib .load, .lib .defaultValidation]

example : Clean init sampleHistory := by unfold Clean; decide
example : ∀ a ∈ sampleHistory, ¬ RegistersElsewhere (.custom 3) 1 a := by decide
example : (runActs init sampleHistory).insts.length = 12 := by decide
example : effective (runActs init sampleHistory) 1 .section = [.custom 3] := by decide

end C19

/-! ## 5. The on-demand terminology rules read the table of loaded terminologies (seeded round 5)

`Model/TermLoad.lean`: `terminology.load` statement by statement.  A custom validation with
`section_repository_present` / `property_terminology_check` is repeatable - in the same process, after
any history of the loader, and in another process - because what a load yields is a function of the
file alone, and a load that fails leaves nothing in the table. -/

namespace C19
open TermLoad

theorem lookup_cons_self (t : Table) (url : Nat) (b : Bool) : lookup ((url, b) :: t) url = some b := by
  simp [lookup, List.lookup]

theorem lookup_cons_ne (t : Table) (url u : Nat) (b : Bool) (h : u ≠ url) :
    lookup ((url, b) :: t) u = lookup t u := by
  have : (u == url) = false := by simp [h]
  simp [lookup, List.lookup, this]

/-- A load that fails - the file cannot be fetched, or its links cannot be resolved - leaves the
    table of loaded terminologies exactly as it was. -/
theorem failed_load_leaves_no_trace (files : Nat → FileState) (t : Table) (url : Nat)
    (h : files url = .unfinalizable ∨ files url = .unreachable) :
    (load files t url).2 = t := by
  unfold load
  cases hl : lookup t url with
  | some v => cases v <;> simp
  | none => rcases h with h | h <;> simp [h]

/-- Loading the same URL again yields what the first load has yielded, whatever the file is and
    whatever the table held before: a rule that looks into a terminology sees the same on the second
    run of a validation as on the first. -/
theorem terminology_load_repeatable (files : Nat → FileState) (t : Table) (url : Nat) :
    (load files (load files t url).2 url).1 = (load files t url).1 := by
  unfold load
  cases hl : lookup t url with
  | some v => cases v <;> simp [hl]
  | none =>
    cases hf : files url <;> simp [hl, hf, lookup_cons_self]

theorem load_consistent (files : Nat → FileState) (t : Table) (url : Nat)
    (h : Consistent files t) : Consistent files (load files t url).2 := by
  unfold load
  cases hl : lookup t url with
  | some v => cases v <;> simpa using h
  | none =>
    cases hf : files url
    · simpa using h
    · intro u v hu
      by_cases hx : u = url
      · subst hx; rw [lookup_cons_self] at hu; cases hu; exact Or.inr ⟨rfl, hf⟩
      · rw [lookup_cons_ne _ _ _ _ hx] at hu; exact h u v hu
    · simpa using h
    · intro u v hu
      by_cases hx : u = url
      · subst hx; rw [lookup_cons_self] at hu; cases hu; exact Or.inl ⟨rfl, hf⟩
      · rw [lookup_cons_ne _ _ _ _ hx] at hu; exact h u v hu

theorem step_consistent (files : Nat → FileState) (t : Table) (o : Op)
    (h : Consistent files t) : Consistent files (step files t o) := by
  cases o with
  | load url => exact load_consistent files t url h
  | deferred url =>
    simp only [step, deferredLoad]
    split
    · exact h
    · exact load_consistent files t url h

theorem run_consistent (files : Nat → FileState) (ops : List Op) : ∀ (t : Table),
    Consistent files t → Consistent files (run files t ops) := by
  induction ops with
  | nil => intro t h; exact h
  | cons o os ih => intro t h; exact ih _ (step_consistent files t o h)

theorem load_of_consistent (files : Nat → FileState) (t : Table) (url : Nat)
    (h : Consistent files t) : (load files t url).1 = outcomeOf (files url) := by
  unfold load
  cases hl : lookup t url with
  | some v =>
    rcases h url v hl with ⟨hv, hf⟩ | ⟨hv, hf⟩ <;> subst hv <;> simp [hf, outcomeOf]
  | none => cases hf : files url <;> simp [outcomeOf]

/-- What a load yields depends on the file alone, not on the history of the process: after any
    sequence of loads and deferred loads of any URLs - successful, refused, failed - the URL loads as
    it does in a process that has never loaded anything. -/
theorem terminology_load_history_independent (files : Nat → FileState) (ops : List Op) (url : Nat) :
    (load files (run files [] ops) url).1 = outcomeOf (files url) :=
  load_of_consistent files _ url (run_consistent files ops [] (by intro u v hu; simp [lookup] at hu))

/-- The two on-demand rules report the same on the same unchanged Section / Property after any two
    histories of the loader (in particular: first run and second run, this process and another). -/
theorem terminology_rules_repeatable (files : Nat → FileState) (ops ops' : List Op) (url : Nat)
    (hasType hasName : Bool) :
    sectionWarnings (load files (run files [] ops) url).1 hasType =
      sectionWarnings (load files (run files [] ops') url).1 hasType ∧
    propertyWarnings (load files (run files [] ops) url).1 hasType hasName =
      propertyWarnings (load files (run files [] ops') url).1 hasType hasName := by
  simp [terminology_load_history_independent]

/-- Witness that the statement has content: were the parsed document entered into the table before
    its links are resolved (a table that is not `Consistent`), the second load would differ. -/
theorem inconsistent_table_changes_outcome :
    (load (fun _ => .unfinalizable) [(0, true)] 0).1 ≠ (load (fun _ => .unfinalizable) [] 0).1 := by
  decide

example : run (fun u => if u = 0 then .good else if u = 1 then .unparsable else .unfinalizable) []
    [.load 0, .deferred 1, .load 2, .deferred 2, .load 1] = [(1, false), (0, true)] := by decide

end C19
