/-
C12 — Resolving links and includes only adds copies; cleaning restores the document.

Property theorems; models: `Model/Link.lean` (link / include setters, `finalize`, `clean`,
`unmerge`, `__eq__`) on top of `Model/Merge.lean`; helper lemmas: `Proofs/Link.lean`,
`Proofs/Merge.lean`. The theorems are about one linking Section `l` and its target `t`, both
arbitrary trees (any size and depth), any value interpretation `cv`; in the property's regime
(linking Sections pairwise disjoint and disjoint from every target) `finalize` / `clean` act on
each linking Section separately (`Link.linkStep` reads the target, rewrites the linking Section
in place with `updAt`), which is what the correspondence run checks on whole documents.

Side conditions: `wfSec cv t` (unique sibling names in the target), `EqRefl cv` (`v == v`),
`noClash l t` (the property's "shared no child name"), `notMerged l` (the linking Section is in
the state of a built, loaded or cleaned Section: no `_merged`, nothing on record as filled in).
-/
import OdmlModel.Model.Link
import OdmlModel.Proofs.Link

set_option linter.unusedVariables false

namespace C12
open Merge Link

variable {V : Type}

/-! ## 1. Resolving a link only adds copies -/

/-- The linking Section shares no child name with its target: resolving the link (a lenient
    merge) never raises, keeps every own child as it is and in place, and appends one copy of
    every child of the target, in the target's order. The target is an argument: unchanged.
    (`r.eff l.attrs`: the reference with the record flag in force at `l`; it only decides
    whether the copies carry a `_merged` mark, see `copy_is_faithful`.) -/
theorem link_adds_only (cv : Conv V) (r : Ref) (l t : Sec V) (hwf : wfSec cv t = true)
    (hnc : noClash l t = true) :
    (merge cv false r l t).2 = .ok ∧
    (merge cv false r l t).1.secs =
      l.secs ++ t.secs.map (fun o => cloneMerged ((r.eff l.attrs).child o.name) o) ∧
    (merge cv false r l t).1.props = l.props ++ t.props ∧
    (merge cv false r l t).1.name = l.name ∧ (merge cv false r l t).1.type = l.type ∧
    (merge cv false r l t).1.attrs.link = l.attrs.link ∧
    (merge cv false r l t).1.attrs.incl = l.attrs.incl := by
  rw [merge_noClash cv r l t hwf hnc]
  exact ⟨rfl, rfl, rfl, rfl, rfl, rfl, rfl⟩

/-- a copy differs from its original only in remembering where it came from (a copy made by a
    merge that is not recorded - on top of a resolved link, fix dccf4ba - remembers nothing) -/
theorem copy_is_faithful (r : Ref) (o : Sec V) :
    (cloneMerged r o).props = o.props ∧ (cloneMerged r o).secs = o.secs ∧
    (r.record = true → (cloneMerged r o).attrs = { o.attrs with merged := some r }) ∧
    (r.record = false → (cloneMerged r o).attrs = { o.attrs with merged := none }) :=
  ⟨rfl, rfl, fun h => by simp [cloneMerged, Ref.pick, h], fun h => by simp [cloneMerged, Ref.pick, h]⟩

/-- The general case (own children may use names of the target; first sentence of the
    property only): whenever resolving succeeds, every child of the target whose name the
    linking Section does not use is found as a copy, and every own child for which the target
    has no child of the same name (and type) is unchanged and in place. -/
theorem link_adds_only_general (cv : Conv V) (r : Ref) (l t : Sec V) (hwf : wfSec cv t = true)
    (hok : (merge cv false r l t).2 = .ok) :
    (∀ o ∈ t.secs, secNameIn l.secs o.name = false →
      findSec (merge cv false r l t).1.secs o.name o.type =
        some (cloneMerged ((r.eff l.attrs).child o.name) o)) ∧
    (∀ p ∈ t.props, propNameIn l.props p.name = false →
      findProp (merge cv false r l t).1.props p.name = some p) ∧
    (∀ (i : Nat) (c : Sec V), l.secs[i]? = some c → (∀ o ∈ t.secs, ¬ (o.name = c.name ∧ o.type = c.type)) →
      (merge cv false r l t).1.secs[i]? = some c) ∧
    (∀ (i : Nat) (c : PropT V), l.props[i]? = some c → (∀ o ∈ t.props, o.name ≠ c.name) →
      (merge cv false r l t).1.props[i]? = some c) := by
  have hsh := merge_ok_shape cv false r l t hok
  have hw := hwf
  cases t with
  | mk ta tp ts =>
    rw [wfSec_mk] at hw
    simp only [Sec.secs_mk, Sec.props_mk] at hsh ⊢
    refine ⟨?_, ?_, ?_, ?_⟩
    · intro o ho hn
      rw [hsh.2.2.2]
      have hf : findSec l.secs o.name o.type = none := by
        rw [findSec_none_iff]; intro c hc h
        exact (secNameIn_false_iff _ _).1 hn c hc h.1
      exact (mergeSecs_result cv false ts (r.eff l.attrs) l.secs hw.2.2 hsh.2.1 o ho).2 hf
    · intro p hp hn
      rw [hsh.2.2.2]
      exact (mergeProps_result cv false tp l.props hw.1 hsh.2.2.1 p hp).2
        ((findProp_none_iff _ _).2 hn)
    · intro i c hi hl
      rw [hsh.2.2.2]
      exact mergeSecs_keeps cv false ts (r.eff l.attrs) l.secs i c hi hl
    · intro i c hi hl
      rw [hsh.2.2.2]
      exact mergeProps_keeps cv false tp l.props i c hi hl

/-! ## 2. Cleaning removes exactly the copies -/

/-- what `unmerge` leaves of a definition / reference `merge` looked at, when nothing was on
    record before: the own one — set or unset, equal to the target's or not -/
theorem unfill_fill (a b : Option Str) : unfill (fillText a b) (recFill a b none) = a := by
  cases a with
  | some x => rfl
  | none =>
    cases b with
    | none => rfl
    | some y =>
      cases y with
      | nil => rfl
      | cons c cs => simp [fillText, recFill, unfill]

/-- `unmerge` after resolving (no shared child name), for a linking Section in any state: all
    copies are gone, the own children are as before and in place, the Section is no longer
    merged and nothing is on record any more; link and include are kept; of definition and
    reference what is on record as filled in is taken back: what this merge filled in or an
    earlier merge left on record, or - a merge that is not recorded - only the latter. -/
theorem unmerge_restores (cv : Conv V) (heq : EqRefl cv) (r : Ref) (l t : Sec V)
    (hwf : wfSec cv t = true) (hnc : noClash l t = true) :
    unmerge cv (merge cv false r l t).1 t =
      .mk { l.attrs with
              definition := unfill (fillText l.attrs.definition t.attrs.definition)
                ((r.eff l.attrs).pick
                  (recFill l.attrs.definition t.attrs.definition l.attrs.filledDef) l.attrs.filledDef)
              reference := unfill (fillText l.attrs.reference t.attrs.reference)
                ((r.eff l.attrs).pick
                  (recFill l.attrs.reference t.attrs.reference l.attrs.filledRef) l.attrs.filledRef)
              filledDef := none, filledRef := none, merged := none } l.props l.secs := by
  rw [merge_noClash cv r l t hwf hnc]
  have hnc' := (noClash_iff l t).1 hnc
  cases t with
  | mk ta tp ts =>
    rw [wfSec_mk] at hwf
    simp only [Sec.secs_mk, Sec.props_mk, Sec.attrs_mk] at hnc' ⊢
    unfold unmerge
    simp only [Sec.attrs_mk, Sec.props_mk, Sec.secs_mk]
    rw [unmergeSecs_clones cv heq (r.eff l.attrs) ts l.secs hwf.2.2 hnc'.1,
        unmergeProps_copies cv heq tp l.props hwf.1 hnc'.2]

/-- The full-strength restoration law for one linking Section: `l` is any Section that is not
    merged (as built, loaded or cleaned), `t` any target it shares no child name with; the merge
    is one that is recorded (`r.record`: the setters resolve with `_merge(target, False, True)`). -/
def Restores (cv : Conv V) : Prop :=
  ∀ (r : Ref) (l t : Sec V), r.record = true → wfSec cv t = true → noClash l t = true →
    notMerged l = true → unmerge cv (merge cv false r l t).1 t = l

theorem notMerged_iff (l : Sec V) :
    notMerged l = true ↔
      l.attrs.merged = none ∧ l.attrs.filledDef = none ∧ l.attrs.filledRef = none := by
  unfold notMerged
  simp only [Bool.and_eq_true, Option.isNone_iff_eq_none, and_assoc]

/-- **Clean after finalize restores the linking Section exactly** — whatever definition and
    reference the linking Section and the target have: an unset one is filled in by the merge
    and taken back by `unmerge`, a set one is kept also when it equals the target's. (Before
    the fix of finding `C12/definition-reference-filled-not-restored` this held only where
    nothing was filled: `Link.noFill`.) -/
theorem clean_after_link (cv : Conv V) (heq : EqRefl cv) (r : Ref) (l t : Sec V)
    (hr : r.record = true)
    (hwf : wfSec cv t = true) (hnc : noClash l t = true) (hm : notMerged l = true) :
    unmerge cv (merge cv false r l t).1 t = l := by
  rw [unmerge_restores cv heq r l t hwf hnc]
  obtain ⟨h1, h2, h3⟩ := (notMerged_iff l).1 hm
  have he := Ref.eff_record_on r l.attrs hr (resolved_of_not_merged _ h1)
  rw [Ref.pick_on _ he, Ref.pick_on _ he, h2, h3, unfill_fill, unfill_fill]
  cases l with
  | mk a ps ss =>
    simp only [Sec.attrs_mk, Sec.props_mk, Sec.secs_mk] at h1 h2 h3 ⊢
    cases a; simp_all

/-- The restoration law holds of the code, for every value interpretation with `v == v`. -/
theorem clean_finalize_restores (cv : Conv V) (heq : EqRefl cv) : Restores cv :=
  fun r l t hr hwf hnc hm => clean_after_link cv heq r l t hr hwf hnc hm

theorem eqRefl_convC : EqRefl convC := by
  intro v
  cases v <;> simp [convC, eqC, Val.halves]

/-- witness of the former finding: the target has a definition, the linking Section has none -/
def wLinker : Sec Val :=
  .mk { name := ['l'], type := ['t'], definition := none, reference := none,
        link := some ['/', 'x'], incl := none, merged := none } [] []
def wTarget : Sec Val :=
  .mk { name := ['x'], type := ['t'], definition := some ['D'], reference := none,
        link := none, incl := none, merged := none } [] []

/-- On the witness of the former finding: while resolved the linking Section shows the
    target's definition (and has it on record), after `unmerge` it is the Section it was. -/
theorem filled_definition_taken_back :
    (merge convC false { url := none, path := [['x']] } wLinker wTarget).1.attrs.definition
      = some ['D'] ∧
    (merge convC false { url := none, path := [['x']] } wLinker wTarget).1.attrs.filledDef
      = some ['D'] ∧
    unmerge convC (merge convC false { url := none, path := [['x']] } wLinker wTarget).1 wTarget
      = wLinker :=
  ⟨by decide, by decide,
   clean_after_link convC eqRefl_convC _ wLinker wTarget rfl (by decide) (by decide) (by decide)⟩

/-- An edit between finalize and clean is not destroyed: a definition / reference that is no
    longer the one `merge` filled in is kept by `unmerge` (any Section `m`, any target). -/
theorem clean_keeps_user_edit (cv : Conv V) (m t : Sec V) :
    (∀ v, m.attrs.filledDef = some v → m.attrs.definition ≠ some v →
      (unmerge cv m t).attrs.definition = m.attrs.definition) ∧
    (∀ v, m.attrs.filledRef = some v → m.attrs.reference ≠ some v →
      (unmerge cv m t).attrs.reference = m.attrs.reference) ∧
    (m.attrs.filledDef = none → (unmerge cv m t).attrs.definition = m.attrs.definition) ∧
    (m.attrs.filledRef = none → (unmerge cv m t).attrs.reference = m.attrs.reference) := by
  cases t with
  | mk ta tp ts =>
    unfold unmerge
    simp only [Sec.attrs_mk]
    refine ⟨?_, ?_, ?_, ?_⟩
    · intro v hv hne; rw [hv]; simp [unfill, hne]
    · intro v hv hne; rw [hv]; simp [unfill, hne]
    · intro hv; rw [hv]; rfl
    · intro hv; rw [hv]; rfl

/-- `unmerge` re-establishes the state the restoration law starts from. -/
theorem unmerge_notMerged (cv : Conv V) (m t : Sec V) : notMerged (unmerge cv m t) = true := by
  cases t with
  | mk ta tp ts => unfold unmerge; rfl

/-- Also with shared child names and in strict mode: whenever a merge succeeds, `unmerge` gives
    the linking Section its own attributes back (name, type, definition, reference, link,
    include); only for the children the restoration law needs `noClash`. -/
theorem clean_restores_attrs_general (cv : Conv V) (k : Bool) (r : Ref) (l t : Sec V)
    (hr : r.record = true)
    (hok : (merge cv k r l t).2 = .ok) (hm : notMerged l = true) :
    (unmerge cv (merge cv k r l t).1 t).attrs = l.attrs := by
  have hsh := merge_ok_shape cv k r l t hok
  rw [hsh.2.2.2]
  obtain ⟨h1, h2, h3⟩ := (notMerged_iff l).1 hm
  have he := Ref.eff_record_on r l.attrs hr (resolved_of_not_merged _ h1)
  cases t with
  | mk ta tp ts =>
    unfold unmerge
    simp only [Sec.attrs_mk, Ref.pick_on _ he, h2, h3, unfill_fill]
    cases l with
    | mk a ps ss =>
      simp only [Sec.attrs_mk] at h1 h2 h3 ⊢
      cases a; simp_all

/-- Repeated cycles: from any state of the linking Section (merged or not, whatever is on
    record), after one finalize / clean cycle every further cycle restores it exactly. -/
theorem cycle_stable (cv : Conv V) (heq : EqRefl cv) (r : Ref) (l t : Sec V)
    (hr : r.record = true)
    (hwf : wfSec cv t = true) (hnc : noClash l t = true) :
    let l1 := unmerge cv (merge cv false r l t).1 t
    unmerge cv (merge cv false r l1 t).1 t = l1 := by
  simp only
  apply clean_after_link cv heq r _ t hr hwf
  · rw [unmerge_restores cv heq r l t hwf hnc]
    rw [noClash_iff] at hnc ⊢; exact hnc
  · exact unmerge_notMerged cv _ t

/-! ## 3. `Section.clean()` on a resolved linking Section -/

theorem cleanSec_noLinks (cv : Conv V) (deref : Ref → Option (Sec V)) :
    ∀ (n : Nat) (s : Sec V), noLinks s = true → cleanSec cv deref n s = s := by
  intro n
  induction n with
  | zero => intro s _; rfl
  | succ n ih =>
    intro s hs
    cases s with
    | mk a ps ss =>
      rw [noLinks] at hs
      simp only [Bool.and_eq_true, Option.isNone_iff_eq_none] at hs
      unfold cleanSec
      simp only [Sec.attrs_mk, hs.1.2, Sec.props_mk, Sec.secs_mk]
      have : ∀ l : List (Sec V), noLinksList l = true → l.map (cleanSec cv deref n) = l := by
        intro l
        induction l with
        | nil => intro _; rfl
        | cons c cs ihl =>
          intro hl
          rw [noLinksList] at hl
          simp only [Bool.and_eq_true] at hl
          rw [List.map_cons, ih c hl.1, ihl hl.2]
      rw [this ss hs.2]

/-- `Section.clean()` of a resolved linking Section whose own children carry no links: the
    `_merged` object is looked up, `unmerge` removes the copies, and cleaning the remaining
    (own) children changes nothing. -/
theorem clean_sec_restores (cv : Conv V) (heq : EqRefl cv) (deref : Ref → Option (Sec V))
    (n : Nat) (r : Ref) (l t : Sec V) (hr : r.record = true)
    (hwf : wfSec cv t = true) (hnc : noClash l t = true)
    (hm : notMerged l = true) (hown : noLinksList l.secs = true)
    (hd : deref r = some t) :
    cleanSec cv deref (n + 1) (merge cv false r l t).1 = l := by
  have hmg : (merge cv false r l t).1.attrs.merged = some r := by
    rw [merge_noClash cv r l t hwf hnc]
    exact Ref.pick_on _ (Ref.eff_record_on r l.attrs hr
      (resolved_of_not_merged _ ((notMerged_iff l).1 hm).1)) _ _
  unfold cleanSec
  simp only [hmg, hd]
  rw [clean_after_link cv heq r l t hr hwf hnc hm]
  have : ∀ ls : List (Sec V), noLinksList ls = true → ls.map (cleanSec cv deref n) = ls := by
    intro ls
    induction ls with
    | nil => intro _; rfl
    | cons c cs ihl =>
      intro hl
      rw [noLinksList] at hl
      simp only [Bool.and_eq_true] at hl
      rw [List.map_cons, cleanSec_noLinks cv deref n c hl.1, ihl hl.2]
  rw [this l.secs hown]
  exact Sec.eta l

/-! ## 4. Whole documents: one step of `finalize` and the loop -/

/-- `finalize` skips a Section that has neither link nor include. -/
theorem finalize_step_not_linker (cv : Conv V) (fetch : Str → Option (Doc V)) (doc : Doc V)
    (p : List Str) (l : Sec V) (hl : secAt doc p = some l) (h1 : l.attrs.link = none)
    (h2 : l.attrs.incl = none) : linkStep cv fetch doc p = (doc, .ok) :=
  linkStep_nolink cv fetch doc p l hl h1 h2

/-- At a linking Section, at any depth: the Section is replaced in place by the lenient merge
    of itself with the Section its stored path designates (sections 1-3 say what that is). -/
theorem finalize_step_at_linker (cv : Conv V) (fetch : Str → Option (Doc V)) (doc : Doc V)
    (p : List Str) (l t : Sec V) (txt : Str) (hl : secAt doc p = some l)
    (hk : l.attrs.link = some txt) (ht : secAt doc (parsePath txt) = some t) :
    let l1 := cleanSec cv (deref fetch doc) (height l + 1) l
    let r := merge cv false { url := none, path := parsePath txt } l1 t
    (linkStep cv fetch doc p).2 = r.2 ∧ secAt (linkStep cv fetch doc p).1 p = some r.1 :=
  linkStep_at_link cv fetch doc p l t txt hl hk ht

/-- One step changes neither the referenced Section nor any other part of the document: every
    Section at a position disjoint from the linking Section's is untouched, whatever the
    outcome of the step. -/
theorem finalize_step_frame (cv : Conv V) (fetch : Str → Option (Doc V)) (doc : Doc V)
    (p q : List Str) (hp : p ≠ []) (hq : q ≠ []) (hd : diverge p q = true) :
    secAt (linkStep cv fetch doc p).1 q = secAt doc q :=
  linkStep_frame cv fetch doc p q hp hq hd

/-- The loop over any list of positions (e.g. the linking Sections of the document): a Section
    disjoint from all of them is untouched, whatever the outcome. -/
theorem finalize_loop_frame (cv : Conv V) (fetch : Str → Option (Doc V)) (ps : List (List Str))
    (doc : Doc V) (q : List Str) (hq : q ≠ []) (h : ∀ p ∈ ps, p ≠ [] ∧ diverge p q = true) :
    secAt (linkSteps cv fetch doc ps).1 q = secAt doc q :=
  linkSteps_frame cv fetch ps doc q hq h

/-! ## 5. The text of an include: `URL#path` -/

/-- "include (URL#path of another file)": the include text written from a URL (which holds no
    `#`: it would start the fragment) and a position by names designates exactly that URL and
    that position — whatever characters but `/` the names hold, a `#` included (`shank #1`):
    the text is split at the FIRST `#` only. -/
theorem include_text_designates (u : Str) (ns : List Str)
    (hu : ∀ c ∈ u, (c == '#') = false) (hns : ∀ n ∈ ns, ∀ c ∈ n, (c == '/') = false) :
    parseInclude (u ++ '#' :: absPath ns) = (u, some ns) := by
  unfold parseInclude
  rw [splitFirst_append_sep '#' u (absPath ns) hu]
  simp only [Option.map_some]
  rw [parsePath_absPath ns hns]

/-- An include without `#` names the whole file (its first Section). -/
theorem include_text_without_path (u : Str) (hu : ∀ c ∈ u, (c == '#') = false) :
    parseInclude u = (u, none) := by
  unfold parseInclude
  rw [splitFirst_no_sep '#' u hu]
  rfl

/-- The include variant of `finalize_step_at_linker`: at a Section (any depth) whose include is
    `URL#path`, the Section is replaced in place by the lenient merge of itself with the
    Section at that position of the document served for the URL — also when a name on the way
    holds a `#`. -/
theorem finalize_step_at_include (cv : Conv V) (fetch : Str → Option (Doc V)) (doc : Doc V)
    (p : List Str) (l t : Sec V) (u : Str) (ns : List Str) (term : Doc V)
    (hl : secAt doc p = some l) (h1 : l.attrs.link = none)
    (hk : l.attrs.incl = some (u ++ '#' :: absPath ns))
    (hu : ∀ c ∈ u, (c == '#') = false) (hns : ∀ n ∈ ns, ∀ c ∈ n, (c == '/') = false)
    (hf : fetch u = some term) (ht : secAt term ns = some t) :
    let l1 := cleanSec cv (deref fetch doc) (height l + 1) l
    let r := merge cv false { url := some u, path := ns } l1 t
    (linkStep cv fetch doc p).2 = r.2 ∧ secAt (linkStep cv fetch doc p).1 p = some r.1 :=
  linkStep_at_include cv fetch doc p l t _ u ns term hl h1 hk
    (include_text_designates u ns hu hns) hf ht

/-- `f#/p/s #1` is the Section `s #1` below `p` of the file `f`, not `/p/s ` and not `1`. -/
example : parseInclude "f#/p/s #1".toList = ("f".toList, some ["p".toList, "s #1".toList]) := by
  decide

/-! ## Hypotheses are satisfiable -/

def attrs0 (n t : Str) : SecAttrs :=
  { name := n, type := t, definition := none, reference := none, link := none, incl := none,
    merged := none }
def pA : PropT Val := {
  name := ['a'], dtype := some .int, values := [.int 1, .int 2],
  unit := some ['m', 'V'], uncertainty := none, definition := none, reference := none, origin := none }
def pB : PropT Val := {
  name := ['b'], dtype := some .float, values := [.flt 2, .flt 7],
  unit := none, uncertainty := some 1, definition := some ['D'], reference := none, origin := none }
def eTarget : Sec Val :=
  .mk { name := ['t'], type := ['u'], definition := none, reference := none, link := none,
        incl := none, merged := none } [pA]
      [.mk (attrs0 ['c'] ['u']) [pB] [.mk (attrs0 ['g'] ['u']) [] []]]
def eLinker : Sec Val :=
  .mk { name := ['l'], type := ['u'], definition := some ['o', 'w', 'n'], reference := none,
        link := some ['/', 't'], incl := none, merged := none }
      [{ pA with name := ['o', '1'] }] [.mk (attrs0 ['o', '2'] ['u']) [] []]

example : wfSec convC eTarget = true ∧ noClash eLinker eTarget = true ∧
    notMerged eLinker = true ∧ noLinksList eLinker.secs = true ∧
    (merge convC false default eLinker eTarget).1.secs.length = 2 := by decide
example : EqRefl convC := eqRefl_convC

end C12
