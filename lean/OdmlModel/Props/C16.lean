/-
C16 — Readers are total: a document, or a ParserException — never anything else.

Property theorems only; helper lemmas are in `Proofs/Reader.lean`.
Model: `Model/Reader.lean`, `Model/ReaderXml.lean` (tied to /repo by `harness/c16.py`).

`Guards.fixed` is the code on branch `work-C16` (the `fix:` commits); the `original_*` theorems
show, on the model of the code before those commits, that each guard is needed: the property is
false there, with the witness replayed on the real library by the harness (corpus/C16).
All statements hold for every `Env` / `DEnv`, i.e. whatever the odML constructors, `from_csv` and
`uuid` do.
-/
import OdmlModel.Model.Reader
import OdmlModel.Proofs.Reader
import OdmlModel.Proofs.ReaderSpec
import OdmlModel.Proofs.ReaderDenote
import OdmlModel.Proofs.ReaderWF
import OdmlModel.Proofs.ReaderDictSpec
import OdmlModel.Proofs.ReaderDictDenote
import OdmlModel.Proofs.ReaderDictFull
import OdmlModel.Proofs.ReaderCount

set_option linter.unusedSimpArgs false

namespace C16
open Reader

/-! ## 1. XML reader -/

/-- Well-formed XML with an `<odML>` root of the current format version
    (`_handle_version` accepts the root). -/
def RootOk (x : Xml) : Prop := rootVerdict x = .ok

/-- `RootOk` spelled out: an `odML` element whose `version` attribute is the format version. -/
theorem rootOk_of_attrs (attrs : List (Str × Str)) (text : Option Str) (kids : List Xml) (k : Str)
    (h : attrs.find? (fun p => p.1 == "version".toList) = some (k, Gen.Format.formatVersion.toList)) :
    RootOk (.elem "odML".toList attrs text kids) := by
  simp only [RootOk, rootVerdict, h]
  simp

theorem parseRoot_conv (env : Env) (m : Mode) (x : Xml) (h : RootOk x) :
    Conv m (parseRoot Guards.fixed env m x) := by
  cases x with
  | other k => simp [RootOk, rootVerdict] at h
  | elem tag attrs text kids =>
    unfold parseRoot
    exact (parse_conv _ Guards.fixed_xmlOk env m).1 _ _ _ _ _ ⟨_, _, _, _, rfl⟩

/-- Totality on trees: whatever tree lxml delivers, in both modes, the XML reader ends with a
    document, a ParserException or an InvalidVersionException — no other exception escapes. -/
theorem readXml_total (env : Env) (m : Mode) (x : Xml) :
    ∀ c, readXml Guards.fixed env m x ≠ .error (.leak c) := by
  intro c
  unfold readXml
  cases h : rootVerdict x with
  | notOdml => simp
  | noVersion => simp
  | wrongVersion => simp
  | ok => exact Conv.no_leak (parseRoot_conv env m x h) c

/-- Lenient mode never raises on well-formed input with a current odML root:
    every problem becomes a warning. -/
theorem lenient_never_raises (env : Env) (x : Xml) (h : RootOk x) :
    ∃ d w, readXml Guards.fixed env .lenient x = .ok (d, w) := by
  obtain ⟨⟨d, w⟩, hd⟩ := Conv.lenient_ok (parseRoot_conv env .lenient x h)
  refine ⟨d, w, ?_⟩
  unfold readXml
  rw [h]
  exact hd

/-- Strict mode: the only exception from inside the tree is ParserException. -/
theorem strict_only_parser_exception (env : Env) (x : Xml) (h : RootOk x) (e : Err)
    (he : readXml Guards.fixed env .strict x = .error e) : e = .parserException := by
  unfold readXml at he
  rw [h] at he
  exact (parseRoot_conv env .strict x h e he).1

/-- `from_string`: text → tree failures of lxml are converted as well. -/
theorem readXmlText_total (env : Env) (m : Mode) (p : Parsed) :
    ∀ c, readXmlText Guards.fixed env m p ≠ .error (.leak c) := by
  intro c
  cases p with
  | syntaxError => simp [readXmlText]
  | valueError => simp [readXmlText, Guards.fixed]
  | tree x => exact readXml_total env m x c

/-- InvalidVersionException is raised exactly when `_handle_version` finds an `<odML>` root whose
    version attribute is not the current format version. -/
theorem invalid_version_iff (env : Env) (m : Mode) (x : Xml) :
    readXml Guards.fixed env m x = .error .invalidVersion ↔ rootVerdict x = .wrongVersion := by
  unfold readXml
  cases h : rootVerdict x with
  | notOdml => simp
  | noVersion => simp
  | wrongVersion => simp
  | ok =>
    simp only
    constructor
    · intro he
      have := (parseRoot_conv env m x h _ he).1
      cases this
    · intro he; cases he

/-- `_handle_version` hard-codes the tag `odML`; the format tables agree with it
    (re-checked against `odml/format.py` on every run). -/
theorem root_tag_in_tables :
    kindOfTag "odML".toList = some .doc ∧ kindOfTag "section".toList = some .sec ∧
    kindOfTag "property".toList = some .prop ∧
    inMapKeys .doc "section".toList = true ∧ inMapKeys .sec "section".toList = true ∧
    inMapKeys .sec "property".toList = true ∧ isArgKey .doc "property".toList = false := by decide

/-! ## 2. Dictionary reader -/

/-- A dictionary with a `Document` dictionary and the current `odml-version`. -/
def DictRootOk (x : J) : Prop := ∃ kvs, dictVerdict Guards.fixed x = .ok (.obj kvs)

/-- Totality of `DictReader.to_odml` on *every* JSON-like value (not only dictionaries). -/
theorem readDict_total (env : DEnv) (m : Mode) (x : J) :
    ∀ c, readDict Guards.fixed env m x ≠ .error (.leak c) := by
  intro c
  have hv := dictVerdict_fixed Guards.fixed rfl x
  unfold readDict
  cases h : dictVerdict Guards.fixed x with
  | leak l => exact absurd h (hv.1 l)
  | refused => simp
  | wrongVersion => simp
  | ok d =>
    obtain ⟨kvs, hk⟩ := hv.2 d h
    subst hk
    exact Conv.no_leak (readDoc_conv _ Guards.fixed_dictOk env m kvs) c

/-- Lenient mode never raises on a dictionary with a `Document` dictionary and the current
    version. -/
theorem dict_lenient_never_raises (env : DEnv) (x : J) (h : DictRootOk x) :
    ∃ d w, readDict Guards.fixed env .lenient x = .ok (d, w) := by
  obtain ⟨kvs, hk⟩ := h
  obtain ⟨⟨d, w⟩, hd⟩ := Conv.lenient_ok (readDoc_conv _ Guards.fixed_dictOk env .lenient kvs)
  refine ⟨d, w, ?_⟩
  unfold readDict
  rw [hk]
  exact hd

theorem dict_strict_only_parser_exception (env : DEnv) (x : J) (h : DictRootOk x) (e : Err)
    (he : readDict Guards.fixed env .strict x = .error e) : e = .parserException := by
  obtain ⟨kvs, hk⟩ := h
  unfold readDict at he
  rw [hk] at he
  exact (readDoc_conv _ Guards.fixed_dictOk env .strict kvs e he).1

/-! ## 2b. What a lenient read keeps; sibling names of what it returns

Statements about the child-insertion step of `parse_tag` / `parse_sections` (the only place where
a parsed object can be left out) — for the whole loop, any number of children. A freshly created
object has no children (`UniqKids` holds trivially, see the `example`). -/

/-- XML reader: after the insertion loop every parsed child is in the object, or it was refused —
    and then a kept sibling of its sort carries the same name (or the parent cannot hold that
    sort at all). Nothing that was in the object before is lost. -/
theorem insert_keeps_valid_parts (m : Mode) (obj : Obj Str) (cs : List (Obj Str)) (w : Nat)
    (o : Obj Str) (w' : Nat) (h : insertChildren Guards.fixed m obj cs w = .ok (o, w'))
    (hu : UniqKids (· == ·) obj) :
    (∀ x ∈ obj.props, x ∈ o.props) ∧ (∀ x ∈ obj.secs, x ∈ o.secs) ∧
    (∀ c ∈ cs, c ∈ o.props ∨ c ∈ o.secs ∨ Refused (· == ·) o c) := by
  obtain ⟨_, kp, ks, _, kc⟩ := insertChildren_spec _ m obj cs w o w' h hu
  exact ⟨kp, ks, kc⟩

/-- XML reader: the insertion loop never produces two Sections or two Properties of one parent
    with the same name (C04 for loaded documents, per parent). -/
theorem insert_keeps_names_unique (m : Mode) (obj : Obj Str) (cs : List (Obj Str)) (w : Nat)
    (o : Obj Str) (w' : Nat) (h : insertChildren Guards.fixed m obj cs w = .ok (o, w'))
    (hu : UniqKids (· == ·) obj) : UniqKids (· == ·) o :=
  (insertChildren_spec _ m obj cs w o w' h hu).1

/-- In lenient mode the insertion loop always completes. -/
theorem insert_lenient_total (obj : Obj Str) (cs : List (Obj Str)) (w : Nat) :
    ∃ o w', insertChildren Guards.fixed .lenient obj cs w = .ok (o, w') := by
  obtain ⟨⟨o, w'⟩, h⟩ := Conv.lenient_ok (insertChildren_conv Guards.fixed rfl .lenient obj cs w)
  exact ⟨o, w', h⟩

/-- Dictionary reader: the same for `sec.append(child)` in `parse_sections`. -/
theorem dict_insert_keeps_valid_parts (m : Mode) (obj : Obj J) (cs : List (Obj J)) (w : Nat)
    (o : Obj J) (w' : Nat) (h : insertEach m obj cs w = .ok (o, w')) (hu : UniqKids J.pyEq obj) :
    (∀ x ∈ obj.props, x ∈ o.props) ∧ (∀ x ∈ obj.secs, x ∈ o.secs) ∧
    (∀ c ∈ cs, c ∈ o.props ∨ c ∈ o.secs ∨ Refused J.pyEq o c) := by
  obtain ⟨_, kp, ks, _, kc⟩ := insertEach_spec m obj cs w o w' h hu
  exact ⟨kp, ks, kc⟩

theorem dict_insert_keeps_names_unique (m : Mode) (obj : Obj J) (cs : List (Obj J)) (w : Nat)
    (o : Obj J) (w' : Nat) (h : insertEach m obj cs w = .ok (o, w')) (hu : UniqKids J.pyEq obj) :
    UniqKids J.pyEq o :=
  (insertEach_spec m obj cs w o w' h hu).1

example (k : Kind) (n : Name Str) (b : Bool) : UniqKids (· == ·) (Obj.mk k n b [] []) :=
  ⟨List.Pairwise.nil, List.Pairwise.nil⟩

/-! ## 3. The code before the `fix:` commits violates the property (one witness per guard) -/

/-- The exception class that escaped, if one did. -/
def leakOf : Except Err α → Option Leak
  | .error (.leak c) => some c
  | _ => none

theorem leakOf_some {r : Except Err α} {c : Leak} (h : leakOf r = some c) : r = .error (.leak c) := by
  cases r with
  | ok a => cases h
  | error e => cases e <;> simp [leakOf] at h; subst h; rfl

/-- How a call ended, if not with a document. -/
def errOf : Except Err α → Option Err
  | .error e => some e
  | .ok _ => none

/-- constructors never fail, `from_csv` refuses exactly the text `[a\rb,c]` -/
def env0 : Env := ⟨fun s => s == "[a\rb,c]".toList, fun _ _ => false, fun _ _ => .fresh⟩
def denv0 : DEnv := ⟨fun _ _ => false, fun _ _ => .fresh⟩
/-- the Document constructor refuses the date `foo` -/
def denvDate : DEnv :=
  ⟨fun k a => k == .doc && a.any (fun p => p.1 == "date".toList), fun _ _ => .fresh⟩

def leaf (t : String) (x : String) : Xml := .elem t.toList [] (some x.toList) []
def secX (name : String) (more : List Xml) : Xml :=
  .elem "section".toList [] none ([leaf "name" name, leaf "type" "t"] ++ more)
def docX (kids : List Xml) : Xml := .elem "odML".toList [("version".toList, "1.1".toList)] none kids

/-- `<odML version="1.1"><section>a</section><section>a</section></odML>` -/
def dupSections : Xml := docX [secX "a" [], secX "a" []]
def withPi : Xml := docX [.other .pi]
def badCsv : Xml := docX [secX "a" [.elem "property".toList [] none [leaf "name" "p", leaf "value" "[a\rb,c]"]]]
def superCard : Xml := docX [secX "a" [leaf "sec_cardinality" "(²,3)"]]

example : RootOk dupSections := by unfold RootOk; decide
example : RootOk withPi := by unfold RootOk; decide

theorem original_leaks_duplicate_names :
    ¬ (∀ m x c, readXml { Guards.fixed with guardAppend := false } env0 m x ≠ .error (.leak c)) := by
  intro h
  have w : leakOf (readXml { Guards.fixed with guardAppend := false } env0 .lenient dupSections)
      = some .keyError := by decide
  exact h _ _ _ (leakOf_some w)

theorem original_leaks_processing_instruction :
    ¬ (∀ m x c, readXml { Guards.fixed with skipNonElem := false } env0 m x ≠ .error (.leak c)) := by
  intro h
  have w : leakOf (readXml { Guards.fixed with skipNonElem := false } env0 .lenient withPi)
      = some .attributeError := by decide
  exact h _ _ _ (leakOf_some w)

theorem original_leaks_csv_error :
    ¬ (∀ m x c, readXml { Guards.fixed with guardCsv := false } env0 m x ≠ .error (.leak c)) := by
  intro h
  have w : leakOf (readXml { Guards.fixed with guardCsv := false } env0 .lenient badCsv)
      = some .csvError := by decide
  exact h _ _ _ (leakOf_some w)

theorem original_leaks_superscript_cardinality :
    ¬ (∀ m x c, readXml { Guards.fixed with decimalCard := false } env0 m x ≠ .error (.leak c)) := by
  intro h
  have w : leakOf (readXml { Guards.fixed with decimalCard := false } env0 .strict superCard)
      = some .valueError := by decide
  exact h _ _ _ (leakOf_some w)

theorem original_leaks_encoding_declaration :
    ¬ (∀ m p c, readXmlText { Guards.fixed with convertValueError := false } env0 m p ≠ .error (.leak c)) := by
  intro h
  exact h .strict .valueError .valueError rfl

/-- the same trees are read without a leak by the fixed code: a warning each in lenient mode -/
example : (readXml Guards.fixed env0 .lenient dupSections).toOption.map (·.2) = some 1 := by decide
example : (readXml Guards.fixed env0 .lenient withPi).toOption.map (·.2) = some 0 := by decide
example : (readXml Guards.fixed env0 .lenient badCsv).toOption.map (·.2) = some 1 := by decide
example : errOf (readXml Guards.fixed env0 .strict dupSections) = some .parserException := by decide

def jstr (s : String) : J := .str s.toList
def secJ (name : String) (more : List (Str × J)) : J :=
  .obj ([("name".toList, jstr name), ("type".toList, jstr "t")] ++ more)
def docJ (kvs : List (Str × J)) : J :=
  .obj [("Document".toList, .obj kvs), ("odml-version".toList, jstr "1.1")]

def dupTop : J := docJ [("sections".toList, .arr [secJ "a" [], secJ "a" []])]
def badDate : J := docJ [("date".toList, jstr "foo")]
def sectionsNull : J := docJ [("sections".toList, .null)]
/-- Section `a` with Properties `p`, `p` and a valid Subsection `b` -/
def dupProps : J := docJ [("sections".toList, .arr [secJ "a"
  [("properties".toList, .arr [.obj [("name".toList, jstr "p")], .obj [("name".toList, jstr "p")]]),
   ("sections".toList, .arr [secJ "b" []])]])]

/-- decidable form of `DictRootOk` -/
def dictRootOkB (x : J) : Bool :=
  match dictVerdict Guards.fixed x with
  | .ok (.obj _) => true
  | _ => false

theorem dictRootOk_of_B (x : J) (h : dictRootOkB x = true) : DictRootOk x := by
  unfold dictRootOkB at h
  split at h
  · rename_i kvs hk; exact ⟨kvs, hk⟩
  · cases h

example : DictRootOk dupTop := dictRootOk_of_B _ (by decide)
example : DictRootOk dupProps := dictRootOk_of_B _ (by decide)

theorem original_dict_leaks_duplicate_names :
    ¬ (∀ m x c, readDict { Guards.fixed with guardDocAppend := false } denv0 m x ≠ .error (.leak c)) := by
  intro h
  have w : leakOf (readDict { Guards.fixed with guardDocAppend := false } denv0 .lenient dupTop)
      = some .keyError := by decide
  exact h _ _ _ (leakOf_some w)

theorem original_dict_leaks_document_creation :
    ¬ (∀ m x c, readDict { Guards.fixed with guardDocCreate := false } denvDate m x ≠ .error (.leak c)) := by
  intro h
  have w : leakOf (readDict { Guards.fixed with guardDocCreate := false } denvDate .lenient badDate)
      = some .ctorError := by decide
  exact h _ _ _ (leakOf_some w)

theorem original_dict_leaks_non_dict_root :
    ¬ (∀ m x c, readDict { Guards.fixed with rootIsDict := false } denv0 m x ≠ .error (.leak c)) := by
  intro h
  have w : leakOf (readDict { Guards.fixed with rootIsDict := false } denv0 .strict .null)
      = some .typeError := by decide
  exact h _ _ _ (leakOf_some w)

theorem original_dict_leaks_wrong_shapes :
    ¬ (∀ m x c, readDict { Guards.fixed with shapeChecks := false } denv0 m x ≠ .error (.leak c)) := by
  intro h
  have w : leakOf (readDict { Guards.fixed with shapeChecks := false } denv0 .lenient sectionsNull)
      = some .typeError := by decide
  exact h _ _ _ (leakOf_some w)

/-- number of top-level Sections of the returned document -/
def topCount : Except Err (Obj J × Nat) → Option Nat
  | .ok (o, _) => some o.secs.length
  | .error _ => none

/-- Before the fix, a lenient read dropped the whole Section `a` (with its valid Subsection)
    because one of its Properties was a duplicate; now only the duplicate is left out. -/
theorem original_dict_drops_valid_section :
    topCount (readDict { Guards.fixed with perChildAppend := false } denv0 .lenient dupProps) = some 0 ∧
    topCount (readDict Guards.fixed denv0 .lenient dupProps) = some 1 := by decide

/-! ## 4. Nesting depth and the interpreter's stack

A `RecursionError` is neither a Document nor a ParserException. The XML reader recurses once per
nested object with three frames (`stackTag`), libxml2 accepts at most 256 nested elements and
Python allows 1000 frames: whatever the tree, the reader's own frames stay below the limit as long
as the caller and the library code below the innermost `parse_tag` (constructors, lxml callbacks)
together need at most 222 frames (measured by the harness on every deep tie case: at most 17). -/

/-- libxml2 without `XML_PARSE_HUGE` ("Excessive depth in document: 256" for the 257th level) -/
def libxmlMaxDepth : Nat := 256
/-- CPython's default `sys.getrecursionlimit()` -/
def pyRecursionLimit : Nat := 1000

theorem readerStack_le_depth (x : Xml) : readerStack x ≤ 3 * Xml.depth x + 9 := by
  have h := stack_le_depth.1 x .doc
  simp only [readerStack, helperFrames]
  omega

/-- Every tree libxml2 can hand to the reader is parsed within the recursion limit. -/
theorem nesting_within_recursion_limit (x : Xml) (h : Xml.depth x ≤ libxmlMaxDepth)
    (caller inner : Nat) (hc : caller + inner ≤ 222) :
    caller + readerStack x + inner < pyRecursionLimit := by
  have h1 := readerStack_le_depth x
  simp only [libxmlMaxDepth] at h
  simp only [pyRecursionLimit]
  omega

/-- `n` Sections inside each other -/
def nestKids : Nat → List Xml
  | 0 => []
  | n + 1 => [.elem "section".toList [] none (nestKids n)]

/-- a document with a chain of `n` nested Sections -/
def nestDoc (n : Nat) : Xml :=
  .elem "odML".toList [("version".toList, Gen.Format.formatVersion.toList)] none (nestKids n)

theorem stackKids_nestKids (kind : Kind) (hk : kind = .doc ∨ kind = .sec) (n : Nat) :
    stackKids kind (nestKids n) = 3 * n := by
  induction n generalizing kind with
  | zero => simp [nestKids, stackKids]
  | succ n ih =>
    have a1 : isArgKey kind (Py.lower "section".toList) = true := by
      rcases hk with h | h <;> subst h <;> decide
    have a2 : kindOfTag (Py.lower "section".toList) = some .sec := by decide
    have a3 : inMapKeys kind (Py.lower "section".toList) = true := by
      rcases hk with h | h <;> subst h <;> decide
    simp only [nestKids, stackKids, a1, a2, a3, stackTag, framesPerObject, ih .sec (Or.inr rfl)]
    omega

/-- The bound of `stack_le_depth` is attained: a chain of `n` Sections costs three frames per
    level (so a fourth frame per level would need `4 * 256 > 1000` frames below libxml2's limit). -/
theorem chain_needs_three_per_level (n : Nat) :
    stackTag .doc (nestDoc n) = 3 * Xml.depth (nestDoc n) ∧ Xml.depth (nestDoc n) = n + 1 := by
  have hd : ∀ n, Xml.depthList (nestKids n) = n := by
    intro n
    induction n with
    | zero => simp [nestKids, Xml.depthList]
    | succ n ih => simp only [nestKids, Xml.depthList, Xml.depth, ih]; omega
  simp only [nestDoc, stackTag, Xml.depth, framesPerObject, stackKids_nestKids .doc (Or.inl rfl) n, hd n]
  omega

/-! ## 5. What a read returns, as a statement about the whole returned tree (XML reader)

`Reader.denoteTag` (`Proofs/ReaderDenote.lean`) is the specification of "the valid parts of the
input": every Section / Property element becomes the object its argument elements describe (the
default object when the constructor refuses them) and is attached to its parent unless the parent
cannot hold that sort or an earlier kept sibling of its sort carries its name
(`Reader.keepValid` / `Reader.kept`) — recursively, for trees of any depth. `Reader.tagProblems`
counts what the reader objects to, `Reader.tagRepeats` the "given multiple times" warnings (a
warning in both modes). `Reader.fullTag` is the input's full content: all children attached. -/

/-- the valid parts of a document tree -/
def validParts (env : Env) (x : Xml) : Obj Str := denoteTag env .doc true x
/-- the number of problems of a document tree (calls of `self.error`) -/
def problems (env : Env) (x : Xml) : Nat := tagProblems env .doc true "odML".toList x
/-- the number of "given multiple times" warnings -/
def repeats (env : Env) (x : Xml) : Nat := tagRepeats env .doc x
/-- the full content of a document tree: every Section and Property element, none left out -/
def fullContent (env : Env) (x : Xml) : Obj Str := fullTag env .doc true x

theorem readXml_eq_outcome (env : Env) (m : Mode) (x : Xml) (h : RootOk x) :
    readXml Guards.fixed env m x
      = outcome m (problems env x) (validParts env x, problems env x + repeats env x) := by
  cases x with
  | other k => simp [RootOk, rootVerdict] at h
  | elem tag attrs text kids =>
    have ht : tag = "odML".toList := by
      by_cases hq : tag = "odML".toList
      · exact hq
      · exfalso
        have hn : rootVerdict (.elem tag attrs text kids) = .notOdml := by
          simp only [rootVerdict]
          rw [if_pos (bne_iff_ne.mpr hq)]
        rw [RootOk, hn] at h
        cases h
    subst ht
    unfold readXml
    rw [h]
    simp only [parseRoot, problems, validParts, repeats]
    rw [parseTag_spec _ Guards.fixed_xmlOk]
    exact outcome_congr m rfl (by congr 1; omega)

/-- **`lenient_keeps_valid_parts`, whole tree.** A lenient read of well-formed XML with a current
    odML root returns exactly the valid parts of the input — nothing valid is lost, nothing else is
    added, at any depth — and has recorded one warning per problem (plus one per repeated element). -/
theorem lenient_returns_valid_parts (env : Env) (x : Xml) (h : RootOk x) :
    readXml Guards.fixed env .lenient x
      = .ok (validParts env x, problems env x + repeats env x) := by
  rw [readXml_eq_outcome env .lenient x h, outcome_lenient]

/-- Strict mode: the same document if the input has no problem, ParserException otherwise. -/
theorem strict_returns_valid_parts_or_raises (env : Env) (x : Xml) (h : RootOk x) :
    readXml Guards.fixed env .strict x
      = if problems env x = 0 then .ok (validParts env x, repeats env x)
        else .error .parserException := by
  rw [readXml_eq_outcome env .strict x h]
  by_cases hp : problems env x = 0
  · simp only [hp, outcome_zero, if_true, Nat.zero_add]
  · simp only [hp, if_false]
    exact outcome_strict_pos _ _ hp

/-- Whatever strict mode returns, lenient mode returns too (same document, same warnings). -/
theorem strict_result_is_lenient_result (env : Env) (x : Xml) (r : Obj Str × Nat)
    (h : readXml Guards.fixed env .strict x = .ok r) : readXml Guards.fixed env .lenient x = .ok r := by
  have hr : RootOk x := by
    unfold readXml at h
    unfold RootOk
    cases hv : rootVerdict x <;> rw [hv] at h <;> first | rfl | cases h
  rw [strict_returns_valid_parts_or_raises env x hr] at h
  rw [lenient_returns_valid_parts env x hr]
  by_cases hp : problems env x = 0
  · simp only [hp, if_true] at h
    rw [hp, Nat.zero_add]
    exact h
  · simp only [hp, if_false] at h
    cases h

/-- **Nothing invalid ⇒ lenient = strict = the full content.** For an input without a problem both
    modes return the document with *every* Section and Property of the input, in document order. -/
theorem valid_input_read_in_full (env : Env) (x : Xml) (h : RootOk x) (hv : problems env x = 0) :
    readXml Guards.fixed env .lenient x = .ok (fullContent env x, repeats env x) ∧
    readXml Guards.fixed env .strict x = .ok (fullContent env x, repeats env x) := by
  have hf : validParts env x = fullContent env x := denote_eq_full env x .doc true _ hv
  rw [lenient_returns_valid_parts env x h, strict_returns_valid_parts_or_raises env x h, hv, hf]
  simp

/-- **`reader_output_wf`, whole tree.** Every document the XML reader returns, in either mode, is a
    well-formed tree at every level: non-empty names, pairwise different names among sibling
    Sections and among sibling Properties, Sections in Section lists and Properties in Property
    lists, no children below a Property, no Property directly in the Document. -/
theorem returned_document_wf (env : Env) (he : env.NamesOk) (m : Mode) (x : Xml) (d : Obj Str)
    (w : Nat) (h : readXml Guards.fixed env m x = .ok (d, w)) :
    TreeWF (· == ·) strOk d ∧ d.kind = .doc := by
  have hr : RootOk x := by
    unfold readXml at h
    unfold RootOk
    cases hv : rootVerdict x <;> rw [hv] at h <;> first | rfl | cases h
  have hl := strict_result_is_lenient_result env x (d, w)
  have hd : d = validParts env x := by
    cases m with
    | lenient =>
      rw [lenient_returns_valid_parts env x hr] at h
      cases h; rfl
    | strict =>
      have := hl h
      rw [lenient_returns_valid_parts env x hr] at this
      cases this; rfl
  subst hd
  refine ⟨denote_wf env he x .doc true, ?_⟩
  cases x with
  | other k => rfl
  | elem t a tx ks =>
    simp only [validParts, denoteTag, attach, if_true, keepValid]
    obtain ⟨n, b, hc, _⟩ := created_shape env .doc (specArgs env .doc ks [])
    rw [hc]
    rfl

/-- the hypothesis on `Env` is satisfiable: constructors that never invent an empty name -/
example : env0.NamesOk := by intro k a s h; cases h
/-- … or hand out a non-empty id as the name of an object created without one -/
example : (⟨fun _ => false, fun _ _ => false, fun _ _ => .given "4f2a".toList⟩ : Env).NamesOk := by
  intro k a s h; cases h; decide

/-- Two Sections `a` (the second with a Subsection), then a valid Section `c` with a Property:
    the second `a` is the one problem, everything else is returned. -/
def dupThenValid : Xml :=
  docX [secX "a" [], secX "a" [secX "b" []],
        secX "c" [.elem "property".toList [] none [leaf "name" "p"]]]

example : RootOk dupThenValid := by unfold RootOk; decide
example : problems env0 dupThenValid = 1 := by decide
example : ((validParts env0 dupThenValid).secs.map (·.name)) = [.given "a".toList, .given "c".toList] := by
  decide

/-- a document without a problem, two levels deep -/
def cleanDoc : Xml :=
  docX [secX "a" [secX "b" [], .elem "property".toList [] none [leaf "name" "p"]], secX "c" []]

example : RootOk cleanDoc := by unfold RootOk; decide
example : problems env0 cleanDoc = 0 := by decide

/-! ## 6. What a read returns, whole tree (dictionary reader: JSON / YAML)

`Reader.dDoc` (`Proofs/ReaderDictSpec.lean`, `ReaderDictDenote.lean`) is the specification of the valid
parts of a `Document` dictionary: every dictionary entry of a `sections` list whose Section the
constructor accepts, with the valid parts of its `properties` and `sections` attached unless an
earlier kept sibling of the sort has the name; every dictionary entry of a `properties` list
whose Property the constructor accepts; nothing else — recursively, any depth.
`Reader.docProblems` counts the calls of `self.error`. -/

theorem dictRootOk_of_ok (m : Mode) (env : DEnv) (x : J) (r : Obj J × Nat)
    (h : readDict Guards.fixed env m x = .ok r) : DictRootOk x := by
  have hv := dictVerdict_fixed Guards.fixed rfl x
  unfold readDict at h
  cases hd : dictVerdict Guards.fixed x with
  | leak l => rw [hd] at h; cases h
  | refused => rw [hd] at h; cases h
  | wrongVersion => rw [hd] at h; cases h
  | ok d =>
    obtain ⟨kvs, hk⟩ := hv.2 d hd
    subst hk
    exact ⟨kvs, hd⟩

theorem readDict_eq_outcome (env : DEnv) (m : Mode) (x : J) (kvs : List (Str × J))
    (h : dictVerdict Guards.fixed x = .ok (.obj kvs)) :
    readDict Guards.fixed env m x
      = outcome m (docProblems env kvs) (dDoc env kvs, docProblems env kvs) := by
  unfold readDict
  rw [h]
  exact readDoc_spec _ Guards.fixed_dictOk env m kvs

/-- **Lenient dictionary read, whole tree**: for a dictionary with a `Document` dictionary `kvs`
    and the current version, exactly the valid parts are returned, one warning per problem. -/
theorem dict_lenient_returns_valid_parts (env : DEnv) (x : J) (kvs : List (Str × J))
    (h : dictVerdict Guards.fixed x = .ok (.obj kvs)) :
    readDict Guards.fixed env .lenient x = .ok (dDoc env kvs, docProblems env kvs) := by
  rw [readDict_eq_outcome env .lenient x kvs h, outcome_lenient]

/-- Strict mode: the same document (all of the input, no warning) if there is no problem,
    ParserException otherwise. -/
theorem dict_strict_returns_valid_parts_or_raises (env : DEnv) (x : J) (kvs : List (Str × J))
    (h : dictVerdict Guards.fixed x = .ok (.obj kvs)) :
    readDict Guards.fixed env .strict x
      = if docProblems env kvs = 0 then .ok (dDoc env kvs, 0) else .error .parserException := by
  rw [readDict_eq_outcome env .strict x kvs h]
  by_cases hp : docProblems env kvs = 0
  · simp only [hp, outcome_zero, if_true]
  · simp only [hp, if_false]
    exact outcome_strict_pos _ _ hp

/-- Whatever strict mode returns, lenient mode returns too. -/
theorem dict_strict_result_is_lenient_result (env : DEnv) (x : J) (r : Obj J × Nat)
    (h : readDict Guards.fixed env .strict x = .ok r) : readDict Guards.fixed env .lenient x = .ok r := by
  obtain ⟨kvs, hk⟩ := dictRootOk_of_ok .strict env x r h
  rw [dict_strict_returns_valid_parts_or_raises env x kvs hk] at h
  rw [dict_lenient_returns_valid_parts env x kvs hk]
  by_cases hp : docProblems env kvs = 0
  · simp only [hp, if_true] at h
    rw [hp]
    exact h
  · simp only [hp, if_false] at h
    cases h

/-- **`reader_output_wf`, whole tree, dictionary reader**: every returned document is well-formed
    at every level (truthy names, pairwise different sibling names per sort, sorts in their lists,
    nothing below a Property, no Property directly in the Document). -/
theorem dict_returned_document_wf (env : DEnv) (he : env.NamesOk) (m : Mode) (x : J) (d : Obj J)
    (w : Nat) (h : readDict Guards.fixed env m x = .ok (d, w)) :
    TreeWF J.pyEq J.truthy d ∧ d.kind = .doc := by
  obtain ⟨kvs, hk⟩ := dictRootOk_of_ok m env x (d, w) h
  have hd : d = dDoc env kvs := by
    cases m with
    | lenient =>
      rw [dict_lenient_returns_valid_parts env x kvs hk] at h
      cases h; rfl
    | strict =>
      have := dict_strict_result_is_lenient_result env x (d, w) h
      rw [dict_lenient_returns_valid_parts env x kvs hk] at this
      cases this; rfl
  subst hd
  exact dDoc_wf env he kvs

example : denv0.NamesOk := by intro k a j h; cases h
example : (⟨fun _ _ => false, fun _ _ => .given (jstr "4f2a")⟩ : DEnv).NamesOk := by
  intro k a j h; cases h; decide

/-- `dupProps`: Section `a` with Properties `p`, `p` and Subsection `b` — one problem (the second
    `p`); the returned Section keeps one Property and the Subsection. -/
example : docProblems denv0
    [("sections".toList, .arr [secJ "a"
      [("properties".toList, .arr [.obj [("name".toList, jstr "p")], .obj [("name".toList, jstr "p")]]),
       ("sections".toList, .arr [secJ "b" []])]])] = 1 := by decide

/-- **Nothing invalid ⇒ lenient = strict = the full content (dictionary reader).** For a `Document`
    dictionary without a problem both modes return the document in which *every* dictionary entry
    of every `sections` / `properties` list is a Section / Property (`Reader.dDocFull`), without a
    warning. -/
theorem dict_valid_input_read_in_full (env : DEnv) (x : J) (kvs : List (Str × J))
    (h : dictVerdict Guards.fixed x = .ok (.obj kvs)) (hv : docProblems env kvs = 0) :
    readDict Guards.fixed env .lenient x = .ok (dDocFull env kvs, 0) ∧
    readDict Guards.fixed env .strict x = .ok (dDocFull env kvs, 0) := by
  rw [dict_lenient_returns_valid_parts env x kvs h, dict_strict_returns_valid_parts_or_raises env x kvs h,
    hv, dDoc_eq_full env kvs hv]
  simp

/-- **Every object constructed once (XML reader).** A returned document has at most as many objects
    as the read made constructor calls (`callsTag`, the calls the harness replays on the real
    constructors, one per object element of the input): no object of the tree is there twice. -/
theorem returned_objects_le_constructor_calls (env : Env) (m : Mode) (x : Xml) (d : Obj Str) (w : Nat)
    (h : readXml Guards.fixed env m x = .ok (d, w)) :
    Obj.count d ≤ (callsTag Guards.fixed env .doc x).length := by
  have hr : RootOk x := by
    unfold readXml at h
    unfold RootOk
    cases hv : rootVerdict x <;> rw [hv] at h <;> first | rfl | cases h
  have hd : d = validParts env x := by
    cases m with
    | lenient =>
      rw [lenient_returns_valid_parts env x hr] at h
      cases h; rfl
    | strict =>
      have := strict_result_is_lenient_result env x (d, w) h
      rw [lenient_returns_valid_parts env x hr] at this
      cases this; rfl
  subst hd
  cases x with
  | other k => simp [RootOk, rootVerdict] at hr
  | elem t a tx ks =>
    exact denote_count_le_calls _ Guards.fixed_xmlOk env _ .doc true ⟨_, _, _, _, rfl⟩

/-- two Sections `a`: three constructor calls (Document, `a`, `a`), two objects returned -/
example : Obj.count (validParts env0 dupSections) = 2 := by decide
example : (callsTag Guards.fixed env0 .doc dupSections).length = 3 := by decide

end C16
