/-
C16 — Readers are total: a document, or a ParserException — never anything else.

Property theorems only; helper lemmas are in `Proofs/Reader.lean`.
Model: `Model/Reader.lean`, `Model/ReaderXml.lean` (tied to /repo by `harness/c16.py`).

`Guards.fixed` is the code on branch `work-C16` (the `fix:` commits); the `original_*` theorems
show, on the model of the code before those commits, that each guard is needed: the property is
false there, with the witness replayed on the real library by the harness (corpus/C16).
All statements hold for every `Env` / `DEnv`, i.e. whatever the odML constructors, `from_csv` and
`uuid` do.
-/
import OdmlModel.Model.Reader
import OdmlModel.Proofs.Reader

set_option linter.unusedSimpArgs false

namespace C16
open Reader

/-! ## 1. XML reader -/

/-- Well-formed XML with an `<odML>` root of the current format version
    (`_handle_version` accepts the root). -/
def RootOk (x : Xml) : Prop := rootVerdict x = .ok

/-- `RootOk` spelled out: an `odML` element whose `version` attribute is the format version. -/
theorem rootOk_of_attrs (attrs : List (Str × Str)) (text : Option Str) (kids : List Xml) (k : Str)
    (h : attrs.find? (fun p => p.1 == "version".toList) = some (k, Gen.Format.formatVersion.toList)) :
    RootOk (.elem "odML".toList attrs text kids) := by
  simp only [RootOk, rootVerdict, h]
  simp

theorem parseRoot_conv (env : Env) (m : Mode) (x : Xml) (h : RootOk x) :
    Conv m (parseRoot Guards.fixed env m x) := by
  cases x with
  | other k => simp [RootOk, rootVerdict] at h
  | elem tag attrs text kids =>
    unfold parseRoot
    exact (parse_conv _ Guards.fixed_xmlOk env m).1 _ _ _ _ _ ⟨_, _, _, _, rfl⟩

/-- Totality on trees: whatever tree lxml delivers, in both modes, the XML reader ends with a
    document, a ParserException or an InvalidVersionException — no other exception escapes. -/
theorem readXml_total (env : Env) (m : Mode) (x : Xml) :
    ∀ c, readXml Guards.fixed env m x ≠ .error (.leak c) := by
  intro c
  unfold readXml
  cases h : rootVerdict x with
  | notOdml => simp
  | noVersion => simp
  | wrongVersion => simp
  | ok => exact Conv.no_leak (parseRoot_conv env m x h) c

/-- Lenient mode never raises on well-formed input with a current odML root:
    every problem becomes a warning. -/
theorem lenient_never_raises (env : Env) (x : Xml) (h : RootOk x) :
    ∃ d w, readXml Guards.fixed env .lenient x = .ok (d, w) := by
  obtain ⟨⟨d, w⟩, hd⟩ := Conv.lenient_ok (parseRoot_conv env .lenient x h)
  refine ⟨d, w, ?_⟩
  unfold readXml
  rw [h]
  exact hd

/-- Strict mode: the only exception from inside the tree is ParserException. -/
theorem strict_only_parser_exception (env : Env) (x : Xml) (h : RootOk x) (e : Err)
    (he : readXml Guards.fixed env .strict x = .error e) : e = .parserException := by
  unfold readXml at he
  rw [h] at he
  exact (parseRoot_conv env .strict x h e he).1

/-- `from_string`: text → tree failures of lxml are converted as well. -/
theorem readXmlText_total (env : Env) (m : Mode) (p : Parsed) :
    ∀ c, readXmlText Guards.fixed env m p ≠ .error (.leak c) := by
  intro c
  cases p with
  | syntaxError => simp [readXmlText]
  | valueError => simp [readXmlText, Guards.fixed]
  | tree x => exact readXml_total env m x c

/-- InvalidVersionException is raised exactly when `_handle_version` finds an `<odML>` root whose
    version attribute is not the current format version. -/
theorem invalid_version_iff (env : Env) (m : Mode) (x : Xml) :
    readXml Guards.fixed env m x = .error .invalidVersion ↔ rootVerdict x = .wrongVersion := by
  unfold readXml
  cases h : rootVerdict x with
  | notOdml => simp
  | noVersion => simp
  | wrongVersion => simp
  | ok =>
    simp only
    constructor
    · intro he
      have := (parseRoot_conv env m x h _ he).1
      cases this
    · intro he; cases he

/-- `_handle_version` hard-codes the tag `odML`; the format tables agree with it
    (re-checked against `odml/format.py` on every run). -/
theorem root_tag_in_tables :
    kindOfTag "odML".toList = some .doc ∧ kindOfTag "section".toList = some .sec ∧
    kindOfTag "property".toList = some .prop ∧
    inMapKeys .doc "section".toList = true ∧ inMapKeys .sec "section".toList = true ∧
    inMapKeys .sec "property".toList = true ∧ isArgKey .doc "property".toList = false := by decide

/-! ## 2. Dictionary reader -/

/-- A dictionary with a `Document` dictionary and the current `odml-version`. -/
def DictRootOk (x : J) : Prop := ∃ kvs, dictVerdict Guards.fixed x = .ok (.obj kvs)

/-- Totality of `DictReader.to_odml` on *every* JSON-like value (not only dictionaries). -/
theorem readDict_total (env : DEnv) (m : Mode) (x : J) :
    ∀ c, readDict Guards.fixed env m x ≠ .error (.leak c) := by
  intro c
  have hv := dictVerdict_fixed Guards.fixed rfl x
  unfold readDict
  cases h : dictVerdict Guards.fixed x with
  | leak l => exact absurd h (hv.1 l)
  | refused => simp
  | wrongVersion => simp
  | ok d =>
    obtain ⟨kvs, hk⟩ := hv.2 d h
    subst hk
    exact Conv.no_leak (readDoc_conv _ Guards.fixed_dictOk env m kvs) c

/-- Lenient mode never raises on a dictionary with a `Document` dictionary and the current
    version. -/
theorem dict_lenient_never_raises (env : DEnv) (x : J) (h : DictRootOk x) :
    ∃ d w, readDict Guards.fixed env .lenient x = .ok (d, w) := by
  obtain ⟨kvs, hk⟩ := h
  obtain ⟨⟨d, w⟩, hd⟩ := Conv.lenient_ok (readDoc_conv _ Guards.fixed_dictOk env .lenient kvs)
  refine ⟨d, w, ?_⟩
  unfold readDict
  rw [hk]
  exact hd

theorem dict_strict_only_parser_exception (env : DEnv) (x : J) (h : DictRootOk x) (e : Err)
    (he : readDict Guards.fixed env .strict x = .error e) : e = .parserException := by
  obtain ⟨kvs, hk⟩ := h
  unfold readDict at he
  rw [hk] at he
  exact (readDoc_conv _ Guards.fixed_dictOk env .strict kvs e he).1

/-! ## 2b. What a lenient read keeps; sibling names of what it returns

Statements about the child-insertion step of `parse_tag` / `parse_sections` (the only place where
a parsed object can be left out) — for the whole loop, any number of children. A freshly created
object has no children (`UniqKids` holds trivially, see the `example`). -/

/-- XML reader: after the insertion loop every parsed child is in the object, or it was refused —
    and then a kept sibling of its sort carries the same name (or the parent cannot hold that
    sort at all). Nothing that was in the object before is lost. -/
theorem insert_keeps_valid_parts (m : Mode) (obj : Obj Str) (cs : List (Obj Str)) (w : Nat)
    (o : Obj Str) (w' : Nat) (h : insertChildren Guards.fixed m obj cs w = .ok (o, w'))
    (hu : UniqKids (· == ·) obj) :
    (∀ x ∈ obj.props, x ∈ o.props) ∧ (∀ x ∈ obj.secs, x ∈ o.secs) ∧
    (∀ c ∈ cs, c ∈ o.props ∨ c ∈ o.secs ∨ Refused (· == ·) o c) := by
  obtain ⟨_, kp, ks, _, kc⟩ := insertChildren_spec _ m obj cs w o w' h hu
  exact ⟨kp, ks, kc⟩

/-- XML reader: the insertion loop never produces two Sections or two Properties of one parent
    with the same name (C04 for loaded documents, per parent). -/
theorem insert_keeps_names_unique (m : Mode) (obj : Obj Str) (cs : List (Obj Str)) (w : Nat)
    (o : Obj Str) (w' : Nat) (h : insertChildren Guards.fixed m obj cs w = .ok (o, w'))
    (hu : UniqKids (· == ·) obj) : UniqKids (· == ·) o :=
  (insertChildren_spec _ m obj cs w o w' h hu).1

/-- In lenient mode the insertion loop always completes. -/
theorem insert_lenient_total (obj : Obj Str) (cs : List (Obj Str)) (w : Nat) :
    ∃ o w', insertChildren Guards.fixed .lenient obj cs w = .ok (o, w') := by
  obtain ⟨⟨o, w'⟩, h⟩ := Conv.lenient_ok (insertChildren_conv Guards.fixed rfl .lenient obj cs w)
  exact ⟨o, w', h⟩

/-- Dictionary reader: the same for `sec.append(child)` in `parse_sections`. -/
theorem dict_insert_keeps_valid_parts (m : Mode) (obj : Obj J) (cs : List (Obj J)) (w : Nat)
    (o : Obj J) (w' : Nat) (h : insertEach m obj cs w = .ok (o, w')) (hu : UniqKids J.pyEq obj) :
    (∀ x ∈ obj.props, x ∈ o.props) ∧ (∀ x ∈ obj.secs, x ∈ o.secs) ∧
    (∀ c ∈ cs, c ∈ o.props ∨ c ∈ o.secs ∨ Refused J.pyEq o c) := by
  obtain ⟨_, kp, ks, _, kc⟩ := insertEach_spec m obj cs w o w' h hu
  exact ⟨kp, ks, kc⟩

theorem dict_insert_keeps_names_unique (m : Mode) (obj : Obj J) (cs : List (Obj J)) (w : Nat)
    (o : Obj J) (w' : Nat) (h : insertEach m obj cs w = .ok (o, w')) (hu : UniqKids J.pyEq obj) :
    UniqKids J.pyEq o :=
  (insertEach_spec m obj cs w o w' h hu).1

example (k : Kind) (n : Name Str) (b : Bool) : UniqKids (· == ·) (Obj.mk k n b [] []) :=
  ⟨List.Pairwise.nil, List.Pairwise.nil⟩

/-! ## 3. The code before the `fix:` commits violates the property (one witness per guard) -/

/-- The exception class that escaped, if one did. -/
def leakOf : Except Err α → Option Leak
  | .error (.leak c) => some c
  | _ => none

theorem leakOf_some {r : Except Err α} {c : Leak} (h : leakOf r = some c) : r = .error (.leak c) := by
  cases r with
  | ok a => cases h
  | error e => cases e <;> simp [leakOf] at h; subst h; rfl

/-- How a call ended, if not with a document. -/
def errOf : Except Err α → Option Err
  | .error e => some e
  | .ok _ => none

/-- constructors never fail, `from_csv` refuses exactly the text `[a\rb,c]` -/
def env0 : Env := ⟨fun s => s == "[a\rb,c]".toList, fun _ _ => false, fun _ _ => .fresh⟩
def denv0 : DEnv := ⟨fun _ _ => false, fun _ _ => .fresh⟩
/-- the Document constructor refuses the date `foo` -/
def denvDate : DEnv :=
  ⟨fun k a => k == .doc && a.any (fun p => p.1 == "date".toList), fun _ _ => .fresh⟩

def leaf (t : String) (x : String) : Xml := .elem t.toList [] (some x.toList) []
def secX (name : String) (more : List Xml) : Xml :=
  .elem "section".toList [] none ([leaf "name" name, leaf "type" "t"] ++ more)
def docX (kids : List Xml) : Xml := .elem "odML".toList [("version".toList, "1.1".toList)] none kids

/-- `<odML version="1.1"><section>a</section><section>a</section></odML>` -/
def dupSections : Xml := docX [secX "a" [], secX "a" []]
def withPi : Xml := docX [.other .pi]
def badCsv : Xml := docX [secX "a" [.elem "property".toList [] none [leaf "name" "p", leaf "value" "[a\rb,c]"]]]
def superCard : Xml := docX [secX "a" [leaf "sec_cardinality" "(²,3)"]]

example : RootOk dupSections := by unfold RootOk; decide
example : RootOk withPi := by unfold RootOk; decide

theorem original_leaks_duplicate_names :
    ¬ (∀ m x c, readXml { Guards.fixed with guardAppend := false } env0 m x ≠ .error (.leak c)) := by
  intro h
  have w : leakOf (readXml { Guards.fixed with guardAppend := false } env0 .lenient dupSections)
      = some .keyError := by decide
  exact h _ _ _ (leakOf_some w)

theorem original_leaks_processing_instruction :
    ¬ (∀ m x c, readXml { Guards.fixed with skipNonElem := false } env0 m x ≠ .error (.leak c)) := by
  intro h
  have w : leakOf (readXml { Guards.fixed with skipNonElem := false } env0 .lenient withPi)
      = some .attributeError := by decide
  exact h _ _ _ (leakOf_some w)

theorem original_leaks_csv_error :
    ¬ (∀ m x c, readXml { Guards.fixed with guardCsv := false } env0 m x ≠ .error (.leak c)) := by
  intro h
  have w : leakOf (readXml { Guards.fixed with guardCsv := false } env0 .lenient badCsv)
      = some .csvError := by decide
  exact h _ _ _ (leakOf_some w)

theorem original_leaks_superscript_cardinality :
    ¬ (∀ m x c, readXml { Guards.fixed with decimalCard := false } env0 m x ≠ .error (.leak c)) := by
  intro h
  have w : leakOf (readXml { Guards.fixed with decimalCard := false } env0 .strict superCard)
      = some .valueError := by decide
  exact h _ _ _ (leakOf_some w)

theorem original_leaks_encoding_declaration :
    ¬ (∀ m p c, readXmlText { Guards.fixed with convertValueError := false } env0 m p ≠ .error (.leak c)) := by
  intro h
  exact h .strict .valueError .valueError rfl

/-- the same trees are read without a leak by the fixed code: a warning each in lenient mode -/
example : (readXml Guards.fixed env0 .lenient dupSections).toOption.map (·.2) = some 1 := by decide
example : (readXml Guards.fixed env0 .lenient withPi).toOption.map (·.2) = some 0 := by decide
example : (readXml Guards.fixed env0 .lenient badCsv).toOption.map (·.2) = some 1 := by decide
example : errOf (readXml Guards.fixed env0 .strict dupSections) = some .parserException := by decide

def jstr (s : String) : J := .str s.toList
def secJ (name : String) (more : List (Str × J)) : J :=
  .obj ([("name".toList, jstr name), ("type".toList, jstr "t")] ++ more)
def docJ (kvs : List (Str × J)) : J :=
  .obj [("Document".toList, .obj kvs), ("odml-version".toList, jstr "1.1")]

def dupTop : J := docJ [("sections".toList, .arr [secJ "a" [], secJ "a" []])]
def badDate : J := docJ [("date".toList, jstr "foo")]
def sectionsNull : J := docJ [("sections".toList, .null)]
/-- Section `a` with Properties `p`, `p` and a valid Subsection `b` -/
def dupProps : J := docJ [("sections".toList, .arr [secJ "a"
  [("properties".toList, .arr [.obj [("name".toList, jstr "p")], .obj [("name".toList, jstr "p")]]),
   ("sections".toList, .arr [secJ "b" []])]])]

/-- decidable form of `DictRootOk` -/
def dictRootOkB (x : J) : Bool :=
  match dictVerdict Guards.fixed x with
  | .ok (.obj _) => true
  | _ => false

theorem dictRootOk_of_B (x : J) (h : dictRootOkB x = true) : DictRootOk x := by
  unfold dictRootOkB at h
  split at h
  · rename_i kvs hk; exact ⟨kvs, hk⟩
  · cases h

example : DictRootOk dupTop := dictRootOk_of_B _ (by decide)
example : DictRootOk dupProps := dictRootOk_of_B _ (by decide)

theorem original_dict_leaks_duplicate_names :
    ¬ (∀ m x c, readDict { Guards.fixed with guardDocAppend := false } denv0 m x ≠ .error (.leak c)) := by
  intro h
  have w : leakOf (readDict { Guards.fixed with guardDocAppend := false } denv0 .lenient dupTop)
      = some .keyError := by decide
  exact h _ _ _ (leakOf_some w)

theorem original_dict_leaks_document_creation :
    ¬ (∀ m x c, readDict { Guards.fixed with guardDocCreate := false } denvDate m x ≠ .error (.leak c)) := by
  intro h
  have w : leakOf (readDict { Guards.fixed with guardDocCreate := false } denvDate .lenient badDate)
      = some .ctorError := by decide
  exact h _ _ _ (leakOf_some w)

theorem original_dict_leaks_non_dict_root :
    ¬ (∀ m x c, readDict { Guards.fixed with rootIsDict := false } denv0 m x ≠ .error (.leak c)) := by
  intro h
  have w : leakOf (readDict { Guards.fixed with rootIsDict := false } denv0 .strict .null)
      = some .typeError := by decide
  exact h _ _ _ (leakOf_some w)

theorem original_dict_leaks_wrong_shapes :
    ¬ (∀ m x c, readDict { Guards.fixed with shapeChecks := false } denv0 m x ≠ .error (.leak c)) := by
  intro h
  have w : leakOf (readDict { Guards.fixed with shapeChecks := false } denv0 .lenient sectionsNull)
      = some .typeError := by decide
  exact h _ _ _ (leakOf_some w)

/-- number of top-level Sections of the returned document -/
def topCount : Except Err (Obj J × Nat) → Option Nat
  | .ok (o, _) => some o.secs.length
  | .error _ => none

/-- Before the fix, a lenient read dropped the whole Section `a` (with its valid Subsection)
    because one of its Properties was a duplicate; now only the duplicate is left out. -/
theorem original_dict_drops_valid_section :
    topCount (readDict { Guards.fixed with perChildAppend := false } denv0 .lenient dupProps) = some 0 ∧
    topCount (readDict Guards.fixed denv0 .lenient dupProps) = some 1 := by decide

end C16
