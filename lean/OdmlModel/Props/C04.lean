/-
C04 — Sibling names stay unique; names and ids are never empty or malformed.

Model: `Model/Heap.lean` (structural operations, `rename`, `new_id`, constructors) and
`Py/Uuid.lean` (`str(uuid.UUID(s))` as the constructors and `new_id` use it).
Uniqueness is a conjunct of the invariant `Heap.WF` (`namesS`, `namesP`) proved for every
operation in `Proofs/Heap*.lean`; this file states it in the property's words, adds the
refusal theorems, the non-empty-name invariant and the id theorems.
-/
import OdmlModel.Proofs.HeapNames
import OdmlModel.Proofs.HeapIds
import OdmlModel.Proofs.Uuid
import OdmlModel.Props.C03

set_option linter.unusedSimpArgs false
set_option linter.unusedVariables false

namespace C04
open Heap

/-! ## 1. Sibling names are unique after any history -/

/-- Within one Document or Section no two child Sections have the same name, and within one
    Section no two Properties - in every state reachable by any sequence of operations,
    whether each of them succeeded or was refused. -/
theorem sibling_names_unique (ops : List Op) (p a b : Nat) :
    let h := run empty ops
    (a ∈ (h.node p).secs → b ∈ (h.node p).secs → (h.node a).name = (h.node b).name → a = b) ∧
    (a ∈ (h.node p).props → b ∈ (h.node p).props → (h.node a).name = (h.node b).name → a = b) := by
  intro h
  have w := C03.wf_reachable_partial ops
  exact ⟨w.namesS p a b, w.namesP p a b⟩

/-! ## 2. An operation that would create a clash is refused -/

theorem append_clash_refused (h : H) (p x : Nat)
    (hclash : ((h.node x).kind = .sec ∧ nameIn h (h.node p).secs (h.node x).name = true) ∨
      ((h.node x).kind = .prop ∧ nameIn h (h.node p).props (h.node x).name = true)) :
    ∃ e, append h p x = (h, .raised e) := by
  unfold append
  rcases hclash with ⟨hk, hn⟩ | ⟨hk, hn⟩
  · cases hp : (h.node p).kind <;> simp only [hk] <;> first
      | exact ⟨_, rfl⟩
      | (by_cases hc : cycleCheck h p x = true <;> simp [hc, hn])
  · cases hp : (h.node p).kind <;> simp only [hk] <;> first
      | exact ⟨_, rfl⟩
      | simp [hn]

theorem insert_clash_refused (h : H) (p : Nat) (pos : Int) (x : Nat)
    (hclash : ((h.node x).kind = .sec ∧ nameIn h (h.node p).secs (h.node x).name = true) ∨
      ((h.node x).kind = .prop ∧ nameIn h (h.node p).props (h.node x).name = true)) :
    ∃ e, Heap.insert h p pos x = (h, .raised e) := by
  unfold Heap.insert
  rcases hclash with ⟨hk, hn⟩ | ⟨hk, hn⟩
  · cases hp : (h.node p).kind <;> simp only [hk] <;> first
      | exact ⟨_, rfl⟩
      | simp [hn]
  · cases hp : (h.node p).kind <;> simp only [hk] <;> first
      | exact ⟨_, rfl⟩
      | simp [hn]

/-- Renaming to a name a sibling already has is refused and changes nothing. -/
theorem rename_clash_refused (h : H) (w : WF h) (x p : Nat) (new : String) (hxs : x < h.size)
    (hp : (h.node x).parent = some p) (hnew : new ≠ "") (hne : (h.node x).name ≠ new)
    (hclash : ((h.node x).kind = .sec ∧ nameIn h (h.node p).secs new = true) ∨
      ((h.node x).kind = .prop ∧ nameIn h (h.node p).props new = true)) :
    rename h x new = (h, .raised .keyError) := by
  unfold rename
  have hkd : (h.node x).kind ≠ .doc := by
    rcases hclash with ⟨hk, _⟩ | ⟨hk, _⟩ <;> rw [hk] <;> decide
  simp only [hkd, if_false, hne, hnew, hp, decide_false, Bool.false_and, Bool.false_eq_true]
  rcases hclash with ⟨hk, hn⟩ | ⟨hk, hn⟩
  · simp [hk, hn]
  · have hpk : (h.node p).kind = .sec := w.parP x p hp hk
    simp [hk, hn, hpk]

/-- Clearing a name falls back to the id - through the same sibling check. -/
theorem rename_empty_falls_back_to_id (h : H) (x : Nat) (hk : (h.node x).kind ≠ .doc)
    (hne : (h.node x).name ≠ "") (hid : (h.node x).name ≠ (h.node x).id)
    (hfree : (h.node x).parent = none) :
    rename h x "" = (upd h x (fun n => { n with name := (h.node x).id }), .ok) := by
  unfold rename
  simp [hk, hne, hid, hfree]

/-- An `extend` argument that holds the same object (or the same name) twice is refused. -/
theorem extend_duplicate_refused (h : H) (p x : Nat) (rest : List Nat)
    (hk : (h.node x).kind = .sec) (hpk : (h.node p).kind ≠ .prop) :
    ∃ e, extend h p (x :: x :: rest) = (h, .raised e) := by
  unfold extend
  simp only [hpk, if_false]
  simp only [extendCheck, hk]
  by_cases h1 : (nameIn h (h.node p).secs (h.node x).name || ([] : List String).contains (h.node x).name) = true
  · simp only [h1, if_true]; exact ⟨_, rfl⟩
  · simp only [h1, if_false]
    by_cases h2 : cycleCheck h p x = true
    · simp only [h2, if_true]; exact ⟨_, rfl⟩
    · simp only [h2, if_false]
      have : (nameIn h (h.node p).secs (h.node x).name || [(h.node x).name].contains (h.node x).name) = true := by
        simp
      simp only [this, if_true]; exact ⟨_, rfl⟩

/-! ## 3. Names and ids are never empty -/

/-- After any history whose id texts are rendered UUIDs (hence non-empty), every object has a
    non-empty name and a non-empty id. -/
theorem names_never_empty (ops : List Op) (hid : ∀ op ∈ ops, op.IdsOk) :
    NamesNE (run empty ops) := by
  suffices ∀ h, NamesNE h → NamesNE (run h ops) from this empty namesNE_empty
  induction ops with
  | nil => intro h w; exact w
  | cons op ops ih =>
    intro h w
    exact ih (fun o ho => hid o (List.mem_cons_of_mem _ ho)) _
      (namesNE_step w op (hid op (List.mem_cons_self)))

/-! ## 4. Ids are canonical UUID strings -/

open Py.Uuid in
/-- Whatever `oid` a constructor is given (absent, valid in any accepted spelling, malformed),
    the id it assigns is in canonical 8-4-4-4-12 lower-case form. -/
theorem ctor_id_canonical (oid : Option (List Char)) (fresh : Nat) : Canonical (ctorId oid fresh) :=
  ctorId_canonical oid fresh

open Py.Uuid in
/-- A malformed id passed at creation is replaced by the fresh one. -/
theorem ctor_malformed_id_replaced (s : List Char) (fresh : Nat) (h : parse s = none) :
    ctorId (some s) fresh = render fresh := ctorId_malformed s fresh h

open Py.Uuid in
/-- A malformed id passed to `new_id` is rejected (ValueError), and the object keeps its id. -/
theorem new_id_malformed_rejected (s : List Char) (fresh : Nat) (hp : parse s = none) (h : H) (x : Nat) :
    newId (some s) fresh = none ∧ Heap.newId h x none = (h, .raised .valueError) :=
  ⟨newId_malformed s fresh hp, rfl⟩

open Py.Uuid in
/-- An accepted `new_id` assigns a canonical id. -/
theorem new_id_canonical (oid : Option (List Char)) (fresh : Nat) (s : List Char)
    (h : newId oid fresh = some s) : Canonical s := newId_canonical oid fresh s h

open Py.Uuid in
/-- A canonical id is not empty (so the fallback name is never empty). -/
theorem canonical_nonempty (s : List Char) (h : Canonical s) : s ≠ [] := canonical_ne_nil h


/-! ## 5. Ids stay canonical along every history -/

open Py.Uuid in
/-- The id texts an operation brings in are canonical UUID strings. -/
def CanonOp (op : Op) : Prop := op.IdsSat (fun s => Canonical s.toList)

open Py.Uuid in
/-- "its id is always a canonical UUID string", over the full quantifier: in every state reachable
    by any history of structural operations, renames and `new_id` calls - accepted or refused -
    whose constructors and `new_id` calls assign ids the way `ctorId` / `newId` do, every
    allocated object carries a canonical id.  No operation other than a constructor or an
    accepted `new_id` ever writes an id (the frame lemmas of `HeapNames.lean`). -/
theorem ids_canonical_after_any_history (ops : List Op) (hid : ∀ op ∈ ops, CanonOp op)
    (x : Nat) (hx : x < (run empty ops).size) :
    Canonical ((run empty ops).node x).id.toList :=
  idsSat_run (P := fun s => Canonical s.toList) ops hid x hx

open Py.Uuid in
/-- A constructor call, whatever `oid` it is handed, meets the hypothesis of
    `ids_canonical_after_any_history`. -/
theorem ctor_op_canonical (k : Kind) (name : String) (oid : Option (List Char)) (fresh : Nat)
    (parent : Option Nat) (argsOk : Bool) :
    CanonOp (.construct k name (String.ofList (ctorId oid fresh)) parent argsOk) := by
  show Canonical (String.ofList (ctorId oid fresh)).toList
  rw [String.toList_ofList]; exact ctorId_canonical oid fresh

open Py.Uuid in
/-- An accepted `new_id` call meets it too; a rejected one (`none`) brings in no id at all. -/
theorem new_id_op_canonical (x : Nat) (oid : Option (List Char)) (fresh : Nat) :
    CanonOp (.newId x ((newId oid fresh).map String.ofList)) := by
  cases h : newId oid fresh with
  | none => exact trivial
  | some s =>
    show Canonical (String.ofList s).toList
    rw [String.toList_ofList]; exact newId_canonical oid fresh s h

/-- The fallback name is the id: after clearing the name of a free object in a reachable state
    the name is a canonical UUID string, hence not empty. -/
theorem cleared_name_is_canonical_id (ops : List Op) (hid : ∀ op ∈ ops, CanonOp op) (x : Nat)
    (hx : x < (run empty ops).size) (hk : ((run empty ops).node x).kind ≠ .doc)
    (hne : ((run empty ops).node x).name ≠ "")
    (hidn : ((run empty ops).node x).name ≠ ((run empty ops).node x).id)
    (hfree : ((run empty ops).node x).parent = none) :
    Py.Uuid.Canonical (((rename (run empty ops) x "").1.node x).name).toList := by
  rw [rename_empty_falls_back_to_id _ x hk hne hidn hfree]
  simp only [upd_same]
  exact ids_canonical_after_any_history ops hid x hx

/-- The hypothesis of `names_never_empty` is not an assumption about the caller: a history whose
    id texts are canonical (as every constructor and accepted `new_id` call produces them) has
    non-empty names and ids throughout. -/
theorem names_never_empty_of_canonical (ops : List Op) (hid : ∀ op ∈ ops, CanonOp op) :
    NamesNE (run empty ops) := by
  apply names_never_empty
  intro op hop
  have hne : ∀ s : String, Py.Uuid.Canonical s.toList → s ≠ "" := by
    intro s hc he
    subst he
    exact Py.Uuid.canonical_ne_nil hc rfl
  have h := hid op hop
  cases op with
  | construct k name id parent argsOk => exact hne id h
  | newId x idText =>
    cases idText with
    | none => exact trivial
    | some s => exact hne s h
  | _ => exact trivial

/-! ## Non-vacuity -/

open Py.Uuid in
example : parse "{9B6C0F1E-0000-4000-8000-00000000ABCD}".toList =
    some 0x9b6c0f1e00004000800000000000abcd := by decide
open Py.Uuid in
example : parse "garbage".toList = none := by decide
open Py.Uuid in
example : String.ofList (render 0x9b6c0f1e00004000800000000000abcd) =
    "9b6c0f1e-0000-4000-8000-00000000abcd" := by decide
example : (step (run empty C03.demoOps) (.rename 2 "a")).2 = .ok := by decide

open Py.Uuid in
example : ∀ op ∈ [Op.construct .doc "" (String.ofList (ctorId none 5)) none true,
      Op.construct .sec "s" (String.ofList (ctorId (some "GARBAGE".toList) 6)) (some 0) true,
      Op.newId 1 ((newId (some "{9B6C0F1E-0000-4000-8000-00000000ABCD}".toList) 7).map String.ofList)],
    CanonOp op := by
  intro op hop
  simp only [List.mem_cons, List.mem_nil_iff, or_false] at hop
  rcases hop with rfl | rfl | rfl
  · exact ctor_op_canonical ..
  · exact ctor_op_canonical ..
  · exact new_id_op_canonical ..

end C04
