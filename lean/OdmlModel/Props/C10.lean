/-
C10 — RDF export is a faithful, well-formed graph that imports back unchanged.

Property theorems only; the model is `Model/Rdf.lean` (tied to /repo by `harness/c10.py`),
helper lemmas are in `Proofs/Rdf.lean`.

Reading guide
  * graph            list of triples; an rdflib graph is a set with unspecified order, so every
                     statement about the reader is made for *every permutation* of the list
  * `exportRdf`      RDFWriter.convert_to_rdf       `importRdf`   RDFReader.to_odml
  * `flatGraph`      the union, over all Documents / Sections / Properties, of the triples of
                     that object alone: its type (or declared sub-class with the class triples),
                     one triple per set attribute of the regenerated `_rdf_map`, one link per
                     child, and for a Property with values one `rdf:Seq` node with `rdf:_1 …`
  * `WFDocs`         ids unique over all objects     `RdfRepr`  what the RDF route can carry
  * `docsEquiv b`    one imported document per exported one; equal ids, names, types,
                     definitions, references, units, value origins, dtypes, values in order,
                     siblings as multisets; uncertainties equal (`b = true`) or equal as text
-/
import OdmlModel.Model.Rdf
import OdmlModel.Proofs.Rdf
import OdmlModel.Proofs.RdfSubclass
import OdmlModel.Generated.FormatTables
import OdmlModel.Generated.MiscTables

set_option linter.unusedSimpArgs false
set_option linter.unusedVariables false

namespace C10
open Rdf List

/-! ## 1. The regenerated tables -/

/-- The `_rdf_map` tables of `format.py` have distinct keys and distinct predicates, none of
    which is `rdf:type`, `rdfs:subClassOf`, `hasDocument` or `hasFileName`; they contain the
    structural keys the writer and reader dispatch on (`id`, `sections`, `properties`, `value`);
    Sections have neither date nor uncertainty, Properties no date. -/
theorem rdf_tables_wellformed : TablesOK where
  doc := ⟨⟨by decide, by decide⟩, by decide⟩
  sec := ⟨⟨by decide, by decide⟩, by decide⟩
  prop := ⟨⟨by decide, by decide⟩, by decide⟩
  docSecs := ⟨"https://g-node.org/odml-rdf#hasSection", by decide⟩
  secSecs := ⟨"https://g-node.org/odml-rdf#hasSection", by decide⟩
  secProps := ⟨"https://g-node.org/odml-rdf#hasProperty", by decide⟩
  propValue := ⟨"https://g-node.org/odml-rdf#hasValue", by decide⟩
  docId := by decide
  secId := by decide
  propId := by decide
  propNoDate := by decide
  secNoDate := by decide
  secNoUnc := by decide
  docNoUnc := by decide

/-- `DictReader.is_valid_attribute`: every key the RDF reader puts into its dictionaries is an
    `_args` key or the Python name of one (`revmap`), so `DictReader.to_odml` accepts it; and
    the RDF types are `ns + class name`. -/
theorem reader_accepts_rdf_keys :
    (∀ kp ∈ Gen.Format.documentRdfMap, (Gen.Format.documentArgs.map (·.1)).contains kp.1 ∨
        (Gen.Format.documentMap.map (·.2)).contains kp.1) ∧
    (∀ kp ∈ Gen.Format.sectionRdfMap, (Gen.Format.sectionArgs.map (·.1)).contains kp.1 ∨
        (Gen.Format.sectionMap.map (·.2)).contains kp.1) ∧
    (∀ kp ∈ Gen.Format.propertyRdfMap, (Gen.Format.propertyArgs.map (·.1)).contains kp.1 ∨
        (Gen.Format.propertyMap.map (·.2)).contains kp.1) ∧
    Gen.Format.documentRdfType.toList = ns ++ "Document".toList ∧
    Gen.Format.sectionRdfType.toList = ns ++ "Section".toList ∧
    Gen.Format.propertyRdfType.toList = ns ++ "Property".toList := by decide

/-- `get_rdf_str` accepts exactly the formats of `RDF_CONVERSION_FORMATS`; the five of the
    property's quantifier are among them. -/
theorem formats_supported :
    ∀ f ∈ ["xml", "nt", "json-ld", "turtle", "n3"],
      formatAccepted (Gen.Misc.rdfFormats.map (·.1)) f = true := by decide

/-! ## 2. Shape of the exported graph -/

/-- The exported graph is, up to order, exactly the union of the per-object triples: nothing
    else is emitted and nothing is missing (all documents, trees and configurations). -/
theorem export_shape (cfg : Cfg) (ds : List DocT) : (exportRdf cfg ds).Perm (flatGraph cfg ds) :=
  export_flat cfg rdf_tables_wellformed.secOK rdf_tables_wellformed.docOK ds

/-- A single Hub: every `hasDocument` triple of the exported graph starts at the one node
    `ns + "Hub"` and points to the node of an exported document. -/
theorem export_one_hub (cfg : Cfg) (ds : List DocT) (t : Triple) (ht : t ∈ exportRdf cfg ds)
    (hp : t.p = hasDocument) : t.s = hub ∧ ∃ d ∈ ds, t.o = node d.id :=
  hasDocument_only_hub cfg rdf_tables_wellformed ds t ((export_shape cfg ds).mem_iff.mp ht) hp

/-- … and the Hub links every exported document exactly once. -/
theorem export_hub_links_every_document (cfg : Cfg) (ds : List DocT) (wf : WFDocs ds)
    (g : Graph) (h : g.Perm (exportRdf cfg ds)) :
    (objects g hub hasDocument).Perm (ds.map (fun d => node d.id)) :=
  (facts_export cfg wf rdf_tables_wellformed h).hubDocs

/-- Each object is one node `ns + id` carrying exactly its set attributes and the links to its
    children: all the lookups by (subject, predicate) that can be made at the node of a
    Document, Section or Property, on any permutation of the exported graph. -/
theorem export_object_nodes (cfg : Cfg) (ds : List DocT) (wf : WFDocs ds)
    (g : Graph) (h : g.Perm (exportRdf cfg ds)) : Facts g ds :=
  facts_export cfg wf rdf_tables_wellformed h

/-- The node of a Property carries, for every literal attribute key of the table, exactly one
    triple when the attribute is set (not `None`, not `""`) and none otherwise. -/
theorem export_property_node (cfg : Cfg) (ds : List DocT) (wf : WFDocs ds) (p : PropT)
    (hp : p ∈ docProps ds) (kp : String × String) (hk : kp ∈ Gen.Format.propertyRdfMap)
    (h1 : kp.1 ≠ "id") (h2 : kp.1 ≠ "value") :
    objects (exportRdf cfg ds) (node p.id) (.iri kp.2.toList) =
      (match p.attrs.lookup kp.1 with
       | some v => if v.isSet then [v.toLit] else []
       | none => []) := by
  have := (facts_export cfg wf rdf_tables_wellformed (Perm.refl _)).propAttr p hp kp hk h1 h2
  exact perm_small this (attrObjs_small PyVal.isSet propConv p.attrs kp.1)

/-- The values of a Property form one ordered sequence: reading the `rdf:Seq` node back (in any
    triple order) yields the values in their original order. -/
theorem export_values_ordered (cfg : Cfg) (ds : List DocT) (wf : WFDocs ds) (p : PropT)
    (hp : p ∈ docProps ds) (g : Graph) (h : g.Perm (exportRdf cfg ds)) :
    (seqPairs g (.seqn p.id)).Perm (pairs 1 p.values) ∧
    ∃ ts, readSeq g (.seqn p.id) = .ok ts ∧ ts.map termToLit = p.values := by
  have f := (facts_export cfg wf rdf_tables_wellformed h).propSeq p hp
  exact ⟨f, readSeq_ok f⟩

/-- A Section node is typed `odml:Section`, or — with sub-classing on and its type in the
    sub-class map — as `ns + <class name>`, together with the three class triples. -/
theorem export_section_typed (cfg : Cfg) (ds : List DocT) (s : SecT) (hs : s ∈ docSecs ds) :
    (⟨node s.id, rdfType, .iri Gen.Format.sectionRdfType.toList⟩ ∈ exportRdf cfg ds ∧
      (cfg.subclassing = false ∨ sectionSubclass cfg s.attrs = none)) ∨
    (∃ sub, cfg.subclassing = true ∧ sectionSubclass cfg s.attrs = some sub ∧
      ⟨node s.id, rdfType, sub⟩ ∈ exportRdf cfg ds ∧
      ⟨sub, rdfType, rdfsClass⟩ ∈ exportRdf cfg ds ∧
      ⟨.iri Gen.Format.sectionRdfType.toList, rdfType, rdfsClass⟩ ∈ exportRdf cfg ds ∧
      ⟨sub, rdfsSubClassOf, .iri Gen.Format.sectionRdfType.toList⟩ ∈ exportRdf cfg ds) := by
  have hsub : ∀ t ∈ sectionTypeTriples cfg (node s.id) s.attrs, t ∈ exportRdf cfg ds := by
    intro t ht
    refine (export_shape cfg ds).mem_iff.mpr ?_
    rw [flatGraph_eq]
    refine mem_append_right _ (mem_append_left _ (mem_flatMap.mpr ⟨s, hs, ?_⟩))
    obtain ⟨id, a, ps, ss⟩ := s
    unfold ownSec
    exact mem_append_left _ ht
  unfold sectionTypeTriples at hsub
  cases hc : cfg.subclassing with
  | false =>
    simp only [hc, Bool.false_eq_true, if_false] at hsub
    exact .inl ⟨hsub _ (by simp), .inl rfl⟩
  | true =>
    simp only [hc, if_true] at hsub
    cases hss : sectionSubclass cfg s.attrs with
    | none =>
      simp only [hss] at hsub
      exact .inl ⟨hsub _ (by simp), .inr rfl⟩
    | some sub =>
      simp only [hss] at hsub
      exact .inr ⟨sub, rfl, rfl, hsub _ (by simp), hsub _ (by simp), hsub _ (by simp), hsub _ (by simp)⟩

/-- `RDFWriter.__init__` keeps the switch it was given, whatever custom map comes with it (the
    custom map only changes the dictionary). -/
theorem writer_keeps_switch (b : Bool) (dflt custom : List (Str × Str)) (cfg : Cfg)
    (h : mkCfg b dflt custom = some cfg) : cfg.subclassing = b := by
  unfold mkCfg at h
  split at h
  · cases h; rfl
  · cases hp : parseCustomSubclasses dflt custom with
    | none => simp [hp] at h
    | some d => simp [hp] at h; subst h; rfl

/-- **Sub-classing switched off** (the configuration `off` and `off + custom map` of the
    quantifier; `cfg` is the configuration at the time of the export, so a writer whose switch was
    turned off after it was created is included): whatever sub-class map the writer holds — the
    default map, a custom map, both merged — the exported graph is the one of a writer without
    any map, no triple declares a sub-class (`rdfs:subClassOf`), and every Section node is typed
    `odml:Section`. -/
theorem export_subclassing_off (cfg : Cfg) (hc : cfg.subclassing = false) (ds : List DocT) :
    exportRdf cfg ds = exportRdf ⟨false, []⟩ ds ∧
    (∀ t ∈ exportRdf cfg ds, t.p ≠ rdfsSubClassOf) ∧
    (∀ s ∈ docSecs ds,
      ⟨node s.id, rdfType, .iri Gen.Format.sectionRdfType.toList⟩ ∈ exportRdf cfg ds) := by
  obtain ⟨b, m⟩ := cfg
  simp only at hc
  subst hc
  exact ⟨exportRdf_off m [] ds,
    fun t ht => export_off_noDecl rdf_tables_wellformed m ds ht,
    fun s hs => export_off_plain rdf_tables_wellformed m ds s hs⟩

/-- … in particular for a writer created with `rdf_subclassing=False` and any custom map. -/
theorem export_off_with_custom_map (dflt custom : List (Str × Str)) (cfg : Cfg)
    (h : mkCfg false dflt custom = some cfg) (ds : List DocT) :
    exportRdf cfg ds = exportRdf ⟨false, []⟩ ds ∧ ∀ t ∈ exportRdf cfg ds, t.p ≠ rdfsSubClassOf :=
  have hc := writer_keeps_switch false dflt custom cfg h
  ⟨(export_subclassing_off cfg hc ds).1, (export_subclassing_off cfg hc ds).2.1⟩

/-! ## 3. Permutation invariance -/

/-- The graph lookup of the reader does not depend on the order of the triples (up to the
    order of its answers). -/
theorem objects_perm (g g' : Graph) (h : g'.Perm g) (s p : Term) :
    (objects g' s p).Perm (objects g s p) :=
  Rdf.objects_perm h s p

/-! ## 4. Round trip -/

/-- **Round trip**, for every document set with unique ids that the RDF route can represent,
    every writer configuration and **every order of the triples**: the import succeeds and
    returns one document per exported document with equal ids, names, types, definitions,
    references, units, value origins, dtypes and values in order, siblings as multisets.
    Uncertainties are equal *as text* (see `rdf_roundtrip_counterexample`). -/
theorem rdf_roundtrip (cfg : Cfg) (ds : List DocT) (wf : WFDocs ds) (r : RdfRepr ds)
    (g : Graph) (h : g.Perm (exportRdf cfg ds)) :
    ∃ es, importRdf g = .ok es ∧ docsEquiv false ds es :=
  roundtrip_lax rdf_tables_wellformed cfg wf r h

/-- The full-strength statement of the property (uncertainties equal as Python values). -/
def rdf_roundtrip_statement : Prop :=
  ∀ (cfg : Cfg) (ds : List DocT), WFDocs ds → RdfRepr ds → ∀ g : Graph, g.Perm (exportRdf cfg ds) →
    ∃ es, importRdf g = .ok es ∧ docsEquiv true ds es

/-- Full strength where no uncertainty is set. -/
theorem rdf_roundtrip_partial (cfg : Cfg) (ds : List DocT) (wf : WFDocs ds) (r : RdfRepr ds)
    (nu : noUncB ds = true) (g : Graph) (h : g.Perm (exportRdf cfg ds)) :
    ∃ es, importRdf g = .ok es ∧ docsEquiv true ds es := by
  obtain ⟨es, h1, h2⟩ := rdf_roundtrip cfg ds wf r g h
  refine ⟨es, h1, docsEquiv_strict h2 ?_ ?_⟩
  · simp only [noUncB, Bool.and_eq_true, all_eq_true, Option.isNone_iff_eq_none] at nu
    exact nu.1
  · intro x hx
    simp only [noUncB, Bool.and_eq_true, all_eq_true, Option.isNone_iff_eq_none] at nu
    exact nu.2 x hx

/-- Two graphs with the same triples in different order import to the same documents (up to
    the order of siblings): both are equivalent to the exported documents. -/
theorem import_perm_invariant (cfg : Cfg) (ds : List DocT) (wf : WFDocs ds) (r : RdfRepr ds)
    (g g' : Graph) (h : g.Perm (exportRdf cfg ds)) (h' : g'.Perm g) :
    ∃ es es', importRdf g = .ok es ∧ importRdf g' = .ok es' ∧
      docsEquiv false ds es ∧ docsEquiv false ds es' := by
  obtain ⟨es, a, b⟩ := rdf_roundtrip cfg ds wf r g h
  obtain ⟨es', a', b'⟩ := rdf_roundtrip cfg ds wf r g' (h'.trans h)
  exact ⟨es, es', a, a', b, b'⟩

/-! ## 5. Witnesses -/

def cfg0 : Cfg := ⟨true, [("cell".toList, "Cell".toList)]⟩
def p0 : PropT := ⟨"p1".toList, [("name", .str "p".toList), ("uncertainty", .float "0.5".toList)], []⟩
def s0 : SecT := .mk "s1".toList [("name", .str "s".toList), ("type", .str "cell".toList)] [p0] []
def d0 : DocT := ⟨"d1".toList, [("author", .str "me".toList), ("date", .date "2020-01-02".toList)], none, [s0]⟩

/-- The hypotheses of the round trip theorems are satisfiable (a Document with a sub-classed
    Section and a Property). -/
example : WFDocs [d0] ∧ RdfRepr [d0] :=
  ⟨wfDocs_of_B (by decide), rdfRepr_of_B (by decide)⟩

/-- The locus of the defect: the reader hands `str(literal.toPython())` to the constructor, and
    `Property.__init__` stores the uncertainty without its setter, so a float comes back as text. -/
theorem uncertainty_imported_as_text (r : Str) :
    importAttr "uncertainty" (PyVal.float r).toLit = .str r := by
  simp [importAttr, PyVal.toLit, pyStrOf_typed _ _ double_ne_boolean]

/-- The uncertainty of the first Property of the first Section of the first Document. -/
def firstUncertainty : Except RErr (List DocT) → Option PyVal
  | .ok (d :: _) =>
    match d.secs with
    | s :: _ =>
      match s.props with
      | p :: _ => p.attrs.lookup "uncertainty"
      | [] => none
    | [] => none
  | _ => none

/-- The full-strength statement is false of the model (and of the code): the witness document
    satisfies the hypotheses, its import succeeds, and the uncertainty `0.5` comes back as the
    string `'0.5'`. -/
theorem rdf_roundtrip_counterexample : ¬ rdf_roundtrip_statement := by
  intro st
  obtain ⟨es, h1, mid, hp, h2⟩ := st cfg0 [d0] (wfDocs_of_B (by decide)) (rdfRepr_of_B (by decide))
    (exportRdf cfg0 [d0]) (Perm.refl _)
  have hc : firstUncertainty (importRdf (exportRdf cfg0 [d0])) = some (.str "0.5".toList) := by rfl
  rw [h1] at hc
  cases h2 with
  | cons hd htl =>
    cases htl
    have hes := perm_singleton.mp hp
    subst hes
    obtain ⟨_, _, mid2, hp2, hs⟩ := hd
    simp only [d0] at hs
    cases mid2 with
    | nil => simp [secsEquiv] at hs
    | cons t mid2' =>
      cases mid2' with
      | cons _ _ => simp [secsEquiv] at hs
      | nil =>
        have ht := perm_singleton.mp hp2
        simp only [s0, secsEquiv, secEquiv, and_true] at hs
        obtain ⟨_, _, ⟨mid3, hp3, hq⟩, _⟩ := hs
        cases hq with
        | cons hpe hrest =>
          cases hrest
          have hq3 := perm_singleton.mp hp3
          have hu := hpe.2.1 "uncertainty" (by decide)
          simp only [firstUncertainty, ht, hq3] at hc
          revert hu
          simp [valEq, p0, List.lookup, hc]

/-- An attribute that is set to the empty string is not exported (hence `RdfRepr`). -/
theorem empty_attribute_dropped_counterexample :
    ∀ t ∈ saveProperty ⟨"p1".toList, [("name", .str "p".toList), ("unit", .str [])], []⟩,
      t.p ≠ .iri "https://g-node.org/odml-rdf#hasUnit".toList := by decide

/-- … whereas an uncertainty of 0 is exported (after the `fix:` commit on `work-C10`). -/
example : ⟨node "p1".toList, .iri "https://g-node.org/odml-rdf#hasUncertainty".toList,
           .lit "0.0".toList xsdDouble⟩ ∈
    saveProperty ⟨"p1".toList, [("name", .str "p".toList), ("uncertainty", .float "0.0".toList)], []⟩ := by
  decide

end C10
