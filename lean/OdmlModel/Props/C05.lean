/-
C05 — Property values always conform to the Property's dtype, in normal form.

Property theorems only; helper lemmas are in `Proofs/DTypes.lean`.
Model: `Model/DTypes.lean`, `Model/Val.lean`, `Py/Num.lean`, `Py/Time.lean`
(tied to /repo by `harness/c05.py`).

Vocabulary
  `PropState`        (values, dtype) of one Property
  `step now s op`    one public value-editing call; returns the state *at the raise point* and the outcome
  `run`, `ctor`      histories and the constructor
  `clsOf dtype`      the Python type a dtype stands for
  `HasClass c v`     v is of that type (date/time valid, time/datetime without sub-second part,
                     n-tuple = list of n strings)
  `Conforms s`       the property's invariant: dtype valid, every stored value `HasClass`
  `ConformsW s`      what the implementation maintains: as `Conforms`, but an n-tuple Property may
                     hold `None` (known finding C05-tuple-empty-item-stored-as-none)
  `now`              the value of `datetime.now()` (default of date/time/datetime); the only
                     hypothesis on it is that it is a valid datetime.
-/
import OdmlModel.Model.DTypes
import OdmlModel.Proofs.DTypes

set_option linter.unusedSimpArgs false
set_option linter.unusedVariables false

namespace C05
open DT Py

/-! ## 1. Stored values are of the Python type of the dtype; the dtype is valid -/

/-- Whatever is handed to `dtypes.get`, an accepted conversion yields a value of the dtype's class
    (or `None` for an n-tuple dtype — see `tuple_none_only_from_falsy`). -/
theorem get_conforms (now : DateTime) (hn : now.valid = true) (v w : Elem) (dtype : DType)
    (h : get now v dtype = .ok w) : HasClassW (clsOf dtype) w :=
  get_cls hn h

/-- The invariant is preserved by every public value-editing call, whatever the arguments
    and whether the call is accepted or refused. -/
theorem conforms_step (now : DateTime) (hn : now.valid = true) (s : PropState) (op : Op)
    (hs : ConformsW s) : ConformsW (step now s op).1 :=
  step_conf hn hs

/-- … hence by every history of calls, of any length, in any order. -/
theorem conforms_run (now : DateTime) (hn : now.valid = true) (ops : List Op) :
    ∀ s, ConformsW s → ConformsW (run now s ops) := by
  induction ops with
  | nil => intro s hs; exact hs
  | cons op ops ih => intro s hs; exact ih _ (step_conf hn hs)

/-- A constructed Property satisfies the invariant (any `dtype`, `values`, `value` argument),
    and so does every state reachable from it. -/
theorem conforms_ctor (now : DateTime) (hn : now.valid = true) (d : DtIn) (values value : Inp)
    (s : PropState) (h : ctor now d values value = .ok s) (ops : List Op) :
    ConformsW (run now s ops) := by
  apply conforms_run now hn ops
  have h0 : ConformsW { values := [], dtype := if validType d then d.toDType else none } := by
    refine ⟨?_, fun _ => rfl, fun v hv => by cases hv⟩
    by_cases hv : validType d = true
    · simp only [hv, ↓reduceIte]; exact validDType_toDType hv
    · simp only [hv]; rfl
  unfold ctor at h
  simp only at h
  have h1 := setValues_conf (inp := values) hn h0
  split at h
  · cases h
  · split at h
    · split at h
      · cases h
      · cases h; exact setValues_conf hn h1
    · cases h; exact h1

example : ctor ⟨⟨2020, 1, 5⟩, ⟨1, 2, 3, 0⟩⟩ (.str "int".toList)
    (.seq false [.atom (.str "3".toList), .atom (.float (.fin ⟨false, 25, -1⟩))]) (.one .none) =
    .ok ⟨[.atom (.int 3), .atom (.int 2)], some "int".toList⟩ := by rfl

/-- A Property that holds values has a dtype. -/
theorem values_imply_dtype (s : PropState) (hs : ConformsW s) (h : s.values ≠ []) :
    s.dtype ≠ none := fun hc => h (hs.2.1 hc)

/-! ## 2. A refusal leaves values and dtype as they were -/

/-- Whatever call is refused (with whatever exception), values and dtype are unchanged. -/
theorem refused_unchanged (now : DateTime) (s : PropState) (op : Op) (e : Exc)
    (h : (step now s op).2 = .raised e) : (step now s op).1 = s :=
  step_raised h

example : (step ⟨⟨2020, 1, 5⟩, ⟨1, 2, 3, 0⟩⟩ ⟨[.atom (.int 1)], some "int".toList⟩
    (.append (.one (.str "x".toList)) false)).2 = .raised .value := by decide

/-- Unconvertible input is refused with `ValueError`: the only other exceptions a refused call
    can raise are `AttributeError` for `p.dtype = <invalid type name>` and `IndexError` for
    `p[k] = …` with `k` outside `0..len(p)`. -/
theorem refused_valueerror (now : DateTime) (s : PropState) (op : Op) (e : Exc) (hs : ConformsW s)
    (h : (step now s op).2 = .raised e) :
    e = .value ∨ (∃ d, op = .setDtype d ∧ validType d = false ∧ e = .attr) ∨
      (∃ k v, op = .setItem k v ∧ (k < 0 ∨ k > s.values.length) ∧ e = .index) :=
  step_raised_class hs h

/-- Input that holds no value is never refused by `p.values = …`: whenever the list
    `_convert_value_input` builds is empty (for the inputs of the model these are the empty list,
    tuple and str; since fix 646f02a the code takes the same exit for every other empty iterable
    instead of reading `new_value[0]`), the call is accepted, the values are cleared and the dtype
    is kept. -/
theorem empty_input_clears (now : DateTime) (s : PropState) (inp : Inp)
    (h : convertValueInput inp = []) :
    step now s (.setValues inp) = ({ s with values := [] }, .ok) := by
  simp only [step, setValues, h]
  split <;> rfl

/-! ## 3. Changing the dtype converts all values or changes nothing -/

/-- `p.dtype = d`: either the call is accepted, the new dtype is stored (in lower case; `None`
    is replaced by the inferred dtype when there are values), as many values as before are
    stored for a scalar dtype and all of them are of the new type — or it is refused
    (`AttributeError` for an invalid type, `ValueError` otherwise) and nothing has changed. -/
theorem dtype_all_or_nothing (now : DateTime) (hn : now.valid = true) (s : PropState) (d : DtIn)
    (hs : ConformsW s) :
    ((setDtype now s d).2 = .ok ∧ ConformsW (setDtype now s d).1 ∧
        (d.toDType ≠ none → (setDtype now s d).1.dtype = d.toDType) ∧
        (isTupleRaw (setDtype now s d).1.dtype = false →
          (setDtype now s d).1.values.length = s.values.length)) ∨
    (((setDtype now s d).2 = .raised .value ∨ ((setDtype now s d).2 = .raised .attr ∧ validType d = false))
        ∧ (setDtype now s d).1 = s) := by
  cases ho : (setDtype now s d).2 with
  | raised e =>
    refine Or.inr ⟨?_, setDtype_raised ho⟩
    unfold setDtype at ho
    by_cases hv : validType d = true
    · simp only [hv, Bool.not_true, Bool.false_eq_true, ↓reduceIte] at ho
      cases hr : (setValues now { s with dtype := d.toDType } (.seq false s.values)).2 with
      | ok => simp [hr] at ho
      | raised e' => simp [hr] at ho; exact Or.inl (by rw [← ho])
    · simp [hv] at ho
      exact Or.inr ⟨by rw [← ho], by simpa using hv⟩
  | ok =>
    refine Or.inl ⟨rfl, setDtype_conf hn hs, ?_⟩
    unfold setDtype at ho ⊢
    by_cases hv : validType d = true
    · simp only [hv, Bool.not_true, Bool.false_eq_true, ↓reduceIte] at ho ⊢
      cases hr : (setValues now { s with dtype := d.toDType } (.seq false s.values)).2 with
      | raised e' => simp [hr] at ho
      | ok =>
        simp only [hr]
        exact ⟨fun hne => setValues_ok_dtype hr hne, fun hraw => setValues_ok_length hr hraw⟩
    · simp [hv] at ho

/-! ## 4. Normal form -/

/-- A stored value of a scalar dtype converts to itself. -/
theorem normal_form_get (now : DateTime) (v : Elem) (dtype : DType)
    (h : HasClass (clsOf dtype) v) (hnt : ∀ n, clsOf dtype ≠ .tuple n) (hna : clsOf dtype ≠ .any) :
    get now v dtype = .ok v :=
  get_fixpoint h hnt hna

/-- Assigning a Property its own values gives the same values and dtype (scalar dtypes; for
    n-tuples see `normal_form_assign_tuple`). -/
theorem normal_form_assign (now : DateTime) (s : PropState) (hs : Conforms s)
    (hnt : ∀ n, clsOf s.dtype ≠ .tuple n) (hna : clsOf s.dtype ≠ .any) :
    step now s (.setValues (.seq false s.values)) = (s, .ok) :=
  setValues_self hs hnt hna

/-- A clone has the same values and dtype as the original (scalar dtypes). -/
theorem clone_same (now : DateTime) (s : PropState) (hs : Conforms s)
    (hnt : ∀ n, clsOf s.dtype ≠ .tuple n) (hna : clsOf s.dtype ≠ .any) :
    step now s .clone = (s, .ok) := by
  simp only [step, setValues_self hs hnt hna]

example : Conforms ⟨[.atom (.date ⟨5, 1, 2⟩)], some "date".toList⟩ ∧
    (∀ n, clsOf (some "date".toList) ≠ .tuple n) ∧ clsOf (some "date".toList) ≠ .any := by
  refine ⟨⟨by decide, by simp, ?_⟩, ?_, ?_⟩
  · intro v hv
    simp only [List.mem_singleton] at hv
    subst hv
    have : clsOf (some "date".toList) = .date := by decide
    rw [this]; show Date.valid _ = true; decide
  · intro n; have : clsOf (some "date".toList) = .date := by decide
    rw [this]; simp
  · have : clsOf (some "date".toList) = .date := by decide
    rw [this]; simp

/-- The same for n-tuple Properties (with or without `None` items): the stored lists go through
    the textual re-import of `odml_tuple_import` (`['a','b']` → `"(a; b)"` → `tuple_get`) and come
    back unchanged, because stored items are stripped and contain no `;`.  `TupleOK` says that the
    stored spelling of the dtype is the one property.py inspects (`endswith("-tuple")`, leading
    count); it holds for every dtype the constructor / dtype setter store (lower case). -/
theorem normal_form_assign_tuple (now : DateTime) (s : PropState) (n : Int) (hs : ConformsW s)
    (hcls : clsOf s.dtype = .tuple n) (hok : TupleOK s.dtype) :
    step now s (.setValues (.seq false s.values)) = (s, .ok) ∧ step now s .clone = (s, .ok) := by
  cases hd : s.dtype with
  | none => rw [hd] at hcls; simp [clsOf] at hcls
  | some d =>
    rw [hd] at hcls
    obtain ⟨hraw, hcnt⟩ := hok d n hd hcls
    have hgood : ∀ v ∈ s.values, GoodT n v := by
      intro v hv
      have := hs.2.2 v hv
      rw [hd, hcls] at this
      exact hasClassW_goodT this
    have := setValues_self_tuple (now := now) hd hcls hraw hcnt hgood
    exact ⟨this, by simp only [step, this]⟩

example : ConformsW ⟨[.seq false [.str ['a'], .str ['b', 'c']], .atom .none], some "2-tuple".toList⟩ ∧
    clsOf (some "2-tuple".toList) = .tuple 2 ∧ TupleOK (some "2-tuple".toList) := by
  have hc : clsOf (some "2-tuple".toList) = .tuple 2 := by decide
  refine ⟨⟨by decide, by simp, ?_⟩, hc, ?_⟩
  · intro v hv
    rw [hc]
    simp only [List.mem_cons, List.not_mem_nil, or_false] at hv
    rcases hv with rfl | rfl
    · refine Or.inl ⟨by simp, by simp, ?_⟩
      intro a ha
      simp only [List.mem_cons, List.not_mem_nil, or_false] at ha
      rcases ha with rfl | rfl
      · exact ⟨_, rfl, by decide, by decide⟩
      · exact ⟨_, rfl, by decide, by decide⟩
    · exact Or.inr ⟨⟨2, rfl⟩, rfl⟩
  · intro d n hd hcls
    cases hd
    rw [hc] at hcls
    cases hcls
    exact ⟨by decide, by decide⟩

/-- Normal form of **every reachable state**, whatever its dtype: after any constructor call and
    any history of calls, assigning the Property its own values, or cloning it, gives the same
    values and dtype. -/
theorem normal_form_reachable (now : DateTime) (hn : now.valid = true) (d : DtIn)
    (values value : Inp) (s0 : PropState) (h : ctor now d values value = .ok s0) (ops : List Op) :
    let s := run now s0 ops
    step now s (.setValues (.seq false s.values)) = (s, .ok) ∧ step now s .clone = (s, .ok) := by
  intro s
  have hs : ConformsW s := conforms_ctor now hn d values value s0 h ops
  have hok : TupleOK s.dtype := run_tupleOK ops s0 (ctor_tupleOK h)
  by_cases ht : ∃ n, clsOf s.dtype = .tuple n
  · obtain ⟨n, hcls⟩ := ht
    exact normal_form_assign_tuple now s n hs hcls hok
  · have hnt : ∀ n, clsOf s.dtype ≠ .tuple n := fun n hc => ht ⟨n, hc⟩
    have hna := valid_not_any hs.1
    have hst := conformsW_strict_of_scalar hs hnt
    exact ⟨normal_form_assign now s hst hnt hna, clone_same now s hst hnt hna⟩

/-- value → text → value: what `dtypes.set` (`Property.value_str`) makes of a stored value of a
    scalar dtype is converted back to that value by `dtypes.get`.  For floats the CPython contract
    `float(repr(x)) == x` is the explicit hypothesis `hf`. -/
theorem text_roundtrip (now : DateTime) (v : Elem) (dtype : DType)
    (h : HasClass (clsOf dtype) v) (hnt : ∀ n, clsOf dtype ≠ .tuple n) (hna : clsOf dtype ≠ .any)
    (hf : ∀ f, v = .atom (.float f) → parseFloat f.repr = some f) :
    ∃ t, set now v dtype = .ok t ∧ get now t dtype = .ok v :=
  set_get_roundtrip h hnt hna hf

/-- … and so is its `str()` (the text the writers emit), for every scalar dtype but float;
    a datetime must be a valid one, which every Python datetime object is. -/
theorem str_roundtrip_nonfloat (now : DateTime) (v : Elem) (dtype : DType)
    (h : HasClass (clsOf dtype) v) (hnt : ∀ n, clsOf dtype ≠ .tuple n) (hna : clsOf dtype ≠ .any)
    (hnf : clsOf dtype ≠ .float) (hdt : ∀ x, v = .atom (.datetime x) → x.valid = true) :
    get now (.atom (.str v.pyStr)) dtype = .ok v :=
  str_get_roundtrip h hnt hna hnf hdt

example : get ⟨⟨2020, 1, 5⟩, ⟨1, 2, 3, 0⟩⟩ (.atom (.str (Elem.atom (.datetime ⟨⟨5, 1, 2⟩, ⟨3, 4, 5, 0⟩⟩)).pyStr))
    (some "datetime".toList) = .ok (.atom (.datetime ⟨⟨5, 1, 2⟩, ⟨3, 4, 5, 0⟩⟩)) := by rfl

/-! ## 5. The one way in which the strict reading fails: `None` in an n-tuple Property -/

/-- `tuple_get` returns `None` exactly for a falsy argument (`None`, `""`, `0`, `[]`, …). -/
theorem tuple_none_only_from_falsy (v : Elem) (c : Option Int) :
    tupleGet v c = .ok (.atom .none) ↔ v.truthy = false := by
  unfold tupleGet
  constructor
  · intro h
    by_cases ht : v.truthy = true
    · simp only [ht, Bool.not_true, Bool.false_eq_true, ↓reduceIte] at h
      split at h
      · split at h
        · cases h
        · split at h
          · split at h <;> cases h
          · cases h
      · cases h
    · simpa using ht
  · intro h; simp [h]

/-- Apart from such `None` items the implementation's invariant is the property's. -/
theorem conforms_strict_partial (s : PropState) (hs : ConformsW s)
    (hnone : ∀ v ∈ s.values, v ≠ .atom .none) : Conforms s :=
  ⟨hs.1, hs.2.1, fun v hv => (hs.2.2 v hv).elim id (fun h => absurd h.2 (hnone v hv))⟩

/-- Witness (replayed on the implementation by corpus/C05/tuple_none.json):
    `Property(dtype="2-tuple", values=["(a;b)", ""])` is accepted and stores `[['a','b'], None]`. -/
theorem tuple_none_counterexample :
    ∃ s, ctor ⟨⟨2020, 1, 5⟩, ⟨1, 2, 3, 0⟩⟩ (.str "2-tuple".toList)
        (.seq false [.atom (.str "(a;b)".toList), .atom (.str [])]) (.one .none) = .ok s ∧
      ¬ Conforms s := by
  refine ⟨⟨[.seq false [.str ['a'], .str ['b']], .atom .none], some "2-tuple".toList⟩, by rfl, ?_⟩
  intro h
  have h2 := h.2.2 (.atom .none) (by simp)
  have : clsOf (some "2-tuple".toList) = .tuple 2 := by decide
  rw [this] at h2
  exact h2

/-! ## 6. Which dtype names are valid -/

def scalarNames : List (List Char) :=
  ["string".toList, "text".toList, "int".toList, "float".toList, "url".toList, "datetime".toList,
   "date".toList, "time".toList, "boolean".toList, "person".toList]

/-- `valid_type` accepts exactly the ten odML type names and `n-tuple` (n ≥ 1, no leading zero),
    in any case, with the shorthands `str`/`bool`.  Stated over the `DType` members regenerated
    from /repo on every run. -/
theorem valid_type_exact (d : List Char) :
    validType (.str d) = true ↔ (normDtype d ∈ scalarNames ∨ isTupleName (normDtype d) = true) := by
  simp only [validType, Bool.or_eq_true]
  have : isMember (normDtype d) = true ↔ normDtype d ∈ scalarNames := by
    simp only [isMember, Gen.DTypes.members, scalarNames, List.any_cons, List.any_nil,
      Bool.or_false, Bool.or_eq_true, beq_iff_eq, List.mem_cons, List.not_mem_nil, or_false]
    constructor <;> intro h <;> (rcases h with h | h | h | h | h | h | h | h | h | h <;> simp [h])
  rw [this]

/-- Regression witnesses of the repaired defect: `str` method names are not dtypes, case variants
    and shorthands select the right converter. -/
theorem method_names_invalid :
    validType (.str "join".toList) = false ∧ validType (.str "upper".toList) = false ∧
    validType (.str "tuple".toList) = false ∧ validType (.str "0-tuple".toList) = false ∧
    validType (.str "2-tuple\n".toList) = false ∧ validType .other = false ∧
    validType (.str "Int".toList) = true ∧ clsOf (DtIn.toDType (.str "Int".toList)) = .int ∧
    clsOf (some "STRING".toList) = .str ∧ clsOf (some "str".toList) = .str ∧
    clsOf (some "bool".toList) = .bool ∧ clsOf (some "boolean".toList) = .bool ∧
    clsOf (some "float".toList) = .float ∧ clsOf (some "date".toList) = .date ∧
    clsOf (some "time".toList) = .time ∧ clsOf (some "datetime".toList) = .datetime ∧
    clsOf (some "text".toList) = .str ∧ clsOf (some "url".toList) = .str ∧
    clsOf (some "person".toList) = .str ∧ clsOf (some "3-tuple".toList) = .tuple 3 ∧
    clsOf (DtIn.toDType (.str "2-TUPLE".toList)) = .tuple 2 := by decide

end C05
