/-
C03 — A document is always a well-formed tree, whatever editing history produced it.

Property theorems only. Model: `Model/Heap.lean` (every structural editing operation of the
public API in Python statement order). Invariant `Heap.WF` and its preservation:
`Proofs/HeapWF.lean`, `HeapOps.lean`, `HeapSetItem.lean`, `HeapStep.lean`.

Operations covered by the theorems (`Heap.Op`): constructors with `parent=` /
create_section / create_property, append, insert, extend, remove, assigning `.parent` (to
another container, to None, to the current one, into the own subtree), item assignment on both
child lists, reorder, rename - applied to attached and detached objects, refused or not.
clone-then-attach, merge and link resolve/clean are *not* in `Heap.Op`: for those C03 is
checked on the implementation by the oracle stream only (see `wf_reachable_partial` below).
-/
import OdmlModel.Proofs.HeapStep

namespace C03
open Heap

/-- The full statement of C03 over the modelled operations: after any finite sequence of
    public editing operations, each of which succeeds or raises, the heap is well-formed. -/
def Statement : Prop := ∀ ops : List Op, WF (run empty ops)

/-- The starting point is well-formed. -/
theorem wf_empty : WF empty := Heap.wf_empty

/-- One operation, whatever it is and whether it succeeds or raises, keeps the heap well-formed. -/
theorem wf_step (h : H) (w : WF h) (op : Op) : WF (step h op).1 := by
  rcases step_spec w op with ⟨e, he⟩ | ⟨h', he, wh⟩
  · rw [he]; exact w
  · rw [he]; exact wh

/-- Every reachable state is well-formed: induction over the history, any length.
    (Named `_partial` because `Heap.Op` does not contain clone/merge/link; for the operations it
    does contain this is the full-strength statement `Statement`.) -/
theorem wf_reachable_partial : Statement := by
  intro ops
  suffices ∀ h, WF h → WF (run h ops) from this empty wf_empty
  induction ops with
  | nil => intro h w; exact w
  | cons op ops ih => intro h w; exact ih _ (wf_step h w op)

/-- The same from any well-formed starting state (e.g. a loaded document). -/
theorem wf_run (h : H) (w : WF h) (ops : List Op) : WF (run h ops) := by
  induction ops generalizing h with
  | nil => exact w
  | cons op ops ih => exact ih _ (wf_step h w op)

/-- `n` steps up the parent chain. -/
def up (h : H) : Nat → Nat → Option Nat
  | 0, c => some c
  | n + 1, c => match (h.node c).parent with
    | none => none
    | some p => up h n p

/-- "Consequently path, document and traversal queries always terminate":
    every parent chain ends after finitely many steps. -/
theorem parent_chain_terminates (h : H) (w : WF h) (c : Nat) : ∃ n, up h n c = none := by
  obtain ⟨d, hd⟩ := w.rank
  suffices ∀ k c, d c ≤ k → up h (k + 1) c = none from ⟨d c + 1, this (d c) c (Nat.le_refl _)⟩
  intro k
  induction k with
  | zero =>
    intro c hc
    simp only [up]
    cases hp : (h.node c).parent with
    | none => rfl
    | some p => have := hd c p hp; omega
  | succ k ih =>
    intro c hc
    simp only [up]
    cases hp : (h.node c).parent with
    | none => rfl
    | some p =>
      have := hd c p hp
      exact ih p (by omega)

/-- No Section (or any object) is its own proper ancestor. -/
theorem not_own_ancestor (h : H) (w : WF h) (c p : Nat) (hp : (h.node c).parent = some p) :
    ¬ Anc h c p := not_anc_parent w hp

/-- Every object that reports a parent is contained exactly once in that parent's child list of
    its kind and in no other list; every listed child reports its container as parent. -/
theorem in_exactly_one_list (h : H) (w : WF h) (c p : Nat) (hp : (h.node c).parent = some p) :
    (((h.node c).kind = .sec ∧ (h.node p).secs.count c = 1) ∨
     ((h.node c).kind = .prop ∧ (h.node p).props.count c = 1)) ∧
    (∀ q, q ≠ p → c ∉ (h.node q).secs ∧ c ∉ (h.node q).props) ∧
    (∀ q c', c' ∈ (h.node q).secs ∨ c' ∈ (h.node q).props → (h.node c').parent = some q) := by
  refine ⟨?_, ?_, ?_⟩
  · rcases w.kind_of_parent hp with hk | hk
    · have h1 := (List.nodup_iff_count.mp (w.nodupS p)) c
      have h2 := List.count_pos_iff.mpr ((w.memS p c).mpr ⟨hp, hk⟩)
      exact Or.inl ⟨hk, by omega⟩
    · have h1 := (List.nodup_iff_count.mp (w.nodupP p)) c
      have h2 := List.count_pos_iff.mpr ((w.memP p c).mpr ⟨hp, hk⟩)
      exact Or.inr ⟨hk, by omega⟩
  · intro q hq
    constructor
    · intro hm; have := ((w.memS q c).mp hm).1; rw [hp] at this; exact hq (Option.some.inj this).symm
    · intro hm; have := ((w.memP q c).mp hm).1; rw [hp] at this; exact hq (Option.some.inj this).symm
  · intro q c' hm
    rcases hm with hm | hm
    · exact ((w.memS q c').mp hm).1
    · exact ((w.memP q c').mp hm).1

/-- An object's document is the root of its parent chain: the chain from any object ends in a
    unique parentless object, and only a Document or a detached object can be that root. -/
theorem document_is_chain_root (h : H) (w : WF h) (c : Nat) :
    ∃ r, Anc h r c ∧ (h.node r).parent = none ∧ ∀ r', Anc h r' c → (h.node r').parent = none → r' = r := by
  obtain ⟨d, hd⟩ := w.rank
  -- existence by strong induction on the rank
  have ex : ∀ k c, d c ≤ k → ∃ r, Anc h r c ∧ (h.node r).parent = none := by
    intro k
    induction k with
    | zero =>
      intro c hc
      cases hp : (h.node c).parent with
      | none => exact ⟨c, Anc.refl c, hp⟩
      | some p => have := hd c p hp; omega
    | succ k ih =>
      intro c hc
      cases hp : (h.node c).parent with
      | none => exact ⟨c, Anc.refl c, hp⟩
      | some p =>
        have := hd c p hp
        obtain ⟨r, hr, hr0⟩ := ih p (by omega)
        exact ⟨r, Anc.step hp hr, hr0⟩
  obtain ⟨r, hr, hr0⟩ := ex (d c) c (Nat.le_refl _)
  refine ⟨r, hr, hr0, ?_⟩
  -- uniqueness: two parentless ancestors of c coincide
  have uniq : ∀ {a b c}, Anc h a c → Anc h b c → (h.node a).parent = none →
      (h.node b).parent = none → a = b := by
    intro a b c ha
    induction ha with
    | refl =>
      intro hb ha0 _
      cases hb with
      | refl => rfl
      | step hp _ => rw [ha0] at hp; cases hp
    | step hp _ ih =>
      intro hb ha0 hb0
      cases hb with
      | refl => rw [hb0] at hp; cases hp
      | step hp' hb' => rw [hp] at hp'; cases hp'; exact ih hb' ha0 hb0
  intro r' hr' hr0'
  exact uniq hr' hr hr0' hr0

/-! ## Non-vacuity: concrete histories, including refused operations -/

def demoOps : List Op := [
  .construct .doc "" "d" none true,
  .construct .sec "a" "i1" (some 0) true,
  .construct .sec "b" "i2" (some 0) true,
  .construct .sec "x" "i3" (some 1) true,
  .append 2 3,              -- moves x from a to b
  .append 3 2,              -- refused: b is an ancestor of x
  .setParent 1 (some 3),    -- a below x
  .reorder 2 (-1),
  .rename 3 "",             -- falls back to the id
  .setItem 0 true 0 1       -- a (below x below b) takes the place of b in the document
]

example : (step (run empty (demoOps.take 5)) (.append 3 2)).2 = .raised .valueError := by decide
example : ((run empty (demoOps.take 5)).node 2).secs = [3] ∧
    ((run empty (demoOps.take 5)).node 1).secs = [] := by decide
example : ((run empty (demoOps.take 9)).node 3).name = "i3" := by decide

end C03
