/-
C03 — A document is always a well-formed tree, whatever editing history produced it.

Property theorems only. Model: `Model/Heap.lean` (every structural editing operation of the
public API in Python statement order). Invariant `Heap.WF` and its preservation:
`Proofs/HeapWF.lean`, `HeapOps.lean`, `HeapSetItem.lean`, `HeapStep.lean`.

Operations covered by the theorems (`Heap.Op`): constructors with `parent=` /
create_section / create_property, append, insert, extend, remove, assigning `.parent` (to
another container, to None, to the current one, into the own subtree), item assignment on both
child lists, reorder, rename - applied to attached and detached objects, refused or not.
clone-then-attach, merge and link resolve/clean are *not* in `Heap.Op`; they are covered by the
second part of this file ("The extended operation set"): `Model/HeapExt.lean` models clone,
Section.merge, the link setter and clean/unmerge as programs over the primitive operations, and
`wf_reachable` is the statement of C03 over histories that mix all of them.
-/
import OdmlModel.Proofs.HeapStep
import OdmlModel.Proofs.HeapExt
import OdmlModel.Proofs.HeapQuery
import OdmlModel.Proofs.HeapExtFuel
import OdmlModel.Proofs.HeapExtCount

namespace C03
open Heap

/-- The full statement of C03 over the modelled operations: after any finite sequence of
    public editing operations, each of which succeeds or raises, the heap is well-formed. -/
def Statement : Prop := ∀ ops : List Op, WF (run empty ops)

/-- The starting point is well-formed. -/
theorem wf_empty : WF empty := Heap.wf_empty

/-- One operation, whatever it is and whether it succeeds or raises, keeps the heap well-formed. -/
theorem wf_step (h : H) (w : WF h) (op : Op) : WF (step h op).1 := by
  rcases step_spec w op with ⟨e, he⟩ | ⟨h', he, wh⟩
  · rw [he]; exact w
  · rw [he]; exact wh

/-- Every reachable state is well-formed: induction over the history, any length.
    (Named `_partial` because `Heap.Op` does not contain clone/merge/link; for the operations it
    does contain this is the full-strength statement `Statement`.) -/
theorem wf_reachable_partial : Statement := by
  intro ops
  suffices ∀ h, WF h → WF (run h ops) from this empty wf_empty
  induction ops with
  | nil => intro h w; exact w
  | cons op ops ih => intro h w; exact ih _ (wf_step h w op)

/-- The same from any well-formed starting state (e.g. a loaded document). -/
theorem wf_run (h : H) (w : WF h) (ops : List Op) : WF (run h ops) := by
  induction ops generalizing h with
  | nil => exact w
  | cons op ops ih => exact ih _ (wf_step h w op)

/-- `n` steps up the parent chain. -/
def up (h : H) : Nat → Nat → Option Nat
  | 0, c => some c
  | n + 1, c => match (h.node c).parent with
    | none => none
    | some p => up h n p

/-- "Consequently path, document and traversal queries always terminate":
    every parent chain ends after finitely many steps. -/
theorem parent_chain_terminates (h : H) (w : WF h) (c : Nat) : ∃ n, up h n c = none := by
  obtain ⟨d, hd⟩ := w.rank
  suffices ∀ k c, d c ≤ k → up h (k + 1) c = none from ⟨d c + 1, this (d c) c (Nat.le_refl _)⟩
  intro k
  induction k with
  | zero =>
    intro c hc
    simp only [up]
    cases hp : (h.node c).parent with
    | none => rfl
    | some p => have := hd c p hp; omega
  | succ k ih =>
    intro c hc
    simp only [up]
    cases hp : (h.node c).parent with
    | none => rfl
    | some p =>
      have := hd c p hp
      exact ih p (by omega)

/-- No Section (or any object) is its own proper ancestor. -/
theorem not_own_ancestor (h : H) (w : WF h) (c p : Nat) (hp : (h.node c).parent = some p) :
    ¬ Anc h c p := not_anc_parent w hp

/-- Every object that reports a parent is contained exactly once in that parent's child list of
    its kind and in no other list; every listed child reports its container as parent. -/
theorem in_exactly_one_list (h : H) (w : WF h) (c p : Nat) (hp : (h.node c).parent = some p) :
    (((h.node c).kind = .sec ∧ (h.node p).secs.count c = 1) ∨
     ((h.node c).kind = .prop ∧ (h.node p).props.count c = 1)) ∧
    (∀ q, q ≠ p → c ∉ (h.node q).secs ∧ c ∉ (h.node q).props) ∧
    (∀ q c', c' ∈ (h.node q).secs ∨ c' ∈ (h.node q).props → (h.node c').parent = some q) := by
  refine ⟨?_, ?_, ?_⟩
  · rcases w.kind_of_parent hp with hk | hk
    · have h1 := (List.nodup_iff_count.mp (w.nodupS p)) c
      have h2 := List.count_pos_iff.mpr ((w.memS p c).mpr ⟨hp, hk⟩)
      exact Or.inl ⟨hk, by omega⟩
    · have h1 := (List.nodup_iff_count.mp (w.nodupP p)) c
      have h2 := List.count_pos_iff.mpr ((w.memP p c).mpr ⟨hp, hk⟩)
      exact Or.inr ⟨hk, by omega⟩
  · intro q hq
    constructor
    · intro hm; have := ((w.memS q c).mp hm).1; rw [hp] at this; exact hq (Option.some.inj this).symm
    · intro hm; have := ((w.memP q c).mp hm).1; rw [hp] at this; exact hq (Option.some.inj this).symm
  · intro q c' hm
    rcases hm with hm | hm
    · exact ((w.memS q c').mp hm).1
    · exact ((w.memP q c').mp hm).1

/-- An object's document is the root of its parent chain: the chain from any object ends in a
    unique parentless object, and only a Document or a detached object can be that root. -/
theorem document_is_chain_root (h : H) (w : WF h) (c : Nat) :
    ∃ r, Anc h r c ∧ (h.node r).parent = none ∧ ∀ r', Anc h r' c → (h.node r').parent = none → r' = r := by
  obtain ⟨d, hd⟩ := w.rank
  -- existence by strong induction on the rank
  have ex : ∀ k c, d c ≤ k → ∃ r, Anc h r c ∧ (h.node r).parent = none := by
    intro k
    induction k with
    | zero =>
      intro c hc
      cases hp : (h.node c).parent with
      | none => exact ⟨c, Anc.refl c, hp⟩
      | some p => have := hd c p hp; omega
    | succ k ih =>
      intro c hc
      cases hp : (h.node c).parent with
      | none => exact ⟨c, Anc.refl c, hp⟩
      | some p =>
        have := hd c p hp
        obtain ⟨r, hr, hr0⟩ := ih p (by omega)
        exact ⟨r, Anc.step hp hr, hr0⟩
  obtain ⟨r, hr, hr0⟩ := ex (d c) c (Nat.le_refl _)
  refine ⟨r, hr, hr0, ?_⟩
  -- uniqueness: two parentless ancestors of c coincide
  have uniq : ∀ {a b c}, Anc h a c → Anc h b c → (h.node a).parent = none →
      (h.node b).parent = none → a = b := by
    intro a b c ha
    induction ha with
    | refl =>
      intro hb ha0 _
      cases hb with
      | refl => rfl
      | step hp _ => rw [ha0] at hp; cases hp
    | step hp _ ih =>
      intro hb ha0 hb0
      cases hb with
      | refl => rw [hb0] at hp; cases hp
      | step hp' hb' => rw [hp] at hp'; cases hp'; exact ih hb' ha0 hb0
  intro r' hr' hr0'
  exact uniq hr' hr hr0' hr0

/-! ## Non-vacuity: concrete histories, including refused operations -/

def demoOps : List Op := [
  .construct .doc "" "d" none true,
  .construct .sec "a" "i1" (some 0) true,
  .construct .sec "b" "i2" (some 0) true,
  .construct .sec "x" "i3" (some 1) true,
  .append 2 3,              -- moves x from a to b
  .append 3 2,              -- refused: b is an ancestor of x
  .setParent 1 (some 3),    -- a below x
  .reorder 2 (-1),
  .rename 3 "",             -- falls back to the id
  .setItem 0 true 0 1       -- a (below x below b) takes the place of b in the document
]

example : (step (run empty (demoOps.take 5)) (.append 3 2)).2 = .raised .valueError := by decide
example : ((run empty (demoOps.take 5)).node 2).secs = [3] ∧
    ((run empty (demoOps.take 5)).node 1).secs = [] := by decide
example : ((run empty (demoOps.take 9)).node 3).name = "i3" := by decide

/-! ## The extended operation set: clone (+attach), merge, the link setter, clean

`Model/HeapExt.lean`: `XOp` = every primitive operation, `clone` (the copy is a new detached
object; attaching it is a following primitive operation), `merge`, `setLink` (clean the old
resolution, merge the Section found by the path, non-strict), `clean` (unmerge, recursively).
What the tree structure does not determine (Section types, outcome of the attribute checks of
merge_check / Property.merge, deep equality, ids of the copies) is an `Oracle`, arbitrary in
every theorem; so is the recursion budget `fuel`. -/

/-- The full statement of C03 over the extended operation set: after any finite history of
    primitive operations, clones, merges, link assignments and cleans - each of which succeeds
    or raises, whatever the oracle answers - the heap is well-formed. -/
def StatementX : Prop :=
  ∀ (fuel : Nat) (ops : List (Oracle × XOp)), WF (runX fuel X.empty ops).h

/-- One extended operation keeps the heap well-formed. -/
theorem wf_step_ext (fuel : Nat) (s : X) (w : WF s.h) (O : Oracle) (op : XOp) :
    WF (stepX fuel s O op).1.h :=
  stepX_inv (P := WF) wf_step' fuel s O op w

/-- Any history over the extended operation set, from any well-formed state. -/
theorem wf_run_ext (fuel : Nat) (s : X) (w : WF s.h) (ops : List (Oracle × XOp)) :
    WF (runX fuel s ops).h :=
  runX_inv (P := WF) wf_step' fuel ops s w

/-- C03 over the extended operation set (the full quantifier of the property). -/
theorem wf_reachable : StatementX :=
  fun fuel ops => wf_run_ext fuel X.empty wf_empty ops

/-- Refinement: the heap after an extended operation is the heap after some finite sequence of
    primitive operations (the appends, removes, allocations and id assignments it performs). -/
theorem ext_step_refines (fuel : Nat) (s : X) (O : Oracle) (op : XOp) :
    ∃ prims : List Op, run s.h prims = (stepX fuel s O op).1.h :=
  stepX_inv (P := Reach s.h) (fun _ op r => r.step op) fuel s O op (Reach.refl _)

/-- Every state reachable with the extended operations is reachable with primitive ones. -/
theorem ext_run_refines (fuel : Nat) (ops : List (Oracle × XOp)) :
    ∃ prims : List Op, run empty prims = (runX fuel X.empty ops).h :=
  runX_inv (P := Reach empty) (fun _ op r => r.step op) fuel ops X.empty (Reach.refl _)

/-- Parent chains end, in every state reachable with the extended operations. -/
theorem parent_chain_terminates_ext (fuel : Nat) (ops : List (Oracle × XOp)) (c : Nat) :
    ∃ n, up (runX fuel X.empty ops).h n c = none :=
  parent_chain_terminates _ (wf_reachable fuel ops) c

theorem not_own_ancestor_ext (fuel : Nat) (ops : List (Oracle × XOp)) (c p : Nat)
    (hp : ((runX fuel X.empty ops).h.node c).parent = some p) :
    ¬ Anc (runX fuel X.empty ops).h c p :=
  not_own_ancestor _ (wf_reachable fuel ops) c p hp

theorem in_exactly_one_list_ext (fuel : Nat) (ops : List (Oracle × XOp)) (c p : Nat)
    (hp : ((runX fuel X.empty ops).h.node c).parent = some p) :
    ((((runX fuel X.empty ops).h.node c).kind = .sec ∧
        ((runX fuel X.empty ops).h.node p).secs.count c = 1) ∨
     (((runX fuel X.empty ops).h.node c).kind = .prop ∧
        ((runX fuel X.empty ops).h.node p).props.count c = 1)) ∧
    (∀ q, q ≠ p → c ∉ ((runX fuel X.empty ops).h.node q).secs ∧
        c ∉ ((runX fuel X.empty ops).h.node q).props) ∧
    (∀ q c', c' ∈ ((runX fuel X.empty ops).h.node q).secs ∨
        c' ∈ ((runX fuel X.empty ops).h.node q).props →
        ((runX fuel X.empty ops).h.node c').parent = some q) :=
  in_exactly_one_list _ (wf_reachable fuel ops) c p hp

theorem document_is_chain_root_ext (fuel : Nat) (ops : List (Oracle × XOp)) (c : Nat) :
    ∃ r, Anc (runX fuel X.empty ops).h r c ∧ ((runX fuel X.empty ops).h.node r).parent = none ∧
      ∀ r', Anc (runX fuel X.empty ops).h r' c →
        ((runX fuel X.empty ops).h.node r').parent = none → r' = r :=
  document_is_chain_root _ (wf_reachable fuel ops) c

/-! ### The `.document` query (`Model/HeapQuery.lean`)

`document_is_chain_root` says that the parent chain has a unique root. The two theorems below are
about the *executable* model of the query itself - `Sectionable.document` (the loop
`while par.parent: par = par.parent`, whose test is the truthiness of the parent) and
`BaseObject.document` (Properties ask their Section) - which the correspondence run compares with
the implementation's `.document` of every object between the operations of a history: in every
reachable state, whatever was asked before, the query answers `r` exactly when `r` is the root of
the parent chain of the object and a Document (and nothing for an object whose chain ends in a
detached Section or Property). -/

/-- An object's document is the root of its parent chain (the query as the library computes it,
    with `size + 1` rounds for the walk, never stopped early by a falsy parent). -/
theorem document_query_is_chain_root (h : H) (w : WF h) (c : Nat) (hc : c < h.size) (r : Nat) :
    document h c = some r ↔
      (Anc h r c ∧ (h.node r).parent = none ∧ (h.node r).kind = .doc) :=
  document_spec w hc r

/-- The same in every state reachable by a history over the extended operation set: the answer
    depends on the state only - also after an ancestor of the object has been moved to another
    Document, below a Section of another Document, or detached. -/
theorem document_query_is_chain_root_ext (fuel : Nat) (ops : List (Oracle × XOp)) (c : Nat)
    (hc : c < (runX fuel X.empty ops).h.size) (r : Nat) :
    document (runX fuel X.empty ops).h c = some r ↔
      (Anc (runX fuel X.empty ops).h r c ∧ ((runX fuel X.empty ops).h.node r).parent = none ∧
        ((runX fuel X.empty ops).h.node r).kind = .doc) :=
  document_spec (wf_reachable fuel ops) hc r

/-- A detached object (its chain does not end in a Document) has no document. -/
theorem document_query_none (h : H) (w : WF h) (c : Nat) (hc : c < h.size) :
    document h c = none ↔
      ∀ r, Anc h r c → (h.node r).parent = none → (h.node r).kind ≠ .doc := by
  constructor
  · intro hn r ha h0 hk
    have := (document_spec w hc r).mpr ⟨ha, h0, hk⟩
    rw [hn] at this; cases this
  · intro hall
    cases hd : document h c with
    | none => rfl
    | some r =>
      obtain ⟨ha, h0, hk⟩ := (document_spec w hc r).mp hd
      exact absurd hk (hall r ha h0)

-- a (below x below b) sits in the document until the item assignment puts a in the place of b:
-- afterwards b and x below it are detached, and the answer for x has changed with the move of b
example : document (run empty (demoOps.take 9)) 1 = some 0 ∧
    document (run empty (demoOps.take 9)) 3 = some 0 := by decide
example : document (run empty demoOps) 1 = some 0 ∧ document (run empty demoOps) 3 = none ∧
    document (run empty demoOps) 2 = none := by decide

/-- What `stepX` does for a clone, in terms of `cloneAux`. -/
theorem stepX_clone (fuel : Nat) (s : X) (O : Oracle) (x : Nat) (ch kid : Bool)
    (hok : (stepX fuel s O (.clone x ch kid)).2 = .ok) :
    stepX fuel s O (.clone x ch kid) =
      ((cloneAux O fuel { s with orig := id } x ch kid).1,
       (cloneAux O fuel { s with orig := id } x ch kid).2.2) := by
  unfold stepX at hok ⊢
  simp only at hok ⊢
  split
  · rename_i hg; rw [if_pos hg] at hok; cases hok
  · rfl

/-- A clone that succeeds yields a *detached* object: the copy (the next free handle) has no
    parent and is in no child list. -/
theorem clone_detached (fuel : Nat) (s : X) (O : Oracle) (x : Nat) (ch kid : Bool) (w : WF s.h)
    (hok : (stepX fuel s O (.clone x ch kid)).2 = .ok) :
    s.h.size < (stepX fuel s O (.clone x ch kid)).1.h.size ∧
    ((stepX fuel s O (.clone x ch kid)).1.h.node s.h.size).parent = none ∧
    ∀ p, s.h.size ∉ ((stepX fuel s O (.clone x ch kid)).1.h.node p).secs ∧
         s.h.size ∉ ((stepX fuel s O (.clone x ch kid)).1.h.node p).props := by
  have w' := wf_step_ext fuel s w O (.clone x ch kid)
  have he := stepX_clone fuel s O x ch kid hok
  rw [he] at hok w' ⊢
  have sp := cloneAux_spec O fuel { s with orig := id } x ch kid w
  have hroot : (cloneAux O fuel { s with orig := id } x ch kid).2.1 = s.h.size := sp.root
  obtain ⟨hlt, hdet⟩ := sp.ok hok
  rw [hroot] at hlt hdet
  refine ⟨hlt, hdet, fun p => ⟨fun hm => ?_, fun hm => ?_⟩⟩
  · have := ((w'.memS p _).mp hm).1; rw [hdet] at this; cases this
  · have := ((w'.memP p _).mp hm).1; rw [hdet] at this; cases this

/-- Every object of the clone is fresh: no object that existed before is changed in any field
    (in particular none is moved into the copy, and no child list of the original is shared),
    and everything at or below the copy is a new object. -/
theorem clone_fresh (fuel : Nat) (s : X) (O : Oracle) (x : Nat) (ch kid : Bool) (w : WF s.h)
    (hok : (stepX fuel s O (.clone x ch kid)).2 = .ok) :
    (∀ i, i < s.h.size → (stepX fuel s O (.clone x ch kid)).1.h.node i = s.h.node i) ∧
    (∀ i, Anc (stepX fuel s O (.clone x ch kid)).1.h s.h.size i → s.h.size ≤ i) := by
  rw [stepX_clone fuel s O x ch kid hok]
  have sp := cloneAux_spec O fuel { s with orig := id } x ch kid w
  have hs : Same s.h.size s.h (cloneAux O fuel { s with orig := id } x ch kid).1.h := sp.same
  refine ⟨hs.2, fun i ha => ?_⟩
  rcases Nat.lt_or_ge i s.h.size with hi | hi
  · have := anc_old w hs ha hi; omega
  · exact hi

/-- `clone` terminates: on a well-formed heap a recursion budget of the number of objects is never
    used up (the copy is as deep as the original, and a parent chain of a well-formed heap has no
    repetition), so the model's `.fuel` answer does not occur for it. -/
theorem clone_terminates (fuel : Nat) (s : X) (O : Oracle) (x : Nat) (ch kid : Bool) (w : WF s.h)
    (hf : s.h.size ≤ fuel) : (stepX fuel s O (.clone x ch kid)).2 ≠ .fuel := by
  unfold stepX
  simp only
  split
  · simp
  · rename_i hg
    have hx : x < s.h.size := by
      rcases Nat.lt_or_ge x s.h.size with h1 | h1
      · exact h1
      · exfalso; apply hg; simp [XOp.handles, h1]
    exact cloneAux_no_fuel O w fuel { s with orig := id } x ch kid [] w (Same.refl _ _)
      ⟨hx, fun p hp => absurd hp (List.not_mem_nil), List.nodup_nil⟩ (by simpa using hf)

/-- clone followed by attach (or by any other primitive operation on the copy). -/
theorem clone_then_attach_wf (fuel : Nat) (s : X) (w : WF s.h) (O O' : Oracle) (x : Nat)
    (ch kid : Bool) (attach : Op) :
    WF (runX fuel s [(O, .clone x ch kid), (O', .prim attach)]).h :=
  wf_run_ext fuel s w _

/-- `merge` never moves, removes, renames or re-kinds an object that existed before (of the
    destination, of the source or anywhere else): kinds, names, ids and parents are unchanged
    and child lists only grow at the end, by new objects (the copies). Whether it succeeds or
    raises half-way (a KeyError of `append`; the name clash with a Section of another type,
    former finding C13/section-name-clash-other-type, is refused before anything changes). -/
theorem merge_only_adds (fuel : Nat) (s : X) (O : Oracle) (dest src : Nat) (w : WF s.h) :
    Adds s.h.size s.h (stepX fuel s O (.merge dest src)).1.h := by
  unfold stepX
  simp only
  split
  · exact Adds.refl _ _
  · split
    · exact Adds.refl _ _
    · exact (mergeAux_adds O (Nat.le_refl _) fuel { s with orig := id } _ dest src
        ⟨w, Adds.refl _ _⟩).2

/-- `merge_only_adds` spelled out for one object `i` that existed before the merge. -/
theorem merge_keeps_existing (fuel : Nat) (s : X) (O : Oracle) (dest src : Nat) (w : WF s.h)
    (i : Nat) (hi : i < s.h.size) :
    ((stepX fuel s O (.merge dest src)).1.h.node i).parent = (s.h.node i).parent ∧
    ((stepX fuel s O (.merge dest src)).1.h.node i).kind = (s.h.node i).kind ∧
    ((stepX fuel s O (.merge dest src)).1.h.node i).name = (s.h.node i).name ∧
    (∃ l, ((stepX fuel s O (.merge dest src)).1.h.node i).secs = (s.h.node i).secs ++ l ∧
       ∀ c ∈ l, s.h.size ≤ c) ∧
    (∃ l, ((stepX fuel s O (.merge dest src)).1.h.node i).props = (s.h.node i).props ++ l ∧
       ∀ c ∈ l, s.h.size ≤ c) := by
  obtain ⟨hk, hn, _, hp, hs, hpr⟩ := (merge_only_adds fuel s O dest src w).2 i hi
  exact ⟨hp, hk, hn, hs, hpr⟩

/-- `clean` (and with it `unmerge`) only detaches: no object is created, no kind or name changes, an
    object's parent afterwards is its parent before or none, child lists only lose entries - whether
    it succeeds or raises (RuntimeError of `unmerge`, ValueError of `get_relative_path`). -/
theorem clean_only_detaches (fuel : Nat) (s : X) (O : Oracle) (x : Nat) (w : WF s.h) :
    Detaches s.h (stepX fuel s O (.clean x)).1.h := by
  unfold stepX
  simp only
  split
  · exact Detaches.refl _
  · split
    · exact Detaches.refl _
    · exact (cleanAux_inv (P := CInv s.h) (cinv_remove s.h) O fuel { s with orig := id } x
        ⟨w, Detaches.refl _⟩).2

/-! ### The link setter after a refused merge (fixes 592a7e3, dccf4ba) -/

/-- every attribute comparison of `merge_check` fails (nothing can be merged); the link stored on
    object 2 designates object 1 -/
def demoOracleRefusing : Oracle :=
  { ty := fun _ => "t", secOk := fun _ _ => false, propOk := fun _ _ => true,
    eq := fun a b => a == b, relOk := fun _ _ => true, ids := fun i => s!"n{i}",
    oldLink := fun i => if i = 2 then some 1 else none }

/-- A link assignment to a Section whose link is not resolved - it has none, or one that is only
    stored - does nothing but `clean()` and the merge of the new target: when the merge is refused,
    the state is the one the refused merge left and the outcome is its outcome; the stored link is
    not assigned again (former finding C03/refused-link-reresolved-without-end). -/
theorem stored_link_not_reassigned (O : Oracle) (fuel : Nat) (s s1 s2 : X) (x t : Nat) (out : XOut)
    (hp : (s.h.node x).parent ≠ none) (hr : s.resolved x = false)
    (hc : cleanIfLinked O fuel s x = (s1, .ok)) (hm : mergeAux O fuel s1 true x t = (s2, out))
    (hne : out ≠ .ok) :
    setLinkAux O fuel s x (.path (some t)) = (s2, out) := by
  unfold setLinkAux
  split
  · rename_i h; exact absurd h hp
  · simp only [hc, hm, hr, Bool.false_eq_true, if_false]
    cases out with
    | ok => exact absurd rfl hne
    | raised e => rfl
    | runtime => rfl
    | fuel => rfl

/-- The same for the assignment made by the `except` branch itself (`self.merge()`): when it
    starts from a Section whose link is not resolved - as `clean()` leaves it - its result is the
    result of the merge, it cannot nest further. -/
theorem reresolve_does_not_nest (O : Oracle) (fuel : Nat) (s s1 : X) (x t0 : Nat)
    (ho : O.oldLink x = some t0) (hr : s.resolved x = false)
    (hc : cleanIfLinked O fuel s x = (s1, .ok)) :
    relinkAux O (fuel + 1) s x = mergeAux O fuel s1 true x t0 := by
  unfold relinkAux
  simp only [ho, hc, hr, Bool.false_eq_true, if_false]
  generalize mergeAux O fuel s1 true x t0 = r
  obtain ⟨s2, out⟩ := r
  cases out <;> rfl

/-- Witness of the former finding: doc(0) / a(1), doc / x(2); `x` carries a stored link to `a`
    that was never resolved, and no Section can be merged into `x`. -/
def storedLinkState : X :=
  { (runX 10 X.empty [
      (demoOracleRefusing, .prim (.construct .doc "" "d" none true)),
      (demoOracleRefusing, .prim (.construct .sec "a" "i1" (some 0) true)),
      (demoOracleRefusing, .prim (.construct .sec "x" "i2" (some 0) true))]) with
    link := fun i => i == 2 }

/-- Before fix 592a7e3 the refused assignment `x.link = <path of a>` never came back: the
    `except` branch assigned the stored link again, whatever the recursion budget. -/
theorem legacy_relink_runs_out_of_budget (fuel : Nat) :
    (relinkLegacy demoOracleRefusing fuel storedLinkState 2).2 = .fuel := by
  have hclean : ∀ f, cleanIfLinked demoOracleRefusing f storedLinkState 2 = (storedLinkState, .ok) ∨
      cleanIfLinked demoOracleRefusing f storedLinkState 2 = (storedLinkState, .fuel) := by
    intro f
    cases f with
    | zero => right; rfl
    | succ f =>
      cases f with
      | zero => right; rfl
      | succ f => left; rfl
  have hmerge : ∀ f, mergeAux demoOracleRefusing f storedLinkState true 2 1 = (storedLinkState, .fuel) ∨
      mergeAux demoOracleRefusing f storedLinkState true 2 1 = (storedLinkState, .raised .valueError) := by
    intro f
    cases f with
    | zero => left; rfl
    | succ f =>
      cases f with
      | zero => left; rfl
      | succ f => right; rfl
  induction fuel with
  | zero => rfl
  | succ f ih =>
    unfold relinkLegacy
    have ho : demoOracleRefusing.oldLink 2 = some 1 := rfl
    simp only [ho]
    rcases hclean f with h | h
    · rcases hmerge f with h2 | h2
      · simp only [h, h2]
      · simp only [h, h2]; exact ih
    · simp only [h]

/-- With the fix the same assignment is refused with the ValueError of the merge and changes
    nothing, for every budget that lets `clean()` and the merge check run at all. -/
theorem stored_link_refused_unchanged (fuel : Nat) :
    setLinkAux demoOracleRefusing (fuel + 2) storedLinkState 2 (.path (some 1)) =
      (storedLinkState, .raised .valueError) := by
  have h1 : cleanIfLinked demoOracleRefusing (fuel + 2) storedLinkState 2 = (storedLinkState, .ok) := rfl
  have h2 : mergeAux demoOracleRefusing (fuel + 2) storedLinkState true 2 1 =
      (storedLinkState, .raised .valueError) := rfl
  exact stored_link_not_reassigned _ _ _ _ _ _ _ _ (by decide) (by decide) h1 h2 (by decide)

/-! ## The recursion budget (`fuel`) of the extended operations

`.fuel` is the model's answer when the recursion budget is used up (Python: RecursionError or no
termination). `clone_terminates` above shows that it is dead for clone. The theorems below do the
same for clean / unmerge, merge and the link setter (`Proofs/HeapExtFuel.lean`), and show that
the budget has no other influence: an answer that is not `.fuel` is the answer for every larger
budget. -/

/-- Fuel monotonicity, for every operation of the extended set, every state and every oracle:
    once an operation answers (anything but `.fuel`), every larger budget gives the same answer
    *and the same state*. No hypothesis. -/
theorem budget_monotone (fuel fuel' : Nat) (s : X) (O : Oracle) (op : XOp) (hle : fuel ≤ fuel')
    (h : (stepX fuel s O op).2 ≠ .fuel) : stepX fuel' s O op = stepX fuel s O op :=
  mono_le (fun f => stepX f s O op) (fun r => r.2 ≠ .fuel) (fun f hf => stepX_mono f s O op hf)
    fuel fuel' hle h

/-- Two budgets under which an operation answers give the same result. -/
theorem budget_irrelevant (f1 f2 : Nat) (s : X) (O : Oracle) (op : XOp)
    (h1 : (stepX f1 s O op).2 ≠ .fuel) (h2 : (stepX f2 s O op).2 ≠ .fuel) :
    stepX f1 s O op = stepX f2 s O op := by
  rcases Nat.le_total f1 f2 with h | h
  · exact (budget_monotone f1 f2 s O op h h1).symm
  · exact budget_monotone f2 f1 s O op h h2

/-- The same for the recursive procedures themselves (used by the harness-independent statements
    below): merge, unmerge, clean, the link setter. -/
theorem merge_budget_monotone (O : Oracle) (fuel fuel' : Nat) (s : X) (record : Bool) (dest src : Nat)
    (hle : fuel ≤ fuel') (h : (mergeAux O fuel s record dest src).2 ≠ .fuel) :
    mergeAux O fuel' s record dest src = mergeAux O fuel s record dest src :=
  mono_le (fun f => mergeAux O f s record dest src) (fun r => r.2 ≠ .fuel)
    (fun f hf => mergeAux_mono O f s record dest src hf) fuel fuel' hle h

theorem unmerge_budget_monotone (O : Oracle) (fuel fuel' : Nat) (s : X) (self target : Nat)
    (hle : fuel ≤ fuel') (h : (unmergeAux O fuel s self target).2 ≠ .fuel) :
    unmergeAux O fuel' s self target = unmergeAux O fuel s self target :=
  mono_le (fun f => unmergeAux O f s self target) (fun r => r.2 ≠ .fuel)
    (fun f hf => unmergeAux_mono O f s self target hf) fuel fuel' hle h

theorem clean_budget_monotone (O : Oracle) (fuel fuel' : Nat) (s : X) (x : Nat)
    (hle : fuel ≤ fuel') (h : (cleanAux O fuel s x).2 ≠ .fuel) :
    cleanAux O fuel' s x = cleanAux O fuel s x :=
  mono_le (fun f => cleanAux O f s x) (fun r => r.2 ≠ .fuel)
    (fun f hf => cleanAux_mono O f s x hf) fuel fuel' hle h

theorem link_budget_monotone (O : Oracle) (fuel fuel' : Nat) (s : X) (x : Nat) (v : LinkVal)
    (hle : fuel ≤ fuel') (h : (setLinkAux O fuel s x v).2 ≠ .fuel) :
    setLinkAux O fuel' s x v = setLinkAux O fuel s x v :=
  mono_le (fun f => setLinkAux O f s x v) (fun r => r.2 ≠ .fuel)
    (fun f hf => setLinkAux_mono O f s x v hf) fuel fuel' hle h

/-- `unmerge` terminates: on a well-formed heap a budget of `2 * size + 1` is never used up,
    whatever Sections `self` and `target` are and whatever the oracle answers (the recursion
    descends along child edges the heap had at the start - unmerge only removes -, a parent chain
    has no repetition, and a live child list never gets longer than `size`). -/
theorem unmerge_terminates (fuel : Nat) (s : X) (O : Oracle) (self target : Nat) (w : WF s.h)
    (hs : 0 < s.h.size) (hf : 2 * s.h.size + 1 ≤ fuel) :
    (unmergeAux O fuel s self target).2 ≠ .fuel :=
  unmergeAux_no_fuel O w fuel s self target [] ⟨w, Detaches.refl _⟩
    (fun ht => ⟨ht, fun p hp => absurd hp List.not_mem_nil, List.nodup_nil⟩)
    (by simp only [List.length_nil]; omega) (by simpa using hf)

/-- `clean` terminates: on a well-formed heap a budget of `3 * size + 2` is never used up. -/
theorem clean_terminates (fuel : Nat) (s : X) (O : Oracle) (x : Nat) (w : WF s.h)
    (hf : 3 * s.h.size + 2 ≤ fuel) : (stepX fuel s O (.clean x)).2 ≠ .fuel := by
  unfold stepX
  simp only
  split
  · simp
  · rename_i hg
    have hx : x < s.h.size := by
      rcases Nat.lt_or_ge x s.h.size with h1 | h1
      · exact h1
      · exfalso; apply hg; simp [XOp.handles, h1]
    split
    · simp
    · exact cleanAux_no_fuel O w fuel { s with orig := id } x [] ⟨w, Detaches.refl _⟩
        ⟨hx, fun p hp => absurd hp List.not_mem_nil, List.nodup_nil⟩ (by simpa using hf)

/-- ... and its result is the same for all budgets from `3 * size + 2` on. -/
theorem clean_budget_independent (f1 f2 : Nat) (s : X) (O : Oracle) (x : Nat) (w : WF s.h)
    (h1 : 3 * s.h.size + 2 ≤ f1) (h2 : 3 * s.h.size + 2 ≤ f2) :
    stepX f1 s O (.clean x) = stepX f2 s O (.clean x) :=
  budget_irrelevant f1 f2 s O (.clean x) (clean_terminates f1 s O x w h1) (clean_terminates f2 s O x w h2)

/-- `merge` terminates when destination and source are *apart* - neither is the other or above the
    other (`apart`: the library's own `_check_no_cycle` walk from each of the two does not meet the
    other): on a well-formed heap a budget of `2 * size + 2` is never used up, whatever the oracle
    answers and however many copies the merge makes (the recursion descends along child edges of
    the source, which the merge - it only touches what is at or below the destination, and new
    objects - leaves as they were; the loops over the source's child lists therefore see lists of
    constant length). This is the hypothesis that excludes the case noted in DESIGN 0.3 / design.d:
    a Section linked to its own ancestor (`ancestor_link_unfolds` below). -/
theorem merge_terminates (fuel : Nat) (s : X) (O : Oracle) (dest src : Nat) (w : WF s.h)
    (ha : apart s.h dest src = true) (hf : 2 * s.h.size + 2 ≤ fuel) :
    (stepX fuel s O (.merge dest src)).2 ≠ .fuel := by
  unfold stepX
  simp only
  split
  · simp
  · rename_i hg
    have hs : src < s.h.size := by
      rcases Nat.lt_or_ge src s.h.size with h1 | h1
      · exact h1
      · exfalso; apply hg; simp [XOp.handles, h1]
    split
    · simp
    · obtain ⟨h1, h2⟩ := apart_spec w ha
      exact mergeAux_no_fuel_apart O fuel { s with orig := id } _ dest src w hs h1 h2 hf

/-- ... and its result is the same for all budgets from `2 * size + 2` on. -/
theorem merge_budget_independent (f1 f2 : Nat) (s : X) (O : Oracle) (dest src : Nat) (w : WF s.h)
    (ha : apart s.h dest src = true) (h1 : 2 * s.h.size + 2 ≤ f1) (h2 : 2 * s.h.size + 2 ≤ f2) :
    stepX f1 s O (.merge dest src) = stepX f2 s O (.merge dest src) :=
  budget_irrelevant f1 f2 s O (.merge dest src) (merge_terminates f1 s O dest src w ha h1)
    (merge_terminates f2 s O dest src w ha h2)

/-- The link setter terminates. Hypothesis `linkApart`: a Section designated by the assigned path
    is apart from `x`; and, needed only if the link of `x` is resolved when the assignment begins,
    so is the Section its previous link designates (which the `except` branch merges again when
    the new merge is refused). The budget `linkBudget` is computed from the state: `3 * size + 2`
    for `None` / a falsy value / a path that finds nothing; for a path that designates `t`, three
    times the number of objects after `clean()` and the merge of `t` plus 3 (a refused merge may
    have added copies before it raised, and the `except` branch cleans and merges in that state).
    After `clean()` the Section is not resolved and a refused merge leaves it so, hence the
    `except` branch does not nest (fix 592a7e3; before it: `legacy_relink_runs_out_of_budget`). -/
theorem link_terminates (fuel : Nat) (s : X) (O : Oracle) (x : Nat) (v : LinkVal) (w : WF s.h)
    (ha : linkApart O { s with orig := id } x v = true)
    (hf : linkBudget O { s with orig := id } x v ≤ fuel) :
    (stepX fuel s O (.setLink x v)).2 ≠ .fuel := by
  unfold stepX
  simp only
  split
  · simp
  · rename_i hg
    have hx : x < s.h.size := by
      rcases Nat.lt_or_ge x s.h.size with h1 | h1
      · exact h1
      · exfalso; apply hg
        cases v with
        | path tt => cases tt <;> simp [XOp.handles, h1]
        | _ => simp [XOp.handles, h1]
    split
    · simp
    · rename_i hk
      have hk' : (s.h.node x).kind = .sec := by
        cases hkk : (s.h.node x).kind with
        | sec => rfl
        | _ => rw [hkk] at hk; simp at hk
      obtain ⟨h1, h2⟩ := linkApart_spec (s := { s with orig := id }) w ha
      refine setLinkAux_no_fuel O fuel { s with orig := id } x v w hx hk' ?_ h2 hf
      intro t hv
      have ht : t < s.h.size := by
        rcases Nat.lt_or_ge t s.h.size with hge | hge
        · exact hge
        · exfalso; apply hg; subst hv; simp [XOp.handles, hge]
      exact ⟨ht, h1 t hv⟩

/-- The plain case: the link of `x` is not resolved when the assignment begins (no link, or one
    that is only stored). Budget `3 * size + 2`. -/
theorem link_terminates_unresolved (fuel : Nat) (s : X) (O : Oracle) (x : Nat) (v : LinkVal)
    (w : WF s.h) (hr : s.resolved x = false)
    (ha : ∀ t, v = .path (some t) → apart s.h x t = true)
    (hf : 3 * s.h.size + 2 ≤ fuel) :
    (stepX fuel s O (.setLink x v)).2 ≠ .fuel := by
  unfold stepX
  simp only
  split
  · simp
  · rename_i hg
    have hx : x < s.h.size := by
      rcases Nat.lt_or_ge x s.h.size with h1 | h1
      · exact h1
      · exfalso; apply hg
        cases v with
        | path tt => cases tt <;> simp [XOp.handles, h1]
        | _ => simp [XOp.handles, h1]
    split
    · simp
    · refine setLinkAux_no_fuel_unresolved O fuel { s with orig := id } x v w hx hr ?_ hf
      intro t hv
      have ht : t < s.h.size := by
        rcases Nat.lt_or_ge t s.h.size with h1 | h1
        · exact h1
        · exfalso; apply hg; subst hv; simp [XOp.handles, h1]
      exact ⟨ht, apart_spec w (ha t hv)⟩

/-- ... and the result of the link setter is the same for all budgets from `linkBudget` on. -/
theorem link_budget_independent (f1 f2 : Nat) (s : X) (O : Oracle) (x : Nat) (v : LinkVal)
    (w : WF s.h) (ha : linkApart O { s with orig := id } x v = true)
    (h1 : linkBudget O { s with orig := id } x v ≤ f1)
    (h2 : linkBudget O { s with orig := id } x v ≤ f2) :
    stepX f1 s O (.setLink x v) = stepX f2 s O (.setLink x v) :=
  budget_irrelevant f1 f2 s O (.setLink x v) (link_terminates f1 s O x v w ha h1)
    (link_terminates f2 s O x v w ha h2)

/-- Histories: if every operation of a history answers within the budget, the whole history ends in
    the same state under every larger budget. -/
theorem run_budget_monotone (fuel fuel' : Nat) (hle : fuel ≤ fuel') :
    ∀ (ops : List (Oracle × XOp)) (s : X),
      (∀ (pre : List (Oracle × XOp)) (op : Oracle × XOp) (post : List (Oracle × XOp)),
        ops = pre ++ op :: post → (stepX fuel (runX fuel s pre) op.1 op.2).2 ≠ .fuel) →
      runX fuel' s ops = runX fuel s ops := by
  intro ops
  induction ops with
  | nil => intro s _; rfl
  | cons op ops ih =>
    intro s h
    have h0 := h [] op ops rfl
    have e0 := budget_monotone fuel fuel' s op.1 op.2 hle h0
    show runX fuel' (stepX fuel' s op.1 op.2).1 ops = runX fuel (stepX fuel s op.1 op.2).1 ops
    rw [e0]
    apply ih
    intro pre o post hops
    have := h (op :: pre) o post (by rw [hops]; rfl)
    exact this

/-- The three termination statements for the states the property quantifies over: every state
    reachable by a history over the extended operation set (which is well-formed, `wf_reachable`). -/
theorem reachable_ops_terminate (fuel0 : Nat) (ops : List (Oracle × XOp)) (O : Oracle) (fuel : Nat) :
    (∀ x, 3 * (runX fuel0 X.empty ops).h.size + 2 ≤ fuel →
      (stepX fuel (runX fuel0 X.empty ops) O (.clean x)).2 ≠ .fuel) ∧
    (∀ dest src, apart (runX fuel0 X.empty ops).h dest src = true →
      2 * (runX fuel0 X.empty ops).h.size + 2 ≤ fuel →
      (stepX fuel (runX fuel0 X.empty ops) O (.merge dest src)).2 ≠ .fuel) ∧
    (∀ x v, linkApart O { runX fuel0 X.empty ops with orig := id } x v = true →
      linkBudget O { runX fuel0 X.empty ops with orig := id } x v ≤ fuel →
      (stepX fuel (runX fuel0 X.empty ops) O (.setLink x v)).2 ≠ .fuel) :=
  ⟨fun x hf => clean_terminates fuel _ O x (wf_reachable fuel0 ops) hf,
   fun dest src ha hf => merge_terminates fuel _ O dest src (wf_reachable fuel0 ops) ha hf,
   fun x v ha hf => link_terminates fuel _ O x v (wf_reachable fuel0 ops) ha hf⟩

/-! #### Histories: a budget computed from the history suffices -/

/-- The hypothesis of the termination theorems, per operation (`true` where none is needed). -/
def opHyp (s : X) (O : Oracle) : XOp → Bool
  | .merge dest src =>
    -- (an operand that is not a Section is refused at once)
    (s.h.node dest).kind != .sec || (s.h.node src).kind != .sec || apart s.h dest src
  | .setLink x v => (s.h.node x).kind != .sec || linkApart O { s with orig := id } x v
  | _ => true

/-- The budget of the termination theorems, per operation, computed from the state. -/
def opBudget (s : X) (O : Oracle) : XOp → Nat
  | .prim _ => 0
  | .clone _ _ _ => s.h.size
  | .merge _ _ => 2 * s.h.size + 2
  | .setLink x v => linkBudget O { s with orig := id } x v
  | .clean _ => 3 * s.h.size + 2

/-- All five kinds of operation in one statement: on a well-formed heap, under `opHyp`, a budget of
    `opBudget` is never used up. -/
theorem op_terminates (fuel : Nat) (s : X) (O : Oracle) (op : XOp) (w : WF s.h)
    (hh : opHyp s O op = true) (hf : opBudget s O op ≤ fuel) : (stepX fuel s O op).2 ≠ .fuel := by
  cases op with
  | prim p =>
    unfold stepX
    simp only
    split
    · simp
    · exact prim_no_fuel _ _
  | clone x ch kid => exact clone_terminates fuel s O x ch kid w hf
  | merge dest src =>
    by_cases hk : (s.h.node dest).kind ≠ .sec ∨ (s.h.node src).kind ≠ .sec
    · unfold stepX
      simp only
      split
      · simp
      · simp
    · have ha : apart s.h dest src = true := by
        simp only [opHyp, Bool.or_eq_true, bne_iff_ne] at hh
        rcases hh with (h | h) | h
        · exact absurd (Or.inl h) hk
        · exact absurd (Or.inr h) hk
        · exact h
      exact merge_terminates fuel s O dest src w ha hf
  | setLink x v =>
    by_cases hk : (s.h.node x).kind ≠ .sec
    · unfold stepX
      simp only
      split
      · simp
      · simp
    · have ha : linkApart O { s with orig := id } x v = true := by
        simp only [opHyp, Bool.or_eq_true, bne_iff_ne] at hh
        rcases hh with h | h
        · exact absurd h hk
        · exact h
      exact link_terminates fuel s O x v w ha hf
  | clean x => exact clean_terminates fuel s O x w hf

/-- Budget and hypothesis of a whole history: those of each operation in the state the history
    has reached by then (run, operation by operation, with the budget of that operation). -/
def histBudget : X → List (Oracle × XOp) → Nat
  | _, [] => 0
  | s, op :: ops =>
    max (opBudget s op.1 op.2) (histBudget (stepX (opBudget s op.1 op.2) s op.1 op.2).1 ops)

def histHyp : X → List (Oracle × XOp) → Bool
  | _, [] => true
  | s, op :: ops =>
    opHyp s op.1 op.2 && histHyp (stepX (opBudget s op.1 op.2) s op.1 op.2).1 ops

/-- Every finite history whose merges and link assignments keep destination and source apart
    terminates: with any budget from `histBudget` on, no operation of it answers `.fuel`, and the
    final state does not depend on the budget. (A finite run of `Document.finalize()` over links
    that are apart from their targets is such a history.) -/
theorem history_terminates : ∀ (ops : List (Oracle × XOp)) (s : X), WF s.h → histHyp s ops = true →
    ∀ fuel, histBudget s ops ≤ fuel →
      (∀ (pre : List (Oracle × XOp)) (op : Oracle × XOp) (post : List (Oracle × XOp)),
        ops = pre ++ op :: post → (stepX fuel (runX fuel s pre) op.1 op.2).2 ≠ .fuel) ∧
      runX fuel s ops = runX (histBudget s ops) s ops := by
  intro ops
  induction ops with
  | nil =>
    intro s _ _ fuel _
    refine ⟨?_, rfl⟩
    intro pre op post h
    cases pre <;> cases h
  | cons op ops ih =>
    intro s w hh fuel hf
    unfold histHyp at hh
    simp only [Bool.and_eq_true] at hh
    unfold histBudget at hf ⊢
    have hb : opBudget s op.1 op.2 ≤ fuel := Nat.le_trans (Nat.le_max_left _ _) hf
    have hb' : histBudget (stepX (opBudget s op.1 op.2) s op.1 op.2).1 ops ≤ fuel :=
      Nat.le_trans (Nat.le_max_right _ _) hf
    have t0 := op_terminates (opBudget s op.1 op.2) s op.1 op.2 w hh.1 (Nat.le_refl _)
    have e1 : stepX fuel s op.1 op.2 = stepX (opBudget s op.1 op.2) s op.1 op.2 :=
      budget_monotone _ _ s op.1 op.2 hb t0
    have e2 : stepX (max (opBudget s op.1 op.2)
          (histBudget (stepX (opBudget s op.1 op.2) s op.1 op.2).1 ops)) s op.1 op.2 =
        stepX (opBudget s op.1 op.2) s op.1 op.2 :=
      budget_monotone _ _ s op.1 op.2 (Nat.le_max_left _ _) t0
    have w' : WF (stepX (opBudget s op.1 op.2) s op.1 op.2).1.h := wf_step_ext _ s w op.1 op.2
    obtain ⟨ih1, ih2⟩ := ih _ w' hh.2 fuel hb'
    obtain ⟨_, ih3⟩ := ih _ w' hh.2 (max (opBudget s op.1 op.2)
      (histBudget (stepX (opBudget s op.1 op.2) s op.1 op.2).1 ops)) (Nat.le_max_right _ _)
    refine ⟨?_, ?_⟩
    · intro pre o post h
      cases pre with
      | nil =>
        simp only [List.nil_append, List.cons.injEq] at h
        rw [← h.1]
        show (stepX fuel s op.1 op.2).2 ≠ .fuel
        rw [e1]; exact t0
      | cons p pre' =>
        simp only [List.cons_append, List.cons.injEq] at h
        rw [← h.1]
        show (stepX fuel (runX fuel (stepX fuel s op.1 op.2).1 pre') o.1 o.2).2 ≠ .fuel
        rw [e1]
        exact ih1 pre' o post h.2
    · show runX fuel (stepX fuel s op.1 op.2).1 ops =
        runX _ (stepX (max (opBudget s op.1 op.2)
          (histBudget (stepX (opBudget s op.1 op.2) s op.1 op.2).1 ops)) s op.1 op.2).1 ops
      rw [e1, e2, ih2, ih3]

/-- A merge whose source is apart from the destination at most doubles the number of objects:
    every object it adds is a copy of a different object at or below the source
    (`Proofs/HeapExtCount.lean`). For every budget and oracle, whether it succeeds or raises. -/
theorem merge_at_most_doubles (fuel : Nat) (s : X) (O : Oracle) (dest src : Nat) (w : WF s.h)
    (ha : apart s.h dest src = true) :
    (stepX fuel s O (.merge dest src)).1.h.size ≤ 2 * s.h.size := by
  unfold stepX
  simp only
  split
  · show s.h.size ≤ 2 * s.h.size; omega
  · rename_i hg
    have hs : src < s.h.size := by
      rcases Nat.lt_or_ge src s.h.size with h1 | h1
      · exact h1
      · exfalso; apply hg; simp [XOp.handles, h1]
    split
    · show s.h.size ≤ 2 * s.h.size; omega
    · obtain ⟨h1, h2⟩ := apart_spec w ha
      exact mergeAux_size_le O fuel { s with orig := id } _ dest src w hs h1 h2 (fun _ _ => rfl)

/-- The link setter with a closed budget: under `linkApart`, `6 * size + 3` is never used up
    (`linkBudget ≤ 6 * size + 3`, by `merge_at_most_doubles`). -/
theorem link_terminates_closed (fuel : Nat) (s : X) (O : Oracle) (x : Nat) (v : LinkVal) (w : WF s.h)
    (ha : linkApart O { s with orig := id } x v = true) (hf : 6 * s.h.size + 3 ≤ fuel) :
    (stepX fuel s O (.setLink x v)).2 ≠ .fuel := by
  by_cases hg : (XOp.setLink x v).handles.any (fun i => i ≥ s.h.size) = true
  · unfold stepX
    simp only
    rw [if_pos hg]; simp
  · refine link_terminates fuel s O x v w ha (Nat.le_trans ?_ hf)
    have hx : x < s.h.size := by
      rcases Nat.lt_or_ge x s.h.size with h1 | h1
      · exact h1
      · exfalso; apply hg
        cases v with
        | path tt => cases tt <;> simp [XOp.handles, h1]
        | _ => simp [XOp.handles, h1]
    obtain ⟨h1, _⟩ := linkApart_spec (s := { s with orig := id }) w ha
    refine linkBudget_le O { s with orig := id } x v w hx ?_ (fun _ _ => rfl)
    intro t hv
    have ht : t < s.h.size := by
      rcases Nat.lt_or_ge t s.h.size with hge | hge
      · exact hge
      · exfalso; apply hg; subst hv; simp [XOp.handles, hge]
    exact ⟨ht, h1 t hv⟩

/-- ... and its result is the same for all budgets from `6 * size + 3` on. -/
theorem link_budget_independent_closed (f1 f2 : Nat) (s : X) (O : Oracle) (x : Nat) (v : LinkVal)
    (w : WF s.h) (ha : linkApart O { s with orig := id } x v = true)
    (h1 : 6 * s.h.size + 3 ≤ f1) (h2 : 6 * s.h.size + 3 ≤ f2) :
    stepX f1 s O (.setLink x v) = stepX f2 s O (.setLink x v) :=
  budget_irrelevant f1 f2 s O (.setLink x v) (link_terminates_closed f1 s O x v w ha h1)
    (link_terminates_closed f2 s O x v w ha h2)

/-- One bound for every operation: on a well-formed heap, under `opHyp`, a budget of
    `6 * size + 3` is never used up by any operation of the extended set. -/
theorem op_terminates_uniform (fuel : Nat) (s : X) (O : Oracle) (op : XOp) (w : WF s.h)
    (hh : opHyp s O op = true) (hf : 6 * s.h.size + 3 ≤ fuel) : (stepX fuel s O op).2 ≠ .fuel := by
  cases op with
  | setLink x v =>
    by_cases hk : (s.h.node x).kind ≠ .sec
    · unfold stepX
      simp only
      split
      · simp
      · simp
    · have ha : linkApart O { s with orig := id } x v = true := by
        simp only [opHyp, Bool.or_eq_true, bne_iff_ne] at hh
        rcases hh with h | h
        · exact absurd h hk
        · exact h
      exact link_terminates_closed fuel s O x v w ha hf
  | prim p => exact op_terminates fuel s O _ w hh (by simp only [opBudget]; omega)
  | clone x ch kid => exact op_terminates fuel s O _ w hh (by simp only [opBudget]; omega)
  | merge dest src => exact op_terminates fuel s O _ w hh (by simp only [opBudget]; omega)
  | clean x => exact op_terminates fuel s O _ w hh (by simp only [opBudget]; omega)

/-! ### Non-vacuity of the extended part -/

def demoOracle : Oracle :=
  { ty := fun _ => "t", secOk := fun _ _ => true, propOk := fun _ _ => true,
    eq := fun a b => a == b, relOk := fun _ _ => true, ids := fun i => s!"n{i}" }

/-- doc(0) / a(1) / x(3), doc / b(2); clone a, attach the copy to b; merge a into b/a'. -/
def demoXOps : List (Oracle × XOp) := [
  (demoOracle, .prim (.construct .doc "" "d" none true)),
  (demoOracle, .prim (.construct .sec "a" "i1" (some 0) true)),
  (demoOracle, .prim (.construct .sec "b" "i2" (some 0) true)),
  (demoOracle, .prim (.construct .sec "x" "i3" (some 1) true)),
  (demoOracle, .clone 1 true false),          -- copy 4 with child 5
  (demoOracle, .prim (.append 2 4)),
  (demoOracle, .merge 2 0),                   -- refused: the source is not a Section
  (demoOracle, .merge 2 1),                   -- b gets a copy of x (6)
  (demoOracle, .setLink 4 (.path (some 1))),
  (demoOracle, .clean 0)
]

example : ((runX 10 X.empty (demoXOps.take 6)).h.node 2).secs = [4] ∧
    ((runX 10 X.empty (demoXOps.take 6)).h.node 4).secs = [5] := by decide
example : (stepX 10 (runX 10 X.empty (demoXOps.take 6)) demoOracle (.merge 2 0)).2 =
    .raised .attributeError := by decide
example : ((runX 10 X.empty (demoXOps.take 8)).h.node 2).secs = [4, 6] := by decide
example : (runX 10 X.empty (demoXOps.take 9)).merged 4 = some 1 := by decide
example : (runX 10 X.empty demoXOps).merged 4 = none := by decide

/-! #### The hypotheses are satisfiable, and what they exclude -/

-- the state after the first eight operations of `demoXOps` (below): doc(0) / a(1) / x(3),
-- doc / b(2) / a'(4) / x'(5), b / x''(6): a' and a are apart, x and a are not
example : WF (runX 10 X.empty (demoXOps.take 8)).h := wf_run_ext _ _ Heap.wf_empty _
example : apart (runX 10 X.empty (demoXOps.take 8)).h 4 1 = true := by decide
example : linkApart demoOracle { runX 10 X.empty (demoXOps.take 8) with orig := id } 4
    (.path (some 1)) = true := by decide
example : apart (runX 10 X.empty (demoXOps.take 8)).h 3 1 = false := by decide

-- the whole demo history satisfies the hypothesis, with a budget of 24
example : histHyp X.empty demoXOps = true ∧ histBudget X.empty demoXOps = 24 := by decide

/-- doc(0) / a(1) / x(2), and `x` carries a stored link to `a`, its own parent. -/
def ancestorLinkState : X :=
  { (runX 10 X.empty [
      (demoOracle, .prim (.construct .doc "" "d" none true)),
      (demoOracle, .prim (.construct .sec "a" "i1" (some 0) true)),
      (demoOracle, .prim (.construct .sec "x" "i2" (some 1) true))]) with
    link := fun i => i == 2 }

def ancestorRound1 : X × XOut := stepX 50 ancestorLinkState demoOracle (.setLink 2 (.path (some 1)))
def ancestorRound2 : X × XOut := stepX 50 ancestorRound1.1 demoOracle (.setLink 3 (.path (some 1)))
def ancestorRound3 : X × XOut := stepX 50 ancestorRound2.1 demoOracle (.setLink 5 (.path (some 1)))

/-- The case the hypothesis `apart` excludes, as a witness: a Section linked to its own ancestor.
    Every single assignment answers (here with budget 50), but resolving the link of `x` puts a copy
    of `x` - carrying the same stored link - below `x`; resolving the link of that copy puts a copy
    of the grown `x` below it, and so on: after the rounds 1, 2, 3 there are 4, 6, 10 objects, and
    the deepest one (3, 5, 9) is again a childless Section with a stored link. A traversal that
    resolves every stored link it meets (`Document.finalize()`) is handed a new one by every
    step. `apart` is false for this pair. -/
theorem ancestor_link_unfolds :
    apart ancestorLinkState.h 2 1 = false ∧
    (ancestorRound1.2 = .ok ∧ ancestorRound1.1.h.size = 4 ∧ (ancestorRound1.1.h.node 3).secs = [] ∧
      (ancestorRound1.1.h.node 3).parent = some 2 ∧ ancestorRound1.1.link 3 = true) ∧
    (ancestorRound2.2 = .ok ∧ ancestorRound2.1.h.size = 6 ∧ (ancestorRound2.1.h.node 5).secs = [] ∧
      (ancestorRound2.1.h.node 5).parent = some 4 ∧ ancestorRound2.1.link 5 = true ∧
      ancestorRound2.1.merged 5 = none) ∧
    (ancestorRound3.2 = .ok ∧ ancestorRound3.1.h.size = 10 ∧ (ancestorRound3.1.h.node 9).secs = [] ∧
      (ancestorRound3.1.h.node 9).parent = some 8 ∧ ancestorRound3.1.link 9 = true ∧
      ancestorRound3.1.merged 9 = none) := by
  decide

end C03
