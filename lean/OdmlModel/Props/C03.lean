/-
C03 — A document is always a well-formed tree, whatever editing history produced it.

Property theorems only. Model: `Model/Heap.lean` (every structural editing operation of the
public API in Python statement order). Invariant `Heap.WF` and its preservation:
`Proofs/HeapWF.lean`, `HeapOps.lean`, `HeapSetItem.lean`, `HeapStep.lean`.

Operations covered by the theorems (`Heap.Op`): constructors with `parent=` /
create_section / create_property, append, insert, extend, remove, assigning `.parent` (to
another container, to None, to the current one, into the own subtree), item assignment on both
child lists, reorder, rename - applied to attached and detached objects, refused or not.
clone-then-attach, merge and link resolve/clean are *not* in `Heap.Op`; they are covered by the
second part of this file ("The extended operation set"): `Model/HeapExt.lean` models clone,
Section.merge, the link setter and clean/unmerge as programs over the primitive operations, and
`wf_reachable` is the statement of C03 over histories that mix all of them.
-/
import OdmlModel.Proofs.HeapStep
import OdmlModel.Proofs.HeapExt
import OdmlModel.Proofs.HeapQuery

namespace C03
open Heap

/-- The full statement of C03 over the modelled operations: after any finite sequence of
    public editing operations, each of which succeeds or raises, the heap is well-formed. -/
def Statement : Prop := ∀ ops : List Op, WF (run empty ops)

/-- The starting point is well-formed. -/
theorem wf_empty : WF empty := Heap.wf_empty

/-- One operation, whatever it is and whether it succeeds or raises, keeps the heap well-formed. -/
theorem wf_step (h : H) (w : WF h) (op : Op) : WF (step h op).1 := by
  rcases step_spec w op with ⟨e, he⟩ | ⟨h', he, wh⟩
  · rw [he]; exact w
  · rw [he]; exact wh

/-- Every reachable state is well-formed: induction over the history, any length.
    (Named `_partial` because `Heap.Op` does not contain clone/merge/link; for the operations it
    does contain this is the full-strength statement `Statement`.) -/
theorem wf_reachable_partial : Statement := by
  intro ops
  suffices ∀ h, WF h → WF (run h ops) from this empty wf_empty
  induction ops with
  | nil => intro h w; exact w
  | cons op ops ih => intro h w; exact ih _ (wf_step h w op)

/-- The same from any well-formed starting state (e.g. a loaded document). -/
theorem wf_run (h : H) (w : WF h) (ops : List Op) : WF (run h ops) := by
  induction ops generalizing h with
  | nil => exact w
  | cons op ops ih => exact ih _ (wf_step h w op)

/-- `n` steps up the parent chain. -/
def up (h : H) : Nat → Nat → Option Nat
  | 0, c => some c
  | n + 1, c => match (h.node c).parent with
    | none => none
    | some p => up h n p

/-- "Consequently path, document and traversal queries always terminate":
    every parent chain ends after finitely many steps. -/
theorem parent_chain_terminates (h : H) (w : WF h) (c : Nat) : ∃ n, up h n c = none := by
  obtain ⟨d, hd⟩ := w.rank
  suffices ∀ k c, d c ≤ k → up h (k + 1) c = none from ⟨d c + 1, this (d c) c (Nat.le_refl _)⟩
  intro k
  induction k with
  | zero =>
    intro c hc
    simp only [up]
    cases hp : (h.node c).parent with
    | none => rfl
    | some p => have := hd c p hp; omega
  | succ k ih =>
    intro c hc
    simp only [up]
    cases hp : (h.node c).parent with
    | none => rfl
    | some p =>
      have := hd c p hp
      exact ih p (by omega)

/-- No Section (or any object) is its own proper ancestor. -/
theorem not_own_ancestor (h : H) (w : WF h) (c p : Nat) (hp : (h.node c).parent = some p) :
    ¬ Anc h c p := not_anc_parent w hp

/-- Every object that reports a parent is contained exactly once in that parent's child list of
    its kind and in no other list; every listed child reports its container as parent. -/
theorem in_exactly_one_list (h : H) (w : WF h) (c p : Nat) (hp : (h.node c).parent = some p) :
    (((h.node c).kind = .sec ∧ (h.node p).secs.count c = 1) ∨
     ((h.node c).kind = .prop ∧ (h.node p).props.count c = 1)) ∧
    (∀ q, q ≠ p → c ∉ (h.node q).secs ∧ c ∉ (h.node q).props) ∧
    (∀ q c', c' ∈ (h.node q).secs ∨ c' ∈ (h.node q).props → (h.node c').parent = some q) := by
  refine ⟨?_, ?_, ?_⟩
  · rcases w.kind_of_parent hp with hk | hk
    · have h1 := (List.nodup_iff_count.mp (w.nodupS p)) c
      have h2 := List.count_pos_iff.mpr ((w.memS p c).mpr ⟨hp, hk⟩)
      exact Or.inl ⟨hk, by omega⟩
    · have h1 := (List.nodup_iff_count.mp (w.nodupP p)) c
      have h2 := List.count_pos_iff.mpr ((w.memP p c).mpr ⟨hp, hk⟩)
      exact Or.inr ⟨hk, by omega⟩
  · intro q hq
    constructor
    · intro hm; have := ((w.memS q c).mp hm).1; rw [hp] at this; exact hq (Option.some.inj this).symm
    · intro hm; have := ((w.memP q c).mp hm).1; rw [hp] at this; exact hq (Option.some.inj this).symm
  · intro q c' hm
    rcases hm with hm | hm
    · exact ((w.memS q c').mp hm).1
    · exact ((w.memP q c').mp hm).1

/-- An object's document is the root of its parent chain: the chain from any object ends in a
    unique parentless object, and only a Document or a detached object can be that root. -/
theorem document_is_chain_root (h : H) (w : WF h) (c : Nat) :
    ∃ r, Anc h r c ∧ (h.node r).parent = none ∧ ∀ r', Anc h r' c → (h.node r').parent = none → r' = r := by
  obtain ⟨d, hd⟩ := w.rank
  -- existence by strong induction on the rank
  have ex : ∀ k c, d c ≤ k → ∃ r, Anc h r c ∧ (h.node r).parent = none := by
    intro k
    induction k with
    | zero =>
      intro c hc
      cases hp : (h.node c).parent with
      | none => exact ⟨c, Anc.refl c, hp⟩
      | some p => have := hd c p hp; omega
    | succ k ih =>
      intro c hc
      cases hp : (h.node c).parent with
      | none => exact ⟨c, Anc.refl c, hp⟩
      | some p =>
        have := hd c p hp
        obtain ⟨r, hr, hr0⟩ := ih p (by omega)
        exact ⟨r, Anc.step hp hr, hr0⟩
  obtain ⟨r, hr, hr0⟩ := ex (d c) c (Nat.le_refl _)
  refine ⟨r, hr, hr0, ?_⟩
  -- uniqueness: two parentless ancestors of c coincide
  have uniq : ∀ {a b c}, Anc h a c → Anc h b c → (h.node a).parent = none →
      (h.node b).parent = none → a = b := by
    intro a b c ha
    induction ha with
    | refl =>
      intro hb ha0 _
      cases hb with
      | refl => rfl
      | step hp _ => rw [ha0] at hp; cases hp
    | step hp _ ih =>
      intro hb ha0 hb0
      cases hb with
      | refl => rw [hb0] at hp; cases hp
      | step hp' hb' => rw [hp] at hp'; cases hp'; exact ih hb' ha0 hb0
  intro r' hr' hr0'
  exact uniq hr' hr hr0' hr0

/-! ## Non-vacuity: concrete histories, including refused operations -/

def demoOps : List Op := [
  .construct .doc "" "d" none true,
  .construct .sec "a" "i1" (some 0) true,
  .construct .sec "b" "i2" (some 0) true,
  .construct .sec "x" "i3" (some 1) true,
  .append 2 3,              -- moves x from a to b
  .append 3 2,              -- refused: b is an ancestor of x
  .setParent 1 (some 3),    -- a below x
  .reorder 2 (-1),
  .rename 3 "",             -- falls back to the id
  .setItem 0 true 0 1       -- a (below x below b) takes the place of b in the document
]

example : (step (run empty (demoOps.take 5)) (.append 3 2)).2 = .raised .valueError := by decide
example : ((run empty (demoOps.take 5)).node 2).secs = [3] ∧
    ((run empty (demoOps.take 5)).node 1).secs = [] := by decide
example : ((run empty (demoOps.take 9)).node 3).name = "i3" := by decide

/-! ## The extended operation set: clone (+attach), merge, the link setter, clean

`Model/HeapExt.lean`: `XOp` = every primitive operation, `clone` (the copy is a new detached
object; attaching it is a following primitive operation), `merge`, `setLink` (clean the old
resolution, merge the Section found by the path, non-strict), `clean` (unmerge, recursively).
What the tree structure does not determine (Section types, outcome of the attribute checks of
merge_check / Property.merge, deep equality, ids of the copies) is an `Oracle`, arbitrary in
every theorem; so is the recursion budget `fuel`. -/

/-- The full statement of C03 over the extended operation set: after any finite history of
    primitive operations, clones, merges, link assignments and cleans - each of which succeeds
    or raises, whatever the oracle answers - the heap is well-formed. -/
def StatementX : Prop :=
  ∀ (fuel : Nat) (ops : List (Oracle × XOp)), WF (runX fuel X.empty ops).h

/-- One extended operation keeps the heap well-formed. -/
theorem wf_step_ext (fuel : Nat) (s : X) (w : WF s.h) (O : Oracle) (op : XOp) :
    WF (stepX fuel s O op).1.h :=
  stepX_inv (P := WF) wf_step' fuel s O op w

/-- Any history over the extended operation set, from any well-formed state. -/
theorem wf_run_ext (fuel : Nat) (s : X) (w : WF s.h) (ops : List (Oracle × XOp)) :
    WF (runX fuel s ops).h :=
  runX_inv (P := WF) wf_step' fuel ops s w

/-- C03 over the extended operation set (the full quantifier of the property). -/
theorem wf_reachable : StatementX :=
  fun fuel ops => wf_run_ext fuel X.empty wf_empty ops

/-- Refinement: the heap after an extended operation is the heap after some finite sequence of
    primitive operations (the appends, removes, allocations and id assignments it performs). -/
theorem ext_step_refines (fuel : Nat) (s : X) (O : Oracle) (op : XOp) :
    ∃ prims : List Op, run s.h prims = (stepX fuel s O op).1.h :=
  stepX_inv (P := Reach s.h) (fun _ op r => r.step op) fuel s O op (Reach.refl _)

/-- Every state reachable with the extended operations is reachable with primitive ones. -/
theorem ext_run_refines (fuel : Nat) (ops : List (Oracle × XOp)) :
    ∃ prims : List Op, run empty prims = (runX fuel X.empty ops).h :=
  runX_inv (P := Reach empty) (fun _ op r => r.step op) fuel ops X.empty (Reach.refl _)

/-- Parent chains end, in every state reachable with the extended operations. -/
theorem parent_chain_terminates_ext (fuel : Nat) (ops : List (Oracle × XOp)) (c : Nat) :
    ∃ n, up (runX fuel X.empty ops).h n c = none :=
  parent_chain_terminates _ (wf_reachable fuel ops) c

theorem not_own_ancestor_ext (fuel : Nat) (ops : List (Oracle × XOp)) (c p : Nat)
    (hp : ((runX fuel X.empty ops).h.node c).parent = some p) :
    ¬ Anc (runX fuel X.empty ops).h c p :=
  not_own_ancestor _ (wf_reachable fuel ops) c p hp

theorem in_exactly_one_list_ext (fuel : Nat) (ops : List (Oracle × XOp)) (c p : Nat)
    (hp : ((runX fuel X.empty ops).h.node c).parent = some p) :
    ((((runX fuel X.empty ops).h.node c).kind = .sec ∧
        ((runX fuel X.empty ops).h.node p).secs.count c = 1) ∨
     (((runX fuel X.empty ops).h.node c).kind = .prop ∧
        ((runX fuel X.empty ops).h.node p).props.count c = 1)) ∧
    (∀ q, q ≠ p → c ∉ ((runX fuel X.empty ops).h.node q).secs ∧
        c ∉ ((runX fuel X.empty ops).h.node q).props) ∧
    (∀ q c', c' ∈ ((runX fuel X.empty ops).h.node q).secs ∨
        c' ∈ ((runX fuel X.empty ops).h.node q).props →
        ((runX fuel X.empty ops).h.node c').parent = some q) :=
  in_exactly_one_list _ (wf_reachable fuel ops) c p hp

theorem document_is_chain_root_ext (fuel : Nat) (ops : List (Oracle × XOp)) (c : Nat) :
    ∃ r, Anc (runX fuel X.empty ops).h r c ∧ ((runX fuel X.empty ops).h.node r).parent = none ∧
      ∀ r', Anc (runX fuel X.empty ops).h r' c →
        ((runX fuel X.empty ops).h.node r').parent = none → r' = r :=
  document_is_chain_root _ (wf_reachable fuel ops) c

/-! ### The `.document` query (`Model/HeapQuery.lean`)

`document_is_chain_root` says that the parent chain has a unique root. The two theorems below are
about the *executable* model of the query itself - `Sectionable.document` (the loop
`while par.parent: par = par.parent`, whose test is the truthiness of the parent) and
`BaseObject.document` (Properties ask their Section) - which the correspondence run compares with
the implementation's `.document` of every object between the operations of a history: in every
reachable state, whatever was asked before, the query answers `r` exactly when `r` is the root of
the parent chain of the object and a Document (and nothing for an object whose chain ends in a
detached Section or Property). -/

/-- An object's document is the root of its parent chain (the query as the library computes it,
    with `size + 1` rounds for the walk, never stopped early by a falsy parent). -/
theorem document_query_is_chain_root (h : H) (w : WF h) (c : Nat) (hc : c < h.size) (r : Nat) :
    document h c = some r ↔
      (Anc h r c ∧ (h.node r).parent = none ∧ (h.node r).kind = .doc) :=
  document_spec w hc r

/-- The same in every state reachable by a history over the extended operation set: the answer
    depends on the state only - also after an ancestor of the object has been moved to another
    Document, below a Section of another Document, or detached. -/
theorem document_query_is_chain_root_ext (fuel : Nat) (ops : List (Oracle × XOp)) (c : Nat)
    (hc : c < (runX fuel X.empty ops).h.size) (r : Nat) :
    document (runX fuel X.empty ops).h c = some r ↔
      (Anc (runX fuel X.empty ops).h r c ∧ ((runX fuel X.empty ops).h.node r).parent = none ∧
        ((runX fuel X.empty ops).h.node r).kind = .doc) :=
  document_spec (wf_reachable fuel ops) hc r

/-- A detached object (its chain does not end in a Document) has no document. -/
theorem document_query_none (h : H) (w : WF h) (c : Nat) (hc : c < h.size) :
    document h c = none ↔
      ∀ r, Anc h r c → (h.node r).parent = none → (h.node r).kind ≠ .doc := by
  constructor
  · intro hn r ha h0 hk
    have := (document_spec w hc r).mpr ⟨ha, h0, hk⟩
    rw [hn] at this; cases this
  · intro hall
    cases hd : document h c with
    | none => rfl
    | some r =>
      obtain ⟨ha, h0, hk⟩ := (document_spec w hc r).mp hd
      exact absurd hk (hall r ha h0)

-- a (below x below b) sits in the document until the item assignment puts a in the place of b:
-- afterwards b and x below it are detached, and the answer for x has changed with the move of b
example : document (run empty (demoOps.take 9)) 1 = some 0 ∧
    document (run empty (demoOps.take 9)) 3 = some 0 := by decide
example : document (run empty demoOps) 1 = some 0 ∧ document (run empty demoOps) 3 = none ∧
    document (run empty demoOps) 2 = none := by decide

/-- What `stepX` does for a clone, in terms of `cloneAux`. -/
theorem stepX_clone (fuel : Nat) (s : X) (O : Oracle) (x : Nat) (ch kid : Bool)
    (hok : (stepX fuel s O (.clone x ch kid)).2 = .ok) :
    stepX fuel s O (.clone x ch kid) =
      ((cloneAux O fuel { s with orig := id } x ch kid).1,
       (cloneAux O fuel { s with orig := id } x ch kid).2.2) := by
  unfold stepX at hok ⊢
  simp only at hok ⊢
  split
  · rename_i hg; rw [if_pos hg] at hok; cases hok
  · rfl

/-- A clone that succeeds yields a *detached* object: the copy (the next free handle) has no
    parent and is in no child list. -/
theorem clone_detached (fuel : Nat) (s : X) (O : Oracle) (x : Nat) (ch kid : Bool) (w : WF s.h)
    (hok : (stepX fuel s O (.clone x ch kid)).2 = .ok) :
    s.h.size < (stepX fuel s O (.clone x ch kid)).1.h.size ∧
    ((stepX fuel s O (.clone x ch kid)).1.h.node s.h.size).parent = none ∧
    ∀ p, s.h.size ∉ ((stepX fuel s O (.clone x ch kid)).1.h.node p).secs ∧
         s.h.size ∉ ((stepX fuel s O (.clone x ch kid)).1.h.node p).props := by
  have w' := wf_step_ext fuel s w O (.clone x ch kid)
  have he := stepX_clone fuel s O x ch kid hok
  rw [he] at hok w' ⊢
  have sp := cloneAux_spec O fuel { s with orig := id } x ch kid w
  have hroot : (cloneAux O fuel { s with orig := id } x ch kid).2.1 = s.h.size := sp.root
  obtain ⟨hlt, hdet⟩ := sp.ok hok
  rw [hroot] at hlt hdet
  refine ⟨hlt, hdet, fun p => ⟨fun hm => ?_, fun hm => ?_⟩⟩
  · have := ((w'.memS p _).mp hm).1; rw [hdet] at this; cases this
  · have := ((w'.memP p _).mp hm).1; rw [hdet] at this; cases this

/-- Every object of the clone is fresh: no object that existed before is changed in any field
    (in particular none is moved into the copy, and no child list of the original is shared),
    and everything at or below the copy is a new object. -/
theorem clone_fresh (fuel : Nat) (s : X) (O : Oracle) (x : Nat) (ch kid : Bool) (w : WF s.h)
    (hok : (stepX fuel s O (.clone x ch kid)).2 = .ok) :
    (∀ i, i < s.h.size → (stepX fuel s O (.clone x ch kid)).1.h.node i = s.h.node i) ∧
    (∀ i, Anc (stepX fuel s O (.clone x ch kid)).1.h s.h.size i → s.h.size ≤ i) := by
  rw [stepX_clone fuel s O x ch kid hok]
  have sp := cloneAux_spec O fuel { s with orig := id } x ch kid w
  have hs : Same s.h.size s.h (cloneAux O fuel { s with orig := id } x ch kid).1.h := sp.same
  refine ⟨hs.2, fun i ha => ?_⟩
  rcases Nat.lt_or_ge i s.h.size with hi | hi
  · have := anc_old w hs ha hi; omega
  · exact hi

/-- `clone` terminates: on a well-formed heap a recursion budget of the number of objects is never
    used up (the copy is as deep as the original, and a parent chain of a well-formed heap has no
    repetition), so the model's `.fuel` answer does not occur for it. -/
theorem clone_terminates (fuel : Nat) (s : X) (O : Oracle) (x : Nat) (ch kid : Bool) (w : WF s.h)
    (hf : s.h.size ≤ fuel) : (stepX fuel s O (.clone x ch kid)).2 ≠ .fuel := by
  unfold stepX
  simp only
  split
  · simp
  · rename_i hg
    have hx : x < s.h.size := by
      rcases Nat.lt_or_ge x s.h.size with h1 | h1
      · exact h1
      · exfalso; apply hg; simp [XOp.handles, h1]
    exact cloneAux_no_fuel O w fuel { s with orig := id } x ch kid [] w (Same.refl _ _)
      ⟨hx, fun p hp => absurd hp (List.not_mem_nil), List.nodup_nil⟩ (by simpa using hf)

/-- clone followed by attach (or by any other primitive operation on the copy). -/
theorem clone_then_attach_wf (fuel : Nat) (s : X) (w : WF s.h) (O O' : Oracle) (x : Nat)
    (ch kid : Bool) (attach : Op) :
    WF (runX fuel s [(O, .clone x ch kid), (O', .prim attach)]).h :=
  wf_run_ext fuel s w _

/-- `merge` never moves, removes, renames or re-kinds an object that existed before (of the
    destination, of the source or anywhere else): kinds, names, ids and parents are unchanged
    and child lists only grow at the end, by new objects (the copies). Whether it succeeds or
    raises half-way (a KeyError of `append`; the name clash with a Section of another type,
    former finding C13/section-name-clash-other-type, is refused before anything changes). -/
theorem merge_only_adds (fuel : Nat) (s : X) (O : Oracle) (dest src : Nat) (w : WF s.h) :
    Adds s.h.size s.h (stepX fuel s O (.merge dest src)).1.h := by
  unfold stepX
  simp only
  split
  · exact Adds.refl _ _
  · split
    · exact Adds.refl _ _
    · exact (mergeAux_adds O (Nat.le_refl _) fuel { s with orig := id } _ dest src
        ⟨w, Adds.refl _ _⟩).2

/-- `merge_only_adds` spelled out for one object `i` that existed before the merge. -/
theorem merge_keeps_existing (fuel : Nat) (s : X) (O : Oracle) (dest src : Nat) (w : WF s.h)
    (i : Nat) (hi : i < s.h.size) :
    ((stepX fuel s O (.merge dest src)).1.h.node i).parent = (s.h.node i).parent ∧
    ((stepX fuel s O (.merge dest src)).1.h.node i).kind = (s.h.node i).kind ∧
    ((stepX fuel s O (.merge dest src)).1.h.node i).name = (s.h.node i).name ∧
    (∃ l, ((stepX fuel s O (.merge dest src)).1.h.node i).secs = (s.h.node i).secs ++ l ∧
       ∀ c ∈ l, s.h.size ≤ c) ∧
    (∃ l, ((stepX fuel s O (.merge dest src)).1.h.node i).props = (s.h.node i).props ++ l ∧
       ∀ c ∈ l, s.h.size ≤ c) := by
  obtain ⟨hk, hn, _, hp, hs, hpr⟩ := (merge_only_adds fuel s O dest src w).2 i hi
  exact ⟨hp, hk, hn, hs, hpr⟩

/-- `clean` (and with it `unmerge`) only detaches: no object is created, no kind or name changes, an
    object's parent afterwards is its parent before or none, child lists only lose entries - whether
    it succeeds or raises (RuntimeError of `unmerge`, ValueError of `get_relative_path`). -/
theorem clean_only_detaches (fuel : Nat) (s : X) (O : Oracle) (x : Nat) (w : WF s.h) :
    Detaches s.h (stepX fuel s O (.clean x)).1.h := by
  unfold stepX
  simp only
  split
  · exact Detaches.refl _
  · split
    · exact Detaches.refl _
    · exact (cleanAux_inv (P := CInv s.h) (cinv_remove s.h) O fuel { s with orig := id } x
        ⟨w, Detaches.refl _⟩).2

/-! ### The link setter after a refused merge (fixes 592a7e3, dccf4ba) -/

/-- every attribute comparison of `merge_check` fails (nothing can be merged); the link stored on
    object 2 designates object 1 -/
def demoOracleRefusing : Oracle :=
  { ty := fun _ => "t", secOk := fun _ _ => false, propOk := fun _ _ => true,
    eq := fun a b => a == b, relOk := fun _ _ => true, ids := fun i => s!"n{i}",
    oldLink := fun i => if i = 2 then some 1 else none }

/-- A link assignment to a Section whose link is not resolved - it has none, or one that is only
    stored - does nothing but `clean()` and the merge of the new target: when the merge is refused,
    the state is the one the refused merge left and the outcome is its outcome; the stored link is
    not assigned again (former finding C03/refused-link-reresolved-without-end). -/
theorem stored_link_not_reassigned (O : Oracle) (fuel : Nat) (s s1 s2 : X) (x t : Nat) (out : XOut)
    (hp : (s.h.node x).parent ≠ none) (hr : s.resolved x = false)
    (hc : cleanIfLinked O fuel s x = (s1, .ok)) (hm : mergeAux O fuel s1 true x t = (s2, out))
    (hne : out ≠ .ok) :
    setLinkAux O fuel s x (.path (some t)) = (s2, out) := by
  unfold setLinkAux
  split
  · rename_i h; exact absurd h hp
  · simp only [hc, hm, hr, Bool.false_eq_true, if_false]
    cases out with
    | ok => exact absurd rfl hne
    | raised e => rfl
    | runtime => rfl
    | fuel => rfl

/-- The same for the assignment made by the `except` branch itself (`self.merge()`): when it
    starts from a Section whose link is not resolved - as `clean()` leaves it - its result is the
    result of the merge, it cannot nest further. -/
theorem reresolve_does_not_nest (O : Oracle) (fuel : Nat) (s s1 : X) (x t0 : Nat)
    (ho : O.oldLink x = some t0) (hr : s.resolved x = false)
    (hc : cleanIfLinked O fuel s x = (s1, .ok)) :
    relinkAux O (fuel + 1) s x = mergeAux O fuel s1 true x t0 := by
  unfold relinkAux
  simp only [ho, hc, hr, Bool.false_eq_true, if_false]
  generalize mergeAux O fuel s1 true x t0 = r
  obtain ⟨s2, out⟩ := r
  cases out <;> rfl

/-- Witness of the former finding: doc(0) / a(1), doc / x(2); `x` carries a stored link to `a`
    that was never resolved, and no Section can be merged into `x`. -/
def storedLinkState : X :=
  { (runX 10 X.empty [
      (demoOracleRefusing, .prim (.construct .doc "" "d" none true)),
      (demoOracleRefusing, .prim (.construct .sec "a" "i1" (some 0) true)),
      (demoOracleRefusing, .prim (.construct .sec "x" "i2" (some 0) true))]) with
    link := fun i => i == 2 }

/-- Before fix 592a7e3 the refused assignment `x.link = <path of a>` never came back: the
    `except` branch assigned the stored link again, whatever the recursion budget. -/
theorem legacy_relink_runs_out_of_budget (fuel : Nat) :
    (relinkLegacy demoOracleRefusing fuel storedLinkState 2).2 = .fuel := by
  have hclean : ∀ f, cleanIfLinked demoOracleRefusing f storedLinkState 2 = (storedLinkState, .ok) ∨
      cleanIfLinked demoOracleRefusing f storedLinkState 2 = (storedLinkState, .fuel) := by
    intro f
    cases f with
    | zero => right; rfl
    | succ f =>
      cases f with
      | zero => right; rfl
      | succ f => left; rfl
  have hmerge : ∀ f, mergeAux demoOracleRefusing f storedLinkState true 2 1 = (storedLinkState, .fuel) ∨
      mergeAux demoOracleRefusing f storedLinkState true 2 1 = (storedLinkState, .raised .valueError) := by
    intro f
    cases f with
    | zero => left; rfl
    | succ f =>
      cases f with
      | zero => left; rfl
      | succ f => right; rfl
  induction fuel with
  | zero => rfl
  | succ f ih =>
    unfold relinkLegacy
    have ho : demoOracleRefusing.oldLink 2 = some 1 := rfl
    simp only [ho]
    rcases hclean f with h | h
    · rcases hmerge f with h2 | h2
      · simp only [h, h2]
      · simp only [h, h2]; exact ih
    · simp only [h]

/-- With the fix the same assignment is refused with the ValueError of the merge and changes
    nothing, for every budget that lets `clean()` and the merge check run at all. -/
theorem stored_link_refused_unchanged (fuel : Nat) :
    setLinkAux demoOracleRefusing (fuel + 2) storedLinkState 2 (.path (some 1)) =
      (storedLinkState, .raised .valueError) := by
  have h1 : cleanIfLinked demoOracleRefusing (fuel + 2) storedLinkState 2 = (storedLinkState, .ok) := rfl
  have h2 : mergeAux demoOracleRefusing (fuel + 2) storedLinkState true 2 1 =
      (storedLinkState, .raised .valueError) := rfl
  exact stored_link_not_reassigned _ _ _ _ _ _ _ _ (by decide) (by decide) h1 h2 (by decide)

/-! ### Non-vacuity of the extended part -/

def demoOracle : Oracle :=
  { ty := fun _ => "t", secOk := fun _ _ => true, propOk := fun _ _ => true,
    eq := fun a b => a == b, relOk := fun _ _ => true, ids := fun i => s!"n{i}" }

/-- doc(0) / a(1) / x(3), doc / b(2); clone a, attach the copy to b; merge a into b/a'. -/
def demoXOps : List (Oracle × XOp) := [
  (demoOracle, .prim (.construct .doc "" "d" none true)),
  (demoOracle, .prim (.construct .sec "a" "i1" (some 0) true)),
  (demoOracle, .prim (.construct .sec "b" "i2" (some 0) true)),
  (demoOracle, .prim (.construct .sec "x" "i3" (some 1) true)),
  (demoOracle, .clone 1 true false),          -- copy 4 with child 5
  (demoOracle, .prim (.append 2 4)),
  (demoOracle, .merge 2 0),                   -- refused: the source is not a Section
  (demoOracle, .merge 2 1),                   -- b gets a copy of x (6)
  (demoOracle, .setLink 4 (.path (some 1))),
  (demoOracle, .clean 0)
]

example : ((runX 10 X.empty (demoXOps.take 6)).h.node 2).secs = [4] ∧
    ((runX 10 X.empty (demoXOps.take 6)).h.node 4).secs = [5] := by decide
example : (stepX 10 (runX 10 X.empty (demoXOps.take 6)) demoOracle (.merge 2 0)).2 =
    .raised .attributeError := by decide
example : ((runX 10 X.empty (demoXOps.take 8)).h.node 2).secs = [4, 6] := by decide
example : (runX 10 X.empty (demoXOps.take 9)).merged 4 = some 1 := by decide
example : (runX 10 X.empty demoXOps).merged 4 = none := by decide

end C03
