/-
C18 — Background loading of terminologies/templates is transparent in every schedule.

Property theorems only; the model is `Model/Loader.lean` (small-step interleaving semantics of
load / _load / deferred_load / refresh / cache_load for one caller and the loader threads it
spawns, tied to /repo by `harness/c18.py` + `harness/sched.py`), helper lemmas and the
invariant are in `Proofs/Loader.lean`.

Every theorem quantifies over every include graph `g` without cycle (`Acyclic g rank`), every
initial cache state, every caller program (any sequence of deferred_load / load / refresh on
terminology and template keys) and every schedule (list of thread picks, any length).

Not expressible in the model and therefore *partial* with respect to the property text:
fairness-based termination of real threads, the GIL, OS scheduling, network timeouts.
-/
import OdmlModel.Model.Loader
import OdmlModel.Proofs.Loader
import OdmlModel.Proofs.LoaderProgress
import OdmlModel.Proofs.LoaderMeasure
import OdmlModel.Proofs.LoaderNode
import OdmlModel.Proofs.LoaderFinal

namespace C18
open Loader

/-- A state reachable from the initial state of a caller program under some schedule. -/
def Reachable (g : Url → Res) (cache0 : Url → CacheSt) (prog : List Op) (s : State) : Prop :=
  ∃ sched : List Nat, s = runSched g (init cache0 prog) sched

theorem reachable_inv (g : Url → Res) (rank : Url → Nat) (acyc : Acyclic g rank)
    (cache0 : Url → CacheSt) (prog : List Op) (s : State) (hs : Reachable g cache0 prog s) :
    Inv g rank cache0 s := by
  obtain ⟨sched, rfl⟩ := hs
  exact runSched_inv g rank cache0 acyc sched _ (init_inv g rank cache0 prog)

/-! ## 0. The specification is "parse the resource directly and finalise it" -/

/-- `resolve` of a parsable resource is the document with every include resolved in document
    order; of an unfetchable or unparsable one it is `None`. -/
theorem resolve_is_direct_parse (g : Url → Res) (rank : Url → Nat) (acyc : Acyclic g rank) (u : Url) :
    (∀ incs, g u = .doc incs → resolve g rank u = .node u (incs.map (resolve g rank))) ∧
    (g u = .missing → resolve g rank u = .fail) ∧ (g u = .garbage → resolve g rank u = .fail) :=
  ⟨fun incs h => resolve_doc g rank acyc u incs h, resolve_missing g rank u, resolve_garbage g rank u⟩

/-! ## 1. The result of a load does not depend on the schedule -/

/-- Whatever the schedule, whatever deferred loads ran before or run concurrently: what a
    completed `load(k)` returned has the content `resolve g k` (for a parsable resource: the
    fully resolved document; otherwise `None`). -/
theorem load_result_schedule_independent (g : Url → Res) (rank : Url → Nat) (acyc : Acyclic g rank)
    (cache0 : Url → CacheSt) (prog : List Op) (s : State) (hs : Reachable g cache0 prog s)
    (r : Result) (hr : r ∈ s.results) (k : Key) (hop : r.op = .load k) :
    r.val.content = resolve g rank k.url ∧
    (∀ incs, g k.url = .doc incs →
      ∃ o, r.val = some o ∧ o.tree = .node k.url (incs.map (resolve g rank))) ∧
    ((∀ incs, g k.url ≠ .doc incs) → r.val.content = .fail) := by
  have hi := reachable_inv g rank acyc cache0 prog s hs
  have hc := hi.res r hr k hop
  refine ⟨hc, ?_, ?_⟩
  · intro incs hg
    rw [resolve_doc g rank acyc _ incs hg] at hc
    cases hv : r.val with
    | none => rw [hv] at hc; simp [Val.content] at hc
    | some o => rw [hv] at hc; exact ⟨o, rfl, hc⟩
  · intro hne
    rw [hc]
    cases hg : g k.url with
    | missing => exact resolve_missing g rank _ hg
    | garbage => exact resolve_garbage g rank _ hg
    | doc incs => exact absurd hg (hne incs)

/-- `load(k)` returns `None` itself exactly when the resource cannot be fetched or parsed (a
    document object is only ever built from a parsed document: no completed operation, and no
    table entry, is an object without content). -/
theorem load_none_iff_unloadable (g : Url → Res) (rank : Url → Nat) (acyc : Acyclic g rank)
    (cache0 : Url → CacheSt) (prog : List Op) (s : State) (hs : Reachable g cache0 prog s)
    (r : Result) (hr : r ∈ s.results) (k : Key) (hop : r.op = .load k) :
    (r.val = none ↔ ∀ incs, g k.url ≠ .doc incs) := by
  have h3 : Inv3 s := by
    obtain ⟨sched, rfl⟩ := hs
    exact runSched_inv3 g sched _ (init_inv3 cache0 prog)
  obtain ⟨_, hdoc, hfail⟩ := load_result_schedule_independent g rank acyc cache0 prog s hs r hr k hop
  constructor
  · intro hnone incs hg
    obtain ⟨o, ho, _⟩ := hdoc incs hg
    rw [hnone] at ho
    cases ho
  · intro hne
    have hc := hfail hne
    cases hv : r.val with
    | none => rfl
    | some o =>
      obtain ⟨u, kids, ht⟩ := h3.resNV r hr o hv
      rw [hv] at hc
      simp [Val.content, ht] at hc

/-- Two schedules of the same program give the same content for the same load. -/
example (g : Url → Res) (rank : Url → Nat) (acyc : Acyclic g rank) (cache0 : Url → CacheSt)
    (prog : List Op) (s1 s2 : State) (h1 : Reachable g cache0 prog s1) (h2 : Reachable g cache0 prog s2)
    (r1 r2 : Result) (hr1 : r1 ∈ s1.results) (hr2 : r2 ∈ s2.results) (k : Key)
    (ho1 : r1.op = .load k) (ho2 : r2.op = .load k) : r1.val.content = r2.val.content := by
  rw [(load_result_schedule_independent g rank acyc cache0 prog s1 h1 r1 hr1 k ho1).1,
      (load_result_schedule_independent g rank acyc cache0 prog s2 h2 r2 hr2 k ho2).1]

/-- Every entry ever published in one of the tables is the fully resolved document. -/
theorem table_entries_resolved (g : Url → Res) (rank : Url → Nat) (acyc : Acyclic g rank)
    (cache0 : Url → CacheSt) (prog : List Op) (s : State) (hs : Reachable g cache0 prog s)
    (k : Key) (v : Val) (hv : s.sh.loaded k = some v) : v.content = resolve g rank k.url :=
  (reachable_inv g rank acyc cache0 prog s hs).table k v hv

/-! ## 2. Later loads return the same cached object until refresh -/

/-- Two loads of the same key completed in the same refresh epoch (no `clear()` in between)
    returned the very same object (same identity, not just equal content); and while the epoch
    lasts that object is the table entry. -/
theorem cached_identity (g : Url → Res) (rank : Url → Nat) (acyc : Acyclic g rank)
    (cache0 : Url → CacheSt) (prog : List Op) (s : State) (hs : Reachable g cache0 prog s)
    (r r' : Result) (hr : r ∈ s.results) (hr' : r' ∈ s.results) (k : Key)
    (hop : r.op = .load k) (hop' : r'.op = .load k) (o o' : Obj)
    (hv : r.val = some o) (hv' : r'.val = some o') (he : r.epoch = r'.epoch) :
    o = o' ∧ (r.epoch = s.sh.epoch → s.sh.loaded k = some (some o)) := by
  have hi := reachable_inv g rank acyc cache0 prog s hs
  exact ⟨hi.resSame r hr r' hr' k o o' hop hop' hv hv' he, hi.resCached r hr k o hop hv⟩

/-! ## 3. A failed fetch never creates or overwrites a cache file -/

/-- The cache file of an unfetchable URL is in every reachable state exactly what it was
    initially (absent stays absent, stale stays stale) and has never been written. -/
theorem cache_monotone (g : Url → Res) (rank : Url → Nat) (acyc : Acyclic g rank)
    (cache0 : Url → CacheSt) (prog : List Op) (s : State) (hs : Reachable g cache0 prog s)
    (u : Url) (hu : g u = .missing) : s.sh.cache u = cache0 u ∧ s.sh.wcount u = 0 :=
  (reachable_inv g rank acyc cache0 prog s hs).cache u hu

/-- The statement-order fact behind it: `cache_load` of an unfetchable URL changes no cache file. -/
theorem failed_fetch_writes_nothing (g : Url → Res) (sh : Shared) (k : Key) (hk : g k.url = .missing) :
    (fetch g sh k).1.cache = sh.cache ∧ (fetch g sh k).1.wcount = sh.wcount := by
  unfold fetch
  split
  · exact ⟨rfl, rfl⟩
  · simp [hk]

/-! ## 4. No call raises (the model's error transitions are unreachable) -/

/-- The model turns into its error state when a frame returns to a caller that does not wait
    for it (in Python: the include setter would receive a value it cannot use) or when a frame
    that waits for a callee is asked to run.  No schedule reaches such a state: the call/return
    discipline of load / _load / finalize / include holds in every interleaving.  (Look-ups are
    total in the modelled code - `loading.get`, `pop(url, None)`, the `None` check of the
    include setter - so these are the only raising transitions of the model; joining a thread
    that does not exist is modelled as never enabled, see `progress` in design.d/C18.md.) -/
theorem no_exception (g : Url → Res) (rank : Url → Nat) (acyc : Acyclic g rank)
    (cache0 : Url → CacheSt) (prog : List Op) (s : State) (hs : Reachable g cache0 prog s) :
    s.sh.err = false := by
  obtain ⟨sched, rfl⟩ := hs
  exact (runSched_inv2 g rank cache0 acyc sched _ (init_inv g rank cache0 prog)
    (init_inv2 cache0 prog)).noErr

/-- The error transitions exist in the model (the theorem is not vacuous): a state outside the
    invariant, with an awaiting frame on top, steps into the error state. -/
example : (step (fun _ => .missing)
    { sh := initShared (fun _ => .absent), caller := [.fin (tkey 0) [1] [] 0 true], prog := [.load (tkey 0)],
      results := [], threads := [] } 0).sh.err = true := by
  decide

/-! ## 5. No call blocks forever: deadlock freedom (`progress`) -/

theorem reachable_invP (g : Url → Res) (rank : Url → Nat) (acyc : Acyclic g rank)
    (cache0 : Url → CacheSt) (prog : List Op) (s : State) (hs : Reachable g cache0 prog s) :
    InvP s := by
  obtain ⟨sched, rfl⟩ := hs
  exact runSched_invP g rank cache0 acyc sched _ (init_inv g rank cache0 prog) (init_invP cache0 prog)

/-- Every `Thread.join` is a join of an existing, started loader thread that was started for the
    very key the joining `load` asks for, and so is every thread recorded in `loading` (a join of
    a thread that does not exist or was not started is modelled as "never enabled"; it cannot
    happen). -/
theorem join_names_started_thread (g : Url → Res) (rank : Url → Nat) (acyc : Acyclic g rank)
    (cache0 : Url → CacheSt) (prog : List Op) (s : State) (hs : Reachable g cache0 prog s) :
    (∀ t k j, Frame.join k j ∈ stackOf s t →
      ∃ i th, j = i + 1 ∧ s.threads[i]? = some th ∧ th.root = k) ∧
    (∀ k j, s.sh.loading k = some j →
      ∃ i th, j = i + 1 ∧ s.threads[i]? = some th ∧ th.root = k) := by
  have hp := reachable_invP g rank acyc cache0 prog s hs
  refine ⟨?_, fun k j hl => thrRef_get _ _ _ (hp.loadingThr k j hl)⟩
  intro t k j hj
  cases t with
  | zero => exact thrRef_get _ _ _ (hp.callerJoin k j hj)
  | succ i =>
    simp only [stackOf] at hj
    cases hth : s.threads[i]? with
    | none => simp [hth] at hj
    | some th =>
      simp only [hth] at hj
      exact thrRef_get _ _ _ (hp.thrJoin th (List.mem_of_getElem? hth) k j hj)

/-- Deadlock freedom, for every acyclic include graph, every initial cache, every caller program
    and every schedule: in every reachable state either all threads have finished (the caller
    has completed its whole program, every loader thread has exited) or some thread is enabled.
    No reachable state is stuck with unfinished threads. -/
theorem progress (g : Url → Res) (rank : Url → Nat) (acyc : Acyclic g rank)
    (cache0 : Url → CacheSt) (prog : List Op) (s : State) (hs : Reachable g cache0 prog s) :
    allDone s = true ∨ ∃ t, enabled s t = true :=
  progress_of_inv g rank cache0 acyc s (reachable_inv g rank acyc cache0 prog s hs)
    (reachable_invP g rank acyc cache0 prog s hs)

/-- Waits-for edges go strictly down `rank`: a loader thread that waits at a `join` waits for a
    thread whose root resource is (transitively) included by its own root resource. -/
theorem waits_for_decreases_rank (g : Url → Res) (rank : Url → Nat) (acyc : Acyclic g rank)
    (cache0 : Url → CacheSt) (prog : List Op) (s : State) (hs : Reachable g cache0 prog s)
    (i : Nat) (th : Thr) (hth : s.threads[i]? = some th) (k : Key) (j : Nat) (rest : List Frame)
    (hstk : th.stack = .join k j :: rest) :
    ∃ i' th', j = i' + 1 ∧ s.threads[i']? = some th' ∧ th'.root = k ∧
      rank th'.root.url < rank th.root.url := by
  have hi := reachable_inv g rank acyc cache0 prog s hs
  have hp := reachable_invP g rank acyc cache0 prog s hs
  have hmem := List.mem_of_getElem? hth
  obtain ⟨i', th', rfl, hth', hroot⟩ :=
    thrRef_get _ _ _ (hp.thrJoin th hmem k j (by rw [hstk]; simp))
  refine ⟨i', th', rfl, hth', hroot, ?_⟩
  have hbot := hp.thrBot th hmem
  rw [hstk] at hbot
  cases hr' : rest.getLast? with
  | none =>
    have : rest = [] := by simpa using hr'
    subst this
    have := (hbot (.join k (i' + 1)) (by simp)).2
    simp [IsBody] at this
  | some b =>
    have hb := hbot b (by
      cases rest with
      | nil => simp at hr'
      | cons a r => rw [List.getLast?_cons_cons]; exact hr')
    have hst : StackOK g rank (.join k (i' + 1) :: rest) := by
      rw [← hstk]; exact hi.thrSt th hmem
    have hlt := rank_top_lt_bot g rank acyc rest _ b hst hr'
    rw [hb.1] at hlt
    simp only [Frame.key] at hlt
    rw [hroot]; exact hlt

/-! ## 6. No call blocks forever: every schedule is finite, fair schedules terminate -/

theorem reachable_inv2 (g : Url → Res) (rank : Url → Nat) (acyc : Acyclic g rank)
    (cache0 : Url → CacheSt) (prog : List Op) (s : State) (hs : Reachable g cache0 prog s) :
    Inv2 s := by
  obtain ⟨sched, rfl⟩ := hs
  exact runSched_inv2 g rank cache0 acyc sched _ (init_inv g rank cache0 prog) (init_inv2 cache0 prog)

theorem reachable_step (g : Url → Res) (cache0 : Url → CacheSt) (prog : List Op) (s : State)
    (hs : Reachable g cache0 prog s) (t : Nat) : Reachable g cache0 prog (step g s t) := by
  obtain ⟨sched, rfl⟩ := hs
  exact ⟨sched ++ [t], (runSched_append g sched t _).symm⟩

/-- The measure `mu` (remaining work: `4 * phi1² + phi2`, `phi1` = cost of everything the frames
    on all stacks and the not yet begun operations of the program can still cause, `phi2` =
    position of the `load` frames in the load/join/pop cycle) strictly decreases with every step
    of an enabled thread, in every reachable state. -/
theorem measure_decreases (g : Url → Res) (rank : Url → Nat) (acyc : Acyclic g rank)
    (cache0 : Url → CacheSt) (prog : List Op) (s : State) (hs : Reachable g cache0 prog s)
    (t : Nat) (hen : enabled s t = true) : mu g rank (step g s t) < mu g rank s :=
  step_dec g rank cache0 acyc s (reachable_inv g rank acyc cache0 prog s hs)
    (reachable_inv2 g rank acyc cache0 prog s hs) t hen

/-- Every schedule is finite: whatever the schedule (of any length), the number of its picks
    that make a thread take a step (all other picks are no-ops) is bounded by a number that
    depends only on the include graph and the caller's program: `4 * W²`, `W` = the sum over the
    program's operations of the cost of loading their resource. -/
theorem effective_steps_bounded (g : Url → Res) (rank : Url → Nat) (acyc : Acyclic g rank)
    (cache0 : Url → CacheSt) (prog : List Op) (sched : List Nat) :
    effSteps g (init cache0 prog) sched ≤ 4 * (progW g rank prog * progW g rank prog) := by
  have := effSteps_bound g rank cache0 acyc sched _ (init_inv g rank cache0 prog) (init_inv2 cache0 prog)
  rw [mu_init] at this
  omega

/-- The run of an infinite schedule `σ` (pick `σ n` at time `n`). -/
def runInf (g : Url → Res) (s0 : State) (σ : Nat → Nat) : Nat → State
  | 0 => s0
  | n + 1 => step g (runInf g s0 σ n) (σ n)

/-- Weak fairness, in the model's terms: whenever some thread can take a step, the scheduler
    eventually picks a thread that can take a step (it does not pick blocked or finished threads
    only, forever). -/
def Fair (g : Url → Res) (s0 : State) (σ : Nat → Nat) : Prop :=
  ∀ n, (∃ t, enabled (runInf g s0 σ n) t = true) →
    ∃ m, n ≤ m ∧ enabled (runInf g s0 σ m) (σ m) = true

theorem runInf_reachable (g : Url → Res) (cache0 : Url → CacheSt) (prog : List Op) (σ : Nat → Nat) :
    ∀ n, Reachable g cache0 prog (runInf g (init cache0 prog) σ n) := by
  intro n
  induction n with
  | zero => exact ⟨[], rfl⟩
  | succ n ih => exact reachable_step g cache0 prog _ ih (σ n)

/-- Termination under fairness: under every fair infinite schedule the system reaches a state in
    which all threads have finished - the caller has completed its whole program (no call blocks
    forever), every loader thread has exited - and stays there. -/
theorem fair_schedule_terminates (g : Url → Res) (rank : Url → Nat) (acyc : Acyclic g rank)
    (cache0 : Url → CacheSt) (prog : List Op) (σ : Nat → Nat)
    (hfair : Fair g (init cache0 prog) σ) :
    ∃ n, allDone (runInf g (init cache0 prog) σ n) = true ∧
      ∀ m, n ≤ m → runInf g (init cache0 prog) σ m = runInf g (init cache0 prog) σ n := by
  have hreach := runInf_reachable g cache0 prog σ
  have hle : ∀ n m, n ≤ m → mu g rank (runInf g (init cache0 prog) σ m) ≤
      mu g rank (runInf g (init cache0 prog) σ n) := by
    intro n m hnm
    induction m with
    | zero => have : n = 0 := by omega
              subst this; exact Nat.le_refl _
    | succ m ih =>
      by_cases he : n = m + 1
      · subst he; exact Nat.le_refl _
      · have := ih (by omega)
        have h2 := step_mu_le g rank cache0 acyc _ (reachable_inv g rank acyc cache0 prog _ (hreach m))
          (reachable_inv2 g rank acyc cache0 prog _ (hreach m)) (σ m)
        simp only [runInf]
        omega
  have hdone : ∀ B n, mu g rank (runInf g (init cache0 prog) σ n) < B →
      ∃ n', allDone (runInf g (init cache0 prog) σ n') = true := by
    intro B
    induction B with
    | zero => intro n h; omega
    | succ B ih =>
      intro n hB
      rcases progress g rank acyc cache0 prog _ (hreach n) with hd | hen
      · exact ⟨n, hd⟩
      · obtain ⟨m, hnm, hm⟩ := hfair n hen
        have h1 := hle n m hnm
        have h2 := measure_decreases g rank acyc cache0 prog _ (hreach m) (σ m) hm
        exact ih (m + 1) (by simp only [runInf]; omega)
  obtain ⟨n, hn⟩ := hdone _ 0 (Nat.lt_succ_self _)
  refine ⟨n, hn, ?_⟩
  intro m hnm
  induction m with
  | zero => have : n = 0 := by omega
            subst this; rfl
  | succ m ih =>
    by_cases he : n = m + 1
    · subst he; rfl
    · have := ih (by omega)
      simp only [runInf]
      rw [this]
      exact step_not_enabled g _ _ (allDone_not_enabled _ hn (σ m))

/-! ## 7. Every maximal run completes the whole program -/

/-- A maximal run (a schedule after which no thread can take a step) ends in a state where all
    threads have finished, the completed operations are exactly the caller's program, in order,
    and every requested `load(k)` has returned: the fully resolved document of a parsable
    resource (loaded), `None` otherwise (failed). -/
theorem maximal_run_completes (g : Url → Res) (rank : Url → Nat) (acyc : Acyclic g rank)
    (cache0 : Url → CacheSt) (prog : List Op) (s : State) (hs : Reachable g cache0 prog s)
    (hmax : ∀ t, enabled s t = false) :
    allDone s = true ∧ (s.results.reverse.map fun r => r.op) = prog ∧
    ∀ k, Op.load k ∈ prog → ∃ r ∈ s.results, r.op = .load k ∧
      r.val.content = resolve g rank k.url ∧
      (∀ incs, g k.url = .doc incs →
        ∃ o, r.val = some o ∧ o.tree = .node k.url (incs.map (resolve g rank))) ∧
      ((∀ incs, g k.url ≠ .doc incs) → r.val.content = .fail) := by
  have hd : allDone s = true := by
    rcases progress g rank acyc cache0 prog s hs with hd | ⟨t, ht⟩
    · exact hd
    · rw [hmax t] at ht; cases ht
  have htr : (s.results.reverse.map fun r => r.op) = prog := by
    obtain ⟨sched, rfl⟩ := hs
    have h1 := runSched_trace g sched (init cache0 prog)
    rw [init_trace] at h1
    have hp : (runSched g (init cache0 prog) sched).prog = [] := by
      simp only [allDone, Bool.and_eq_true, List.isEmpty_iff] at hd
      exact hd.1.2
    unfold trace at h1
    rw [hp, List.append_nil] at h1
    exact h1
  refine ⟨hd, htr, ?_⟩
  intro k hk
  rw [← htr] at hk
  simp only [List.mem_map, List.mem_reverse] at hk
  obtain ⟨r, hr, hop⟩ := hk
  exact ⟨r, hr, hop, load_result_schedule_independent g rank acyc cache0 prog s hs r hr k hop⟩

/-- For a caller program without `refresh` (after a `clear()` the table may of course lack a
    key published before): a maximal run ends in a state where every requested resource -
    requested by `load` or by `deferred_load` - is loaded (it is in the table, with the fully
    resolved content) or has failed (the table has no entry and there will never be one: the
    resource cannot be fetched, or it is a template that cannot be parsed). -/
theorem maximal_run_requested_loaded_or_failed (g : Url → Res) (rank : Url → Nat) (acyc : Acyclic g rank)
    (cache0 : Url → CacheSt) (prog : List Op) (hnr : ∀ op ∈ prog, ∀ k, op ≠ .refresh k)
    (s : State) (hs : Reachable g cache0 prog s) (hmax : ∀ t, enabled s t = false)
    (k : Key) (hk : Op.load k ∈ prog ∨ Op.deferred k ∈ prog) :
    (∃ v, s.sh.loaded k = some v ∧ v.content = resolve g rank k.url) ∨
    (s.sh.loaded k = none ∧ (g k.url = .missing ∨ (g k.url = .garbage ∧ k.tpl = true))) := by
  obtain ⟨hd, htr, _⟩ := maximal_run_completes g rank acyc cache0 prog s hs hmax
  have h4 : Inv4 g s := by
    obtain ⟨sched, rfl⟩ := hs
    exact runSched_inv4 g rank cache0 acyc sched _ (init_inv g rank cache0 prog)
      (init_invP cache0 prog) (init_inv4 g cache0 prog hnr)
  have hdone : Done g s.sh k := by
    have hr : ∃ r ∈ s.results, r.op = .load k ∨ r.op = .deferred k := by
      rw [← htr] at hk
      simp only [List.mem_map, List.mem_reverse] at hk
      rcases hk with ⟨r, hr, hop⟩ | ⟨r, hr, hop⟩
      · exact ⟨r, hr, Or.inl hop⟩
      · exact ⟨r, hr, Or.inr hop⟩
    obtain ⟨r, hr, hop⟩ := hr
    rcases h4.resDone r hr k hop with h1 | ⟨t, h1⟩
    · exact h1
    · obtain ⟨i, th, _, hth, hroot⟩ := thrRef_get _ _ _ h1
      have hmem := List.mem_of_getElem? hth
      have hemp : th.stack = [] := by
        simp only [allDone, Bool.and_eq_true, List.all_eq_true] at hd
        simpa using hd.2 th hmem
      have := h4.finished th hmem hemp
      rw [hroot] at this
      exact this
  cases hl : s.sh.loaded k with
  | some v => left; exact ⟨v, rfl, table_entries_resolved g rank acyc cache0 prog s hs k v hl⟩
  | none =>
    right
    refine ⟨rfl, ?_⟩
    rcases hdone with h1 | h1
    · rw [hl] at h1; cases h1
    · exact h1

/-! ## Hypotheses are satisfiable, conclusions are not vacuous -/

/-- The diamond R→A,B; A→D; B→D (R=0, A=1, B=2, D=3) with rank = height. -/
def diamond : Url → Res
  | 0 => .doc [1, 2]
  | 1 => .doc [3]
  | 2 => .doc [3]
  | 3 => .doc []
  | _ => .missing

def diamondRank : Url → Nat
  | 0 => 2
  | 1 => 1
  | 2 => 1
  | _ => 0

theorem diamond_acyclic : Acyclic diamond diamondRank := by
  intro u incs v hu hv
  match u with
  | 0 => simp [diamond] at hu; subst hu; simp at hv; rcases hv with rfl | rfl <;> simp [diamondRank]
  | 1 => simp [diamond] at hu; subst hu; simp at hv; subst hv; simp [diamondRank]
  | 2 => simp [diamond] at hu; subst hu; simp at hv; subst hv; simp [diamondRank]
  | 3 => simp [diamond] at hu; subst hu; simp at hv
  | n + 4 => simp [diamond] at hu

/-- A concrete schedule (round robin over five threads) with two concurrent loaders, a completed
    load and a repeated load: the results list really contains loads that returned one and the
    same document object, so theorems 1 and 2 speak about something. -/
example :
    let s := runSched diamond
      (init (fun _ => .absent) [.deferred (tkey 1), .deferred (tkey 2), .load (tkey 0), .load (tkey 0)])
      (List.replicate 30 [0, 1, 2, 3, 4]).flatten
    (s.results.map fun r => (r.val.map (·.id))) = [some 3, some 3, none, none]
      ∧ s.sh.err = false ∧ allDone s = true ∧ s.threads.length = 3 := by
  decide +kernel

/-- The round-robin schedule is fair (it picks every thread again and again), and a maximal run
    exists: the state reached above has no enabled thread, so `maximal_run_completes` and
    `fair_schedule_terminates` speak about something.  The bound of `effective_steps_bounded`
    for this program on the diamond is a concrete number. -/
example :
    let s := runSched diamond
      (init (fun _ => .absent) [.deferred (tkey 1), .deferred (tkey 2), .load (tkey 0), .load (tkey 0)])
      (List.replicate 30 [0, 1, 2, 3, 4]).flatten
    (∀ t, t < 6 → enabled s t = false) ∧
    progW diamond diamondRank [.deferred (tkey 1), .deferred (tkey 2), .load (tkey 0), .load (tkey 0)] = 112 := by
  decide +kernel

/-- The program of that run contains no `refresh`: the hypothesis of
    `maximal_run_requested_loaded_or_failed` is met by it. -/
example : ∀ op ∈ [Op.deferred (tkey 1), Op.deferred (tkey 2), Op.load (tkey 0), Op.load (tkey 0)],
    ∀ k, op ≠ Op.refresh k := by
  intro op h k
  simp only [List.mem_cons, List.not_mem_nil, or_false] at h
  rcases h with rfl | rfl | rfl | rfl <;> simp

end C18
