/-
C18 — Background loading of terminologies/templates is transparent in every schedule.

Property theorems only; the model is `Model/Loader.lean` (small-step interleaving semantics of
load / _load / deferred_load / refresh / cache_load for one caller and the loader threads it
spawns, tied to /repo by `harness/c18.py` + `harness/sched.py`), helper lemmas and the
invariant are in `Proofs/Loader.lean`.

Every theorem quantifies over every include graph `g` without cycle (`Acyclic g rank`), every
initial cache state, every caller program (any sequence of deferred_load / load / refresh on
terminology and template keys) and every schedule (list of thread picks, any length).

Not expressible in the model and therefore *partial* with respect to the property text:
fairness-based termination of real threads, the GIL, OS scheduling, network timeouts.
-/
import OdmlModel.Model.Loader
import OdmlModel.Proofs.Loader

namespace C18
open Loader

/-- A state reachable from the initial state of a caller program under some schedule. -/
def Reachable (g : Url → Res) (cache0 : Url → CacheSt) (prog : List Op) (s : State) : Prop :=
  ∃ sched : List Nat, s = runSched g (init cache0 prog) sched

theorem reachable_inv (g : Url → Res) (rank : Url → Nat) (acyc : Acyclic g rank)
    (cache0 : Url → CacheSt) (prog : List Op) (s : State) (hs : Reachable g cache0 prog s) :
    Inv g rank cache0 s := by
  obtain ⟨sched, rfl⟩ := hs
  exact runSched_inv g rank cache0 acyc sched _ (init_inv g rank cache0 prog)

/-! ## 0. The specification is "parse the resource directly and finalise it" -/

/-- `resolve` of a parsable resource is the document with every include resolved in document
    order; of an unfetchable or unparsable one it is `None`. -/
theorem resolve_is_direct_parse (g : Url → Res) (rank : Url → Nat) (acyc : Acyclic g rank) (u : Url) :
    (∀ incs, g u = .doc incs → resolve g rank u = .node u (incs.map (resolve g rank))) ∧
    (g u = .missing → resolve g rank u = .fail) ∧ (g u = .garbage → resolve g rank u = .fail) :=
  ⟨fun incs h => resolve_doc g rank acyc u incs h, resolve_missing g rank u, resolve_garbage g rank u⟩

/-! ## 1. The result of a load does not depend on the schedule -/

/-- Whatever the schedule, whatever deferred loads ran before or run concurrently: what a
    completed `load(k)` returned has the content `resolve g k` (for a parsable resource: the
    fully resolved document; otherwise `None`). -/
theorem load_result_schedule_independent (g : Url → Res) (rank : Url → Nat) (acyc : Acyclic g rank)
    (cache0 : Url → CacheSt) (prog : List Op) (s : State) (hs : Reachable g cache0 prog s)
    (r : Result) (hr : r ∈ s.results) (k : Key) (hop : r.op = .load k) :
    r.val.content = resolve g rank k.url ∧
    (∀ incs, g k.url = .doc incs →
      ∃ o, r.val = some o ∧ o.tree = .node k.url (incs.map (resolve g rank))) ∧
    ((∀ incs, g k.url ≠ .doc incs) → r.val.content = .fail) := by
  have hi := reachable_inv g rank acyc cache0 prog s hs
  have hc := hi.res r hr k hop
  refine ⟨hc, ?_, ?_⟩
  · intro incs hg
    rw [resolve_doc g rank acyc _ incs hg] at hc
    cases hv : r.val with
    | none => rw [hv] at hc; simp [Val.content] at hc
    | some o => rw [hv] at hc; exact ⟨o, rfl, hc⟩
  · intro hne
    rw [hc]
    cases hg : g k.url with
    | missing => exact resolve_missing g rank _ hg
    | garbage => exact resolve_garbage g rank _ hg
    | doc incs => exact absurd hg (hne incs)

/-- Two schedules of the same program give the same content for the same load. -/
example (g : Url → Res) (rank : Url → Nat) (acyc : Acyclic g rank) (cache0 : Url → CacheSt)
    (prog : List Op) (s1 s2 : State) (h1 : Reachable g cache0 prog s1) (h2 : Reachable g cache0 prog s2)
    (r1 r2 : Result) (hr1 : r1 ∈ s1.results) (hr2 : r2 ∈ s2.results) (k : Key)
    (ho1 : r1.op = .load k) (ho2 : r2.op = .load k) : r1.val.content = r2.val.content := by
  rw [(load_result_schedule_independent g rank acyc cache0 prog s1 h1 r1 hr1 k ho1).1,
      (load_result_schedule_independent g rank acyc cache0 prog s2 h2 r2 hr2 k ho2).1]

/-- Every entry ever published in one of the tables is the fully resolved document. -/
theorem table_entries_resolved (g : Url → Res) (rank : Url → Nat) (acyc : Acyclic g rank)
    (cache0 : Url → CacheSt) (prog : List Op) (s : State) (hs : Reachable g cache0 prog s)
    (k : Key) (v : Val) (hv : s.sh.loaded k = some v) : v.content = resolve g rank k.url :=
  (reachable_inv g rank acyc cache0 prog s hs).table k v hv

/-! ## 2. Later loads return the same cached object until refresh -/

/-- Two loads of the same key completed in the same refresh epoch (no `clear()` in between)
    returned the very same object (same identity, not just equal content); and while the epoch
    lasts that object is the table entry. -/
theorem cached_identity (g : Url → Res) (rank : Url → Nat) (acyc : Acyclic g rank)
    (cache0 : Url → CacheSt) (prog : List Op) (s : State) (hs : Reachable g cache0 prog s)
    (r r' : Result) (hr : r ∈ s.results) (hr' : r' ∈ s.results) (k : Key)
    (hop : r.op = .load k) (hop' : r'.op = .load k) (o o' : Obj)
    (hv : r.val = some o) (hv' : r'.val = some o') (he : r.epoch = r'.epoch) :
    o = o' ∧ (r.epoch = s.sh.epoch → s.sh.loaded k = some (some o)) := by
  have hi := reachable_inv g rank acyc cache0 prog s hs
  exact ⟨hi.resSame r hr r' hr' k o o' hop hop' hv hv' he, hi.resCached r hr k o hop hv⟩

/-! ## 3. A failed fetch never creates or overwrites a cache file -/

/-- The cache file of an unfetchable URL is in every reachable state exactly what it was
    initially (absent stays absent, stale stays stale) and has never been written. -/
theorem cache_monotone (g : Url → Res) (rank : Url → Nat) (acyc : Acyclic g rank)
    (cache0 : Url → CacheSt) (prog : List Op) (s : State) (hs : Reachable g cache0 prog s)
    (u : Url) (hu : g u = .missing) : s.sh.cache u = cache0 u ∧ s.sh.wcount u = 0 :=
  (reachable_inv g rank acyc cache0 prog s hs).cache u hu

/-- The statement-order fact behind it: `cache_load` of an unfetchable URL changes no cache file. -/
theorem failed_fetch_writes_nothing (g : Url → Res) (sh : Shared) (k : Key) (hk : g k.url = .missing) :
    (fetch g sh k).1.cache = sh.cache ∧ (fetch g sh k).1.wcount = sh.wcount := by
  unfold fetch
  split
  · exact ⟨rfl, rfl⟩
  · simp [hk]

/-! ## 4. No call raises (the model's error transitions are unreachable) -/

/-- The model turns into its error state when a frame returns to a caller that does not wait
    for it (in Python: the include setter would receive a value it cannot use) or when a frame
    that waits for a callee is asked to run.  No schedule reaches such a state: the call/return
    discipline of load / _load / finalize / include holds in every interleaving.  (Look-ups are
    total in the modelled code - `loading.get`, `pop(url, None)`, the `None` check of the
    include setter - so these are the only raising transitions of the model; joining a thread
    that does not exist is modelled as never enabled, see `progress` in design.d/C18.md.) -/
theorem no_exception (g : Url → Res) (rank : Url → Nat) (acyc : Acyclic g rank)
    (cache0 : Url → CacheSt) (prog : List Op) (s : State) (hs : Reachable g cache0 prog s) :
    s.sh.err = false := by
  obtain ⟨sched, rfl⟩ := hs
  exact (runSched_inv2 g rank cache0 acyc sched _ (init_inv g rank cache0 prog)
    (init_inv2 cache0 prog)).noErr

/-- The error transitions exist in the model (the theorem is not vacuous): a state outside the
    invariant, with an awaiting frame on top, steps into the error state. -/
example : (step (fun _ => .missing)
    { sh := initShared (fun _ => .absent), caller := [.fin (tkey 0) [1] [] 0 true], prog := [.load (tkey 0)],
      results := [], threads := [] } 0).sh.err = true := by
  decide

/-! ## Hypotheses are satisfiable, conclusions are not vacuous -/

/-- The diamond R→A,B; A→D; B→D (R=0, A=1, B=2, D=3) with rank = height. -/
def diamond : Url → Res
  | 0 => .doc [1, 2]
  | 1 => .doc [3]
  | 2 => .doc [3]
  | 3 => .doc []
  | _ => .missing

def diamondRank : Url → Nat
  | 0 => 2
  | 1 => 1
  | 2 => 1
  | _ => 0

theorem diamond_acyclic : Acyclic diamond diamondRank := by
  intro u incs v hu hv
  match u with
  | 0 => simp [diamond] at hu; subst hu; simp at hv; rcases hv with rfl | rfl <;> simp [diamondRank]
  | 1 => simp [diamond] at hu; subst hu; simp at hv; subst hv; simp [diamondRank]
  | 2 => simp [diamond] at hu; subst hu; simp at hv; subst hv; simp [diamondRank]
  | 3 => simp [diamond] at hu; subst hu; simp at hv
  | n + 4 => simp [diamond] at hu

/-- A concrete schedule (round robin over five threads) with two concurrent loaders, a completed
    load and a repeated load: the results list really contains loads that returned one and the
    same document object, so theorems 1 and 2 speak about something. -/
example :
    let s := runSched diamond
      (init (fun _ => .absent) [.deferred (tkey 1), .deferred (tkey 2), .load (tkey 0), .load (tkey 0)])
      (List.replicate 30 [0, 1, 2, 3, 4]).flatten
    (s.results.map fun r => (r.val.map (·.id))) = [some 3, some 3, none, none]
      ∧ s.sh.err = false ∧ allDone s = true ∧ s.threads.length = 3 := by
  decide +kernel

end C18
