/-
C13 — Merging one Section into another is complete, conservative and all-or-nothing.

Property theorems only; the model is `Model/Merge.lean`, helper lemmas are in
`Proofs/Merge.lean`. Every theorem is stated for an arbitrary value interpretation
`cv : Conv V` (conversion, dtype inference, equality) and arbitrary trees: no bound on size,
depth, number of children or values.

Side conditions (all decidable, evaluated by the driver on every generated case):
* `wfSec cv s`    — the source has unique sibling names and every Property's values are of one
                    kind (true of every tree built through the API);
* `typedSec d`    — a destination Property that holds values has a dtype (ditto);
* `typeClash d s` — `Section._merge_name_check` raises (the region of the former finding
                    `C13/section-name-clash-other-type`, now refused before anything changes).
-/
import OdmlModel.Model.Merge
import OdmlModel.Proofs.Merge

set_option linter.unusedVariables false

namespace C13
open Merge

variable {V : Type}

/-! ## 1. All-or-nothing -/

/-- The two checks `merge` runs before it changes anything predict it: if `merge_check` passes
    and `_merge_name_check` passes (`typeClash d s = false`), the merge does not raise. -/
theorem merge_check_predicts (cv : Conv V) (k : Bool) (r : Ref) (d s : Sec V)
    (hwf : wfSec cv s = true) (hty : typedSec d = true) (hcl : typeClash d s = false)
    (hck : mergeCheck cv k d s = .ok) : (merge cv k r d s).2 = .ok :=
  merge_ok_of_check cv k s r d hwf hty hcl hck

/-- The full-strength statement of "a merge that raises has changed nothing". -/
def AllOrNothing (cv : Conv V) : Prop :=
  ∀ (k : Bool) (r : Ref) (d s : Sec V) (e : Exc), wfSec cv s = true → typedSec d = true →
    (merge cv k r d s).2 = .raised e → (merge cv k r d s).1 = d

/-- A merge that raises has changed nothing. (Full strength since the fix of finding
    `C13/section-name-clash-other-type`; before it this needed `typeClash d s = false`.) -/
theorem merge_all_or_nothing (cv : Conv V) : AllOrNothing cv := by
  intro k r d s e hwf hty hr
  cases hck : mergeCheck cv k d s with
  | raised e' => rw [merge_of_check_raised cv k r d s e' hck]
  | ok =>
    cases hcl : typeClash d s with
    | true => rw [merge_of_clash cv k r d s hck hcl]
    | false => rw [merge_check_predicts cv k r d s hwf hty hcl hck] at hr; cases hr

/-- ... and what it raises is a `ValueError` (never the `KeyError` of `SmartList.append`). -/
theorem merge_raise_is_value_error (cv : Conv V) (k : Bool) (r : Ref) (d s : Sec V) (e : Exc)
    (hwf : wfSec cv s = true) (hty : typedSec d = true)
    (hr : (merge cv k r d s).2 = .raised e) : e = .valueError := by
  cases hck : mergeCheck cv k d s with
  | raised e' =>
    have he' := mergeCheck_raised cv k s d e' hck
    rw [merge_of_check_raised cv k r d s e' hck] at hr
    cases hr; exact he'
  | ok =>
    cases hcl : typeClash d s with
    | true => rw [merge_of_clash cv k r d s hck hcl] at hr; cases hr; rfl
    | false => rw [merge_check_predicts cv k r d s hwf hty hcl hck] at hr; cases hr

/-- The name clash is refused up front: when the source has, anywhere in the pairs of Sections
    `merge` would visit, a sub-Section whose name the destination uses for a Section of another
    type, `merge` raises `ValueError` and nothing is changed — strict or not, no side condition. -/
theorem name_clash_raises (cv : Conv V) (k : Bool) (r : Ref) (d s : Sec V)
    (hcl : typeClash d s = true) : merge cv k r d s = (d, .raised .valueError) := by
  cases hck : mergeCheck cv k d s with
  | raised e' =>
    rw [merge_of_check_raised cv k r d s e' hck, mergeCheck_raised cv k s d e' hck]
  | ok => exact merge_of_clash cv k r d s hck hcl

/-- Exactly when `merge` raises: one of the two up-front checks refuses. -/
theorem merge_raises_iff (cv : Conv V) (k : Bool) (r : Ref) (d s : Sec V)
    (hwf : wfSec cv s = true) (hty : typedSec d = true) :
    (merge cv k r d s).2 = .raised .valueError ↔
      (mergeCheck cv k d s = .raised .valueError ∨ typeClash d s = true) := by
  constructor
  · intro hr
    cases hck : mergeCheck cv k d s with
    | raised e' => rw [mergeCheck_raised cv k s d e' hck]; exact Or.inl rfl
    | ok =>
      cases hcl : typeClash d s with
      | true => exact Or.inr rfl
      | false => rw [merge_check_predicts cv k r d s hwf hty hcl hck] at hr; cases hr
  · rintro (hck | hcl)
    · rw [merge_of_check_raised cv k r d s _ hck]
    · rw [name_clash_raises cv k r d s hcl]

/-! ### The witness of the former finding (values: the driver's instance `convC`) -/

def attrs0 (n t : Str) : SecAttrs :=
  { name := n, type := t, definition := none, reference := none, link := none, incl := none,
    merged := none }

/-- dest: one sub-Section `x` of type `t1` -/
def wDest : Sec Val := .mk (attrs0 ['d'] ['t']) [] [.mk (attrs0 ['x'] ['t', '1']) [] []]
/-- src: sub-Sections `w` (new) and `x` of type `t2` (same name, other type) -/
def wSrc : Sec Val :=
  .mk (attrs0 ['s'] ['t']) [] [.mk (attrs0 ['w'] ['t']) [] [], .mk (attrs0 ['x'] ['t', '2']) [] []]

/-- On the witness of the former finding `merge_check` still passes (as `test_merge_check`
    demands), the name check refuses, and `merge` leaves the destination alone: `w` is no longer
    appended before `x` is refused. -/
theorem name_clash_witness :
    mergeCheck convC true wDest wSrc = .ok ∧ typeClash wDest wSrc = true ∧
    merge convC true default wDest wSrc = (wDest, .raised .valueError) ∧
    merge convC false default wDest wSrc = (wDest, .raised .valueError) :=
  ⟨by decide, by decide, name_clash_raises convC true default wDest wSrc (by decide),
   name_clash_raises convC false default wDest wSrc (by decide)⟩

/-! ## 2. Strict conflicts -/

/-- In strict mode a conflict in dtype, unit, uncertainty, definition, reference or value origin
    between corresponding objects anywhere in the two trees makes `merge` raise `ValueError`,
    and nothing is changed. (No side condition at all.) -/
theorem strict_conflict_raises (cv : Conv V) (r : Ref) (d s : Sec V)
    (h : treeConflict d s = true) : merge cv true r d s = (d, .raised .valueError) := by
  have hck := mergeCheck_conflict cv d s h
  cases s with
  | mk sa sp ss => unfold merge; rw [hck]

/-- Lenient mode (`strict=False`) never refuses because of attributes: a Property pair is
    refused iff a value of the source cannot be converted to the destination's dtype. -/
theorem lenient_never_attr_conflict (cv : Conv V) (d s : PropT V) :
    propMergeCheck cv false d s = .ok ↔ validate cv d.dtype s.values = true := by
  unfold propMergeCheck
  by_cases h : validate cv d.dtype s.values = true <;> simp [h]

/-! ## 3. Complete -/

/-- After a successful merge the destination has, for every child of the source, a child of the
    same name (and type, for Sections), recursively. -/
theorem merge_complete (cv : Conv V) (k : Bool) (r : Ref) (d s : Sec V)
    (hwf : wfSec cv s = true) (hok : (merge cv k r d s).2 = .ok) :
    Covers (merge cv k r d s).1 s :=
  merge_covers cv k s r d hwf hok

/-- What exactly each child of the source turns into: the child `contains` finds is replaced by
    its own merge with the source child (which succeeded); a child that is not found is
    appended as a copy. This unfolds recursively through `merge` / `propMerge`. (The reference
    handed down carries the record flag in force at `d`, `Ref.eff`: nothing below a Section whose
    link or include is resolved is recorded.) -/
theorem merge_values_tree (cv : Conv V) (k : Bool) (r : Ref) (d s : Sec V)
    (hwf : wfSec cv s = true) (hok : (merge cv k r d s).2 = .ok) :
    (∀ o ∈ s.secs,
      (∀ mine, findSec d.secs o.name o.type = some mine →
        findSec (merge cv k r d s).1.secs o.name o.type =
          some (merge cv k ((r.eff d.attrs).child o.name) mine o).1 ∧
        (merge cv k ((r.eff d.attrs).child o.name) mine o).2 = .ok) ∧
      (findSec d.secs o.name o.type = none →
        findSec (merge cv k r d s).1.secs o.name o.type =
          some (cloneMerged ((r.eff d.attrs).child o.name) o))) ∧
    (∀ p ∈ s.props,
      (∀ mine, findProp d.props p.name = some mine →
        findProp (merge cv k r d s).1.props p.name = some (propMerge cv k mine p).1 ∧
        (propMerge cv k mine p).2 = .ok) ∧
      (findProp d.props p.name = none →
        findProp (merge cv k r d s).1.props p.name = some p)) := by
  have hsh := merge_ok_shape cv k r d s hok
  rw [hsh.2.2.2]
  cases s with
  | mk sa sp ss =>
    rw [wfSec_mk] at hwf
    simp only [Sec.props_mk, Sec.secs_mk] at hsh ⊢
    exact ⟨mergeSecs_result cv k ss (r.eff d.attrs) d.secs hwf.2.2 hsh.2.1,
           mergeProps_result cv k sp d.props hwf.1 hsh.2.2.1⟩

/-! ## 4. Values and attributes of merged Properties -/

/-- A merged Property keeps its own values, in place, and gains exactly the values of the
    source it lacked (`toAdd`: those not `==` to an own value), in the source's order, each
    converted to the Property's dtype. -/
theorem merge_values (cv : Conv V) (k : Bool) (d s d' : PropT V)
    (h : propMerge cv k d s = (d', .ok)) :
    ∃ ws, d'.values = d.values ++ ws ∧
      Forall2 (fun v w => cv.get d'.dtype v = some w) (toAdd cv d.values s.values) ws := by
  have := propMerge_spec cv k d s d' h
  exact ⟨_, this.1, validate_forall2 cv _ _ this.2.1⟩

/-- The dtype of a merged Property changes only when it had neither dtype nor values: then it
    is inferred from the first value of the source. -/
theorem merge_dtype (cv : Conv V) (k : Bool) (d s d' : PropT V)
    (h : propMerge cv k d s = (d', .ok)) :
    d'.dtype = d.dtype ∨
    (d.dtype = none ∧ d.values = [] ∧ ∃ v0 vs, s.values = v0 :: vs ∧ d'.dtype = some (cv.infer v0)) :=
  (propMerge_spec cv k d s d' h).2.2.1

/-- what filling an attribute means: a set one is kept, an unset one is taken from the source
    (an empty text counts as unset) -/
def Filled (own src res : Option Str) : Prop :=
  (∀ a, own = some a → res = some a) ∧
  (own = none → (∀ b, src = some b → b ≠ [] → res = some b) ∧ (src = none → res = none))

theorem filled_fillText (a b : Option Str) : Filled a b (fillText a b) := by
  constructor
  · intro x hx; subst hx; rfl
  · intro ha; subst ha
    refine ⟨fun x hx hne => ?_, fun hb => by subst hb; rfl⟩
    subst hx; exact fillText_none x hne

/-- Unset unit / definition / reference / value origin / uncertainty are filled from the
    source, set ones are kept; the name is kept. -/
theorem merge_attrs_fill_only (cv : Conv V) (k : Bool) (d s d' : PropT V)
    (h : propMerge cv k d s = (d', .ok)) :
    d'.name = d.name ∧ Filled d.unit s.unit d'.unit ∧ Filled d.definition s.definition d'.definition ∧
    Filled d.reference s.reference d'.reference ∧ Filled d.origin s.origin d'.origin ∧
    (∀ u, d.uncertainty = some u → d'.uncertainty = some u) ∧
    (d.uncertainty = none → d'.uncertainty = s.uncertainty) := by
  obtain ⟨_, _, _, hn, hu, hc, hd, hr, ho⟩ := propMerge_spec cv k d s d' h
  rw [hu, hd, hr, ho, hc]
  refine ⟨hn, filled_fillText _ _, filled_fillText _ _, filled_fillText _ _, filled_fillText _ _, ?_, ?_⟩
  · intro u hu'; rw [hu']; rfl
  · intro hu'; rw [hu']; rfl

/-- Section level: definition and reference are filled, name, type, link and include kept, and
    the Section remembers what it was merged with - unless its link or include is resolved: then
    it stays merged with the Section it refers to, and what is on record as filled in from that
    Section stays as it is (fix dccf4ba; `r.record`: the merge is one that is recorded, i.e. it was
    not reached from a resolved Section further up). -/
theorem merge_sec_attrs_fill_only (cv : Conv V) (k : Bool) (r : Ref) (d s : Sec V)
    (hok : (merge cv k r d s).2 = .ok) :
    let R := (merge cv k r d s).1
    R.name = d.name ∧ R.type = d.type ∧ R.attrs.link = d.attrs.link ∧ R.attrs.incl = d.attrs.incl ∧
    Filled d.attrs.definition s.attrs.definition R.attrs.definition ∧
    Filled d.attrs.reference s.attrs.reference R.attrs.reference ∧
    (r.record = true → d.attrs.resolved = false → R.attrs.merged = some r) ∧
    (d.attrs.resolved = true → R.attrs.merged = d.attrs.merged ∧
      R.attrs.filledDef = d.attrs.filledDef ∧ R.attrs.filledRef = d.attrs.filledRef) := by
  have hsh := merge_ok_shape cv k r d s hok
  simp only
  rw [hsh.2.2.2]
  refine ⟨rfl, rfl, rfl, rfl, filled_fillText _ _, filled_fillText _ _, ?_, ?_⟩
  · intro hr hd; simp [Ref.pick, Ref.eff, hr, hd]
  · intro hd; simp [Ref.pick, Ref.eff, hd]

/-! ## 5. Conservative (whatever the outcome) -/

/-- `merge` never changes name or type of the destination. -/
theorem merge_keeps_name_type (cv : Conv V) (k : Bool) (r : Ref) (d s : Sec V) :
    (merge cv k r d s).1.name = d.name ∧ (merge cv k r d s).1.type = d.type :=
  merge_name_type cv k r d s

/-- A sub-Section of the destination for which the source has no sub-Section of the same name
    and type is unchanged and stays at its position — even when the merge raises. -/
theorem merge_conservative_secs (cv : Conv V) (k : Bool) (r : Ref) (d s : Sec V) (i : Nat)
    (c : Sec V) (hi : d.secs[i]? = some c)
    (hl : ∀ o ∈ s.secs, ¬ (o.name = c.name ∧ o.type = c.type)) :
    (merge cv k r d s).1.secs[i]? = some c := by
  rcases (merge_lists cv k r d s).1 with h | h
  · rw [h]; exact hi
  · rw [h]; exact mergeSecs_keeps cv k s.secs (r.eff d.attrs) d.secs i c hi hl

/-- The same for Properties (matched by name). -/
theorem merge_conservative_props (cv : Conv V) (k : Bool) (r : Ref) (d s : Sec V) (i : Nat)
    (c : PropT V) (hi : d.props[i]? = some c) (hl : ∀ o ∈ s.props, o.name ≠ c.name) :
    (merge cv k r d s).1.props[i]? = some c := by
  rcases (merge_lists cv k r d s).2 with h | h
  · rw [h]; exact hi
  · rw [h]; exact mergeProps_keeps cv k s.props d.props i c hi hl

/-! ## 6. Property.merge on its own -/

/-- `Property.merge` is all-or-nothing: if it raises, the Property is unchanged. -/
theorem prop_merge_all_or_nothing (cv : Conv V) (k : Bool) (d s : PropT V) (e : Exc)
    (hty : typedProp d = true) (hh : propHomog cv s = true)
    (hr : (propMerge cv k d s).2 = .raised e) :
    (propMerge cv k d s).1 = d ∧ e = .valueError := by
  cases hck : propMergeCheck cv k d s with
  | ok => rw [propMerge_ok cv k d s hck hty hh] at hr; cases hr
  | raised e' =>
    have := propMergeCheck_raised cv k d s e' hck
    unfold propMerge at hr ⊢
    rw [hck] at hr ⊢
    cases hr
    exact ⟨rfl, this⟩

/-- Why `Property.merge` must not pass `strict=True` on to `extend` (the defect fixed on branch
    work-C13): for two `string` Properties the strict check passes, but a strict `extend`
    infers `text` from a value with a line break and refuses it. -/
theorem extend_strict_refuses_newline :
    let p : PropT Val := {
      name := ['b'], dtype := some .string, values := [.str ['x']],
      unit := none, uncertainty := none, definition := none, reference := none, origin := none }
    let q : PropT Val := { p with values := [.str ['l', '\n', 'm']] }
    propMergeCheck convC true p q = .ok ∧
    (extend convC p (toAdd convC p.values q.values) true).2 = .raised .valueError ∧
    (propMerge convC true p q).2 = .ok := by
  decide

/-! ## Hypotheses are satisfiable (non-trivial trees) -/

def pA : PropT Val := {
  name := ['a'], dtype := some .int, values := [.int 1, .int 2],
  unit := some ['m', 'V'], uncertainty := none, definition := none, reference := none, origin := none }
def pA' : PropT Val := {
  name := ['a'], dtype := some .float, values := [.flt 2, .flt 7],
  unit := none, uncertainty := some 1, definition := some ['D'], reference := none, origin := none }
def eDest : Sec Val :=
  .mk (attrs0 ['d'] ['t']) [pA] [.mk (attrs0 ['x'] ['t']) [pA] [], .mk (attrs0 ['y'] ['t']) [] []]
def eSrc : Sec Val :=
  .mk { attrs0 ['s'] ['t'] with definition := some ['D', 'e', 'f'] } [pA']
      [.mk (attrs0 ['x'] ['t']) [pA'] [], .mk (attrs0 ['z'] ['u']) [pA] []]

example : wfSec convC eSrc = true ∧ typedSec eDest = true ∧ typeClash eDest eSrc = false ∧
    mergeCheck convC false eDest eSrc = .ok ∧ (merge convC false default eDest eSrc).2 = .ok := by
  decide
example : treeConflict eDest eSrc = true ∧
    (merge convC true default eDest eSrc).2 = .raised .valueError := by decide
/-- the lenient merge converts `1.0 → 1` (already there) and `3.5 → 3` -/
example : ((propMerge convC false pA pA').1.values = [.int 1, .int 2, .int 3]) := by decide

end C13
