/-
C06 — A refused operation changes nothing.

Model: `Model/Heap.lean` — every structural operation follows the Python statement order and
returns the state *at the raise point*, so this is a theorem about the ordering of checks and
mutations in the code, not a by-construction fact. The cardinality part (C09 operations) is
`C09.set_refused_keeps`, re-exported here; the value-editing operations of C05 are covered by
`C05`'s own `refused_unchanged` theorem.
-/
import OdmlModel.Proofs.HeapStep
import OdmlModel.Props.C03
import OdmlModel.Props.C09

namespace C06
open Heap

/-- Full statement over the modelled structural operations: in every state any editing history
    can produce, an operation that raises leaves every object exactly as it was. -/
def Statement : Prop :=
  ∀ (ops : List Op) (op : Op) (e : Exc),
    (step (run empty ops) op).2 = .raised e → (step (run empty ops) op).1 = run empty ops

/-- One step: if the operation raises, the heap is unchanged - no object detached, attached,
    renamed or partially updated. -/
theorem refused_changes_nothing (h : H) (w : WF h) (op : Op) (e : Exc)
    (hr : (step h op).2 = .raised e) : (step h op).1 = h := by
  rcases step_spec w op with ⟨e', he⟩ | ⟨h', he, _⟩
  · rw [he]
  · rw [he] at hr; cases hr

/-- At any point of any editing history. -/
theorem refused_changes_nothing_anywhere : Statement := by
  intro ops op e hr
  exact refused_changes_nothing _ (C03.wf_reachable_partial ops) op e hr

/-- A constructor that raises has not added a half-constructed object to any parent: the heap,
    including the child lists of the intended parent, is exactly what it was. -/
theorem constructor_refused_adds_nothing (h : H) (w : WF h) (k : Kind) (name id : String)
    (parent : Option Nat) (argsOk : Bool) (e : Exc)
    (hr : (step h (.construct k name id parent argsOk)).2 = .raised e) :
    (step h (.construct k name id parent argsOk)).1 = h :=
  refused_changes_nothing h w _ e hr

/-- `extend` with a duplicate inside its argument, or any other refused entry, appends nothing. -/
theorem extend_all_or_nothing (h : H) (w : WF h) (p : Nat) (xs : List Nat) (e : Exc)
    (hr : (step h (.extend p xs)).2 = .raised e) : (step h (.extend p xs)).1 = h :=
  refused_changes_nothing h w _ e hr

/-- A refused cardinality assignment keeps the previous setting (C09 operations). -/
theorem cardinality_refused_keeps (old : Card.Card) (v : Card.In)
    (hr : Card.formatCard v = .valueError) : Card.setCard old v = (old, false) :=
  C09.set_refused_keeps old v hr

/-! ## Non-vacuity: refusals do occur in reachable states -/

/-- name clash at the destination -/
example : (step (run empty C03.demoOps) (.construct .sec "a" "i9" (some 0) true)).2
    = .raised .keyError := by decide
/-- duplicate inside an `extend` argument -/
example : (step (run empty (C03.demoOps.take 4)) (.extend 2 [3, 3])).2 = .raised .keyError := by
  decide
/-- invalid cardinality passed to a constructor with `parent=` -/
example : (step (run empty (C03.demoOps.take 4)) (.construct .prop "p" "i8" (some 1) false)).2
    = .raised .valueError := by decide

end C06
