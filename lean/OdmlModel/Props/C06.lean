/-
C06 — A refused operation changes nothing.

Model: `Model/Heap.lean` — every structural operation follows the Python statement order and
returns the state *at the raise point*, so this is a theorem about the ordering of checks and
mutations in the code, not a by-construction fact. The cardinality part (C09 operations) is
`C09.set_refused_keeps`, re-exported here; the value-editing operations of C05 are covered by
`C05`'s own `refused_unchanged` theorem.
-/
import OdmlModel.Proofs.HeapStep
import OdmlModel.Proofs.HeapExtRefuseLink
import OdmlModel.Props.C03
import OdmlModel.Props.C09

namespace C06
open Heap

/-- Full statement over the modelled structural operations: in every state any editing history
    can produce, an operation that raises leaves every object exactly as it was. -/
def Statement : Prop :=
  ∀ (ops : List Op) (op : Op) (e : Exc),
    (step (run empty ops) op).2 = .raised e → (step (run empty ops) op).1 = run empty ops

/-- One step: if the operation raises, the heap is unchanged - no object detached, attached,
    renamed or partially updated. -/
theorem refused_changes_nothing (h : H) (w : WF h) (op : Op) (e : Exc)
    (hr : (step h op).2 = .raised e) : (step h op).1 = h := by
  rcases step_spec w op with ⟨e', he⟩ | ⟨h', he, _⟩
  · rw [he]
  · rw [he] at hr; cases hr

/-- At any point of any editing history. -/
theorem refused_changes_nothing_anywhere : Statement := by
  intro ops op e hr
  exact refused_changes_nothing _ (C03.wf_reachable_partial ops) op e hr

/-- A constructor that raises has not added a half-constructed object to any parent: the heap,
    including the child lists of the intended parent, is exactly what it was. -/
theorem constructor_refused_adds_nothing (h : H) (w : WF h) (k : Kind) (name id : String)
    (parent : Option Nat) (argsOk : Bool) (e : Exc)
    (hr : (step h (.construct k name id parent argsOk)).2 = .raised e) :
    (step h (.construct k name id parent argsOk)).1 = h :=
  refused_changes_nothing h w _ e hr

/-- `extend` with a duplicate inside its argument, or any other refused entry, appends nothing. -/
theorem extend_all_or_nothing (h : H) (w : WF h) (p : Nat) (xs : List Nat) (e : Exc)
    (hr : (step h (.extend p xs)).2 = .raised e) : (step h (.extend p xs)).1 = h :=
  refused_changes_nothing h w _ e hr

/-- A refused cardinality assignment keeps the previous setting (C09 operations). -/
theorem cardinality_refused_keeps (old : Card.Card) (v : Card.In)
    (hr : Card.formatCard v = .valueError) : Card.setCard old v = (old, false) :=
  C09.set_refused_keeps old v hr

/-! ## Compound operations: merge and the link setter (`Model/HeapExt.lean`)

`stepX` is one operation of a history over the extended operation set; the state is the heap
together with the `_merged` and `_link` attributes of the Sections (`X`; its fourth component
`orig` is scratch space of one operation and is reset by `stepX`, `X.start`). -/

/-- The documents involved are exactly as they were: every object (kind, name, id, parent, both
    child lists), the set of allocated objects, and the `_merged` / `_link` attributes. -/
def Unchanged (s s' : X) : Prop := s'.h = s.h ∧ s'.merged = s.merged ∧ s'.link = s.link

theorem unchanged_start (s : X) : Unchanged s s.start := ⟨rfl, rfl, rfl⟩

/-- The refusals of `dest.merge(src)` raised before anything is touched: a handle that is no
    object / an object that is not a Section (`hbad`), `merge_check` (attribute or Property clash
    somewhere below, `some false`), `_merge_name_check` (a Section of the source would be added
    under a name the destination already uses). -/
def MergeRefusedUpFront (O : Oracle) (fuel : Nat) (s : X) (dest src : Nat) : Prop :=
  ¬ (dest < s.h.size ∧ src < s.h.size ∧ (s.h.node dest).kind = .sec ∧ (s.h.node src).kind = .sec) ∨
  mergeCheck O fuel s.start dest src = some false ∨
  (mergeCheck O fuel s.start dest src = some true ∧ nameCheck O fuel s.start dest src = some false)

/-- (1) for merge, in *every* state: a merge refused by a pre-check raises and leaves the heap and
    the `_merged` / `_link` bookkeeping exactly as they were. -/
theorem merge_refused_up_front_changes_nothing (fuel : Nat) (s : X) (O : Oracle) (dest src : Nat)
    (hpre : MergeRefusedUpFront O fuel s dest src) :
    (∃ e, (stepX (fuel + 1) s O (.merge dest src)).2 = .raised e) ∧
    Unchanged s (stepX (fuel + 1) s O (.merge dest src)).1 := by
  by_cases hok : dest < s.h.size ∧ src < s.h.size ∧ (s.h.node dest).kind = .sec ∧
      (s.h.node src).kind = .sec
  · rw [Refuse.stepX_merge_eq _ _ _ _ _ hok.1 hok.2.1 hok.2.2.1 hok.2.2.2]
    unfold mergePub
    rcases hpre with h | h | ⟨h1, h2⟩
    · exact absurd hok h
    · rw [Refuse.mergeAux_check_refused _ _ _ _ _ _ h]; exact ⟨⟨_, rfl⟩, unchanged_start s⟩
    · rw [Refuse.mergeAux_name_refused _ _ _ _ _ _ h1 h2]; exact ⟨⟨_, rfl⟩, unchanged_start s⟩
  · obtain ⟨e, he⟩ := Refuse.stepX_merge_bad_args (fuel + 1) s O dest src hok
    rw [he]; exact ⟨⟨e, rfl⟩, unchanged_start s⟩

/-- (1) for the link setter, unresolvable path (`get_section_by_path` raises), wrong kind of
    object, no object: whenever `x.link = <path that finds nothing>` raises, nothing has changed -
    in every state. (On a Section without parent the assignment only stores the text and does
    not raise.) -/
theorem link_unresolvable_changes_nothing (fuel : Nat) (s : X) (O : Oracle) (x : Nat) (e : Exc)
    (hr : (stepX fuel s O (.setLink x (.path none))).2 = .raised e) :
    Unchanged s (stepX fuel s O (.setLink x (.path none))).1 := by
  by_cases hok : (∀ i ∈ (XOp.setLink x (.path none)).handles, i < s.h.size) ∧
      (s.h.node x).kind = .sec
  · rw [Refuse.stepX_setLink_eq _ _ _ _ _ hok.1 hok.2] at hr ⊢
    unfold setLinkAux at hr ⊢
    split
    · rename_i hp; rw [hp] at hr; cases hr
    · exact unchanged_start s
  · obtain ⟨e', he⟩ := Refuse.stepX_setLink_bad_args fuel s O x (.path none) hok
    rw [he]; exact unchanged_start s

/-- ... and on an attached Section it does raise. -/
theorem link_unresolvable_raises (fuel : Nat) (s : X) (O : Oracle) (x : Nat)
    (hp : (s.h.node x).parent ≠ none) :
    ∃ e, stepX fuel s O (.setLink x (.path none)) = (s.start, .raised e) := by
  by_cases hok : (∀ i ∈ (XOp.setLink x (.path none)).handles, i < s.h.size) ∧
      (s.h.node x).kind = .sec
  · rw [Refuse.stepX_setLink_eq _ _ _ _ _ hok.1 hok.2]
    unfold setLinkAux
    split
    · rename_i h; exact absurd h hp
    · exact ⟨_, rfl⟩
  · exact Refuse.stepX_setLink_bad_args fuel s O x (.path none) hok

/-- (1) for the link setter, target refused by a pre-check of the merge: on a Section that has no
    link yet, `x.link = <path of t>` raises ValueError and nothing has changed. -/
theorem link_refused_up_front_changes_nothing (fuel : Nat) (s : X) (O : Oracle) (x t : Nat)
    (hx : x < s.h.size) (ht : t < s.h.size) (hk : (s.h.node x).kind = .sec)
    (hp : (s.h.node x).parent ≠ none) (hl : s.link x = false)
    (hpre : mergeCheck O fuel s.start x t = some false ∨
      (mergeCheck O fuel s.start x t = some true ∧ nameCheck O fuel s.start x t = some false)) :
    stepX (fuel + 1) s O (.setLink x (.path (some t))) = (s.start, .raised .valueError) := by
  rw [Refuse.stepX_setLink_eq _ _ _ _ _ (by
    intro i hi; simp [XOp.handles] at hi; rcases hi with rfl | rfl <;> assumption) hk]
  have hm : mergeAux O (fuel + 1) s.start true x t = (s.start, .raised .valueError) := by
    rcases hpre with h | ⟨h1, h2⟩
    · exact Refuse.mergeAux_check_refused _ _ _ _ _ _ h
    · exact Refuse.mergeAux_name_refused _ _ _ _ _ _ h1 h2
  have hc : cleanIfLinked O (fuel + 1) s.start x = (s.start, .ok) := by
    unfold cleanIfLinked; simp [hl]
  have hres : s.start.resolved x = false := by simp [X.resolved, hl]
  exact C03.stored_link_not_reassigned O (fuel + 1) s.start s.start s.start x t _ hp hres hc hm
    (by decide)

/-! ### All-or-nothing: a compound operation is refused by a pre-check or completes

Hypotheses, all about the state the operation starts from:
* `WF s.h` - the invariant of C03, which every history over the extended operation set keeps
  (`C03.wf_reachable`); it contains the uniqueness of sibling names (C04);
* `NoEmptyName s.h` - no object has the empty name (decidable; names fall back to the id, a
  rendered UUID: `C04.names_never_empty` for histories whose ids are not empty);
* neither of the two Sections lies inside the other, in the words of the library:
  `_check_no_cycle` answers "no" in both directions (`cycleCheck … = false`, decidable).
  (A merge of a Section with one of its own descendants re-reads, in its later loops, lists it
  has itself extended; for those the checks made up front say nothing.) -/

/-- (2) for merge, the statement of C06 for it: a `dest.merge(src)` that raises - whatever it
    raises, whatever the oracle answers, whatever the budget - has left the heap and the
    `_merged` / `_link` bookkeeping exactly as they were. In particular the clone-and-append
    loops never raise half-way (no KeyError of `append`, no ValueError of a `merge_check` or
    `Property.merge` deeper down). -/
theorem merge_all_or_nothing (fuel : Nat) (s : X) (O : Oracle) (dest src : Nat)
    (w : WF s.h) (hn : Refuse.NoEmptyName s.h)
    (h1 : cycleCheck s.h dest src = false) (h2 : cycleCheck s.h src dest = false) (e : Exc)
    (hr : (stepX fuel s O (.merge dest src)).2 = .raised e) :
    Unchanged s (stepX fuel s O (.merge dest src)).1 := by
  by_cases hok : dest < s.h.size ∧ src < s.h.size ∧ (s.h.node dest).kind = .sec ∧
      (s.h.node src).kind = .sec
  · rw [Refuse.stepX_merge_eq _ _ _ _ _ hok.1 hok.2.1 hok.2.2.1 hok.2.2.2] at hr ⊢
    unfold mergePub at hr ⊢
    rw [Refuse.mergeAux_all_or_nothing O fuel s.start _ dest src w hn hok.2.2.1 hok.2.2.2
      (meetsUp_false w h2) (meetsUp_false w h1) e hr]
    exact unchanged_start s
  · obtain ⟨e', he⟩ := Refuse.stepX_merge_bad_args fuel s O dest src hok
    rw [he]; exact unchanged_start s

/-- ... and it raises exactly when one of the pre-checks refuses it (cf. `C13.merge_raises_iff`
    for the tree model). -/
theorem merge_raises_iff (fuel : Nat) (s : X) (O : Oracle) (dest src : Nat)
    (w : WF s.h) (hn : Refuse.NoEmptyName s.h)
    (h1 : cycleCheck s.h dest src = false) (h2 : cycleCheck s.h src dest = false) :
    (∃ e, (stepX (fuel + 1) s O (.merge dest src)).2 = .raised e) ↔
      MergeRefusedUpFront O fuel s dest src := by
  constructor
  · intro ⟨e, hr⟩
    by_cases hok : dest < s.h.size ∧ src < s.h.size ∧ (s.h.node dest).kind = .sec ∧
        (s.h.node src).kind = .sec
    · rw [Refuse.stepX_merge_eq _ _ _ _ _ hok.1 hok.2.1 hok.2.2.1 hok.2.2.2] at hr
      unfold mergePub at hr
      cases hc : mergeCheck O fuel s.start dest src with
      | none => rw [Refuse.mergeAux_check_fuel _ _ _ _ _ _ hc] at hr; cases hr
      | some b =>
        cases b with
        | false => exact Or.inr (Or.inl hc)
        | true =>
          cases hnc : nameCheck O fuel s.start dest src with
          | none => rw [Refuse.mergeAux_name_fuel _ _ _ _ _ _ hc hnc] at hr; cases hr
          | some b' =>
            cases b' with
            | false => exact Or.inr (Or.inr ⟨hc, hnc⟩)
            | true =>
              rcases Refuse.mergeAux_no_raise O fuel s.start (!s.start.resolved dest) dest src w hn
                hok.2.2.1 hok.2.2.2 (meetsUp_false w h2) (meetsUp_false w h1) hc hnc with h | h
              · rw [h] at hr; cases hr
              · rw [h] at hr; cases hr
    · exact Or.inl hok
  · intro hpre
    exact (merge_refused_up_front_changes_nothing fuel s O dest src hpre).1

/-- `clone` never raises (the TypeError for a handle that is no object apart), so it has nothing
    to leave half-done. -/
theorem clone_refused_changes_nothing (fuel : Nat) (s : X) (O : Oracle) (x : Nat) (ch kid : Bool)
    (w : WF s.h) (hn : Refuse.NoEmptyName s.h) (e : Exc)
    (hr : (stepX fuel s O (.clone x ch kid)).2 = .raised e) :
    Unchanged s (stepX fuel s O (.clone x ch kid)).1 := by
  unfold stepX at hr ⊢
  simp only at hr ⊢
  split
  · exact unchanged_start s
  · rename_i hg
    rw [if_neg hg] at hr
    have hx : x < s.h.size := by
      rcases Nat.lt_or_ge x s.h.size with h | h
      · exact h
      · exfalso; apply hg; simp [XOp.handles, h]
    have := (Refuse.cloneAux_full O fuel { s with orig := id } x ch kid w hn hx).out
    generalize cloneAux O fuel { s with orig := id } x ch kid = r at this hr
    obtain ⟨s1, c, o⟩ := r
    simp only at this hr
    rcases this with h | h <;> rw [h] at hr <;> cases hr

/-- (2) for the link setter (fixes 06cfd75, 592a7e3: "ValueError and the state as before the
    assignment"): `x.link = <path of t>` that raises has changed nothing - on a Section that has
    no link yet, and in every state in which no Section is merged (links at most stored). -/
theorem link_all_or_nothing (fuel : Nat) (s : X) (O : Oracle) (x t : Nat)
    (w : WF s.h) (hn : Refuse.NoEmptyName s.h) (kt : (s.h.node t).kind = .sec)
    (h1 : cycleCheck s.h x t = false) (h2 : cycleCheck s.h t x = false)
    (hclean : s.link x = false ∨ ∀ i, i < s.h.size → s.merged i = none) (e : Exc)
    (hr : (stepX fuel s O (.setLink x (.path (some t)))).2 = .raised e) :
    Unchanged s (stepX fuel s O (.setLink x (.path (some t)))).1 := by
  by_cases hok : (∀ i ∈ (XOp.setLink x (.path (some t))).handles, i < s.h.size) ∧
      (s.h.node x).kind = .sec
  · rw [Refuse.stepX_setLink_eq _ _ _ _ _ hok.1 hok.2] at hr ⊢
    rw [Refuse.setLinkAux_all_or_nothing O fuel s.start x t w hn
      (hok.1 x (by simp [XOp.handles])) hok.2 kt (meetsUp_false w h2) (meetsUp_false w h1)
      hclean e hr]
    exact unchanged_start s
  · obtain ⟨e', he⟩ := Refuse.stepX_setLink_bad_args fuel s O x _ hok
    rw [he]; exact unchanged_start s

/-- The same at any point of any history over the extended operation set (`WF` is then a
    theorem, `C03.wf_reachable`). -/
theorem merge_all_or_nothing_anywhere (fuel fuel' : Nat) (ops : List (Oracle × XOp)) (O : Oracle)
    (dest src : Nat) (hn : Refuse.NoEmptyName (runX fuel' X.empty ops).h)
    (h1 : cycleCheck (runX fuel' X.empty ops).h dest src = false)
    (h2 : cycleCheck (runX fuel' X.empty ops).h src dest = false) (e : Exc)
    (hr : (stepX fuel (runX fuel' X.empty ops) O (.merge dest src)).2 = .raised e) :
    Unchanged (runX fuel' X.empty ops) (stepX fuel (runX fuel' X.empty ops) O (.merge dest src)).1 :=
  merge_all_or_nothing fuel _ O dest src (C03.wf_reachable fuel' ops) hn h1 h2 e hr

/-- The operations of the extended set for which "raises ⇒ nothing changed" is proved, with the
    side conditions of the theorems above (`clean`, and `link = None` / `""`, which clean, can
    raise after they have detached copies: not covered). -/
def Covered (s : X) : XOp → Prop
  | .prim _ => True
  | .clone _ _ _ => True
  | .merge dest src => cycleCheck s.h dest src = false ∧ cycleCheck s.h src dest = false
  | .setLink _ (.path none) => True
  | .setLink x (.path (some t)) =>
      (s.h.node t).kind = .sec ∧ cycleCheck s.h x t = false ∧ cycleCheck s.h t x = false ∧
      (s.link x = false ∨ ∀ i, i < s.h.size → s.merged i = none)
  | .setLink _ _ => False
  | .clean _ => False

/-- C06 over the extended operation set, in one statement: a covered operation - primitive or
    compound - that raises has left the heap and the `_merged` / `_link` attributes exactly as
    they were. -/
theorem refused_compound_changes_nothing (fuel : Nat) (s : X) (O : Oracle) (op : XOp)
    (w : WF s.h) (hn : Refuse.NoEmptyName s.h) (hc : Covered s op) (e : Exc)
    (hr : (stepX fuel s O op).2 = .raised e) : Unchanged s (stepX fuel s O op).1 := by
  cases op with
  | prim p =>
    unfold stepX at hr ⊢
    simp only at hr ⊢
    split
    · exact unchanged_start s
    · rename_i hg
      rw [if_neg hg] at hr
      have hr' : (step s.h p).2 = .raised e := by
        have : XOut.ofOutcome (step s.h p).2 = .raised e := hr
        cases h : (step s.h p).2 with
        | ok => rw [h] at this; cases this
        | raised e' => rw [h] at this; cases this; rfl
      exact ⟨refused_changes_nothing s.h w p e hr', rfl, rfl⟩
  | clone x ch kid => exact clone_refused_changes_nothing fuel s O x ch kid w hn e hr
  | merge dest src => exact merge_all_or_nothing fuel s O dest src w hn hc.1 hc.2 e hr
  | setLink x v =>
    cases v with
    | none => exact absurd hc (by simp [Covered])
    | falsy => exact absurd hc (by simp [Covered])
    | path t =>
      cases t with
      | none => exact link_unresolvable_changes_nothing fuel s O x e hr
      | some t => exact link_all_or_nothing fuel s O x t w hn hc.1 hc.2.1 hc.2.2.1 hc.2.2.2 e hr
  | clean x => exact absurd hc (by simp [Covered])

/-! ### Non-vacuity of the compound part -/

/-- Section 4 has another type than the rest -/
def demoOracleTyped : Oracle := { C03.demoOracle with ty := fun i => if i = 4 then "u" else "t" }

/-- doc(0) / a(1) / x(3) and doc / b(2) / x(4), the second `x` of another type -/
def demoClash : X := runX 10 X.empty [
  (demoOracleTyped, .prim (.construct .doc "" "d" none true)),
  (demoOracleTyped, .prim (.construct .sec "a" "i1" (some 0) true)),
  (demoOracleTyped, .prim (.construct .sec "b" "i2" (some 0) true)),
  (demoOracleTyped, .prim (.construct .sec "x" "i3" (some 1) true)),
  (demoOracleTyped, .prim (.construct .sec "x" "i4" (some 2) true))]

/-- the hypotheses of the all-or-nothing theorems hold there ... -/
example : Refuse.NoEmptyName demoClash.h ∧ cycleCheck demoClash.h 2 1 = false ∧
    cycleCheck demoClash.h 1 2 = false ∧ (∀ i, i < demoClash.h.size → demoClash.merged i = none) := by
  decide
example : WF demoClash.h := C03.wf_reachable 10 _
/-- ... `b.merge(a)` is refused by `_merge_name_check` (b has an `x` of another type) ... -/
example : mergeCheck demoOracleTyped 9 demoClash.start 2 1 = some true ∧
    nameCheck demoOracleTyped 9 demoClash.start 2 1 = some false ∧
    (stepX 10 demoClash demoOracleTyped (.merge 2 1)).2 = .raised .valueError := by decide
/-- ... so is `b.link = <path of a>`; with an oracle that sees one type, both go through ... -/
example : (stepX 10 demoClash demoOracleTyped (.setLink 2 (.path (some 1)))).2 =
    .raised .valueError := by decide
example : (stepX 10 demoClash C03.demoOracle (.merge 2 1)).2 = .ok ∧
    (stepX 10 demoClash C03.demoOracle (.setLink 2 (.path (some 1)))).2 = .ok := by decide
/-- ... and a merge with a Section inside the destination is outside the hypotheses. -/
example : cycleCheck demoClash.h 3 1 = true := by decide

/-! ## Non-vacuity: refusals do occur in reachable states -/

/-- name clash at the destination -/
example : (step (run empty C03.demoOps) (.construct .sec "a" "i9" (some 0) true)).2
    = .raised .keyError := by decide
/-- duplicate inside an `extend` argument -/
example : (step (run empty (C03.demoOps.take 4)) (.extend 2 [3, 3])).2 = .raised .keyError := by
  decide
/-- invalid cardinality passed to a constructor with `parent=` -/
example : (step (run empty (C03.demoOps.take 4)) (.construct .prop "p" "i8" (some 1) false)).2
    = .raised .valueError := by decide

end C06
