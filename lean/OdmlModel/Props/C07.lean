/-
C07 — Save never writes an invalid document and a failed save harms no file.

  "A document with at least one validation error is never written: save raises ParserException
   for every output format. Whenever a save raises, for whatever reason, no file is created and
   a file already present at the target path keeps its previous content; a document with
   warnings only is written and the warnings are reported."

Property theorems only; helper lemmas are in `Proofs/FS.lean`.
Model: `Model/FS.lean` (tied to the repository by `harness/c07.py`).

Every theorem is stated for an arbitrary document type `Doc` and an arbitrary environment
`env : Env Doc` — the validation, the renderers of all backends, the XML decoration, `open`
and the warnings filter are arbitrary functions that may fail — so "for whatever reason" is
literally a universal quantifier.
-/
import OdmlModel.Model.FS
import OdmlModel.Proofs.FS
import OdmlModel.Proofs.Uuid
import OdmlModel.Generated.ValidationTables
import OdmlModel.Generated.MiscTables

set_option linter.unusedSimpArgs false
set_option linter.unusedVariables false

namespace C07
open FS

/-- The public ways of writing a document to a file. -/
inductive Entry where
  | fileio (backend : List Char) (rdfFormat : Option (List Char))     -- odml.save(doc, path, backend, rdf_format=…)
  | odmlWriter (b : Backend) (rdfFormat : Option (List Char))          -- ODMLWriter(b).write_file(doc, path, …)
  | xmlWriter                                                           -- XMLWriter(doc).write_file(path, …)
  | rdfWriter (fmt : List Char)                                         -- RDFWriter(doc).write_file(path, fmt)

def Entry.run {Doc} (env : Env Doc) : Entry → Doc → Path → Fs → Fs × Outcome
  | .fileio backend f, d, p, fs => fileioSave env backend f d p fs
  | .odmlWriter b f, d, p, fs => odmlWriterWriteFile env b f d p fs
  | .xmlWriter, d, p, fs => xmlWriterWriteFile env d p fs
  | .rdfWriter fmt, d, p, fs => rdfWriterWriteFile env fmt d p fs

/-- The one path an entry point may write to. -/
def Entry.target : Entry → Path → Path
  | .fileio backend _, p => savePath p backend
  | .odmlWriter _ _, p => p
  | .xmlWriter, p => p
  | .rdfWriter fmt, p => rdfTarget fmt p

/-! ## 1. An invalid document is never written -/

/-- `ODMLWriter(b).write_file`: a document with at least one validation error is refused with
    `ParserException`, for every backend (and RDF sub-format), every target and every state of
    the file system — which is returned untouched. -/
theorem invalid_never_written {Doc} (env : Env Doc) (d : Doc) (issues : List Rank)
    (hv : env.validate d = .ok issues) (he : hasError issues = true)
    (b : Backend) (f : Option (List Char)) (p : Path) (fs : Fs) :
    odmlWriterWriteFile env b f d p fs = (fs, .raised .parserException) := by
  simp [odmlWriterWriteFile, gate, hv, he]

/-- The same through `odml.save`, for every backend name that `ODMLWriter` accepts. -/
theorem invalid_never_written_save {Doc} (env : Env Doc) (d : Doc) (issues : List Rank)
    (hv : env.validate d = .ok issues) (he : hasError issues = true)
    (backend : List Char) (hb : (parseBackend backend).isSome = true)
    (f : Option (List Char)) (p : Path) (fs : Fs) :
    fileioSave env backend f d p fs = (fs, .raised .parserException) := by
  unfold fileioSave
  cases hp : parseBackend backend with
  | none => simp [hp] at hb
  | some b => exact invalid_never_written env d issues hv he b f _ fs

/-- The rules by which the property's three ways of being invalid are detected
    (missing Section type, duplicate ids, duplicate sibling names) are registered for documents /
    sections in the table regenerated from `Validation._handlers`, and none of them can yield a
    mere warning (regenerated from the source of each rule). -/
theorem blocking_rules_rank_error :
    (∀ r ∈ ["object_required_attributes", "document_unique_ids", "section_unique_name_type",
            "property_unique_names"],
        (Gen.Validation.handlers.any (fun e => e.2.contains r)) = true ∧
        ((Gen.Validation.ranks.find? (fun e => e.1 == r)).map
            (fun e => e.2.contains "LABEL_WARNING")) = some false) ∧
    Gen.Validation.labelError = "error" := by
  decide

example : hasError [.warning, .error] = true := by decide

/-! ## 2. A failed save harms no file -/

/-- **Whenever a save raises, for whatever reason, the file system is exactly as before**:
    all four entry points, any backend, any document, any target, any failure of validation,
    rendering, decoration, warning or `open`. -/
theorem failed_save_frame {Doc} (env : Env Doc) (ep : Entry) (d : Doc) (p : Path) (fs : Fs)
    (e : Exc) (h : (ep.run env d p fs).2 = .raised e) : (ep.run env d p fs).1 = fs := by
  cases ep with
  | odmlWriter b f =>
    simp only [Entry.run] at h ⊢
    cases hw : wouldWrite env b f d p with
    | none =>
      obtain ⟨e', he'⟩ := odml_of_wouldWrite_none env b f d p fs hw
      rw [he']
    | some tw =>
      obtain ⟨t, w⟩ := tw
      rw [odml_of_wouldWrite_some env b f d p fs t w hw] at h
      cases h
  | fileio backend f =>
    simp only [Entry.run, fileioSave] at h ⊢
    cases hp : parseBackend backend with
    | none => rfl
    | some b =>
      simp only [hp] at h ⊢
      cases hw : wouldWrite env b f d (savePath p backend) with
      | none =>
        obtain ⟨e', he'⟩ := odml_of_wouldWrite_none env b f d _ fs hw
        rw [he']
      | some tw =>
        obtain ⟨t, w⟩ := tw
        rw [odml_of_wouldWrite_some env b f d _ fs t w hw] at h
        cases h
  | xmlWriter =>
    simp only [Entry.run, xml_spec] at h ⊢
    cases hx : xmlText env d with
    | error e' => rfl
    | ok text =>
      simp only [hx] at h ⊢
      by_cases hc : env.canOpen p = true
      · simp [hc] at h
      · simp [hc]
  | rdfWriter fmt =>
    simp only [Entry.run, rdfw_spec] at h ⊢
    cases hx : getRdfStr env fmt d with
    | error e' => rfl
    | ok data =>
      simp only [hx] at h ⊢
      cases hext : rdfExt fmt with
      | none => rfl
      | some ext =>
        simp only [hext] at h ⊢
        by_cases hc : env.canOpen (rdfTarget fmt p) = true
        · simp [hc] at h
        · simp [hc]

/-- In the words of the property: no file is created … -/
theorem failed_save_creates_no_file {Doc} (env : Env Doc) (ep : Entry) (d : Doc) (p : Path)
    (fs : Fs) (e : Exc) (h : (ep.run env d p fs).2 = .raised e) (q : Path) (hq : fs q = none) :
    (ep.run env d p fs).1 q = none := by
  rw [failed_save_frame env ep d p fs e h]; exact hq

/-- … and a file already present (the target or any other) keeps its previous content. -/
theorem failed_save_keeps_content {Doc} (env : Env Doc) (ep : Entry) (d : Doc) (p : Path)
    (fs : Fs) (e : Exc) (h : (ep.run env d p fs).2 = .raised e) (q : Path) (old : Bytes)
    (hq : fs q = some old) : (ep.run env d p fs).1 q = some old := by
  rw [failed_save_frame env ep d p fs e h]; exact hq

/-- Whatever the outcome, a save touches at most its one target path. -/
theorem save_touches_only_target {Doc} (env : Env Doc) (ep : Entry) (d : Doc) (p : Path)
    (fs : Fs) (q : Path) (hq : q ≠ ep.target p) : (ep.run env d p fs).1 q = fs q := by
  cases ep with
  | odmlWriter b f =>
    simp only [Entry.run, Entry.target] at hq ⊢
    cases hw : wouldWrite env b f d p with
    | none =>
      obtain ⟨e', he'⟩ := odml_of_wouldWrite_none env b f d p fs hw
      rw [he']
    | some tw =>
      obtain ⟨t, w⟩ := tw
      rw [odml_of_wouldWrite_some env b f d p fs t w hw]
      exact write_other fs p q t hq
  | fileio backend f =>
    simp only [Entry.run, Entry.target, fileioSave] at hq ⊢
    cases hp : parseBackend backend with
    | none => rfl
    | some b =>
      simp only []
      cases hw : wouldWrite env b f d (savePath p backend) with
      | none =>
        obtain ⟨e', he'⟩ := odml_of_wouldWrite_none env b f d _ fs hw
        rw [he']
      | some tw =>
        obtain ⟨t, w⟩ := tw
        rw [odml_of_wouldWrite_some env b f d _ fs t w hw]
        exact write_other fs _ q t hq
  | xmlWriter =>
    simp only [Entry.run, Entry.target, xml_spec] at hq ⊢
    cases hx : xmlText env d with
    | error e' => rfl
    | ok text =>
      simp only []
      by_cases hc : env.canOpen p = true
      · simp only [hc, if_true]; exact write_other fs p q text hq
      · simp [hc]
  | rdfWriter fmt =>
    simp only [Entry.run, Entry.target, rdfw_spec] at hq ⊢
    cases hx : getRdfStr env fmt d with
    | error e' => rfl
    | ok data =>
      simp only []
      cases hext : rdfExt fmt with
      | none => rfl
      | some ext =>
        simp only []
        by_cases hc : env.canOpen (rdfTarget fmt p) = true
        · simp only [hc, if_true]; exact write_other fs _ q data hq
        · simp [hc]

/-- The causes of failure the property lists, as instances of the frame theorem:
    an RDF format outside `RDF_CONVERSION_FORMATS` is refused with `ValueError` before anything is
    opened (checked against the regenerated table), whatever rdflib would have done. -/
theorem unsupported_rdf_format_refused {Doc} (env : Env Doc) (d : Doc) (fmt : List Char)
    (hf : rdfFormatKnown fmt = false) (w : Bool) (hg : gate env d = .ok w) (p : Path) (fs : Fs) :
    odmlWriterWriteFile env .rdf (some fmt) d p fs = (fs, .raised .valueError) ∧
    rdfWriterWriteFile env fmt d p fs = (fs, .raised .valueError) := by
  constructor
  · simp [odmlWriterWriteFile, hg, toStr, getRdfStr, hf]
  · simp [rdfWriterWriteFile, getRdfStr, hf]

/-- A renderer that raises `e` (text XML cannot hold, an attribute object json cannot encode, a
    serializer plug-in that refuses the graph, …) makes the save raise the same `e`; nothing is
    opened. -/
theorem render_failure_propagates {Doc} (env : Env Doc) (d : Doc) (b : Backend)
    (f : Option (List Char)) (w : Bool) (hg : gate env d = .ok w) (e : Exc)
    (hr : textOf env b f d = .error e) (p : Path) (fs : Fs) :
    odmlWriterWriteFile env b f d p fs = (fs, .raised e) := by
  rw [odml_spec]; simp [hg, hr]

/-- The sub-formats the property names, the default of `to_string`, and all the others are in
    the regenerated table, each with a file extension; a made-up name is not. -/
theorem rdf_format_table :
    (∀ fmt ∈ ["xml", "turtle", "nt", "json-ld", "n3", "pretty-xml", "trix", "ttl", "ntriples",
              "nt11", "trig"], rdfFormatKnown fmt.toList = true) ∧
    rdfFormatKnown "bogus".toList = false ∧
    Gen.Misc.rdfFormats.all (fun e => !e.2.isEmpty) = true := by
  decide

/-- After the format check, `RDF_CONVERSION_FORMATS.get(fmt)` is never `None`. -/
theorem rdf_ext_defined (fmt : List Char) (h : rdfFormatKnown fmt = true) :
    (rdfExt fmt).isSome = true := rdfExt_of_known fmt h

/-- `ODMLWriter` accepts exactly the four backends of SUPPORTED_PARSERS (in any letter case),
    and each backend is reachable. -/
theorem supported_backends :
    Gen.Misc.supportedParsers.map (fun s => parseBackend s.toList) =
      [some .xml, some .yaml, some .json, some .rdf] ∧
    parseBackend "xml".toList = some .xml ∧ parseBackend "Json".toList = some .json ∧
    parseBackend "odml".toList = none := by
  decide

/-! ## 3. A document with warnings only is written, and the warnings are reported -/

/-- No error-rank issue, the text can be computed and the target opened (and warnings are not
    configured to raise): the target then holds exactly the rendered text, every other path is
    as before, and the outcome says whether a warning was issued — it was iff there is an issue. -/
theorem warnings_only_written {Doc} (env : Env Doc) (d : Doc) (issues : List Rank)
    (hv : env.validate d = .ok issues) (he : hasError issues = false)
    (hw : (!issues.isEmpty && env.warnRaises) = false)
    (b : Backend) (f : Option (List Char)) (text : Bytes) (ht : textOf env b f d = .ok text)
    (p : Path) (hc : env.canOpen p = true) (fs : Fs) :
    odmlWriterWriteFile env b f d p fs = (fs.write p text, .ok (!issues.isEmpty)) := by
  rw [odml_spec]
  simp [gate, hv, he, hw, ht, hc]

/-- Exactly when is a save successful: iff every step succeeds (`wouldWrite`, which knows nothing
    about the order of effects); and then the file holds that text. -/
theorem save_ok_iff {Doc} (env : Env Doc) (b : Backend) (f : Option (List Char)) (d : Doc)
    (p : Path) (fs : Fs) (w : Bool) :
    (odmlWriterWriteFile env b f d p fs).2 = .ok w ↔
      ∃ t, wouldWrite env b f d p = some (t, w) ∧
           (odmlWriterWriteFile env b f d p fs).1 = fs.write p t := by
  cases hw : wouldWrite env b f d p with
  | none =>
    obtain ⟨e', he'⟩ := odml_of_wouldWrite_none env b f d p fs hw
    rw [he']; simp
  | some tw =>
    obtain ⟨t, w'⟩ := tw
    rw [odml_of_wouldWrite_some env b f d p fs t w' hw]
    constructor
    · intro h
      cases h
      exact ⟨t, rfl, rfl⟩
    · rintro ⟨t', h1, _⟩
      cases h1
      rfl

example : ∃ (env : Env Unit), hasError [Rank.warning] = false ∧
    env.validate () = .ok [.warning] ∧ textOf env .json none () = .ok "T".toList ∧
    env.canOpen "f".toList = true ∧ (!([Rank.warning].isEmpty) && env.warnRaises) = false :=
  ⟨{ validate := fun _ => .ok [.warning], render := fun _ _ => .ok "T".toList,
     serialize := fun _ _ => .ok [], decorate := fun x => .ok x, canOpen := fun _ => true,
     warnRaises := false }, by decide, rfl, rfl, rfl, rfl⟩

/-! ### Which issues are warnings: by the rule they come from

The property names the ways of being invalid; every other thing the validation can say about a
document is a warning. Over the table regenerated from the source of the registered rules this is
a decidable fact, and with it "warnings only" no longer depends on what the validation is *told*
to rank as an error: a document all of whose issues come from registered rules other than the
four blocking ones is written. -/

/-- Every rule the library registers either is one of the four rules that detect the ways of being
    invalid the property names — and then all its issues are errors — or can only warn. -/
theorem nonblocking_rules_rank_warning :
    (∀ r ∈ registeredRules, (r ∈ blockingRules ∧ ruleRank r = some .error) ∨
                            (r ∉ blockingRules ∧ ruleRank r = some .warning)) ∧
    (∀ r ∈ blockingRules, r ∈ registeredRules) := by
  decide

/-- Issues of rules that are not blocking never add up to an error. -/
theorem ranksOf_nonblocking (rules : List String)
    (hr : ∀ r ∈ rules, r ∈ registeredRules ∧ r ∉ blockingRules) :
    hasError (ranksOf rules) = false := by
  induction rules with
  | nil => rfl
  | cons r rs ih =>
    have h1 := hr r (by simp)
    have h2 : ruleRank r = some .warning := by
      rcases nonblocking_rules_rank_warning.1 r h1.1 with h | h
      · exact absurd h.1 h1.2
      · exact h.2
    have ih' := ih (fun x hx => hr x (by simp [hx]))
    simp only [ranksOf, hasError, List.map_cons, List.any_cons, h2, Option.getD] at ih' ⊢
    simpa using ih'

/-- **A document with warnings only is written**, with "warnings only" read off the rules: all
    its issues come from registered rules other than the blocking ones (untyped "n.s." Section,
    unnamed object, dependency that names no sibling or whose value does not match, values not of
    the dtype, text values that look like another dtype, violated cardinalities — whatever the
    table lists). For every backend / RDF sub-format, target and file system the target then
    holds exactly the rendered text and a warning is reported iff there is an issue. -/
theorem warning_rule_issues_written {Doc} (env : Env Doc) (d : Doc) (rules : List String)
    (hr : ∀ r ∈ rules, r ∈ registeredRules ∧ r ∉ blockingRules)
    (hv : env.validate d = .ok (ranksOf rules))
    (hw : (!rules.isEmpty && env.warnRaises) = false)
    (b : Backend) (f : Option (List Char)) (text : Bytes) (ht : textOf env b f d = .ok text)
    (p : Path) (hc : env.canOpen p = true) (fs : Fs) :
    odmlWriterWriteFile env b f d p fs = (fs.write p text, .ok (!rules.isEmpty)) := by
  have he := ranksOf_nonblocking rules hr
  have hem : (ranksOf rules).isEmpty = rules.isEmpty := by
    cases rules <;> simp [ranksOf]
  have := warnings_only_written env d (ranksOf rules) hv he (by rw [hem]; exact hw) b f text ht p hc fs
  rw [hem] at this
  exact this

/-- And the converse: one issue of a blocking rule among them and the document is refused with
    `ParserException`, nothing touched. -/
theorem blocking_rule_issue_refused {Doc} (env : Env Doc) (d : Doc) (rules : List String)
    (r : String) (hm : r ∈ rules) (hb : r ∈ blockingRules)
    (hv : env.validate d = .ok (ranksOf rules))
    (b : Backend) (f : Option (List Char)) (p : Path) (fs : Fs) :
    odmlWriterWriteFile env b f d p fs = (fs, .raised .parserException) := by
  apply invalid_never_written env d (ranksOf rules) hv
  have h2 : ruleRank r = some .error := by
    rcases nonblocking_rules_rank_warning.1 r (nonblocking_rules_rank_warning.2 r hb) with h | h
    · exact h.2
    · exact absurd hb h.1
  simp only [hasError, ranksOf, List.any_eq_true, List.mem_map]
  exact ⟨.error, ⟨r, hm, by simp [h2]⟩, by decide⟩

example : "property_dependency_check" ∈ registeredRules ∧
    "property_dependency_check" ∉ blockingRules ∧
    ranksOf ["property_dependency_check", "section_type_must_be_defined"] = [.warning, .warning] := by
  decide

/-! ## 4. Any history of saves -/

/-- After **any sequence** of saves — valid and invalid documents, failing renderers, refused
    opens, in any order, to any targets — every path holds the text of the last *successful*
    save aimed at it, or what it held at the start. Failed saves leave no trace, ever. -/
theorem history_last_success {Doc} (cs : List (Call Doc)) (fs : Fs) (q : Path) :
    runCalls cs fs q = match lastWritten cs q with
                       | some t => some t
                       | none => fs q := by
  induction cs generalizing fs with
  | nil => rfl
  | cons c cs ih =>
    simp only [runCalls, lastWritten]
    rw [ih]
    cases hl : lastWritten cs q with
    | some t => rfl
    | none =>
      simp only [Call.run]
      cases hw : wouldWrite c.env c.b c.rdfFormat c.d c.p with
      | none =>
        obtain ⟨e', he'⟩ := odml_of_wouldWrite_none c.env c.b c.rdfFormat c.d c.p fs hw
        rw [he']
        by_cases hp : c.p = q <;> simp [hp]
      | some tw =>
        obtain ⟨t, w⟩ := tw
        rw [odml_of_wouldWrite_some c.env c.b c.rdfFormat c.d c.p fs t w hw]
        by_cases hp : c.p = q
        · subst hp; simp
        · have : q ≠ c.p := fun h => hp h.symm
          simp [hp, write_other _ _ _ _ this]

/-- Corollary: a history in which no save to `q` succeeds leaves `q` as it was. -/
theorem history_all_failed_keeps {Doc} (cs : List (Call Doc)) (fs : Fs) (q : Path)
    (h : ∀ c ∈ cs, c.p = q → wouldWrite c.env c.b c.rdfFormat c.d c.p = none) :
    runCalls cs fs q = fs q := by
  rw [history_last_success]
  have : lastWritten cs q = none := by
    induction cs with
    | nil => rfl
    | cons c cs ih =>
      simp only [lastWritten]
      rw [ih (fun c' hc' => h c' (List.mem_cons_of_mem _ hc'))]
      by_cases hp : c.p = q
      · have hn := h c (List.mem_cons_self) hp
        subst hp
        simp [hn]
      · simp [hp]
  rw [this]

/-! ## 5. The order of effects matters: the statement order before the fix -/

/-- Environment of the witness: a valid document whose JSON rendering raises `TypeError`. -/
def witnessEnv : Env Unit :=
  { validate := fun _ => .ok [], render := fun _ _ => .error (.other "TypeError"),
    serialize := fun _ _ => .ok [], decorate := fun x => .ok x, canOpen := fun _ => true,
    warnRaises := false }

/-- With the file opened before the text is computed (the code before the `fix:` commit), the
    frame property is false: the save raises and the earlier content of the target is gone. -/
theorem legacy_open_first_truncates :
    let fs := Fs.ofList [("f.json".toList, "OLD".toList)]
    let r := odmlWriterWriteFileLegacy witnessEnv .json none () "f.json".toList fs
    r.2 = .raised (.other "TypeError") ∧ fs "f.json".toList = some "OLD".toList ∧
    r.1 "f.json".toList = some [] := by
  decide

theorem legacy_frame_false :
    ¬ (∀ (env : Env Unit) (b : Backend) (f : Option (List Char)) (p : Path) (fs : Fs) (e : Exc),
        (odmlWriterWriteFileLegacy env b f () p fs).2 = .raised e →
        (odmlWriterWriteFileLegacy env b f () p fs).1 = fs) := by
  intro h
  have h1 := h witnessEnv .json none "f.json".toList (Fs.ofList [("f.json".toList, "OLD".toList)])
    (.other "TypeError") (by decide)
  have h2 := congrFun h1 "f.json".toList
  revert h2
  decide

/-- … and the same witness on the current statement order keeps the file. -/
theorem witness_now_harmless :
    let fs := Fs.ofList [("f.json".toList, "OLD".toList)]
    let r := odmlWriterWriteFile witnessEnv .json none () "f.json".toList fs
    r.2 = .raised (.other "TypeError") ∧ r.1 "f.json".toList = some "OLD".toList := by
  decide

/-- Exactly where the old order did harm: a raising legacy save either left everything alone,
    or it was a non-XML backend whose rendering failed after a successful open — then the target
    is left empty (created if it did not exist). -/
theorem legacy_harm_exact {Doc} (env : Env Doc) (b : Backend) (f : Option (List Char)) (d : Doc)
    (p : Path) (fs : Fs) (e : Exc)
    (h : (odmlWriterWriteFileLegacy env b f d p fs).2 = .raised e) :
    (odmlWriterWriteFileLegacy env b f d p fs).1 = fs ∨
    (b ≠ .xml ∧ env.canOpen p = true ∧ toStr env b f d = .error e ∧
      (odmlWriterWriteFileLegacy env b f d p fs).1 = fs.write p []) := by
  unfold odmlWriterWriteFileLegacy at h ⊢
  cases hg : gate env d with
  | error e' => left; rfl
  | ok w =>
    simp only [hg] at h ⊢
    cases b with
    | xml =>
      left
      simp only [xml_spec] at h ⊢
      cases hx : xmlText env d with
      | error e' => rfl
      | ok text =>
        simp only [hx] at h ⊢
        by_cases hc : env.canOpen p = true
        · simp [hc] at h
        · simp [hc]
    | json =>
      by_cases hc : env.canOpen p = true
      · simp only [openW, hc, if_true] at h ⊢
        cases ht : toStr env .json f d with
        | error e' =>
          have he : e' = e := by simpa [ht] using h
          subst he
          right; exact ⟨by decide, trivial, rfl, rfl⟩
        | ok data => simp [ht] at h
      · left; simp [openW, hc]
    | yaml =>
      by_cases hc : env.canOpen p = true
      · simp only [openW, hc, if_true] at h ⊢
        cases ht : toStr env .yaml f d with
        | error e' =>
          have he : e' = e := by simpa [ht] using h
          subst he
          right; exact ⟨by decide, trivial, rfl, rfl⟩
        | ok data => simp [ht] at h
      · left; simp [openW, hc]
    | rdf =>
      by_cases hc : env.canOpen p = true
      · simp only [openW, hc, if_true] at h ⊢
        cases ht : toStr env .rdf f d with
        | error e' =>
          have he : e' = e := by simpa [ht] using h
          subst he
          right; exact ⟨by decide, trivial, rfl, rfl⟩
        | ok data => simp [ht] at h
      · left; simp [openW, hc]

/-! ## 6. When `file.write` itself can fail

`WEnv` adds a `write` that may raise after the target has been opened (text the file's codec
cannot encode, device full). This is the one cause of failure `write_file` cannot make harmless;
the theorems below say that it is the *only* one. (On the repository side the JSON/YAML/RDF branch
now opens the file as UTF-8, which every serialiser's output can be encoded in; before, the
locale's codec was used — corpus witness `w08`.) -/

/-- If writes cannot fail, the fallible-write model coincides with the model of sections 1–5. -/
theorem saveW_refines {Doc} (env : WEnv Doc) (hW : ∀ t, env.writeOk t = true) (b : Backend)
    (f : Option (List Char)) (d : Doc) (p : Path) (fs : Fs) :
    saveW env b f d p fs = odmlWriterWriteFile env.toEnv b f d p fs :=
  saveW_eq env hW b f d p fs

/-- An invalid document is refused before anything is opened, whatever `write` would do. -/
theorem saveW_invalid_never_written {Doc} (env : WEnv Doc) (d : Doc) (issues : List Rank)
    (hv : env.validate d = .ok issues) (he : hasError issues = true)
    (b : Backend) (f : Option (List Char)) (p : Path) (fs : Fs) :
    saveW env b f d p fs = (fs, .raised .parserException) := by
  simp [saveW, gate, hv, he]

/-- A raising save changes something **only if** the target could be opened and `write` refused
    one of the chunks of this very save — and then nothing but the target is affected. Every
    other cause of failure (validation, rendering, decoration, warning filter, `open`) is
    harmless, also in this model. -/
theorem saveW_harm_exact {Doc} (env : WEnv Doc) (b : Backend) (f : Option (List Char)) (d : Doc)
    (p : Path) (fs : Fs) (e : Exc) (h : (saveW env b f d p fs).2 = .raised e) :
    (saveW env b f d p fs).1 = fs ∨
    (env.canOpen p = true ∧
     (∃ cs, chunksOf env b f d = .ok cs ∧ ∃ c ∈ cs, env.writeOk c = false) ∧
     ∀ q, q ≠ p → (saveW env b f d p fs).1 q = fs q) := by
  unfold saveW at h ⊢
  cases hg : gate env.toEnv d with
  | error e' => left; rfl
  | ok w =>
    simp only [hg] at h ⊢
    cases hcs : chunksOf env b f d with
    | error e' => left; rfl
    | ok cs =>
      simp only [hcs] at h ⊢
      by_cases hc : env.canOpen p = true
      · simp only [openW, hc, if_true] at h ⊢
        generalize hr : writeChunks env p cs [] (fs.write p []) = r at h ⊢
        obtain ⟨fs2, o⟩ := r
        cases o with
        | none => simp at h
        | some e' =>
          right
          refine ⟨trivial, ⟨cs, rfl, writeChunks_fail env p cs [] _ e' (by rw [hr])⟩, ?_⟩
          intro q hq
          have h1 := writeChunks_other env p cs [] (fs.write p []) q hq
          rw [hr] at h1
          simp only at h1 ⊢
          rw [h1]; exact write_other fs p q [] hq
      · left
        simp only [Bool.not_eq_true] at hc
        simp [openW, hc]

/-- Hence, with writes that cannot fail, the frame property holds in this model too. -/
theorem saveW_frame {Doc} (env : WEnv Doc) (hW : ∀ t, env.writeOk t = true) (b : Backend)
    (f : Option (List Char)) (d : Doc) (p : Path) (fs : Fs) (e : Exc)
    (h : (saveW env b f d p fs).2 = .raised e) : (saveW env b f d p fs).1 = fs := by
  rw [saveW_eq env hW] at h ⊢
  exact failed_save_frame env.toEnv (.odmlWriter b f) d p fs e h

/-- The residual risk is real: a `write` that refuses the text leaves the opened target empty. -/
theorem write_failure_truncates :
    let env : WEnv Unit :=
      { validate := fun _ => .ok [], render := fun _ _ => .ok "T".toList,
        serialize := fun _ _ => .ok "T".toList, decorate := fun x => .ok x,
        canOpen := fun _ => true, warnRaises := false,
        writeOk := fun _ => false, split := fun t => ([], t), split_ok := fun _ => rfl }
    let fs := Fs.ofList [("f".toList, "OLD".toList)]
    let r := saveW env .rdf none () "f".toList fs
    r.2 = .raised (.other "write failed") ∧ r.1 "f".toList = some [] := by
  decide

/-! ## 7. The path `odml.save` writes to -/

/-- `odml.save` writes to the given path, or to that path with `.<backend>` appended when the
    last `os.pathsep` field of the name has no dot — never anywhere else. -/
theorem save_path_spec (filename backend : List Char) :
    savePath filename backend = filename ∨ savePath filename backend = filename ++ '.' :: backend := by
  unfold savePath; split <;> simp

theorem save_path_examples :
    savePath "/tmp/d/doc.xml".toList "XML".toList = "/tmp/d/doc.xml".toList ∧
    savePath "/tmp/d/doc".toList "JSON".toList = "/tmp/d/doc.JSON".toList ∧
    savePath "/tmp/d.1/doc".toList "yaml".toList = "/tmp/d.1/doc".toList ∧
    savePath "a.b:c".toList "xml".toList = "a.b:c.xml".toList := by
  decide

/-! ## 8. However many issues, wherever the error sits; whichever name the earlier file has

(Strengthening round 5.) The two clauses once more in the shape in which two seeded changes broke
them: the refusal does not depend on how many issues of rank warning stand in front of or behind
the error, and a failing `odml.save` under a name that it completes itself (`session` →
`session.xml`) leaves the file of the completed name — written by an earlier save — alone. -/

/-- One error among any number of other issues, at any position of the list the validation
    returns, is enough. -/
theorem hasError_anywhere (pre post : List Rank) : hasError (pre ++ Rank.error :: post) = true := by
  simp [hasError, List.any_append]

/-- `ODMLWriter.write_file` and `odml.save` refuse a document whose validation yields an error
    behind `pre` and in front of `post`, for lists `pre`, `post` of any length and content
    (20 warnings, 1000 warnings, …): `ParserException`, the file system as it was. -/
theorem error_anywhere_never_written {Doc} (env : Env Doc) (d : Doc) (pre post : List Rank)
    (hv : env.validate d = .ok (pre ++ Rank.error :: post))
    (f : Option (List Char)) (p : Path) (fs : Fs) :
    (∀ b : Backend, odmlWriterWriteFile env b f d p fs = (fs, .raised .parserException)) ∧
    (∀ backend : List Char, (parseBackend backend).isSome = true →
      fileioSave env backend f d p fs = (fs, .raised .parserException)) :=
  ⟨fun b => invalid_never_written env d _ hv (hasError_anywhere pre post) b f p fs,
   fun backend hb => invalid_never_written_save env d _ hv (hasError_anywhere pre post) backend hb f p fs⟩

/-- A failing `odml.save` harms neither the file of the name handed in nor the file of the name it
    derives from it (`savePath`), whether or not either exists. -/
theorem failed_save_keeps_completed_name {Doc} (env : Env Doc) (backend : List Char)
    (f : Option (List Char)) (d : Doc) (p : Path) (fs : Fs) (e : Exc)
    (h : (fileioSave env backend f d p fs).2 = .raised e) :
    (fileioSave env backend f d p fs).1 (savePath p backend) = fs (savePath p backend) ∧
    (fileioSave env backend f d p fs).1 p = fs p := by
  have hfr := failed_save_frame env (.fileio backend f) d p fs e h
  simp only [Entry.run] at hfr
  rw [hfr]; exact ⟨rfl, rfl⟩

/-- Saved, then saved again under the same name by a save that fails (another document, another
    environment — the document has become invalid, a text cannot be rendered, …): the file the
    first save wrote holds the text of the first save. -/
theorem resave_failure_keeps_first_save {Doc} (env₁ env₂ : Env Doc) (backend : List Char)
    (f₁ f₂ : Option (List Char)) (d₁ d₂ : Doc) (p : Path) (fs : Fs) (e : Exc)
    (h₂ : (fileioSave env₂ backend f₂ d₂ p (fileioSave env₁ backend f₁ d₁ p fs).1).2 = .raised e) :
    (fileioSave env₂ backend f₂ d₂ p (fileioSave env₁ backend f₁ d₁ p fs).1).1 (savePath p backend)
      = (fileioSave env₁ backend f₁ d₁ p fs).1 (savePath p backend) :=
  (failed_save_keeps_completed_name env₂ backend f₂ d₂ p _ e h₂).1

example : hasError ((List.replicate 24 Rank.warning) ++ Rank.error :: []) = true := by decide

/-! ## 9. Duplicate ids, however the id was written (strengthening round 6)

The way "duplicate ids" of being invalid, carried by the model instead of being left to the
parameter `validate`: the rule compares the id *texts*; the public doors through which an id
comes in (`oid=` of the constructors, which the readers use too, and `new_id`) store
`str(uuid.UUID(oid))`. So two objects that were handed the same UUID - in whatever spelling
`uuid.UUID` reads: upper case, `urn:uuid:`, braces, no hyphens - hold the same text, the rule
yields an issue of rank error, and the document is never written. -/

theorem dupIds_nil {seen l : List (List Char)} (h : dupIds seen l = []) :
    l.Nodup ∧ ∀ x ∈ l, x ∉ seen := by
  induction l generalizing seen with
  | nil => simp
  | cons x xs ih =>
    unfold dupIds at h
    by_cases hc : seen.contains x = true
    · rw [if_pos hc] at h
      exact absurd h (by simp)
    · rw [if_neg hc] at h
      have h' := ih h
      have hx : x ∉ seen := by simpa using hc
      refine ⟨List.nodup_cons.2 ⟨fun hm => (h'.2 x hm) (by simp), h'.1⟩, ?_⟩
      intro y hy
      rcases List.mem_cons.1 hy with rfl | hy
      · exact hx
      · exact fun hs => (h'.2 y hy) (List.mem_cons_of_mem _ hs)

/-- Two objects of one id text anywhere in the document: the rule yields an issue. -/
theorem duplicate_id_has_issue (a b c : List (List Char)) (x : List Char) :
    uniqueIdIssues (a ++ x :: b ++ x :: c) ≠ [] := by
  intro h
  have hn := (dupIds_nil h).1
  simp [List.nodup_append, List.nodup_cons] at hn

/-- No two objects of one id text: the rule yields nothing (it never blocks a document for its ids). -/
theorem distinct_ids_no_issue (ids : List (List Char)) (h : ids.Nodup) : uniqueIdIssues ids = [] := by
  suffices H : ∀ (l seen : List (List Char)), l.Nodup → (∀ x ∈ l, x ∉ seen) → dupIds seen l = [] from
    H ids [] h (by simp)
  intro l
  induction l with
  | nil => intros; rfl
  | cons x xs ih =>
    intro seen hn hs
    have hx : seen.contains x = false := by simpa using hs x (by simp)
    unfold dupIds
    rw [if_neg (by rw [hx]; exact Bool.false_ne_true)]
    rcases List.nodup_cons.1 hn with ⟨hxx, hn'⟩
    apply ih _ hn'
    intro y hy hm
    rcases List.mem_cons.1 hm with rfl | hm
    · exact hxx hy
    · exact hs y (List.mem_cons_of_mem _ hy) hm

/-- Whatever the spelling: a door that is handed a text `uuid.UUID` reads as the UUID `n` stores
    the canonical text of `n`. -/
theorem stored_text_of_spelling {s x : List Char} {n : Nat} (hs : Py.Uuid.parse s = some n)
    (hx : StoredFrom s x) : x = Py.Uuid.render n := by
  rcases hx with ⟨fresh, rfl⟩ | ⟨fresh, h⟩
  · exact Py.Uuid.ctorId_valid s fresh n hs
  · simpa [Py.Uuid.newId, hs] using h.symm

/-- **Duplicate ids, any spelling, any door, any format.** Two objects of a document (in either
    order, anything before, between and behind them) got their ids through the constructor argument
    or `new_id` from two texts `s₁`, `s₂` that `uuid.UUID` reads as the same UUID; the validation
    returns the issues of the id rule among any others. Then `ODMLWriter.write_file` (every
    backend, every RDF sub-format) and `odml.save` raise `ParserException` and leave the file
    system as it was. -/
theorem respelled_duplicate_id_never_written {Doc} (env : Env Doc) (d : Doc)
    (a b c : List (List Char)) (x y s₁ s₂ : List Char) (n : Nat)
    (h₁ : Py.Uuid.parse s₁ = some n) (h₂ : Py.Uuid.parse s₂ = some n)
    (hx : StoredFrom s₁ x) (hy : StoredFrom s₂ y)
    (pre post : List Rank)
    (hv : env.validate d = .ok (pre ++ idRanks (a ++ x :: b ++ y :: c) ++ post))
    (f : Option (List Char)) (p : Path) (fs : Fs) :
    (∀ bk : Backend, odmlWriterWriteFile env bk f d p fs = (fs, .raised .parserException)) ∧
    (∀ backend : List Char, (parseBackend backend).isSome = true →
      fileioSave env backend f d p fs = (fs, .raised .parserException)) := by
  have exy : y = x := (stored_text_of_spelling h₂ hy).trans (stored_text_of_spelling h₁ hx).symm
  subst exy
  have hne := duplicate_id_has_issue a b c y
  cases hi : uniqueIdIssues (a ++ y :: b ++ y :: c) with
  | nil => exact absurd hi hne
  | cons i rest =>
    have hr : pre ++ idRanks (a ++ y :: b ++ y :: c) ++ post
        = pre ++ Rank.error :: (rest.map (fun _ => Rank.error) ++ post) := by
      unfold idRanks
      rw [hi]
      simp
    rw [hr] at hv
    exact error_anywhere_never_written env d pre _ hv f p fs

/-- A text `uuid.UUID` does not read is refused by `new_id`: the object keeps its id. -/
theorem unreadable_id_refused (s : List Char) (fresh : Nat) (h : Py.Uuid.parse s = none) :
    Py.Uuid.newId (some s) fresh = none := Py.Uuid.newId_malformed s fresh h

/-- The hypotheses are satisfiable: four spellings of one UUID, one stored text; the rule at work. -/
example : Py.Uuid.parse "12345678-9abc-4def-8123-456789abcdef".toList
    = some 0x123456789abc4def8123456789abcdef := by decide +kernel
example : Py.Uuid.parse "12345678-9ABC-4DEF-8123-456789ABCDEF".toList
    = some 0x123456789abc4def8123456789abcdef := by decide +kernel
example : Py.Uuid.parse "urn:uuid:12345678-9abc-4def-8123-456789abcdef".toList
    = some 0x123456789abc4def8123456789abcdef := by decide +kernel
example : Py.Uuid.parse "{123456789abc4def8123456789abcdef}".toList
    = some 0x123456789abc4def8123456789abcdef := by decide +kernel
example : Py.Uuid.render 0x123456789abc4def8123456789abcdef
    = "12345678-9abc-4def-8123-456789abcdef".toList := by decide +kernel
example : Py.Uuid.parse "URN:UUID:12345678-9abc-4def-8123-456789abcdef".toList = none := by decide +kernel

example : uniqueIdIssues ["d".toList, "p".toList, "s".toList, "p".toList, "d".toList]
    = ["p".toList, "d".toList] := by decide

end C07
