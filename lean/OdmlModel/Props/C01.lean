/-
C01 — XML save/load is lossless and conforms to odML format 1.1.

Property theorems only; helper lemmas are in `Proofs/Csv.lean`, `Proofs/Xml.lean`,
`Proofs/XmlRound.lean`, `XmlRoundVal.lean`, `XmlRoundProp.lean`, `XmlRoundTree.lean`,
`XmlRoundDenote.lean` (which also holds the definition of `denote`), `XmlRoundWritten.lean`.
Models: `Py/Csv.lean`, `Model/XmlCsv.lean`, `Model/XmlDoc.lean`, `Model/Xml.lean`,
`Model/XmlRepr.lean` (tied to /repo by `harness/c01.py`).
-/
import OdmlModel.Model.Xml
import OdmlModel.Model.XmlRepr
import OdmlModel.Proofs.Csv
import OdmlModel.Proofs.Xml
import OdmlModel.Props.C09
import OdmlModel.Proofs.XmlRoundTree
import OdmlModel.Proofs.XmlRoundDenote
import OdmlModel.Proofs.XmlRoundWritten
import OdmlModel.Proofs.XmlRefuse
import OdmlModel.Proofs.XmlTok

set_option linter.unusedSimpArgs false

namespace C01
open Xml Py Py.Csv

/-! ## 1. The value text node (CSV inside XML) -/

/-- The csv library model: what `csv.reader` (excel dialect) reads from what `csv.writer` wrote
    is the row itself — any number of fields, any characters (commas, quotes, CR, LF, …).
    (`writeRow` minus the line terminator; an empty row writes nothing.) -/
theorem csv_lib_roundtrip (row : List (List Char)) (h : row ≠ []) :
    readFirst (dropLast2 (writeRow row)) = .ok row := by
  rw [dropLast2_writeRow]; exact readFirst_rowBody row h

/-- **`from_csv (to_csv vs) = [v.strip() for v in vs]` for every list of strings** — any
    length, any content.  After the `fix:` commit no representability side condition is left
    (`CsvRepr` is `True`): every value list the XML form is asked to hold is restored exactly,
    up to the trimming the property allows. -/
theorem csv_roundtrip (vs : List (List Char)) : fromCsv (toCsv vs) = .ok (vs.map strip) := by
  simp only [toCsv, dropLast2_writeRow]
  generalize vs.map strip = uv
  match uv with
  | [] => simp [rowBody, joinFields, fromCsv]
  | [s] =>
    simp only
    split
    · rename_i hc
      simp only [Bool.and_eq_true, Bool.not_eq_true', List.isEmpty_eq_false_iff] at hc
      have hne : s ≠ [] := hc.1
      simp [fromCsv, hne, hc.2]
    · by_cases hs : s = []
      · subst hs; decide
      · have hb : rowBody [s] ≠ [] := by
          have : ([s] == [[]]) = false := by simp [hs]
          simp only [rowBody, this, joinFields, Bool.false_eq_true, ↓reduceIte]
          unfold renderField
          split
          · simp
          · exact hs
        exact fromCsv_wrap [s] (by simp) hb
  | f :: g :: gs => exact fromCsv_wrap _ (by simp) (rowBody_ne_nil_of_two f g gs)

/-- The text node is empty exactly for the empty value list (so the reader, which skips an
    empty `<value>`, loses nothing). -/
theorem csv_empty_iff (vs : List (List Char)) : toCsv vs = [] ↔ vs = [] := by
  constructor
  · intro h
    have := csv_roundtrip vs
    rw [h] at this
    simp [fromCsv] at this
    exact this.symm ▸ (by cases vs <;> simp_all)
  · rintro rfl; decide

/-! ### The encoding before the fix (`.strip().strip('"')`): witnesses of the defect

These are statements about `toCsvLegacy`, the function as it was; they document why the
unfixed tree violates the property (and are replayed by the corpus). -/

theorem csv_legacy_counterexample_comma :
    fromCsv (toCsvLegacy ["a,b".toList, "c".toList]) =
      .ok ["a".toList, "b\"".toList, "c".toList] := by decide

theorem csv_legacy_counterexample_quote :
    fromCsv (toCsvLegacy ["a\"b".toList, "c".toList]) ≠ .ok ["a\"b".toList, "c".toList] := by
  decide

theorem csv_legacy_counterexample_newline :
    fromCsv (toCsvLegacy ["a\nb".toList, "c".toList]) = .ok ["a".toList] := by decide

theorem csv_legacy_counterexample_single_quote :
    fromCsv (toCsvLegacy ["x\"".toList]) = .ok ["x".toList] := by decide

theorem csv_legacy_counterexample_single_bracket :
    fromCsv (toCsvLegacy ["[a]".toList]) = .ok ["a".toList] := by decide

theorem csv_legacy_counterexample_empty :
    fromCsv (toCsvLegacy [[]]) = .ok [] := by decide

/-! ## 2. Typed values: the text of a value is re-typed to the value it came from -/

/-- ints of any size: `int(str(i)) = i`, and `str(i)` survives the trimming of `to_csv`. -/
theorem int_text_roundtrip (lib : TokLib) (i : Int) :
    Xml.parseInt (intToStr i) = some i ∧ strip (intToStr i) = intToStr i ∧
    getTyped lib "int".toList (strip (valStr (.int i))) = .ok (.int i) :=
  ⟨parseInt_intToStr i, strip_intToStr i, getTyped_int lib _ i (by decide)⟩

/-- n-tuples of any arity: the text `odml_tuple_export` writes for one tuple is parsed back by
    `tuple_get` to the same items, provided the items are what `tuple_get` itself produces
    (trimmed, no `;`). -/
theorem tuple_text_roundtrip (xs : List Str) (hne : xs ≠ [])
    (hs : ∀ x ∈ xs, strip x = x) (hsemi : ∀ x ∈ xs, ∀ c ∈ x, (c == ';') = false) :
    tupleGet ('(' :: (intercal [';'] xs ++ [')'])) xs.length = .ok (.tuple xs) :=
  tupleGet_export xs hne hs hsemi

/-- One value of a non-tuple dtype: the trimmed `str()` text is re-typed by `dtypes.get` to the
    (trimmed) value — strings, ints, bools exactly; float/date/time/datetime under the token
    contract `lib` (hypothesis inside `valOk`). -/
theorem value_retyped (lib : TokLib) (d : Str) (v : Val) (hd : endsWith "-tuple" d = false)
    (h : valOk lib d v = true) :
    getTyped lib d (strip (valStr v)) = .ok (trimVal v) := by
  cases v with
  | str s =>
    simp only [valOk, hd, Bool.not_false, Bool.true_and] at h
    simpa [valStr, trimVal] using getTyped_str lib d s h
  | int i => simpa [valStr, trimVal] using getTyped_int lib d i (by simpa [valOk] using h)
  | bool b => simpa [trimVal] using getTyped_bool lib d b (by simpa [valOk] using h)
  | tok t =>
    simp only [valOk, Bool.and_eq_true] at h
    simpa [valStr, trimVal] using getTyped_tok lib d t h.1 h.2
  | tuple xs => simp [valOk, hd] at h
  | nul => simp [valOk] at h

/-- **The `<value>` node of a Property with a non-tuple dtype round-trips**: for every number
    of values and every content, `from_csv` of the text the writer emits followed by the
    `values` setter gives the same dtype and the trimmed values in the same order. -/
theorem value_text_roundtrip (lib : TokLib) (d : Str) (vals : List Val)
    (hd : endsWith "-tuple" d = false) (h : ∀ v ∈ vals, valOk lib d v = true) :
    ∃ texts, fromCsv (toCsv (vals.map valStr)) = .ok texts ∧
      loadValues lib (some d) texts = .ok (if vals = [] then some d else some d, vals.map trimVal) := by
  refine ⟨_, csv_roundtrip _, ?_⟩
  have key : ∀ vs : List Val, (∀ v ∈ vs, valOk lib d v = true) →
      mapExcept (getTyped lib d) ((vs.map valStr).map strip) = .ok (vs.map trimVal) := by
    intro vs
    induction vs with
    | nil => intro _; rfl
    | cons v vs ih =>
      intro hv
      have h1 := value_retyped lib d v hd (hv v (by simp))
      have h2 := ih (fun w hw => hv w (by simp [hw]))
      simp only [List.map_cons, mapExcept, h1, h2]
  cases vals with
  | nil => simp [loadValues]
  | cons v vs =>
    have := key (v :: vs) h
    simp only [List.map_cons] at this
    simp only [List.map_cons, loadValues, hd, this]
    simp

/-! ## 2b. Cardinalities and text attributes through one element -/

open Card

theorem stored_of_cardOk (p : Option Int × Option Int) (h : cardOk (some p) = true) :
    C09.Stored (some p) := by
  obtain ⟨a, b⟩ := p
  cases a <;> cases b <;> simp [cardOk] at h <;>
    simp [C09.Stored, Normal, Strong] <;> omega

/-- Cardinalities of every shape and size: the text the writer emits (`str(card)`) is parsed by
    the reader to the same tuple, which the constructor's `format_cardinality` keeps. -/
theorem card_text_roundtrip (p : Option Int × Option Int) (h : cardOk (some p) = true) :
    parseCardText (renderCardText p) = some p ∧
    loadCard [("val_cardinality", .card (parseCardText (renderCardText p)))] "val_cardinality"
      = some (some p) := by
  have hs := stored_of_cardOk p h
  have h1 := C09.persist_text p hs
  have h2 : formatCard (cardAsIn (some p)) = .ok (some p) := C09.stored_fixpoint (some p) hs
  refine ⟨h1, ?_⟩
  simp [loadCard, List.lookup, h1, h2]

/-- A text attribute (`definition`, `unit`, `author`, …): the reader's leaf step stores the
    trimmed text of the element the writer emitted; an empty text comes back as absent. -/
theorem leaf_text_roundtrip (m : Mode) (f : Fmt) (t : String) (s : Str) (st : PT)
    (hv : (f.pyName t == "values") = false)
    (hc : "_cardinality".toList.isSuffixOf (f.pyName t).toList = false)
    (hn : st.args.lookup (f.pyName t) = none) :
    leafStep m f t (if s.isEmpty then none else some s) st =
      .ok { st with args := (f.pyName t, .text (normText (some s))) :: st.args } := by
  have hc' : ¬ ("_cardinality".toList <:+ (f.pyName t).toList) := by
    intro h
    have h2 := List.isSuffixOf_iff_suffix.mpr h
    rw [hc] at h2
    exact Bool.false_ne_true h2
  by_cases he : s.isEmpty = true
  · simp [leafStep, he, hn, hv, normText]
  · have hc'' : ¬ (['_', 'c', 'a', 'r', 'd', 'i', 'n', 'a', 'l', 'i', 't', 'y'] <:+ (f.pyName t).toList) := hc'
    simp [leafStep, he, hn, hv, hc'', normText]

/-! ## 3. Vocabulary, version, tables -/

/-- The root element the writer builds is `<odML version="FORMAT_VERSION">`, and the reader's
    version check accepts exactly that version. -/
theorem xml_version (d : DocT) :
    ∃ kids, writeTree d = .elem Gen.Format.documentName
      [("version", Gen.Format.formatVersion.toList)] none kids ∧
      Gen.Format.documentName = "odML" :=
  ⟨_, rfl, by decide⟩

/-- **Every element the writer emits, at any depth of any document, carries a tag of the odML
    1.1 vocabulary** = the names and argument keys of the regenerated format tables (structural
    induction over the Section tree). -/
theorem xml_vocab (d : DocT) : ∀ t ∈ tagsOf (writeTree d), t ∈ vocab := tags_writeTree d

/-- Every key the writer walks (regenerated `_args` tables) is mapped by the regenerated `_map`
    tables to the constructor argument the reader model passes it to — for the three classes.
    A renamed or dropped table entry in /repo breaks this theorem. -/
theorem writer_keys_readable :
    (fmtOf .prop).keys.map (fmtOf .prop).pyName =
      ["oid", "name", "values", "unit", "definition", "dependency", "dependency_value",
       "uncertainty", "reference", "dtype", "value_origin", "val_cardinality"] ∧
    (fmtOf .sec).keys.map (fmtOf .sec).pyName =
      ["oid", "type", "name", "definition", "reference", "link", "repository", "sections",
       "include", "properties", "sec_cardinality", "prop_cardinality"] ∧
    (fmtOf .doc).keys.map (fmtOf .doc).pyName =
      ["oid", "version", "author", "date", "sections", "repository"] ∧
    (fmtOf .prop).args.filter (·.2 != 0) = [("name", 1)] ∧
    (fmtOf .sec).args.filter (·.2 != 0) = [("type", 1), ("name", 1)] ∧
    (fmtOf .doc).args.filter (·.2 != 0) = [] ∧
    readerTags = ["odML", "section", "property"] := by decide

/-- Characters lxml refuses make the writer raise instead of writing something else. -/
theorem xml_unrepresentable_chars (d : DocT) (h : xmlOk (writeTree d) = false) :
    writeXml d = .error .valueError ∨ writeXml d = .error .parser := by
  simp only [writeXml]
  split
  · exact Or.inr rfl
  · simp [h]

/-! ## 4. Where the code does not satisfy the property (known findings): witnesses -/

def idLib : TokLib := ⟨fun _ t => some t⟩
def u1 : Str := "00000000-0000-0000-0000-000000000001".toList
def u2 : Str := "00000000-0000-0000-0000-000000000002".toList
def u3 : Str := "00000000-0000-0000-0000-000000000003".toList

def secWith (id : Str) (name : String) (props : List PropT) : SecT :=
  .mk (some id) (some name.toList) (some "t".toList) none none none none none [] props none none

def docWith (secs : List SecT) : DocT := { defaultDoc with id := some u1, secs := secs }

/-- what a test of the loaded document looks at: per Section its name and, per Property,
    name / dtype / values / uncertainty -/
structure PV where
  name : Option Str
  dtype : Option Str
  values : List Val
  unc : Option Unc
  deriving DecidableEq

structure SV where
  name : Option Str
  props : List PV
  deriving DecidableEq

def view (r : Except RErr (DocT × Nat)) : Except RErr (List SV) :=
  match r with
  | .error e => .error e
  | .ok (d, _) => .ok (d.secs.map fun s =>
      ⟨s.name, s.props.map fun p => ⟨p.name, p.dtype, p.values, p.uncertainty⟩⟩)

def pUnc : PropT :=
  { defaultProp with id := some u3, name := some "p".toList, values := [.int 1],
                     dtype := some "int".toList, uncertainty := some ⟨true, "0.5".toList⟩ }

/-- `uncertainty = 0.5` (a number) is loaded back as the string `'0.5'`. -/
theorem uncertainty_counterexample :
    wfDoc idLib (docWith [secWith u2 "s" [pUnc]]) = true ∧
    view (readXml .strict idLib (writeTree (docWith [secWith u2 "s" [pUnc]]))) =
      .ok [⟨some "s".toList, [⟨some "p".toList, some "int".toList, [.int 1],
            some ⟨false, "0.5".toList⟩⟩]⟩] := by decide

/-- A Section named `" "` cannot be kept by the XML form: the writer refuses the document with
    `ParserException` (fix e87b2d6; fixed finding `blank_name_replaced_by_id`). What it wrote
    before is loaded back without a name of its own (the Section is named by its id). -/
theorem blank_name_refused :
    wfDoc idLib (docWith [secWith u2 " " []]) = true ∧
    docRefused (docWith [secWith u2 " " []]) = true ∧
    view (readXml .strict idLib (writeTree (docWith [secWith u2 " " []]))) = .ok [⟨none, []⟩] := by
  decide

def pTup : PropT :=
  { defaultProp with id := some u3, name := some "p".toList,
                     values := [.tuple ["a,b".toList, "c".toList]], dtype := some "2-tuple".toList }

/-- A 2-tuple item `a,b` cannot be carried by the bracketed text: the writer refuses the document
    with `ParserException` (fix fc8b891; fixed finding `tuple_item_with_separator`). The text it
    wrote before, `[(a,b;c)]`, is taken apart at the comma by `from_csv`; the strict reader
    refused that file, the lenient reader replaced the Property by an empty default Property. -/
theorem tuple_item_refused :
    wfDoc idLib (docWith [secWith u2 "s" [pTup]]) = true ∧
    docRefused (docWith [secWith u2 "s" [pTup]]) = true ∧
    view (readXml .strict idLib (writeTree (docWith [secWith u2 "s" [pTup]]))) = .error .parser ∧
    view (readXml .lenient idLib (writeTree (docWith [secWith u2 "s" [pTup]]))) =
      .ok [⟨some "s".toList, [⟨none, none, [], none⟩]⟩] ∧
    valueText pTup = "[(a,b;c)]".toList ∧
    fromCsv (valueText pTup) = .ok ["(a".toList, "b;c)".toList] := by decide

theorem tuple_item_refused_raises :
    writeXml (docWith [secWith u2 "s" [pTup]]) = .error .parser := by
  have h : docRefused (docWith [secWith u2 "s" [pTup]]) = true := by decide
  simp [writeXml, h]

/-- Siblings `a` and `a ` cannot be kept apart by the XML form: the writer refuses the document
    (fix e87b2d6; fixed finding `sibling_names_equal_after_trim`). Of what it wrote before, the
    strict reader refused the file, the lenient reader lost the second sibling. -/
theorem name_clash_refused :
    wfDoc idLib (docWith [secWith u2 "a" [], secWith u3 "a " []]) = true ∧
    docRefused (docWith [secWith u2 "a" [], secWith u3 "a " []]) = true ∧
    view (readXml .strict idLib (writeTree (docWith [secWith u2 "a" [], secWith u3 "a " []]))) =
      .error .parser ∧
    view (readXml .lenient idLib (writeTree (docWith [secWith u2 "a" [], secWith u3 "a " []]))) =
      .ok [⟨some "a".toList, []⟩] := by decide

/-! ## 5. The whole document: save, then load, gives the trimmed document back

The statement of the property: for every document the public API can build (`wfDoc`) that is
representable in odML-XML as the code stands (`xmlRepr`, i.e. outside the four open findings
above), reading what the writer wrote returns the document itself up to the trimming of
surrounding white space, without a single warning — for documents of any size and any depth.

`docLower d` (every stored dtype is in lower case) is a third, decidable well-formedness
condition that `wfDoc` does not state: `Property.dtype` only ever holds lower-case names (the
constructor and the setter normalise, replayed on /repo), so no document built through the API
violates it, but the model universe `DocT` contains such documents and on them the statement is
false of the model (`dtype_case_counterexample`).  It is named in the statements below. -/

/-- **One Property element** (step 1 of the whole-document theorem): `parse_tag` on the element
    `save_element` emitted for a well-formed, representable Property returns the trimmed
    Property; the warning count `w` is unchanged (no unknown element, nothing given twice, the
    mandatory `name` present, the constructor accepts the arguments).  Any number of values,
    every dtype incl. n-tuples; either reader mode. -/
theorem prop_xml_roundtrip (m : Mode) (lib : TokLib) (tag : String) (p : PropT) (w : Nat)
    (hwf : propWf lib p = true) (hrepr : propRepr p = true) (hlow : propLower p = true) :
    readTag m lib .prop tag (writeProp p) w = .ok (.prop (trimProp p), w) :=
  prop_roundtrip m lib tag p w hwf hrepr hlow

/-- **One Section with everything below it** (step 2: mutual structural induction over the
    Section tree; `SmartList.append` never refuses a child because sibling names are distinct
    after trimming). -/
theorem sec_xml_roundtrip (m : Mode) (lib : TokLib) (tag : String) (s : SecT) (w : Nat)
    (hwf : secWf lib s = true) (hrepr : secRepr s = true) (hlow : secLower s = true) :
    readTag m lib .sec tag (writeSec s) w = .ok (.sec (trimSec s), w) :=
  sec_round m lib s hwf hrepr hlow tag w

/-- **C01, whole document, strict reader**: `XMLReader(ignore_errors=False)` applied to the
    tree `XMLWriter` built returns `trimDoc d` and no warning — any number of Sections and
    Properties, any nesting depth, any number of values.  The proof folds the per-key steps over
    the regenerated key tables in whatever order they list the keys. -/
theorem xml_roundtrip (lib : TokLib) (d : DocT) (hwf : wfDoc lib d = true)
    (hrepr : xmlRepr d = true) (hlow : docLower d = true) :
    readXml .strict lib (writeTree d) = .ok (trimDoc d, 0) :=
  doc_round .strict lib d hwf hrepr hlow

/-- The same for the lenient reader (`ignore_errors=True`): same document, no warning. -/
theorem xml_roundtrip_lenient (lib : TokLib) (d : DocT) (hwf : wfDoc lib d = true)
    (hrepr : xmlRepr d = true) (hlow : docLower d = true) :
    readXml .lenient lib (writeTree d) = .ok (trimDoc d, 0) :=
  doc_round .lenient lib d hwf hrepr hlow

/-- … and through `writeXml` (the writer does not raise on such a document unless a text is not
    XML compatible, in which case nothing is written, `xml_unrepresentable_chars`). -/
theorem xml_save_load (m : Mode) (lib : TokLib) (d : DocT) (x : X) (hwf : wfDoc lib d = true)
    (hrepr : xmlRepr d = true) (hlow : docLower d = true) (hx : writeXml d = .ok x) :
    readXml m lib x = .ok (trimDoc d, 0) := by
  have : x = writeTree d := by
    simp only [writeXml] at hx
    split at hx
    · cases hx
    · split at hx
      · cases hx; rfl
      · cases hx
  rw [this]
  exact doc_round m lib d hwf hrepr hlow

def pCase : PropT :=
  { defaultProp with id := some u3, name := some "p".toList, dtype := some "String".toList }

/-- Why `docLower` is in the statements: a `DocT` whose Property carries the dtype `String`
    satisfies `wfDoc` and `xmlRepr`, and the reader stores `string`.  (Not a defect of the code:
    `odml.Property(dtype="String").dtype == "string"`, so the public API cannot build it.) -/
theorem dtype_case_counterexample :
    wfDoc idLib (docWith [secWith u2 "s" [pCase]]) = true ∧
    xmlRepr (docWith [secWith u2 "s" [pCase]]) = true ∧
    docLower (docWith [secWith u2 "s" [pCase]]) = false ∧
    view (readXml .strict idLib (writeTree (docWith [secWith u2 "s" [pCase]]))) =
      .ok [⟨some "s".toList, [⟨some "p".toList, some "string".toList, [], none⟩]⟩] := by decide

/-! ## 6. Conformant XML written by another tool

`Xml.denote lib x` (defined in `Proofs/XmlRoundDenote.lean`) is the document a tree describes by
look-up, without the reader's loops and state: root `odML` with the format version, no other
attributes; every element a key of its class (tags in any letter case, elements in any order);
no argument given twice; mandatory arguments present; the leaf texts are the constructor
arguments (`<value>` through `from_csv`, cardinalities through `parse_cardinality`); child
elements are the sub-Sections / Properties in document order; names that `append` accepts.
It is `none` for a tree that is not conformant. -/

/-- **`xml_denote`**: on a conformant tree the reader — strict or lenient — returns exactly the
    document the tree denotes and not a single warning, for trees of any size and depth. -/
theorem xml_denote (lib : TokLib) (m : Mode) (x : X) (d : DocT) (h : denote lib x = some d) :
    readXml m lib x = .ok (d, 0) :=
  doc_denote m lib x d h

/-- … in particular the two reader modes agree on conformant trees. -/
theorem xml_strict_lenient_agree (lib : TokLib) (x : X) (d : DocT) (h : denote lib x = some d) :
    readXml .strict lib x = readXml .lenient lib x := by
  rw [xml_denote lib .strict x d h, xml_denote lib .lenient x d h]

/-- The same for a Section element and a Property element on their own. -/
theorem xml_denote_sec (lib : TokLib) (m : Mode) (x : X) (s : SecT) (tag : String) (w : Nat)
    (h : denoteSec lib x = some s) : readTag m lib .sec tag x w = .ok (.sec s, w) :=
  sec_denote m lib x s h tag w

theorem xml_denote_prop (lib : TokLib) (m : Mode) (x : X) (p : PropT) (tag : String) (w : Nat)
    (h : denoteProp lib x = some p) : readTag m lib .prop tag x w = .ok (.prop p, w) :=
  prop_denote m lib x p h tag w

/-- **The writer's output conforms to odML 1.1 in the sense of `denote`**: the tree built for a
    well-formed, representable document is in the domain of the denotation (known keys only,
    each argument once, mandatory arguments present, texts their dtype / cardinality admits,
    names that do not clash) and denotes the trimmed document — any size, any depth.
    Together with `xml_denote` this gives `xml_roundtrip` a second time. -/
theorem xml_write_denotes (lib : TokLib) (d : DocT) (hwf : wfDoc lib d = true)
    (hrepr : xmlRepr d = true) (hlow : docLower d = true) :
    denote lib (writeTree d) = some (trimDoc d) :=
  write_denotes lib d hwf hrepr hlow

/-! ## Non-vacuity: the hypotheses are met by concrete, non-trivial objects -/

example : valOk idLib "string".toList (.str "a,\"b\n".toList) = true := by decide
example : valOk idLib "int".toList (.int (-12)) = true := by decide
example : valOk idLib "float".toList (.tok "0.5".toList) = true := by decide
example : endsWith "-tuple" "string".toList = false := by decide
example : xmlRepr (docWith [secWith u2 "s" [pUnc]]) = false := by decide
example : xmlRepr (docWith [secWith u2 "s" [{ pUnc with uncertainty := none }]]) = true := by decide
example : view (readXml .strict idLib (writeTree (docWith [secWith u2 "s" [{ pUnc with uncertainty := none }]]))) =
    .ok [⟨some "s".toList, [⟨some "p".toList, some "int".toList, [.int 1], none⟩]⟩] := by decide

/-! ### a non-trivial document inside the hypotheses of `xml_roundtrip` -/

def u4 : Str := "00000000-0000-0000-0000-000000000004".toList
def u5 : Str := "00000000-0000-0000-0000-000000000005".toList
def u6 : Str := "00000000-0000-0000-0000-000000000006".toList
def u7 : Str := "0a1b2c3d-4e5f-6789-abcd-ef0123456789".toList

def exStr : PropT :=
  { defaultProp with id := some u5, name := some " words ".toList, dtype := some "string".toList,
                     values := [.str "a,b".toList, .str " c\" ".toList, .str "[x]".toList],
                     unit := some " mV ".toList, definition := some "".toList,
                     uncertainty := some ⟨false, " +-12".toList⟩, valCard := some (some 1, some 5) }
def exTup : PropT :=
  { defaultProp with id := some u6, name := some "pairs".toList, dtype := some "2-tuple".toList,
                     values := [.tuple ["1".toList, "2".toList], .tuple ["a\"b".toList, []]] }
def exInt : PropT :=
  { defaultProp with id := some u7, name := some "n".toList, dtype := some "int".toList,
                     values := [.int (-12), .int 7], valCard := some (none, some 2) }
def exInner : SecT :=
  .mk (some u3) (some "inner".toList) (some "t".toList) none none none none none [] [exInt] none none
def exA : SecT :=
  .mk (some u2) (some "setup ".toList) (some "recording".toList) (some "d,e\"f".toList) none none
    (some " http://x ".toList) none [exInner] [exStr, exTup] (some (some 1, none)) none
def exB : SecT :=
  .mk (some u4) (some "Setup".toList) (some "".toList) none none none none none [] [] none none
def exDoc : DocT :=
  { id := some u1, version := some " 1.0".toList, author := some "A. Author".toList,
    date := some "2020-01-02".toList, repository := none, secs := [exA, exB] }

example : wfDoc idLib exDoc = true ∧ xmlRepr exDoc = true ∧ docLower exDoc = true := by decide
example : readXml .strict idLib (writeTree exDoc) = .ok (trimDoc exDoc, 0) :=
  xml_roundtrip idLib exDoc (by decide) (by decide) (by decide)
example : readXml .lenient idLib (writeTree exDoc) = .ok (trimDoc exDoc, 0) :=
  xml_roundtrip_lenient idLib exDoc (by decide) (by decide) (by decide)

/-! ### `denote` is defined on the written tree and on a tree another tool could have written -/

example : denote idLib (writeTree exDoc) = some (trimDoc exDoc) :=
  xml_write_denotes idLib exDoc (by decide) (by decide) (by decide)

/-- elements in another order, tags in another letter case, no ids, a bracketed value list -/
def foreignTree : X :=
  .elem "odML" [("version", "1.1".toList)] none
    [.elem "Section" [] none
      [.elem "NAME" [] (some " s1 ".toList) [],
       .elem "property" [] none
         [.elem "value" [] (some "[1,-2,3]".toList) [],
          .elem "Type" [] (some "int".toList) [],
          .elem "name" [] (some "p".toList) [],
          .elem "val_cardinality" [] (some "(1, None)".toList) []],
       .elem "section" [] none
         [.elem "type" [] (some "inner".toList) [], .elem "name" [] (some "sub".toList) []],
       .elem "type" [] (some "t".toList) []],
     .elem "author" [] (some "me".toList) []]

def asRead (o : Option DocT) : Except RErr (DocT × Nat) :=
  match o with
  | some d => .ok (d, 0)
  | none => .error .parser

example : view (asRead (denote idLib foreignTree)) =
    .ok [⟨some "s1".toList, [⟨some "p".toList, some "int".toList, [.int 1, .int (-2), .int 3], none⟩]⟩] := by
  decide
example : readXml .strict idLib foreignTree = asRead (denote idLib foreignTree) := by
  cases h : denote idLib foreignTree with
  | none => exact absurd h (by decide)
  | some d => exact xml_denote idLib .strict foreignTree d h
/-- not conformant: an element given twice, a foreign element, a missing mandatory `name` -/
example : denote idLib (.elem "odML" [("version", "1.1".toList)] none
    [.elem "author" [] (some "a".toList) [], .elem "author" [] (some "b".toList) []]) = none := by
  decide
example : denote idLib (.elem "odML" [("version", "1.1".toList)] none
    [.elem "colour" [] (some "a".toList) []]) = none := by decide
example : denote idLib (.elem "odML" [("version", "1.1".toList)] none
    [.elem "section" [] none [.elem "type" [] (some "t".toList) []]]) = none := by decide

/-! ## 7. Never written in altered form: refused, or the round trip -/

/-- For every valid document (`wfDoc`, `docLower`) whose names and uncertainties are representable
    (`xmlReprU`: no numeric `uncertainty`, the one remaining open finding) the writer either raises
    - with `ParserException` for an n-tuple item holding a comma or a line break, a blank name or
    sibling names equal after trimming (`docRefused`), with lxml's `ValueError` for a character XML
    cannot hold - and writes nothing, or what it wrote
    loads back, in both reader modes, to the very document up to trimming, without a warning. -/
theorem xml_roundtrip_or_refused (m : Mode) (lib : TokLib) (d : DocT) (hwf : wfDoc lib d = true)
    (hn : xmlReprU d = true) (hlow : docLower d = true) :
    (∃ e, writeXml d = .error e) ∨
    (∃ x, writeXml d = .ok x ∧ readXml m lib x = .ok (trimDoc d, 0)) := by
  cases hnr : docRefused d with
  | true => exact Or.inl ⟨.parser, by simp [writeXml, hnr]⟩
  | false =>
    cases hok : xmlOk (writeTree d) with
    | false => exact Or.inl ⟨.valueError, by simp [writeXml, hnr, hok]⟩
    | true =>
      refine Or.inr ⟨writeTree d, by simp [writeXml, hnr, hok], ?_⟩
      have hx : writeXml d = .ok (writeTree d) := by simp [writeXml, hnr, hok]
      exact xml_save_load m lib d _ hwf (xmlRepr_of_not_refused lib d hwf hn hnr) hlow hx

/-- The refusal is exact: on valid documents the writer's `ParserException` is raised precisely
    for the documents the XML form cannot carry (tuple items, names). -/
theorem xml_refused_iff_not_repr (lib : TokLib) (d : DocT) (hwf : wfDoc lib d = true)
    (hn : xmlReprU d = true) : docRefused d = false ↔ xmlRepr d = true :=
  ⟨xmlRepr_of_not_refused lib d hwf hn, not_refused_of_xmlRepr d⟩

/-! ## 8. Typed values handed over as objects (round 4): the token contract made concrete

`xml_roundtrip` asks of a stored date / time / datetime value that its text re-types to itself
(`valOk`, `tokOk lib`).  With the library's own converters as `lib` (`stdLib`: the `strptime` models)
this holds for **every** `datetime.time / datetime / date` object a caller can hand over - time zone
aware or not, with microseconds, with `fold` -, because `time_get / datetime_get / date_get` store
the naive, whole-second value the format can express.  The counterexamples say what would happen to
an object stored as it came. -/

/-- A `datetime.time` of any shape is stored as a value the XML form carries: `time_get` yields
    the time without microseconds, offset and fold, and the text of that value is trimmed, not
    empty and read back (`dtypes.get(text, "time")`) as the same text. -/
theorem time_object_value_ok (o : TimeObj) (h : o.t.valid = true) :
    ∃ s, timeGetObj o = some s ∧ s = { o.t with us := 0 } ∧
      valOk stdLib "time".toList (.tok s.iso) = true := by
  refine ⟨{ o.t with us := 0 }, XmlTok.timeGetObj_eq o h, rfl, ?_⟩
  have hv := XmlTok.valid_us0 h
  have hus : ({ o.t with us := 0 } : Time).us = 0 := rfl
  have h1 := XmlTok.stdTok_time hv hus
  have hiso := XmlTok.iso_of_us0 hus
  have hne : (({ o.t with us := 0 } : Time).iso).isEmpty = false := by
    rw [hiso]; cases hh : ({ o.t with us := 0 } : Time).hms with
    | nil => exact absurd hh (XmlTok.hms_ne_nil _)
    | cons _ _ => rfl
  have hst : strip ({ o.t with us := 0 } : Time).iso = ({ o.t with us := 0 } : Time).iso := by
    rw [hiso]; exact XmlTok.strip_hms _
  have hk : tokKinds.contains "time" = true := by decide
  have hd : String.ofList "time".toList = "time" := by decide
  simp only [valOk, hk, Bool.true_and, tokOk, hd, stdLib, h1, hne, hst, Bool.not_false, beq_self_eq_true,
    Bool.and_self]

/-- The same for a `datetime.datetime` of any shape: `datetime_get` builds the naive datetime of
    the six fields of the format. -/
theorem datetime_object_value_ok (o : DateTimeObj) (h : o.x.valid = true) :
    ∃ s, datetimeGetObj o = some s ∧ s = ⟨o.x.date, { o.x.time with us := 0 }⟩ ∧
      valOk stdLib "datetime".toList (.tok s.str) = true := by
  refine ⟨⟨o.x.date, { o.x.time with us := 0 }⟩, rfl, rfl, ?_⟩
  simp only [DateTime.valid, Bool.and_eq_true] at h
  have hv : (⟨o.x.date, { o.x.time with us := 0 }⟩ : DateTime).valid = true := by
    simp only [DateTime.valid, Bool.and_eq_true]; exact ⟨h.1, XmlTok.valid_us0 h.2⟩
  have hus : (⟨o.x.date, { o.x.time with us := 0 }⟩ : DateTime).time.us = 0 := rfl
  have h1 := XmlTok.stdTok_datetime hv hus
  have hne : ((⟨o.x.date, { o.x.time with us := 0 }⟩ : DateTime).str).isEmpty = false := by
    cases hh : (⟨o.x.date, { o.x.time with us := 0 }⟩ : DateTime).str with
    | nil => exact absurd hh (XmlTok.dtStr_ne_nil _)
    | cons _ _ => rfl
  have hst := XmlTok.strip_dtStr (x := ⟨o.x.date, { o.x.time with us := 0 }⟩) hus
  have hk : tokKinds.contains "datetime" = true := by decide
  have hd : String.ofList "datetime".toList = "datetime" := by decide
  simp only [valOk, hk, Bool.true_and, tokOk, hd, stdLib, h1, hne, hst, Bool.not_false, beq_self_eq_true,
    Bool.and_self]

/-- ... and for a `datetime.date` (also the Document's `date`). -/
theorem date_object_value_ok (d : Date) (h : d.valid = true) :
    dateGetObj d = some d ∧ valOk stdLib "date".toList (.tok d.iso) = true ∧
      dateOk stdLib (some d.iso) = true := by
  have h1 := XmlTok.stdTok_date h
  have hne : d.iso.isEmpty = false := by
    cases hh : d.iso with
    | nil => exact absurd hh (XmlTok.dateIso_ne_nil _)
    | cons _ _ => rfl
  have hst := XmlTok.strip_dateIso d
  have hk : tokKinds.contains "date" = true := by decide
  have hd : String.ofList "date".toList = "date" := by decide
  refine ⟨DT.parseDate_iso h, ?_, ?_⟩
  · simp only [valOk, hk, Bool.true_and, tokOk, hd, stdLib, h1, hne, hst, Bool.not_false, beq_self_eq_true,
      Bool.and_self]
  · simp only [dateOk, tokOk, stdLib, h1, hne, hst, Bool.not_false, beq_self_eq_true, Bool.and_self]

/-- Why the conversion matters: the own text of a time zone aware time (`10:15:30+00:00`) is not
    a text the reader takes for a time - stored as it came, the written file could not be loaded. -/
theorem aware_time_text_counterexample :
    (timeGetObj ⟨⟨10, 15, 30, 0⟩, some ⟨false, 0⟩, false⟩).map Time.iso = some "10:15:30".toList ∧
    stdTok "time" (TimeObj.str ⟨⟨10, 15, 30, 0⟩, some ⟨false, 0⟩, false⟩) = none := by decide

/-- ... nor is the text of a time with microseconds, or of an aware datetime. -/
theorem subsecond_time_text_counterexample :
    stdTok "time" (TimeObj.str ⟨⟨12, 0, 0, 250000⟩, none, false⟩) = none ∧
    stdTok "datetime" (DateTimeObj.str ⟨⟨⟨2020, 1, 2⟩, ⟨3, 4, 5, 0⟩⟩, some ⟨true, 19800⟩, false⟩) = none ∧
    dateGetDateTimeObj ⟨⟨⟨2020, 1, 2⟩, ⟨3, 4, 5, 0⟩⟩, none, false⟩ = none := by decide

end C01
