/-
C15 - Version conversion 1.0 -> 1.1 keeps the content and yields a loadable file.

Theorems about the model `OdmlModel/Model/Conv.lean` of
odml/tools/converters/version_converter.py and of the strict XML reader's view of the result.
Helper lemmas: `OdmlModel/Proofs/Conv.lean`.
-/
import OdmlModel.Model.Conv
import OdmlModel.Proofs.Conv

namespace C15
open Conv Conv.Xml

/-! ## All values, in order -/

/-- **Values in order (partial: `plainProp`).**  For every Property whose value texts are
    plain, the single `value` element the converter writes is read back by the strict reader
    (`from_csv`) as exactly the non-blank value texts of the 1.0 Property, stripped, in order -
    for any number of value elements. -/
theorem fold_values_partial (sn st : List Char) (p : Xml)
    (hplain : plainProp p = true) (hne : vals10 p ≠ []) :
    readValues (transformProp sn st p).1.kids = some (vals10 p) := by
  simp only [plainProp, Bool.and_eq_true, List.all_eq_true, Bool.or_eq_true, decide_eq_true_eq] at hplain
  obtain ⟨⟨hgood, hpl⟩, hbr⟩ := hplain
  have hg : ∀ t ∈ (valuesOf p).map Xml.text, t = [] ∨ Py.strip t ≠ [] := by
    intro t ht
    simp only [List.mem_map] at ht
    obtain ⟨v, hv, rfl⟩ := ht
    have := hgood v hv
    simpa using this
  have hloop := valueLoop_text ⟨sn, st, pyStr (findText "name" p.kids)⟩ (valuesOf p)
    { cur := p.kids, main := [], multi := false, log := [] }
  simp only [] at hloop
  rw [foldAll_empty _ _ hg, ← vals10_eq_stripped] at hloop
  cases hvs : vals10 p with
  | nil => exact absurd hvs hne
  | cons v vs =>
    rw [hvs] at hloop hbr hpl
    simp only [Prod.mk.injEq, Bool.false_or] at hloop
    obtain ⟨hmain, hmulti⟩ := hloop
    have hvmem : v ∈ stripped ((valuesOf p).map Xml.text) := by
      rw [← vals10_eq_stripped, hvs]; simp
    obtain ⟨t, hvt, hvne⟩ := mem_stripped hvmem
    have hmne : v ++ tailOf vs ≠ [] := by simp [hvne]
    have hvsp : v.all Py.isSpace = false := by
      rw [hvt]; exact strip_not_all_space t (hvt ▸ hvne)
    have hstrip : Py.strip (mainText (v ++ tailOf vs) (!vs.isEmpty)) ≠ [] := by
      unfold mainText
      split
      · have := strip_ne_nil_of_part ['['] v (tailOf vs ++ [']']) hvsp
        simpa using this
      · have := strip_ne_nil_of_part [] v (tailOf vs) hvsp
        simpa using this
    have hcsv : fromCsv (mainText (v ++ tailOf vs) (!vs.isEmpty)) = some (v :: vs) := by
      apply fromCsv_mainText
      · exact hpl v (by simp)
      · exact hvne
      · intro w hw; exact hpl w (by simp [hw])
      · intro w hw
        have : w ∈ stripped ((valuesOf p).map Xml.text) := by
          rw [← vals10_eq_stripped, hvs]; simp [hw]
        obtain ⟨_, _, h3⟩ := mem_stripped this
        exact h3
      · intro hnil; subst hnil; simpa using hbr
    have hk : (transformProp sn st p).1.kids =
        (propCleanup ⟨sn, st, pyStr (findText "name" p.kids)⟩
          (if (valueLoop ⟨sn, st, pyStr (findText "name" p.kids)⟩ (valuesOf p)
                { cur := p.kids, main := [], multi := false, log := [] }).main ≠ [] then
             (valueLoop ⟨sn, st, pyStr (findText "name" p.kids)⟩ (valuesOf p)
                { cur := p.kids, main := [], multi := false, log := [] }).cur ++
              [leaf "value" (mainText
                (valueLoop ⟨sn, st, pyStr (findText "name" p.kids)⟩ (valuesOf p)
                  { cur := p.kids, main := [], multi := false, log := [] }).main
                (valueLoop ⟨sn, st, pyStr (findText "name" p.kids)⟩ (valuesOf p)
                  { cur := p.kids, main := [], multi := false, log := [] }).multi)]
           else (valueLoop ⟨sn, st, pyStr (findText "name" p.kids)⟩ (valuesOf p)
                { cur := p.kids, main := [], multi := false, log := [] }).cur)).1 := rfl
    rw [hk]
    generalize valueLoop ⟨sn, st, pyStr (findText "name" p.kids)⟩ (valuesOf p)
      { cur := p.kids, main := [], multi := false, log := [] } = S at hmain hmulti ⊢
    rw [hmain, hmulti, if_pos hmne, propCleanup_append, propCleanup_value]
    unfold readValues
    rw [findLast_concat _ _ _ (by simp [leaf, Xml.tag])]
    simp only [leaf, Xml.text]
    simp [hstrip, hcsv]

/-- The full statement does not hold: the text written for the values is not always read back
    as the values. -/
def fold_values_statement : Prop :=
  ∀ (sn st : List Char) (p : Xml), vals10 p ≠ [] →
    readValues (transformProp sn st p).1.kids = some (vals10 p)

/-- 1.0 values `a,b` and `c`. -/
def witnessCommas : Xml :=
  .elem "property" [] [] [leaf "name" "p".toList, leaf "value" "a,b".toList, leaf "value" "c".toList]

theorem fold_values_counterexample :
    readValues (transformProp [] [] witnessCommas).1.kids = some ["a".toList, "b".toList, "c".toList] ∧
    vals10 witnessCommas = ["a,b".toList, "c".toList] := by decide

theorem fold_values_not_full : ¬ fold_values_statement := by
  intro h
  have := h [] [] witnessCommas (by decide)
  revert this
  decide

/-- Further witnesses outside `plainProp`: a leading quote, a blank value, a bracketed single. -/
theorem fold_values_counterexample_quote :
    readValues (transformProp [] [] (.elem "property" [] [] [leaf "name" "p".toList,
      leaf "value" "x".toList, leaf "value" "\"q\"".toList])).1.kids = some ["x".toList, "q".toList] := by
  decide
theorem fold_values_counterexample_blank :
    readValues (transformProp [] [] (.elem "property" [] [] [leaf "name" "p".toList,
      leaf "value" "a".toList, leaf "value" " ".toList])).1.kids = some ["a".toList, []] := by decide
theorem fold_values_counterexample_bracket :
    readValues (transformProp [] [] (.elem "property" [] [] [leaf "name" "p".toList,
      leaf "value" "[x]".toList])).1.kids = some ["x".toList] := by decide

/-- The hypotheses of `fold_values_partial` are satisfiable by a Property with several values,
    attributes on the values and white space around the texts. -/
example : plainProp (.elem "property" [] [] [leaf "name" "p".toList,
    .elem "value" [] " a b\n ".toList [leaf "unit" "mV".toList], leaf "value" [],
    leaf "value" "[c".toList, leaf "value" "12".toList]) = true ∧
    vals10 (.elem "property" [] [] [leaf "name" "p".toList,
    .elem "value" [] " a b\n ".toList [leaf "unit" "mV".toList], leaf "value" [],
    leaf "value" "[c".toList, leaf "value" "12".toList]) = ["a b".toList, "[c".toList, "12".toList] := by
  decide

/-! ## Lifting of the value attributes -/

/-- **First occurrence wins.**  For every 1.1 Property attribute `t` (other than the value and
    the respelled dependency value): the element with tag `t` of the converted Property is the
    Property's own one, else the first value attribute - over all value elements in document
    order - that `_handle_value` exports under `t`; later ones never replace it. -/
theorem lift_first_wins (sn st : List Char) (t : String) (ht : t ∈ propKeys)
    (ht1 : t ≠ "dependencyvalue") (ht2 : t ≠ "value") (p : Xml) :
    find t (transformProp sn st p).1.kids =
      match find t p.kids with
      | some k => some k
      | none => firstLift t ((valuesOf p).flatMap valueElems) := by
  simp only [transformProp, kids_elem, valuesOf]
  rw [propCleanup_find _ t ht ht1]
  have hloop := valueLoop_find ⟨sn, st, pyStr (findText "name" p.kids)⟩ t ht2 (valuesOf p)
    { cur := p.kids, main := [], multi := false, log := [] }
  simp only [valuesOf] at hloop
  split
  · rw [find_append_single, hloop]
    cases find t p.kids with
    | some k => rfl
    | none =>
      simp only [leaf, tag_elem]
      have : ¬ ("value" = t) := fun e => ht2 e.symm
      cases firstLift t (List.flatMap valueElems (List.filter (fun k => k.tag == "value") p.kids)) with
      | some x => rfl
      | none => simp [this]
  · exact hloop

/-- The exported attribute is the first one whose 1.1 name is `t` (specification `valueAttrs10`). -/
theorem firstLift_spec (t : String) (ht : t ∈ propKeys) (ds : List Xml) :
    (firstLift t ds).map Xml.text =
      (ds.map (fun d => (map11 d.tag, if isBinary d.tag d.text then "text".toList else d.text))).lookup t := by
  have hf : "filename" ∉ propKeys := by decide
  have hd : "dtype" ∉ propKeys := by decide
  have hvo : "value_origin" ∈ propKeys := by decide
  have hty : "type" ∈ propKeys := by decide
  induction ds with
  | nil => rfl
  | cons d ds ih =>
    simp only [firstLift, List.map_cons, List.lookup]
    have key : (target d = some t) ↔ map11 d.tag = t := by
      unfold target map11
      by_cases h1 : d.tag = "filename"
      · simp [h1, hf, versionMap, List.lookup]
      · by_cases h2 : d.tag = "dtype"
        · simp [h2, hd, versionMap, List.lookup]
        · have hb1 : (d.tag == "filename") = false := by simpa using h1
          have hb2 : (d.tag == "dtype") = false := by simpa using h2
          simp only [h1, h2, ↓reduceIte, versionMap, List.lookup, hb1, hb2]
          constructor
          · intro h; split at h
            · simpa using h
            · cases h
          · intro h; subst h; simp [ht]
    by_cases hm : map11 d.tag = t
    · have hb : (t == map11 d.tag) = true := by simp [hm]
      rw [if_pos (key.2 hm), hb]
      simp [leaf, fixText]
    · have hb : (t == map11 d.tag) = false := by simp; exact fun e => hm e.symm
      rw [if_neg (fun h => hm (key.1 h)), hb]
      exact ih


/-- Attributes on the first and on later values, agreeing and conflicting, old and new names. -/
example :
    let p : Xml := .elem "property" [] [] [leaf "name" "p".toList,
      .elem "value" [] "1".toList [leaf "dtype" "binary".toList, leaf "encoder" "e".toList],
      .elem "value" [] "2".toList [leaf "unit" "mV".toList, leaf "type" "int".toList,
        leaf "filename" "f.txt".toList],
      .elem "value" [] "3".toList [leaf "unit" "V".toList]]
    (findText "type" (transformProp [] [] p).1.kids = "text".toList) ∧
    (findText "unit" (transformProp [] [] p).1.kids = "mV".toList) ∧
    (findText "value_origin" (transformProp [] [] p).1.kids = "f.txt".toList) ∧
    attr10 "unit" p = "mV".toList ∧ attr10 "type" p = "text".toList := by decide

/-! ## Sibling names -/

/-- Stage 1 renames the Section children of every node exactly as the specification says:
    the k-th sibling with a name already used gets `-k`. -/
theorem rename_sections_spec (b : Bool) (pm : Counter) (ks : List Xml)
    (hn : ∀ k ∈ ks, k.tag = "section" → (find "name" k.kids).isSome = true) :
    secNames (p1Kids b [] pm ks) = names10 [] (secNames ks) := by
  rw [secNames_p1Kids b [] pm ks hn, bumpAll_eq_names10 [] [] _ rep_nil]

/-- The same for the named Property children of a Section. -/
theorem rename_properties_spec (sm : Counter) (ks : List Xml) :
    propNames (p1Kids true sm [] ks) = names10 [] (propNames ks) := by
  rw [propNames_p1Kids, bumpAll_eq_names10 [] [] _ rep_nil]

/-- **Sibling names unique (partial: `noSuffixClash`).**  After suffixing, the names of the
    Section children of a node are pairwise different - for any number of siblings and
    clashes - provided no sibling is literally called `n-k`. -/
theorem rename_unique_partial (b : Bool) (pm : Counter) (ks : List Xml)
    (hn : ∀ k ∈ ks, k.tag = "section" → (find "name" k.kids).isSome = true)
    (hc : noSuffixClash (secNames ks) = true) :
    (secNames (p1Kids b [] pm ks)).Nodup := by
  rw [rename_sections_spec b pm ks hn]
  exact names10_nodup (secNames ks) (secNames ks).length (noSuffixClash_H _ hc) _ []
    (by simp) (fun x hx => hx) (by intro a; simpa using List.count_le_length)

theorem rename_unique_properties_partial (sm : Counter) (ks : List Xml)
    (hc : noSuffixClash (propNames ks) = true) :
    (propNames (p1Kids true sm [] ks)).Nodup := by
  rw [rename_properties_spec]
  exact names10_nodup (propNames ks) (propNames ks).length (noSuffixClash_H _ hc) _ []
    (by simp) (fun x hx => hx) (by intro a; simpa using List.count_le_length)

/-- Siblings `p`, `p`, `p-2`. -/
def witnessClash : List Xml :=
  [.elem "property" [] [] [leaf "name" "p".toList], .elem "property" [] [] [leaf "name" "p".toList],
   .elem "property" [] [] [leaf "name" "p-2".toList]]

/-- Full strength fails: the second `p` becomes `p-2`, which a sibling already is called. -/
theorem rename_unique_counterexample :
    propNames (p1Kids true [] [] witnessClash) = ["p".toList, "p-2".toList, "p-2".toList] ∧
    ¬ (propNames (p1Kids true [] [] witnessClash)).Nodup ∧
    noSuffixClash (propNames witnessClash) = false := by decide

example : noSuffixClash ["p".toList, "p".toList, "q".toList, "p".toList, "q-x".toList] = true ∧
    names10 [] ["p".toList, "p".toList, "q".toList, "p".toList] =
      ["p".toList, "p-2".toList, "q".toList, "p-3".toList] := by decide

/-! ## Ids -/

/-- **Ids.**  After `_add_id` the id the reader sees (the last `id` child) is the normalised
    source id when `uuid.UUID` accepts it, and the fresh one when the id is missing or
    malformed. -/
theorem add_id_spec (fresh : List Char) (e : Xml) :
    lastText "id" (addId fresh e).kids = id10 fresh e.kids := by
  cases e with
  | elem t a x ks =>
    simp only [addId, id10, kids_elem]
    cases hf : find "id" ks with
    | none =>
      simp only [kids_elem, lastText]
      rw [findLast_concat _ _ _ (by simp [leaf])]
      simp [leaf]
    | some oid =>
      simp only [kids_elem, lastText]
      rw [findLast_concat _ _ _ (by simp [leaf])]
      simp [leaf]

theorem id_kept_iff_valid (fresh t : List Char) :
    (∃ u, parseUuid t = some u ∧ idOf fresh t = u) ∨ (parseUuid t = none ∧ idOf fresh t = fresh) := by
  unfold idOf
  cases parseUuid t with
  | none => right; simp
  | some u => left; exact ⟨u, rfl, rfl⟩

example : parseUuid "{79B613EB-A256-46BF-84F6-207DF465B8F7}".toList
    = some "79b613eb-a256-46bf-84f6-207df465b8f7".toList := by decide
example : parseUuid "urn:uuid:12345678-1234-5678-1234-567812345678".toList
    = some "12345678-1234-5678-1234-567812345678".toList := by decide
example : parseUuid "79b613eb-a256-46bf-84f6-207df465b8fz".toList = none := by decide
example : parseUuid [] = none := by decide

/-! ## Vocabulary of the result -/

theorem propCleanup_vocab (pid : PropId) (ks : List Xml) :
    ∀ k ∈ (propCleanup pid ks).1, k.tag ∈ propKeys := by
  induction ks with
  | nil => simp [propCleanup]
  | cons k ks ih =>
    simp only [propCleanup]
    split
    · intro k' hk'
      simp only [List.mem_cons] at hk'
      rcases hk' with rfl | hk'
      · simpa using ‹respell k.tag ∈ propKeys›
      · exact ih k' hk'
    · exact ih

/-- Every child of a converted Property is an argument of the 1.1 Property class
    (`format.Property._args`, regenerated from the code on every run). -/
theorem property_vocab (sn st : List Char) (p : Xml) :
    ∀ k ∈ (transformProp sn st p).1.kids, k.tag ∈ propKeys := by
  intro k hk
  simp only [transformProp, kids_elem] at hk
  exact propCleanup_vocab _ _ k hk

theorem section_vocab (sn : List Char) (ks : List Xml) :
    ∀ k ∈ (secCleanup sn ks).1, k.tag ∈ secKeys := by
  induction ks with
  | nil => simp [secCleanup]
  | cons k ks ih =>
    simp only [secCleanup]
    split
    · intro k' hk'
      simp only [List.mem_cons] at hk'
      rcases hk' with rfl | hk'
      · assumption
      · exact ih k' hk'
    · exact ih

theorem document_vocab (ks : List Xml) : ∀ k ∈ (docCleanup ks).1, k.tag ∈ docKeys := by
  induction ks with
  | nil => simp [docCleanup]
  | cons k ks ih =>
    simp only [docCleanup]
    split
    · intro k' hk'
      simp only [List.mem_cons] at hk'
      rcases hk' with rfl | hk'
      · assumption
      · exact ih k' hk'
    · exact ih

/-- `_add_id` keeps the children inside the vocabulary: `id` is an argument of all three classes. -/
theorem id_in_all_keys : "id" ∈ docKeys ∧ "id" ∈ secKeys ∧ "id" ∈ propKeys := by decide

/-- The tags the converter itself writes are 1.1 arguments, and the 1.0 spellings it maps are not. -/
theorem mapped_tags_in_vocab :
    (∀ p ∈ versionMap, p.2 ∈ propKeys ∧ p.1 ∉ propKeys) ∧ "dependencyvalue" ∈ propKeys ∧
    "dependency_value" ∉ propKeys ∧ "value" ∈ propKeys ∧ "section" ∈ docKeys ∧ "section" ∈ secKeys ∧
    "property" ∈ secKeys ∧ "property" ∉ docKeys := by decide

/-! ## Everything dropped is logged -/

theorem propCleanup_logs (pid : PropId) (ks : List Xml) (k : Xml) (hk : k ∈ ks)
    (hd : respell k.tag ∉ propKeys) :
    LogE.omittedPropAttr pid (respell k.tag) (pyStr k.text) ∈ (propCleanup pid ks).2 := by
  induction ks with
  | nil => cases hk
  | cons k' ks ih =>
    simp only [List.mem_cons] at hk
    simp only [propCleanup]
    rcases hk with rfl | hk
    · simp [hd]
    · split
      · exact ih hk
      · exact List.mem_cons_of_mem _ (ih hk)

theorem secCleanup_logs (sn : List Char) (ks : List Xml) (k : Xml) (hk : k ∈ ks)
    (hd : k.tag ∉ secKeys) : LogE.omittedSecAttr sn k.tag (pyStr k.text) ∈ (secCleanup sn ks).2 := by
  induction ks with
  | nil => cases hk
  | cons k' ks ih =>
    simp only [List.mem_cons] at hk
    simp only [secCleanup]
    rcases hk with rfl | hk
    · simp [hd]
    · split
      · exact ih hk
      · exact List.mem_cons_of_mem _ (ih hk)

theorem docCleanup_logs (ks : List Xml) (k : Xml) (hk : k ∈ ks) (hd : k.tag ∉ docKeys) :
    LogE.omittedDocAttr k.tag (pyStr k.text) ∈ (docCleanup ks).2 := by
  induction ks with
  | nil => cases hk
  | cons k' ks ih =>
    simp only [List.mem_cons] at hk
    simp only [docCleanup]
    rcases hk with rfl | hk
    · simp [hd]
    · split
      · exact ih hk
      · exact List.mem_cons_of_mem _ (ih hk)

/-- Kept or logged, nothing else: a child of a Section / Document survives the clean-up
    exactly when its tag is an argument of the class. -/
theorem secCleanup_keeps (sn : List Char) (ks : List Xml) :
    (secCleanup sn ks).1 = ks.filter (fun k => k.tag ∈ secKeys) := by
  induction ks with
  | nil => simp [secCleanup]
  | cons k ks ih => simp only [secCleanup, List.filter_cons]; split <;> simp_all

theorem docCleanup_keeps (ks : List Xml) :
    (docCleanup ks).1 = ks.filter (fun k => k.tag ∈ docKeys) := by
  induction ks with
  | nil => simp [docCleanup]
  | cons k ks ih => simp only [docCleanup, List.filter_cons]; split <;> simp_all

/-- An unnamed Property is dropped and the drop is recorded. -/
theorem unnamed_property_logged (sn st : List Char) (ks : List Xml) (k : Xml) (hk : k ∈ ks)
    (hp : k.tag = "property") (hn : find "name" k.kids = none) :
    LogE.unnamedProp ∈ (p3Kids sn st ks).2 := by
  induction ks with
  | nil => cases hk
  | cons k' ks ih =>
    simp only [List.mem_cons] at hk
    simp only [p3Kids]
    rcases hk with rfl | hk
    · simp [hp, hn]
    · split
      · split
        · exact List.mem_cons_of_mem _ (ih hk)
        · exact List.mem_append_right _ (ih hk)
      · split
        · exact List.mem_append_right _ (ih hk)
        · exact ih hk

/-! ## The source is not modified -/

/-- **Source unchanged.**  `write_to_file` replaces the content of exactly one path, the
    (completed) target name; the source keeps its bytes whenever it is another path. -/
theorem convert_source_unchanged (fs : FS) (out src : List Char) (data : Option (List Char))
    (h : src ≠ outName out) : writeToFile fs out data src = fs src := by
  cases data <;> simp [writeToFile, h]

theorem write_only_target (fs : FS) (out : List Char) (data : Option (List Char)) (p : List Char)
    (h : p ≠ outName out) : writeToFile fs out data p = fs p := by
  cases data <;> simp [writeToFile, h]

/-- The target name is completed to `.xml` unless it already ends in `.xml` / `.odml`. -/
example : outName "res".toList = "res.xml".toList ∧ outName "res.odml".toList = "res.odml".toList ∧
    outName "a.xml.txt".toList = "a.xml.txt.xml".toList := by decide

/-! ## Root element -/

theorem convert_root (fresh : List Char) (x : Xml) :
    (convertTree fresh x).tag = x.tag ∧
    (convertTree fresh x).attrs = setAttr "version" Gen.Format.formatVersion.toList x.attrs := by
  have h1 : ∀ y : Xml, (p1 y).tag = y.tag ∧ (p1 y).attrs = y.attrs := by
    intro y; cases y; simp [p1]
  have h2 : ∀ y : Xml, (p2 y).tag = y.tag ∧
      (p2 y).attrs = setAttr "version" Gen.Format.formatVersion.toList y.attrs := by
    intro y; cases y; simp [p2]
  have h3 : ∀ y : Xml, (p3 y).1.tag = y.tag ∧ (p3 y).1.attrs = y.attrs := by
    intro y; cases y; simp [p3]
  have h4 : ∀ y : Xml, (p4 y).1.tag = y.tag ∧ (p4 y).1.attrs = y.attrs := by
    intro y; cases y; simp only [p4]; split <;> simp
  have h5 : ∀ y : Xml, (p5 y).1.tag = y.tag ∧ (p5 y).1.attrs = y.attrs := by
    intro y; cases y; simp [p5]
  have h6 : ∀ y : Xml, (p6 fresh 0 y).tag = y.tag ∧ (p6 fresh 0 y).attrs = y.attrs := by
    intro y; cases y; simp only [p6, addId]; split <;> simp
  simp only [convertTree, stage5, stage4, stage3]
  rw [(h6 _).1, (h6 _).2, (h5 _).1, (h5 _).2, (h4 _).1, (h4 _).2, (h3 _).1, (h3 _).2,
    (h2 _).1, (h2 _).2, (h1 _).1, (h1 _).2]
  exact ⟨rfl, rfl⟩

/-- The root of the converted document carries the 1.1 format version, whatever the source said. -/
theorem convert_version (fresh : List Char) (x : Xml) (h : x.attrs.all (fun a => a.1 == "version") = true)
    (h1 : x.attrs.length ≤ 1) :
    (convertTree fresh x).attrs = [("version", Gen.Format.formatVersion.toList)] := by
  rw [(convert_root fresh x).2]
  match hx : x.attrs, h, h1 with
  | [], _, _ => simp [setAttr]
  | [(k, v)], h, _ =>
    simp only [List.all_cons, List.all_nil, Bool.and_true, beq_iff_eq] at h
    simp [setAttr, h]

/-! ## JSON / YAML front ends -/

/-- A value dict becomes a `value` element whose text is `str(d["value"])` and whose other
    keys become child elements in file order: its 1.0 content is the dict's content. -/
theorem valToTree_text (v : DVal) (s : DScalar) (h : v.items.lookup "value" = some s) :
    (valToTree v).text = scalarStr s ∧ (valToTree v).tag = "value" := by
  simp [valToTree, h]

theorem valToTree_attrs (v : DVal) :
    (valToTree v).kids.map (fun k => (k.tag, k.text)) =
      (v.items.filter (fun p => p.1 != "value" && p.1 != "")).map (fun p => (p.1, scalarStr p.2)) := by
  simp [valToTree, leaf, Function.comp_def]

/-- The values of a Property dict are the value texts of the tree built from it, in order. -/
theorem propToTree_vals (items : List DPItem) :
    vals10 (propToTree ⟨items⟩) =
      stripped ((items.flatMap pitemToTree |>.filter (fun k => k.tag == "value")).map Xml.text) := by
  rw [vals10_eq_stripped]; rfl

end C15
