/-
C15 - Version conversion 1.0 -> 1.1 keeps the content and yields a loadable file.

Theorems about the model `OdmlModel/Model/Conv.lean` of
odml/tools/converters/version_converter.py and of the strict XML reader's view of the result.
Helper lemmas: `OdmlModel/Proofs/Conv.lean`.
-/
import OdmlModel.Model.Conv
import OdmlModel.Model.ConvText
import OdmlModel.Proofs.Conv
import OdmlModel.Proofs.ConvWF
import OdmlModel.Proofs.ConvAccept

namespace C15
open Conv Conv.Xml

/-! ## All values, in order -/

/-- **Values in order** (Properties that have a value).  For every Property of a source that
    does not already declare format version 1.1 (`enc = false`: every odML 1.0 document) - any
    number of value elements, any texts, any other children - the single `value` element the
    converter writes is read back by the strict reader (`from_csv`) as exactly the non-blank
    value texts of the 1.0 Property, stripped, in order.  (Before fix 118e0c3 this held only for `plainProp` Properties: values without `,`
    `"` line breaks, blank texts and a bracketed single value; the texts were joined with bare
    commas.  Now they are written with `to_csv`, which `from_csv` inverts: the csv round trip
    of C01.) -/
theorem fold_values_nonempty (sn st : List Char) (p : Xml) (hne : vals10 p ≠ []) :
    readValues (transformProp false sn st p).1.kids = some (vals10 p) := by
  have hvals := valueLoop_vals ⟨sn, st, pyStr (findText "name" p.kids)⟩ (valuesOf p)
    { cur := p.kids, vals := [], log := [] }
  simp only [List.nil_append] at hvals
  have hmap : ((List.map Xml.text (valuesOf p)).filter (fun t => decide (Py.strip t ≠ []))).map Py.strip
      = vals10 p := by rw [map_strip_filter, vals10_eq_stripped]
  have hws : (List.map Xml.text (valuesOf p)).filter (fun t => decide (Py.strip t ≠ [])) ≠ [] := by
    intro h; rw [h] at hmap; exact hne hmap.symm
  have hall : ∀ w ∈ (List.map Xml.text (valuesOf p)).filter (fun t => decide (Py.strip t ≠ [])),
      Py.strip w ≠ [] := by
    intro w hw
    simpa using (List.mem_filter.1 hw).2
  have hk : (transformProp false sn st p).1.kids =
      (propCleanup ⟨sn, st, pyStr (findText "name" p.kids)⟩
        (if (valueLoop ⟨sn, st, pyStr (findText "name" p.kids)⟩ (valuesOf p)
              { cur := p.kids, vals := [], log := [] }).vals ≠ [] then
           (valueLoop ⟨sn, st, pyStr (findText "name" p.kids)⟩ (valuesOf p)
              { cur := p.kids, vals := [], log := [] }).cur ++
            [leaf "value" (mainText false
              (valueLoop ⟨sn, st, pyStr (findText "name" p.kids)⟩ (valuesOf p)
                { cur := p.kids, vals := [], log := [] }).vals)]
         else (valueLoop ⟨sn, st, pyStr (findText "name" p.kids)⟩ (valuesOf p)
              { cur := p.kids, vals := [], log := [] }).cur)).1 := rfl
  rw [hk]
  generalize valueLoop ⟨sn, st, pyStr (findText "name" p.kids)⟩ (valuesOf p)
    { cur := p.kids, vals := [], log := [] } = S at hvals ⊢
  generalize (List.map Xml.text (valuesOf p)).filter (fun t => decide (Py.strip t ≠ [])) = W
    at hmap hws hall hvals
  rw [hvals, if_pos hws, propCleanup_append, propCleanup_value]
  unfold readValues
  rw [findLast_concat _ _ _ (by simp [leaf, Xml.tag])]
  have hstrip := strip_mainText_ne_nil _ hws hall
  simp only [leaf, Xml.text]
  simp [hstrip, fromCsv_mainText, hmap]

/-- A Property without a value (no value element, or blank texts only) gets no `value` child:
    every 1.0 value element is removed, none is written. -/
theorem fold_values_none (sn st : List Char) (p : Xml) (h : vals10 p = []) :
    find "value" (transformProp false sn st p).1.kids = none := by
  have hvals := valueLoop_vals ⟨sn, st, pyStr (findText "name" p.kids)⟩ (valuesOf p)
    { cur := p.kids, vals := [], log := [] }
  simp only [List.nil_append] at hvals
  have hmap : ((List.map Xml.text (valuesOf p)).filter (fun t => decide (Py.strip t ≠ []))).map Py.strip
      = vals10 p := by rw [map_strip_filter, vals10_eq_stripped]
  rw [h, List.map_eq_nil_iff] at hmap
  rw [hmap] at hvals
  have hno := valueLoop_no_value ⟨sn, st, pyStr (findText "name" p.kids)⟩ p [] []
  simp only [transformProp, kids_elem, valuesOf] at hvals hno ⊢
  rw [hvals]
  simp only [ne_eq, not_true_eq_false, ↓reduceIte]
  rw [propCleanup_find _ "value" value_in_propKeys (by decide), hno]

/-- **Values in order, every Property** (the statement at full strength, refuted before the
    repair by `fold_values_not_full`): whatever the value elements of a 1.0 Property contain,
    the strict reader gets exactly its non-blank value texts, stripped, in order, from the
    converted Property. -/
def fold_values_statement : Prop :=
  ∀ (sn st : List Char) (p : Xml),
    readValues (transformProp false sn st p).1.kids = some (vals10 p)

theorem fold_values (sn st : List Char) (p : Xml) :
    readValues (transformProp false sn st p).1.kids = some (vals10 p) := by
  by_cases h : vals10 p = []
  · have := findLast_none_of_find _ _ (fold_values_none sn st p h)
    simp [readValues, this, h]
  · exact fold_values_nonempty sn st p h

theorem fold_values_full : fold_values_statement := fold_values

/-- 1.0 values `a,b` and `c`. -/
def witnessCommas : Xml :=
  .elem "property" [] [] [leaf "name" "p".toList, leaf "value" "a,b".toList, leaf "value" "c".toList]

/-- The former counterexamples, now read back as they are: a comma inside a value, a leading
    quote, a blank value element (no value), a bracketed single value, a line break. -/
theorem fold_values_witness_commas :
    findText "value" (transformProp false [] [] witnessCommas).1.kids = "[\"a,b\",c]".toList ∧
    readValues (transformProp false [] [] witnessCommas).1.kids = some ["a,b".toList, "c".toList] := by
  decide
theorem fold_values_witness_quote :
    readValues (transformProp false [] [] (.elem "property" [] [] [leaf "name" "p".toList,
      leaf "value" "x".toList, leaf "value" "\"q\"".toList])).1.kids
      = some ["x".toList, "\"q\"".toList] := by decide
theorem fold_values_witness_blank :
    readValues (transformProp false [] [] (.elem "property" [] [] [leaf "name" "p".toList,
      leaf "value" "a".toList, leaf "value" " ".toList])).1.kids = some ["a".toList] := by decide
theorem fold_values_witness_bracket :
    readValues (transformProp false [] [] (.elem "property" [] [] [leaf "name" "p".toList,
      leaf "value" "[x]".toList])).1.kids = some ["[x]".toList] := by decide
theorem fold_values_witness_newline :
    readValues (transformProp false [] [] (.elem "property" [] [] [leaf "name" "p".toList,
      leaf "value" "a\nb".toList, leaf "value" "c".toList])).1.kids
      = some ["a\nb".toList, "c".toList] := by decide

/-- **A source that already has the current format version** (`encoded_values`, what
    `FormatConverter` feeds the converter as well; pinned by C17): the single value element of a
    1.1 Property holds the encoded list and is kept as it is, stripped - the converter does not
    change the values of a 1.1 document. -/
theorem fold_values_encoded_single (sn st : List Char) (p v : Xml) (hv : valuesOf p = [v])
    (hne : Py.strip v.text ≠ []) :
    findLast "value" (transformProp true sn st p).1.kids = some (leaf "value" (Py.strip v.text)) := by
  have hvals := valueLoop_vals ⟨sn, st, pyStr (findText "name" p.kids)⟩ (valuesOf p)
    { cur := p.kids, vals := [], log := [] }
  simp only [List.nil_append, hv, List.map_cons, List.map_nil, List.filter_cons, hne, ne_eq,
    not_false_eq_true, decide_true, ↓reduceIte, List.filter_nil] at hvals
  have hk : (transformProp true sn st p).1.kids =
      (propCleanup ⟨sn, st, pyStr (findText "name" p.kids)⟩
        (if (valueLoop ⟨sn, st, pyStr (findText "name" p.kids)⟩ (valuesOf p)
              { cur := p.kids, vals := [], log := [] }).vals ≠ [] then
           (valueLoop ⟨sn, st, pyStr (findText "name" p.kids)⟩ (valuesOf p)
              { cur := p.kids, vals := [], log := [] }).cur ++
            [leaf "value" (mainText true
              (valueLoop ⟨sn, st, pyStr (findText "name" p.kids)⟩ (valuesOf p)
                { cur := p.kids, vals := [], log := [] }).vals)]
         else (valueLoop ⟨sn, st, pyStr (findText "name" p.kids)⟩ (valuesOf p)
              { cur := p.kids, vals := [], log := [] }).cur)).1 := rfl
  rw [hk, hv]
  generalize valueLoop ⟨sn, st, pyStr (findText "name" p.kids)⟩ [v]
    { cur := p.kids, vals := [], log := [] } = S at hvals ⊢
  rw [hvals, if_pos (by simp), propCleanup_append, propCleanup_value]
  rw [findLast_concat _ _ _ (by simp [leaf, Xml.tag])]
  simp [mainText]

/-- `<value>[a,b]</value>` of a 1.1 Property stays the list of `a` and `b`; in a 1.0 document the
    same text is the one value `[a,b]`. -/
theorem fold_values_witness_encoded :
    readValues (transformProp true [] [] (.elem "property" [] [] [leaf "name" "p".toList,
      leaf "value" "[a,b]".toList])).1.kids = some ["a".toList, "b".toList] ∧
    readValues (transformProp false [] [] (.elem "property" [] [] [leaf "name" "p".toList,
      leaf "value" "[a,b]".toList])).1.kids = some ["[a,b]".toList] ∧
    encodedValues (.elem "odML" [("version", "1.1".toList)] [] []) = true ∧
    encodedValues (.elem "odML" [("version", "1".toList)] [] []) = false ∧
    encodedValues (.elem "odML" [] [] []) = false := by decide

/-- The text before the repair (`foldTextLegacy`: the stripped texts joined with bare commas,
    brackets for more than one) was not read back as the values: the defect fix 118e0c3 repairs. -/
def joinLegacy : List (List Char) → List Char
  | [] => []
  | [v] => Py.strip v
  | v :: vs => '[' :: (Py.strip v ++ vs.flatMap (fun w => ',' :: Py.strip w)) ++ [']']

theorem fold_values_legacy_counterexample :
    fromCsv (joinLegacy ["a,b".toList, "c".toList]) = some ["a".toList, "b".toList, "c".toList] ∧
    fromCsv (joinLegacy ["[x]".toList]) = some ["x".toList] ∧
    fromCsv (joinLegacy ["a\nb".toList, "c".toList]) = some ["a".toList] := by decide

/-- Plain values are written as before: the repair does not change the text of a document
    that was converted correctly. -/
example : findText "value" (transformProp false [] [] (.elem "property" [] [] [leaf "name" "p".toList,
    .elem "value" [] " a b\n ".toList [leaf "unit" "mV".toList], leaf "value" [],
    leaf "value" "[c".toList, leaf "value" "12".toList])).1.kids = "[a b,[c,12]".toList ∧
    joinLegacy [" a b\n ".toList, "[c".toList, "12".toList] = "[a b,[c,12]".toList := by decide

/-! ## Lifting of the value attributes -/

/-- **First occurrence wins.**  For every 1.1 Property attribute `t` (other than the value and
    the respelled dependency value): the element with tag `t` of the converted Property is the
    Property's own one, else the first value attribute - over all value elements in document
    order - that `_handle_value` exports under `t`; later ones never replace it. -/
theorem lift_first_wins (enc : Bool) (sn st : List Char) (t : String) (ht : t ∈ propKeys)
    (ht1 : t ≠ "dependencyvalue") (ht2 : t ≠ "value") (p : Xml) :
    find t (transformProp enc sn st p).1.kids =
      match find t p.kids with
      | some k => some k
      | none => firstLift t ((valuesOf p).flatMap valueElems) := by
  simp only [transformProp, kids_elem, valuesOf]
  rw [propCleanup_find _ t ht ht1]
  have hloop := valueLoop_find ⟨sn, st, pyStr (findText "name" p.kids)⟩ t ht2 (valuesOf p)
    { cur := p.kids, vals := [], log := [] }
  simp only [valuesOf] at hloop
  split
  · rw [find_append_single, hloop]
    cases find t p.kids with
    | some k => rfl
    | none =>
      simp only [leaf, tag_elem]
      have : ¬ ("value" = t) := fun e => ht2 e.symm
      cases firstLift t (List.flatMap valueElems (List.filter (fun k => k.tag == "value") p.kids)) with
      | some x => rfl
      | none => simp [this]
  · exact hloop

/-- The exported attribute is the first one whose 1.1 name is `t` (specification `valueAttrs10`). -/
theorem firstLift_spec (t : String) (ht : t ∈ propKeys) (ds : List Xml) :
    (firstLift t ds).map Xml.text =
      (ds.map (fun d => (map11 d.tag, if isBinary d.tag d.text then "text".toList else d.text))).lookup t := by
  have hf : "filename" ∉ propKeys := by decide
  have hd : "dtype" ∉ propKeys := by decide
  have hvo : "value_origin" ∈ propKeys := by decide
  have hty : "type" ∈ propKeys := by decide
  induction ds with
  | nil => rfl
  | cons d ds ih =>
    simp only [firstLift, List.map_cons, List.lookup]
    have key : (target d = some t) ↔ map11 d.tag = t := by
      unfold target map11
      by_cases h1 : d.tag = "filename"
      · simp [h1, hf, versionMap, List.lookup]
      · by_cases h2 : d.tag = "dtype"
        · simp [h2, hd, versionMap, List.lookup]
        · have hb1 : (d.tag == "filename") = false := by simpa using h1
          have hb2 : (d.tag == "dtype") = false := by simpa using h2
          simp only [h1, h2, ↓reduceIte, versionMap, List.lookup, hb1, hb2]
          constructor
          · intro h; split at h
            · simpa using h
            · cases h
          · intro h; subst h; simp [ht]
    by_cases hm : map11 d.tag = t
    · have hb : (t == map11 d.tag) = true := by simp [hm]
      rw [if_pos (key.2 hm), hb]
      simp [leaf, fixText]
    · have hb : (t == map11 d.tag) = false := by simp; exact fun e => hm e.symm
      rw [if_neg (fun h => hm (key.1 h)), hb]
      exact ih


/-- Attributes on the first and on later values, agreeing and conflicting, old and new names. -/
example :
    let p : Xml := .elem "property" [] [] [leaf "name" "p".toList,
      .elem "value" [] "1".toList [leaf "dtype" "binary".toList, leaf "encoder" "e".toList],
      .elem "value" [] "2".toList [leaf "unit" "mV".toList, leaf "type" "int".toList,
        leaf "filename" "f.txt".toList],
      .elem "value" [] "3".toList [leaf "unit" "V".toList]]
    (findText "type" (transformProp false [] [] p).1.kids = "text".toList) ∧
    (findText "unit" (transformProp false [] [] p).1.kids = "mV".toList) ∧
    (findText "value_origin" (transformProp false [] [] p).1.kids = "f.txt".toList) ∧
    attr10 "unit" p = "mV".toList ∧ attr10 "type" p = "text".toList := by decide

/-! ## Sibling names -/

/-- Stage 1 renames the named Section children of every node exactly as the specification
    says: the first sibling with a name keeps it, the k-th gets `-k` or the next higher number
    that gives a name no other sibling has. -/
theorem rename_sections_spec (b : Bool) (pm : Counter) (pd : List (List Char)) (ks : List Xml) :
    secNames (p1Kids b [] pm [] pd ks) = names10 [] [] (secNames ks) := by
  rw [secNames_p1Kids b [] pm [] pd ks, bumpAll_eq_names10 [] [] [] _ rep_nil]

/-- The same for the named Property children of a Section. -/
theorem rename_properties_spec (sm : Counter) (sd : List (List Char)) (ks : List Xml) :
    propNames (p1Kids true sm [] sd [] ks) = names10 [] [] (propNames ks) := by
  rw [propNames_p1Kids, bumpAll_eq_names10 [] [] [] _ rep_nil]

/-- **Sibling names unique.**  After suffixing, the names of the Section children of a node
    are pairwise different - for any number of siblings, any names (also ones that look like
    suffixed names, `p-2`) and any number of clashes.  (Before fix 6a95aab this needed the
    hypothesis `noSuffixClash`: no sibling literally called `n-k`.) -/
theorem rename_unique (b : Bool) (pm : Counter) (pd : List (List Char)) (ks : List Xml) :
    (secNames (p1Kids b [] pm [] pd ks)).Nodup := by
  rw [rename_sections_spec b pm pd ks]
  simpa using names10_nodup (secNames ks) [] [] List.nodup_nil (by simp)

theorem rename_unique_properties (sm : Counter) (sd : List (List Char)) (ks : List Xml) :
    (propNames (p1Kids true sm [] sd [] ks)).Nodup := by
  rw [rename_properties_spec]
  simpa using names10_nodup (propNames ks) [] [] List.nodup_nil (by simp)

/-- The first sibling with a name keeps it; a later one gets that name with a numeric suffix;
    where the number of the occurrence gives a free name it is the one taken (the names before
    the repair, `name10Legacy`). -/
theorem rename_keeps_first (used prev : List (List Char)) (n : List Char) (h : prev.count n = 0) :
    name10 used prev n = n := by simp [name10, h]

theorem rename_numeric_suffix (used prev : List (List Char)) (n : List Char) (h : prev.count n ≠ 0) :
    ∃ k, prev.count n + 1 ≤ k ∧ name10 used prev n = suffix n k ∧ suffix n k ∉ used := by
  refine ⟨nextFree n used used.length (prev.count n + 1), nextFree_ge _ _ _ _, by simp [name10, h], ?_⟩
  exact nextFree_free n used _

theorem rename_default_when_free (used prev : List (List Char)) (n : List Char)
    (h : suffix n (prev.count n + 1) ∉ used) : name10 used prev n = name10Legacy prev n :=
  name10_default used prev n h

/-- Siblings `p`, `p`, `p-2`. -/
def witnessClash : List Xml :=
  [.elem "property" [] [] [leaf "name" "p".toList], .elem "property" [] [] [leaf "name" "p".toList],
   .elem "property" [] [] [leaf "name" "p-2".toList]]

/-- The former counterexample: the second `p` becomes `p-3`, because `p-2` is a sibling. -/
theorem rename_unique_witness :
    propNames (p1Kids true [] [] [] [] witnessClash) = ["p".toList, "p-3".toList, "p-2".toList] ∧
    (propNames (p1Kids true [] [] [] [] witnessClash)).Nodup := by decide

/-- Before the repair the second `p` became `p-2`, which a sibling already is called. -/
theorem rename_legacy_counterexample :
    names10Legacy [] (propNames witnessClash) = ["p".toList, "p-2".toList, "p-2".toList] ∧
    ¬ (names10Legacy [] (propNames witnessClash)).Nodup := by decide

example : names10 [] [] ["p".toList, "p".toList, "q".toList, "p".toList] =
      ["p".toList, "p-2".toList, "q".toList, "p-3".toList] ∧
    names10 [] [] ["p".toList, "p".toList, "p-2".toList, "p".toList, "p-3".toList] =
      ["p".toList, "p-4".toList, "p-2".toList, "p-5".toList, "p-3".toList] := by decide

/-! ## Ids -/

/-- **Ids.**  After `_add_id` the id the reader sees (the last `id` child) is the normalised
    source id when `uuid.UUID` accepts it, and the fresh one when the id is missing or
    malformed. -/
theorem add_id_spec (fresh : List Char) (e : Xml) :
    lastText "id" (addId fresh e).kids = id10 fresh e.kids := by
  cases e with
  | elem t a x ks =>
    simp only [addId, id10, kids_elem]
    cases hf : find "id" ks with
    | none =>
      simp only [kids_elem, lastText]
      rw [findLast_concat _ _ _ (by simp [leaf])]
      simp [leaf]
    | some oid =>
      simp only [kids_elem, lastText]
      rw [findLast_concat _ _ _ (by simp [leaf])]
      simp [leaf]

theorem id_kept_iff_valid (fresh t : List Char) :
    (∃ u, parseUuid t = some u ∧ idOf fresh t = u) ∨ (parseUuid t = none ∧ idOf fresh t = fresh) := by
  unfold idOf
  cases parseUuid t with
  | none => right; simp
  | some u => left; exact ⟨u, rfl, rfl⟩

example : parseUuid "{79B613EB-A256-46BF-84F6-207DF465B8F7}".toList
    = some "79b613eb-a256-46bf-84f6-207df465b8f7".toList := by decide
example : parseUuid "urn:uuid:12345678-1234-5678-1234-567812345678".toList
    = some "12345678-1234-5678-1234-567812345678".toList := by decide
example : parseUuid "79b613eb-a256-46bf-84f6-207df465b8fz".toList = none := by decide
example : parseUuid [] = none := by decide

/-! ## Vocabulary of the result -/

theorem propCleanup_vocab (pid : PropId) (ks : List Xml) :
    ∀ k ∈ (propCleanup pid ks).1, k.tag ∈ propKeys := by
  induction ks with
  | nil => simp [propCleanup]
  | cons k ks ih =>
    simp only [propCleanup]
    split
    · intro k' hk'
      simp only [List.mem_cons] at hk'
      rcases hk' with rfl | hk'
      · simpa using ‹respell k.tag ∈ propKeys›
      · exact ih k' hk'
    · exact ih

/-- Every child of a converted Property is an argument of the 1.1 Property class
    (`format.Property._args`, regenerated from the code on every run). -/
theorem property_vocab (enc : Bool) (sn st : List Char) (p : Xml) :
    ∀ k ∈ (transformProp enc sn st p).1.kids, k.tag ∈ propKeys := by
  intro k hk
  simp only [transformProp, kids_elem] at hk
  exact propCleanup_vocab _ _ k hk

theorem section_vocab (sn : List Char) (ks : List Xml) :
    ∀ k ∈ (secCleanup sn ks).1, k.tag ∈ secKeys := by
  induction ks with
  | nil => simp [secCleanup]
  | cons k ks ih =>
    simp only [secCleanup]
    split
    · intro k' hk'
      simp only [List.mem_cons] at hk'
      rcases hk' with rfl | hk'
      · assumption
      · exact ih k' hk'
    · exact ih

theorem document_vocab (ks : List Xml) : ∀ k ∈ (docCleanup ks).1, k.tag ∈ docKeys := by
  induction ks with
  | nil => simp [docCleanup]
  | cons k ks ih =>
    simp only [docCleanup]
    split
    · intro k' hk'
      simp only [List.mem_cons] at hk'
      rcases hk' with rfl | hk'
      · assumption
      · exact ih k' hk'
    · exact ih

/-- `_add_id` keeps the children inside the vocabulary: `id` is an argument of all three classes. -/
theorem id_in_all_keys : "id" ∈ docKeys ∧ "id" ∈ secKeys ∧ "id" ∈ propKeys := by decide

/-- The tags the converter itself writes are 1.1 arguments, and the 1.0 spellings it maps are not. -/
theorem mapped_tags_in_vocab :
    (∀ p ∈ versionMap, p.2 ∈ propKeys ∧ p.1 ∉ propKeys) ∧ "dependencyvalue" ∈ propKeys ∧
    "dependency_value" ∉ propKeys ∧ "value" ∈ propKeys ∧ "section" ∈ docKeys ∧ "section" ∈ secKeys ∧
    "property" ∈ secKeys ∧ "property" ∉ docKeys := by decide

/-! ## Everything dropped is logged -/

theorem propCleanup_logs (pid : PropId) (ks : List Xml) (k : Xml) (hk : k ∈ ks)
    (hd : respell k.tag ∉ propKeys) :
    LogE.omittedPropAttr pid (respell k.tag) (pyStr k.text) ∈ (propCleanup pid ks).2 := by
  induction ks with
  | nil => cases hk
  | cons k' ks ih =>
    simp only [List.mem_cons] at hk
    simp only [propCleanup]
    rcases hk with rfl | hk
    · simp [hd]
    · split
      · exact ih hk
      · exact List.mem_cons_of_mem _ (ih hk)

theorem secCleanup_logs (sn : List Char) (ks : List Xml) (k : Xml) (hk : k ∈ ks)
    (hd : k.tag ∉ secKeys) : LogE.omittedSecAttr sn k.tag (pyStr k.text) ∈ (secCleanup sn ks).2 := by
  induction ks with
  | nil => cases hk
  | cons k' ks ih =>
    simp only [List.mem_cons] at hk
    simp only [secCleanup]
    rcases hk with rfl | hk
    · simp [hd]
    · split
      · exact ih hk
      · exact List.mem_cons_of_mem _ (ih hk)

theorem docCleanup_logs (ks : List Xml) (k : Xml) (hk : k ∈ ks) (hd : k.tag ∉ docKeys) :
    LogE.omittedDocAttr k.tag (pyStr k.text) ∈ (docCleanup ks).2 := by
  induction ks with
  | nil => cases hk
  | cons k' ks ih =>
    simp only [List.mem_cons] at hk
    simp only [docCleanup]
    rcases hk with rfl | hk
    · simp [hd]
    · split
      · exact ih hk
      · exact List.mem_cons_of_mem _ (ih hk)

/-- Kept or logged, nothing else: a child of a Section / Document survives the clean-up
    exactly when its tag is an argument of the class. -/
theorem secCleanup_keeps (sn : List Char) (ks : List Xml) :
    (secCleanup sn ks).1 = ks.filter (fun k => k.tag ∈ secKeys) := by
  induction ks with
  | nil => simp [secCleanup]
  | cons k ks ih => simp only [secCleanup, List.filter_cons]; split <;> simp_all

theorem docCleanup_keeps (ks : List Xml) :
    (docCleanup ks).1 = ks.filter (fun k => k.tag ∈ docKeys) := by
  induction ks with
  | nil => simp [docCleanup]
  | cons k ks ih => simp only [docCleanup, List.filter_cons]; split <;> simp_all

/-- An unnamed Property is dropped and the drop is recorded. -/
theorem unnamed_property_logged (enc : Bool) (sn st : List Char) (ks : List Xml) (k : Xml) (hk : k ∈ ks)
    (hp : k.tag = "property") (hn : find "name" k.kids = none) :
    LogE.unnamedProp ∈ (p3Kids enc sn st ks).2 := by
  induction ks with
  | nil => cases hk
  | cons k' ks ih =>
    simp only [List.mem_cons] at hk
    simp only [p3Kids]
    rcases hk with rfl | hk
    · simp [hp, hn]
    · split
      · split
        · exact List.mem_cons_of_mem _ (ih hk)
        · exact List.mem_append_right _ (ih hk)
      · split
        · exact List.mem_append_right _ (ih hk)
        · exact ih hk

/-! ## The source is not modified -/

/-- **Source unchanged.**  `write_to_file` replaces the content of exactly one path, the
    (completed) target name; the source keeps its bytes whenever it is another path. -/
theorem convert_source_unchanged (fs : FS) (out src : List Char) (data : Option (List Char))
    (h : src ≠ outName out) : writeToFile fs out data src = fs src := by
  cases data <;> simp [writeToFile, h]

theorem write_only_target (fs : FS) (out : List Char) (data : Option (List Char)) (p : List Char)
    (h : p ≠ outName out) : writeToFile fs out data p = fs p := by
  cases data <;> simp [writeToFile, h]

/-- The target name is completed to `.xml` unless it already ends in `.xml` / `.odml`. -/
example : outName "res".toList = "res.xml".toList ∧ outName "res.odml".toList = "res.odml".toList ∧
    outName "a.xml.txt".toList = "a.xml.txt.xml".toList := by decide

/-! ## Root element -/

theorem convert_root (fresh : List Char) (x : Xml) :
    (convertTree fresh x).tag = x.tag ∧
    (convertTree fresh x).attrs = setAttr "version" Gen.Format.formatVersion.toList x.attrs := by
  have h1 : ∀ y : Xml, (p1 y).tag = y.tag ∧ (p1 y).attrs = y.attrs := by
    intro y; cases y; simp [p1]
  have h2 : ∀ y : Xml, (p2 y).tag = y.tag ∧
      (p2 y).attrs = setAttr "version" Gen.Format.formatVersion.toList y.attrs := by
    intro y; cases y; simp [p2]
  have h3 : ∀ (e : Bool) (y : Xml), (p3 e y).1.tag = y.tag ∧ (p3 e y).1.attrs = y.attrs := by
    intro e y; cases y; simp [p3]
  have h4 : ∀ y : Xml, (p4 y).1.tag = y.tag ∧ (p4 y).1.attrs = y.attrs := by
    intro y; cases y; simp only [p4]; split <;> simp
  have h5 : ∀ y : Xml, (p5 y).1.tag = y.tag ∧ (p5 y).1.attrs = y.attrs := by
    intro y; cases y; simp [p5]
  have h6 : ∀ y : Xml, (p6 fresh 0 y).tag = y.tag ∧ (p6 fresh 0 y).attrs = y.attrs := by
    intro y; cases y; simp only [p6, addId]; split <;> simp
  simp only [convertTree, stage5, stage4, stage3]
  rw [(h6 _).1, (h6 _).2, (h5 _).1, (h5 _).2, (h4 _).1, (h4 _).2, (h3 _ _).1, (h3 _ _).2,
    (h2 _).1, (h2 _).2, (h1 _).1, (h1 _).2]
  exact ⟨rfl, rfl⟩

/-- The root of the converted document carries the 1.1 format version, whatever the source said. -/
theorem convert_version (fresh : List Char) (x : Xml) (h : x.attrs.all (fun a => a.1 == "version") = true)
    (h1 : x.attrs.length ≤ 1) :
    (convertTree fresh x).attrs = [("version", Gen.Format.formatVersion.toList)] := by
  rw [(convert_root fresh x).2]
  match hx : x.attrs, h, h1 with
  | [], _, _ => simp [setAttr]
  | [(k, v)], h, _ =>
    simp only [List.all_cons, List.all_nil, Bool.and_true, beq_iff_eq] at h
    simp [setAttr, h]

/-! ## JSON / YAML front ends -/

/-- A value dict becomes a `value` element whose text is `str(d["value"])` and whose other
    keys become child elements in file order: its 1.0 content is the dict's content. -/
theorem valToTree_text (v : DVal) (s : DScalar) (h : v.items.lookup "value" = some s) :
    (valToTree v).text = scalarStr s ∧ (valToTree v).tag = "value" := by
  simp [valToTree, h]

theorem valToTree_attrs (v : DVal) :
    (valToTree v).kids.map (fun k => (k.tag, k.text)) =
      (v.items.filter (fun p => p.1 != "value" && p.1 != "")).map (fun p => (p.1, scalarStr p.2)) := by
  simp [valToTree, leaf, Function.comp_def]

/-- The values of a Property dict are the value texts of the tree built from it, in order. -/
theorem propToTree_vals (items : List DPItem) :
    vals10 (propToTree ⟨items⟩) =
      stripped ((items.flatMap pitemToTree |>.filter (fun k => k.tag == "value")).map Xml.text) := by
  rw [vals10_eq_stripped]; rfl

/-! ## The whole-tree composition `readDoc (convertTree x) = content10 x`

Helper files: `Proofs/ConvSel.lean` (the reader and the six passes in terms of "the children with
tag t"), `Proofs/ConvUuid.lean` (`uuid.UUID` accepts and reprints what it printed),
`Proofs/ConvProp.lean` (Property level), `Proofs/ConvTree.lean` (Sections by structural induction,
Document), `Proofs/ConvWF.lean` (`WF10` implies the hypothesis `ConvWF`). -/

/-- A 1.0 document with what the property quantifies over: Sections nested three deep with clashing
    sibling names (`s`, `s`, and a literal `s-2`), Properties with 0 / 1 / 3 value elements and
    attributes on the first, on later and on all values (agreeing and conflicting, 1.0 and 1.1
    names, `binary`), clashing Property names, ids that are valid (with braces / upper case),
    malformed and absent, both spellings of the dependency value, an unnamed Property, a
    root-level Property, unsupported elements at every level, value texts with commas, quotes,
    brackets and blanks. -/
def sampleDoc : Xml :=
  .elem "odML" [("version", "1".toList)] [] [
    leaf "author" "A. Author".toList, leaf "foo" "dropped".toList,
    leaf "id" "{79B613EB-A256-46BF-84F6-207DF465B8F7}".toList,
    .elem "property" [] [] [leaf "name" "rootprop".toList, leaf "value" "1".toList],
    .elem "section" [] [] [
      leaf "name" "s".toList, leaf "type" "t".toList, leaf "definition" " def ".toList,
      leaf "mapping" "m".toList,
      .elem "property" [] [] [leaf "name" "p".toList, leaf "id" "not-a-uuid".toList,
        .elem "value" [] " a,b ".toList [leaf "unit" "mV".toList, leaf "dtype" "binary".toList,
          leaf "encoder" "e".toList],
        .elem "value" [] "\"q\"".toList [leaf "unit" "V".toList, leaf "filename" "f.txt".toList],
        .elem "value" [] " ".toList [leaf "uncertainty" "0.1".toList],
        leaf "dependency_value" "dv".toList, leaf "bar" "x".toList],
      .elem "property" [] [] [leaf "name" "p".toList, leaf "unit" "kg".toList,
        leaf "id" "urn:uuid:12345678-1234-5678-1234-567812345678".toList,
        .elem "value" [] "[x]".toList [leaf "unit" "g".toList, leaf "type" "string".toList,
          leaf "reference" "ref".toList, leaf "definition" "d".toList]],
      .elem "property" [] [] [leaf "name" "p-2".toList, leaf "dependencyvalue" "w".toList,
        leaf "dependency" "p".toList],
      .elem "property" [] [] [leaf "value" "unnamed".toList],
      .elem "section" [] [] [
        leaf "name" "sub".toList, leaf "type" "t2".toList,
        leaf "id" "79b613eb-a256-46bf-84f6-207df465b8f7".toList,
        .elem "section" [] [] [
          leaf "name" "deep".toList, leaf "type" "t3".toList,
          .elem "property" [] [] [leaf "name" "q".toList,
            .elem "value" [] "1".toList [leaf "type" "int".toList],
            .elem "value" [] "2".toList [leaf "type" "int".toList],
            .elem "value" [] "3".toList [leaf "type" "float".toList]]]]],
    .elem "section" [] [] [leaf "name" "s".toList, leaf "type" "t".toList],
    .elem "section" [] [] [leaf "name" "s-2".toList, leaf "type" "t".toList, leaf "id" "x".toList],
    .elem "section" [] [] [leaf "name" "s".toList, leaf "type" "t".toList]]

set_option maxRecDepth 100000 in
theorem sampleDoc_wf : WF10 sampleDoc = true ∧ ConvWF sampleDoc = true := by decide


/-! ### Layer by layer: value attributes, Property, Section, Document -/

/-- **The lifted element is the only one of its tag.**  A tag the reader looks at that occurs at
    most once among the children of the 1.0 Property occurs at most once among the children of
    the converted Property, however many value elements carry that attribute. -/
theorem lifted_element_unique (enc : Bool) (sn st : List Char) (p : Xml) (t : String)
    (ht : t ∈ propKeys) (h1 : t ≠ "dependencyvalue") (h2 : t ≠ "value")
    (hu : (sel t p.kids).length ≤ 1) : (sel t (transformProp enc sn st p).1.kids).length ≤ 1 :=
  transformProp_le_one enc sn st p t ht h1 h2 hu

/-- **The reader's "last wins" is the converter's "first wins".**  The child of the converted
    Property the strict reader takes for `t` (the last one) is the Property's own element, else
    the first value attribute exported under `t`. -/
theorem last_wins_is_first_wins (enc : Bool) (sn st : List Char) (p : Xml) (t : String)
    (ht : t ∈ propKeys) (h1 : t ≠ "dependencyvalue") (h2 : t ≠ "value")
    (hu : (sel t p.kids).length ≤ 1) :
    findLast t (transformProp enc sn st p).1.kids =
      match find t p.kids with
      | some k => some k
      | none => firstLift t ((valuesOf p).flatMap valueElems) := by
  rw [findLast_eq_find_of_le_one t _ (lifted_element_unique enc sn st p t ht h1 h2 hu)]
  exact lift_first_wins enc sn st t ht h1 h2 p

/-- **Property level.**  For every named 1.0 Property with `PropOK` (each tag the reader looks at
    at most once among its own children, one spelling of the dependency value, no `id` /
    `dependencyvalue` on a value element) - any number of value elements, any attributes on
    them, any texts, any unsupported children - the content the strict reader extracts from the
    converted Property (after `_handle_properties` and `n + 1` runs of `_add_id`, one per
    enclosing Section) is the content specification `propC10`: name, all values in order, unit,
    uncertainty, dtype, value origin, definition, reference, dependency, dependency value, id. -/
theorem property_content (fresh : List Char) (hf : idOf fresh fresh = fresh) (sn st : List Char)
    (n : Nat) (p : Xml) (h : PropOK p) :
    readProp (iter (addId fresh) (n + 1) (transformProp false sn st p).1) =
      propC10 fresh (findText "name" p.kids) p :=
  readProp_converted fresh hf fold_values sn st n p h

/-- **Section level** (structural induction over the nested tree).  For every Section element
    `k` with `convOK k` - any depth below it, any number of Sections and Properties - what the
    reader extracts from the Section after all six passes (`n`: the name stage 1 gives it, `d`:
    the number of Sections above it) is `secC10 fresh n k`: name, type, definition, id, the
    named Properties in order under their unique names, and the Sections below, recursively. -/
theorem section_content (fresh : List Char) (hf : idOf fresh fresh = fresh) (k : Xml)
    (hs : k.tag = "section") (hk : convOK k = true) (d : Nat) (n : List Char) :
    readSec (p6 fresh d (p4 (p3 false (rename n (p1 k))).1).1) = secC10 fresh n k :=
  section_level fresh hf fold_values k hs hk d n

/-- **Whole-tree composition: the conversion keeps the content.**  For every 1.0 element tree
    `x` with `ConvWF x` (any depth, any number of Sections, Properties and value elements; any
    names, ids, texts, root attributes other than `version="1.1"`, unsupported elements, unnamed
    and root-level Properties), the document the strict reader extracts from the converted tree
    is the content specification of the source: the same Section tree, the named Properties
    with all their values in order, the attributes 1.0 kept on the values, unique sibling names,
    valid ids kept and the others fresh.  `hf`: `_add_id` leaves the fresh id alone (true of
    every `str(uuid4())`: `fresh_uuid4_ok`, and of every text that is no uuid: `fresh_marker_ok`). -/
theorem convert_preserves_content (fresh : List Char) (hf : idOf fresh fresh = fresh) (x : Xml)
    (h : ConvWF x = true) : readDoc (convertTree fresh x) = content10 fresh x :=
  readDoc_convertTree fresh hf fold_values x h

/-- The same for the well-formedness predicate of the model (`WF10`: the one the driver
    evaluates on every generated document and the tie compares `read` and `spec` under). -/
theorem convert_preserves_content_wf10 (fresh : List Char) (hf : idOf fresh fresh = fresh) (x : Xml)
    (h : WF10 x = true) : readDoc (convertTree fresh x) = content10 fresh x :=
  convert_preserves_content fresh hf x (ConvWF_of_WF10 x h)

/-- `WF10` implies `ConvWF` (which does not ask for the modelled shape, root attributes, a
    single root id, Section types, stripped names or the absence of XML attributes). -/
theorem wf10_implies_convWF (x : Xml) (h : WF10 x = true) : ConvWF x = true := ConvWF_of_WF10 x h

/-- The hypothesis on the fresh id holds for every text in the form `uuid.UUID` prints (what
    `str(uuid.uuid4())` is) and for every text `uuid.UUID` rejects (the marker of the tie). -/
theorem fresh_uuid4_ok (fresh : List Char) (h : parseUuid fresh = some fresh) :
    idOf fresh fresh = fresh := idOf_fresh_of_canonical fresh h

theorem fresh_marker_ok (fresh : List Char) (h : parseUuid fresh = none) :
    idOf fresh fresh = fresh := idOf_fresh_of_invalid fresh h

/-- `uuid.UUID` accepts what it printed and prints it the same way: a second `_add_id` on the
    same element (Properties get one per enclosing Section) does not change the id. -/
theorem add_id_twice (fresh t : List Char) (hf : idOf fresh fresh = fresh) :
    idOf fresh (idOf fresh t) = idOf fresh t := idOf_idem fresh t hf

example : parseUuid "0b2a6bf1-118e-4c3d-9a95-aab7b9559d01".toList
    = some "0b2a6bf1-118e-4c3d-9a95-aab7b9559d01".toList ∧
    parseUuid "#fresh-uuid4#".toList = none := by decide

/-- The hypotheses are met by a realistic document, and the theorem applies to it. -/
example : readDoc (convertTree "0b2a6bf1-118e-4c3d-9a95-aab7b9559d01".toList sampleDoc) =
    content10 "0b2a6bf1-118e-4c3d-9a95-aab7b9559d01".toList sampleDoc :=
  convert_preserves_content_wf10 _ (fresh_uuid4_ok _ (by decide)) sampleDoc sampleDoc_wf.1

/-- A document outside `WF10` (not of the modelled shape: a Section inside an unsupported
    element; XML attributes; an untyped Section; two root ids) that `ConvWF` covers. -/
def sampleLoose : Xml :=
  .elem "root" [("version", "1".toList), ("x", "y".toList)] [] [
    leaf "id" "a".toList, leaf "id" "b".toList,
    .elem "wrapper" [] [] [.elem "section" [] [] []],
    .elem "section" [("a", "b".toList)] [] [leaf "name" " n ".toList,
      .elem "property" [("k", "v".toList)] [] [leaf "name" "".toList, leaf "value" "1".toList,
        leaf "value" "2".toList]]]

example : WF10 sampleLoose = false ∧ ConvWF sampleLoose = true := by decide

/-! ### The hypotheses are needed -/

/-- Two `unit` children on a 1.0 Property: the converter keeps both, the reader takes the last,
    the specification (first occurrence) the first. -/
theorem property_content_needs_unique_tags :
    let p : Xml := .elem "property" [] [] [leaf "name" "p".toList, leaf "unit" "mV".toList,
      leaf "unit" "V".toList]
    readProp (iter (addId "f".toList) 1 (transformProp false [] [] p).1) ≠
      propC10 "f".toList (findText "name" p.kids) p := by decide

/-- An `id` on a value element is lifted and then taken for the Property's id. -/
theorem property_content_needs_no_value_id :
    let p : Xml := .elem "property" [] [] [leaf "name" "p".toList,
      .elem "value" [] "1".toList [leaf "id" "79b613eb-a256-46bf-84f6-207df465b8f7".toList]]
    readProp (iter (addId "f".toList) 1 (transformProp false [] [] p).1) ≠
      propC10 "f".toList (findText "name" p.kids) p := by decide

/-- A fresh id that is a uuid but not in printed form (upper case) is normalised by the second
    `_add_id` run of a Property two Sections deep. -/
theorem property_content_needs_fresh_canonical :
    let p : Xml := .elem "property" [] [] [leaf "name" "p".toList]
    let f := "79B613EB-A256-46BF-84F6-207DF465B8F7".toList
    idOf f f ≠ f ∧
    readProp (iter (addId f) 2 (transformProp false [] [] p).1) ≠
      propC10 f (findText "name" p.kids) p := by decide

/-! ### ... and yields a loadable file: the structural conditions of the strict reader -/

/-- **The converted tree is accepted by the strict reader** (its structural conditions
    `readerAccepts`: root `odML` with exactly `version="1.1"`; every child tag of the Document,
    of every Section and of every Property an argument of the 1.1 class; no XML attributes on
    Sections / Properties; every Section with `name` and `type`, every Property with `name`) -
    for every document tree with `LoadWF` (root `odML` with at most a `version` attribute,
    Sections named and typed, no XML attributes on Sections and named Properties), any depth,
    any number of Sections / Properties / values, whatever unsupported elements, unnamed
    Properties, names, ids and texts it contains. -/
theorem convert_accepted (fresh : List Char) (x : Xml) (h : LoadWF x = true) :
    readerAccepts (convertTree fresh x) = true := by
  simp only [LoadWF, Bool.and_eq_true, beq_iff_eq, decide_eq_true_eq] at h
  obtain ⟨⟨⟨htag, hattrs⟩, hlen⟩, hkids⟩ := h
  unfold readerAccepts
  rw [(convert_root fresh x).1, convert_version fresh x hattrs hlen,
    acceptsDocKids_convertTree fresh x hkids]
  simp [htag]

/-- `WF10` (with the root carrying one attribute at most, as in every XML file) implies `LoadWF`. -/
theorem wf10_implies_loadWF (x : Xml) (h : WF10 x = true) (hl : x.attrs.length ≤ 1) :
    LoadWF x = true := by
  have hk := accOKKids_of_WF10 x h
  simp only [WF10, Shape10, Bool.and_eq_true] at h
  simp only [LoadWF, Bool.and_eq_true, decide_eq_true_eq]
  exact ⟨⟨⟨h.1.1.1.1.1.1.1, h.1.1.1.1.2⟩, hl⟩, hk⟩

/-- **C15 on the model, both halves at the level of the whole document**: the converted tree of
    a well-formed 1.0 document passes the structural conditions of the strict reader, and what
    the reader extracts from it is the content of the source. -/
theorem convert_loadable_with_same_content (fresh : List Char) (hf : idOf fresh fresh = fresh)
    (x : Xml) (h : WF10 x = true) (hl : x.attrs.length ≤ 1) :
    readerAccepts (convertTree fresh x) = true ∧
    readDoc (convertTree fresh x) = content10 fresh x :=
  ⟨convert_accepted fresh x (wf10_implies_loadWF x h hl), convert_preserves_content_wf10 fresh hf x h⟩

example : LoadWF sampleDoc = true ∧ sampleDoc.attrs.length ≤ 1 := by decide

/-- A Section without a type is converted, but not accepted (the hypothesis is needed). -/
theorem convert_accepted_needs_type :
    readerAccepts (convertTree "f".toList (.elem "odML" [] [] [.elem "section" [] [] [leaf "name" "s".toList]]))
      = false := by decide

/-! ## The text entry point (StringIO input): the XML declaration is taken off, nothing else

`VersionConverter._parse_xml` on a StringIO (`Model/ConvText.lean`, `dropDecl`).  The property
quantifies over "x StringIO and file input": for a file lxml decodes the bytes with the encoding
the declaration names; a StringIO holds text that is decoded already, so what the declaration
names must not matter (seeded round 5, change A re-encoded the text and let lxml decode it with
the declared encoding). -/

theorem afterGt_decl (prev : Option Char) (a rest : List Char) (h : '>' ∉ a) :
    afterGt prev (a ++ declClose ++ rest) = some (some '?', rest) := by
  induction a generalizing prev with
  | nil => simp [declClose, afterGt]
  | cons c cs ih =>
    have hc : c ≠ '>' := by intro e; apply h; simp [e]
    have hcs : '>' ∉ cs := by intro e; apply h; simp [e]
    have := ih (some c) hcs
    simp only [List.append_assoc] at this
    simp [afterGt, hc, this]

/-- **StringIO input, declaration taken off.**  A text that starts with an XML declaration
    `<?xml … ?>` (whatever it declares: version, any encoding name, standalone; the pseudo-attributes
    of a declaration hold no `>`) reaches the parser as exactly the text behind the declaration. -/
theorem stringio_decl_dropped (a rest : List Char) (h : '>' ∉ a) :
    dropDecl (declOpen ++ a ++ declClose ++ rest) = rest := by
  have hp : declOpen.isPrefixOf (declOpen ++ a ++ declClose ++ rest) = true := by
    simp [List.append_assoc]
  have hd : (declOpen ++ a ++ declClose ++ rest).drop declOpen.length = a ++ declClose ++ rest := by
    simp [List.append_assoc]
  simp only [dropDecl, hp, hd, if_true, afterGt_decl none a rest h]

/-- **The encoding a StringIO text declares plays no role**: two texts that differ only in what
    their declarations say are the same document for the converter. -/
theorem stringio_declared_encoding_irrelevant (a b rest : List Char) (ha : '>' ∉ a) (hb : '>' ∉ b) :
    dropDecl (declOpen ++ a ++ declClose ++ rest) = dropDecl (declOpen ++ b ++ declClose ++ rest) := by
  rw [stringio_decl_dropped a rest ha, stringio_decl_dropped b rest hb]

/-- A text without a declaration is handed to the parser as it is. -/
theorem stringio_no_decl_unchanged (doc : List Char) (h : declOpen.isPrefixOf doc = false) :
    dropDecl doc = doc := by
  simp [dropDecl, h]

theorem afterGt_suffix (prev : Option Char) (s : List Char) (q : Option Char) (rest : List Char)
    (h : afterGt prev s = some (q, rest)) : ∃ p, s = p ++ rest := by
  induction s generalizing prev with
  | nil => simp [afterGt] at h
  | cons c cs ih =>
    by_cases hc : c = '>'
    · simp [afterGt, hc] at h
      exact ⟨[c], by simp [h.2]⟩
    · simp [afterGt, hc] at h
      obtain ⟨p, hp⟩ := ih _ h
      exact ⟨c :: p, by simp [hp]⟩

/-- Nothing but a prefix of the text is ever taken off (no character of the document behind the
    declaration is lost or changed, whatever the text is). -/
theorem stringio_only_prefix_removed (doc : List Char) : ∃ p, doc = p ++ dropDecl doc := by
  unfold dropDecl
  split
  · split
    · rename_i rest heq
      obtain ⟨p, hp⟩ := afterGt_suffix _ _ _ _ heq
      refine ⟨doc.take declOpen.length ++ p, ?_⟩
      rw [List.append_assoc, ← hp, List.take_append_drop]
    · exact ⟨[], rfl⟩
  · exact ⟨[], rfl⟩

/-- the first line of an odML 1.0 file saved as ISO-8859-1 -/
theorem stringio_decl_witness :
    dropDecl "<?xml version=\"1.0\" encoding=\"ISO-8859-1\"?>\n<odML version=\"1\"/>".toList
      = "\n<odML version=\"1\"/>".toList ∧
    dropDecl "<?xml version='1.0' encoding='UTF-16' standalone='yes'?><odML/>".toList = "<odML/>".toList ∧
    dropDecl "<odML><?xml-stylesheet href=\"a\"?></odML>".toList = "<odML><?xml-stylesheet href=\"a\"?></odML>".toList ∧
    dropDecl "<?xml-stylesheet href=\"a\"?><odML/>".toList = "<odML/>".toList ∧
    dropDecl "<?xml><odML/>".toList = "<?xml><odML/>".toList := by decide

end C15
