/-
C08 - Validation reports exactly the issues the documented rules prescribe.

Property theorems only; helper lemmas are in `Proofs/Valid.lean`.
Model: `Model/Valid.lean` (+ `Model/Card.lean`), tied to /repo by `harness/c08.py`.

`issues n` is the list of issues of `Validation(n)` with the default registry (regenerated from
the source), `validate n` the same with the explicit `.crash` outcome.  All statements hold for
every tree: no bound on depth, width, string length, number of values.
-/
import OdmlModel.Model.Valid
import OdmlModel.Model.ValidWriter
import OdmlModel.Proofs.Valid
import OdmlModel.Props.C09
set_option linter.unusedSimpArgs false
namespace C08
open Valid

theorem registry_default_exact :
    Gen.Validation.handlers =
      [("odML", ["document_unique_ids", "object_required_attributes", "section_unique_name_type"]),
       ("property", ["object_name_readable", "object_required_attributes", "property_dependency_check",
                     "property_values_cardinality", "property_values_check",
                     "property_values_string_check"]),
       ("section", ["object_name_readable", "object_required_attributes", "property_unique_names",
                    "section_properties_cardinality", "section_sections_cardinality",
                    "section_type_must_be_defined", "section_unique_name_type"])] := by decide

theorem registry_modelled :
    ∀ e ∈ Gen.Validation.handlers, ∀ n ∈ e.2, (Rule.ofName n).isSome = true := by decide

theorem required_table :
    requiredArgs .odML = [] ∧ requiredArgs .section = ["type", "name"] ∧
    requiredArgs .property = ["name"] := by decide

theorem issue_ids_agree :
    (∀ i : IssueId, i ∈ IssueId.all) ∧
    (∀ i ∈ IssueId.all, (i.name, i.code) ∈ Gen.Validation.issueIds) := by
  constructor
  · intro i; cases i <;> decide
  · decide


/-! ## General shape of a default validation -/

/-- An issue is reported iff some handler registered for the class of some visited object
    yields it. -/
theorem mem_issues (n : Node) (iss : Issue) :
    iss ∈ issues n ↔ ∃ v ∈ visits n, ∃ r ∈ defaultReg v.obj.klass, iss ∈ applyRule r v := by
  simp [issues, issuesWith, List.mem_flatMap]

/-! ## Rule by rule: reported iff violated -/

/-- Missing required attribute (error): a Section without name or without type, a Property
    without name. -/
theorem required_sound_complete (n : Node) (o : Ref) :
    ⟨o, .objectRequiredAttributes, .error⟩ ∈ issues n ↔
      (∃ p s, o = .sec p ∧ n.secAt p = some s ∧ (s.name = [] ∨ falsy s.type = true)) ∨
      (∃ p k sibs q, o = .prop p k ∧ PropAt n p k sibs q ∧ q.name = []) := by
  rw [mem_issues_rule n _ .objectRequiredAttributes rfl]
  constructor
  · rintro ⟨v, hv, _, hi⟩
    rw [mem_visits] at hv
    rcases hv with ⟨d, _, rfl⟩ | ⟨p, s, hs, rfl⟩ | ⟨p, k, sibs, q, hq, rfl⟩
    · simp [applyRule, ruleRequired, Obj.klass, required_table.1] at hi
    · left
      simp only [applyRule, ruleRequired, Obj.klass, required_table.2.1, List.mem_map,
        List.mem_filter, Issue.mk.injEq, and_true] at hi
      obtain ⟨a, ⟨ha, hm⟩, ho⟩ := hi
      refine ⟨p, s, ho.symm, hs, ?_⟩
      simp only [List.mem_cons, List.not_mem_nil, or_false] at ha
      rcases ha with rfl | rfl
      · right; simpa [attrMissing_sec_type] using hm
      · left; simpa [attrMissing_sec_name] using hm
    · right
      simp only [applyRule, ruleRequired, Obj.klass, required_table.2.2, List.mem_map,
        List.mem_filter, Issue.mk.injEq, and_true] at hi
      obtain ⟨a, ⟨ha, hm⟩, ho⟩ := hi
      simp only [List.mem_cons, List.not_mem_nil, or_false] at ha
      subst ha
      exact ⟨p, k, sibs, q, ho.symm, hq, by simpa [attrMissing_prop_name] using hm⟩
  · rintro (⟨p, s, rfl, hs, h⟩ | ⟨p, k, sibs, q, rfl, hq, h⟩)
    · refine ⟨⟨.sec p, .sec s⟩, (mem_visits _ _).mpr (Or.inr (Or.inl ⟨p, s, hs, rfl⟩)),
        by simp [Obj.klass, defaultReg_section], ?_⟩
      simp only [applyRule, ruleRequired, Obj.klass, required_table.2.1, List.mem_map,
        List.mem_filter, Issue.mk.injEq, and_true]
      rcases h with h | h
      · exact ⟨"name", by simp [attrMissing_sec_name, h]⟩
      · exact ⟨"type", by simp [attrMissing_sec_type, h]⟩
    · refine ⟨⟨.prop p k, .prop sibs q⟩,
        (mem_visits _ _).mpr (Or.inr (Or.inr ⟨p, k, sibs, q, hq, rfl⟩)),
        by simp [Obj.klass, defaultReg_property], ?_⟩
      simp only [applyRule, ruleRequired, Obj.klass, required_table.2.2, List.mem_map,
        List.mem_filter, Issue.mk.injEq, and_true]
      exact ⟨"name", by simp [attrMissing_prop_name, h]⟩

/-- Unspecified Section type (warning): the type is the placeholder `n.s.`. -/
theorem type_undefined_sound_complete (n : Node) (o : Ref) :
    ⟨o, .sectionTypeMustBeDefined, .warning⟩ ∈ issues n ↔
      ∃ p s, o = .sec p ∧ n.secAt p = some s ∧ s.type = some ['n', '.', 's', '.'] := by
  rw [mem_issues_rule n _ .sectionTypeMustBeDefined rfl]
  constructor
  · rintro ⟨v, hv, _, hi⟩
    rw [mem_visits] at hv
    rcases hv with ⟨d, _, rfl⟩ | ⟨p, s, hs, rfl⟩ | ⟨p, k, sibs, q, hq, rfl⟩
    · simp [applyRule, ruleTypeDefined] at hi
    · simp only [applyRule, ruleTypeDefined] at hi
      split at hi
      · rename_i h
        simp at hi
        exact ⟨p, s, hi, hs, by simpa using h⟩
      · simp at hi
    · simp [applyRule, ruleTypeDefined] at hi
  · rintro ⟨p, s, rfl, hs, h⟩
    refine ⟨⟨.sec p, .sec s⟩, (mem_visits _ _).mpr (Or.inr (Or.inl ⟨p, s, hs, rfl⟩)),
      by simp [Obj.klass, defaultReg_section], ?_⟩
    simp [applyRule, ruleTypeDefined, h]

/-- Name equal to id (warning), for Sections and Properties. -/
theorem name_readable_sound_complete (n : Node) (o : Ref) :
    ⟨o, .objectNameReadable, .warning⟩ ∈ issues n ↔
      (∃ p s, o = .sec p ∧ n.secAt p = some s ∧ s.name = s.id) ∨
      (∃ p k sibs q, o = .prop p k ∧ PropAt n p k sibs q ∧ q.name = q.id) := by
  rw [mem_issues_rule n _ .objectNameReadable rfl]
  constructor
  · rintro ⟨v, hv, _, hi⟩
    rw [mem_visits] at hv
    rcases hv with ⟨d, _, rfl⟩ | ⟨p, s, hs, rfl⟩ | ⟨p, k, sibs, q, hq, rfl⟩
    · simp [applyRule, ruleNameReadable] at hi
    · simp only [applyRule, ruleNameReadable] at hi
      split at hi
      · rename_i h
        simp at hi
        exact Or.inl ⟨p, s, hi, hs, by simpa using h⟩
      · simp at hi
    · simp only [applyRule, ruleNameReadable] at hi
      split at hi
      · rename_i h
        simp at hi
        exact Or.inr ⟨p, k, sibs, q, hi, hq, by simpa using h⟩
      · simp at hi
  · rintro (⟨p, s, rfl, hs, h⟩ | ⟨p, k, sibs, q, rfl, hq, h⟩)
    · refine ⟨⟨.sec p, .sec s⟩, (mem_visits _ _).mpr (Or.inr (Or.inl ⟨p, s, hs, rfl⟩)),
        by simp [Obj.klass, defaultReg_section], ?_⟩
      simp [applyRule, ruleNameReadable, h]
    · refine ⟨⟨.prop p k, .prop sibs q⟩,
        (mem_visits _ _).mpr (Or.inr (Or.inr ⟨p, k, sibs, q, hq, rfl⟩)),
        by simp [Obj.klass, defaultReg_property], ?_⟩
      simp [applyRule, ruleNameReadable, h]


/-! ### helpers: rules that look at one Property / one Section -/

/-! ### dependency -/

/-- `t` is the Property a dependency named `dep` refers to: the first sibling of that name. -/
def FirstNamed (sibs : List Prp) (dep : Str) (t : Prp) : Prop :=
  ∃ pre post, sibs = pre ++ t :: post ∧ t.name = dep ∧ ∀ x ∈ pre, x.name ≠ dep

/-- The dependency of `q` is not satisfied among its siblings: it names no sibling Property, or
    a required `dependency_value` is not among the values of the Property it names. -/
def Unsatisfied (sibs : List Prp) (q : Prp) : Prop :=
  ∃ dep, q.dependency = some dep ∧
    ((∀ t ∈ sibs, t.name ≠ dep) ∨
     (∃ t dv, FirstNamed sibs dep t ∧ q.depValue = some dv ∧ Val.str dv ∉ t.values))

theorem findProp_some (sibs : List Prp) (dep : Str) (t : Prp) :
    findProp sibs dep = some t ↔ FirstNamed sibs dep t := by
  simp only [findProp, List.find?_eq_some_iff_append, FirstNamed]
  constructor
  · rintro ⟨ht, pre, post, hl, hpre⟩
    exact ⟨pre, post, hl, by simpa using ht, fun x hx => by simpa using hpre x hx⟩
  · rintro ⟨pre, post, hl, ht, hpre⟩
    exact ⟨by simpa using ht, pre, post, hl, fun x hx => by simpa using hpre x hx⟩

theorem ruleDependency_iff (ref ref' : Ref) (sibs? : Option (List Prp)) (q : Prp) :
    (⟨ref', .propertyDependencyCheck, .warning⟩ : Issue) ∈ ruleDependency ⟨ref, .prop sibs? q⟩ ↔
      ref' = ref ∧ ∃ sibs, sibs? = some sibs ∧ Unsatisfied sibs q := by
  cases sibs? with
  | none => simp [ruleDependency]
  | some sibs =>
    simp only [ruleDependency, Option.some.injEq, exists_eq_left', Unsatisfied]
    cases hd : q.dependency with
    | none => simp
    | some dep =>
      simp only [Option.some.injEq, exists_eq_left']
      cases hf : findProp sibs dep with
      | none =>
        have := (findProp_none sibs dep).mp hf
        simp only [List.mem_singleton, Issue.mk.injEq, and_true]
        exact ⟨fun h => ⟨h, Or.inl this⟩, fun h => h.1⟩
      | some t =>
        have hfn := (findProp_some sibs dep t).mp hf
        have hnot : ¬ ∀ t ∈ sibs, t.name ≠ dep := by
          intro h
          rw [← findProp_none, hf] at h
          cases h
        cases hv : q.depValue with
        | none =>
          simp only [List.not_mem_nil, false_iff, not_and]
          rintro _ (h | ⟨_, _, _, h, _⟩)
          · exact hnot h
          · cases h
        | some dv =>
          simp only
          split
          · rename_i hc
            have hmem : Val.str dv ∈ t.values := by simpa using hc
            simp only [List.not_mem_nil, false_iff, not_and]
            rintro _ (h | ⟨t', dv', ht', hdv, hnm⟩)
            · exact hnot h
            · rw [← findProp_some, hf] at ht'
              cases ht'; cases hdv
              exact hnm hmem
          · rename_i hc
            have hmem : Val.str dv ∉ t.values := by simpa using hc
            simp only [List.mem_singleton, Issue.mk.injEq, and_true]
            exact ⟨fun h => ⟨h, Or.inr ⟨t, dv, hfn, rfl, hmem⟩⟩, fun h => h.1⟩

/-- Unsatisfied dependency (warning). -/
theorem dependency_sound_complete (n : Node) (o : Ref) :
    ⟨o, .propertyDependencyCheck, .warning⟩ ∈ issues n ↔
      ∃ p k sibs q, o = .prop p k ∧ PropAt n p k (some sibs) q ∧ Unsatisfied sibs q := by
  rw [prop_rule n _ .propertyDependencyCheck rfl (by simp [defaultReg_property])
    (by intros; rfl) (by intros; rfl)]
  simp only [applyRule, ruleDependency_iff]
  constructor
  · rintro ⟨p, k, sibs?, q, hq, rfl, sibs, rfl, hu⟩
    exact ⟨p, k, sibs, q, rfl, hq, hu⟩
  · rintro ⟨p, k, sibs, q, rfl, hq, hu⟩
    exact ⟨p, k, some sibs, q, hq, rfl, sibs, rfl, hu⟩


/-! ### values vs dtype -/

/-- The values the rule looks at: those before the first `None`. -/
def Checked (vs : List Val) : List Val := vs.takeWhile (· != .none)

/-- The value fits the dtype: an `n-tuple` dtype wants a value of length `n`; any other dtype
    wants `dtypes.get(value, dtype)` to return. -/
def fits (d : Str) (v : Val) : Bool :=
  if isTupleDtype d then
    match pyIntParse (d.take (d.length - 6)) with
    | some n => (valLen v).map Int.ofNat == some n
    | none => false
  else getOk d v

/-- The tuple dtype (if it is one) has a readable length: `int(dtype[:-6])` does not raise. -/
def TupleLenReadable (d : Str) : Prop :=
  isTupleDtype d = true → (pyIntParse (d.take (d.length - 6))).isSome = true

theorem valuesLoop_some (d : Str) (hd : TupleLenReadable d) (vs : List Val) :
    valuesLoop d vs = some ((Checked vs).filter (fun v => !fits d v)).length := by
  induction vs with
  | nil => simp [valuesLoop, Checked]
  | cons v vs ih =>
    cases v
    case none => simp [valuesLoop, Checked]
    all_goals
      simp only [valuesLoop, Checked, List.takeWhile_cons, fits, bne_iff_ne, ne_eq,
        reduceCtorEq, not_false_eq_true, decide_true, ite_true]
      by_cases ht : isTupleDtype d = true
      · have := hd ht
        cases hp : pyIntParse (d.take (d.length - 6)) with
        | none => simp [hp] at this
        | some n =>
          simp only [ht, ite_true]
          rw [show valuesLoop d vs = _ from ih]
          simp only [Checked, fits, ht, ite_true, hp, Option.map_some, List.filter_cons]
          split <;> simp_all
      · simp only [ht]
        rw [show valuesLoop d vs = _ from ih]
        simp only [Checked, fits, ht, List.filter_cons, Option.map_some]
        cases getOk d _ <;> simp

theorem valuesLoop_none (d : Str) (vs : List Val) (h : valuesLoop d vs = none) :
    ¬ TupleLenReadable d := by
  intro hd
  rw [valuesLoop_some d hd] at h
  cases h

theorem effDtype_readable (q : Prp) (d : Str) (he : effDtype q = some d)
    (hq : ∀ d', q.dtype = some d' → TupleLenReadable d') : TupleLenReadable d := by
  unfold effDtype at he
  cases hdt : q.dtype with
  | none =>
    simp only [hdt] at he
    cases hv : q.values with
    | nil => simp [hv] at he
    | cons v vs =>
      simp only [hv, Option.some.injEq] at he
      subst he
      intro ht; rw [inferDtype_not_tuple] at ht; cases ht
  | some d' =>
    simp only [hdt] at he
    split at he
    · cases he; exact hq _ hdt
    · cases hv : q.values with
      | nil => simp [hv] at he
      | cons v vs =>
        simp only [hv, Option.some.injEq] at he
        subst he
        intro ht; rw [inferDtype_not_tuple] at ht; cases ht

/-- Values inconsistent with the dtype (warning): some value before the first `None` does not
    fit the effective dtype (the Property's, or the one inferred from the first value).
    Hypothesis: a tuple dtype has a readable length (guaranteed by `dtypes.valid_type`). -/
theorem values_check_sound_complete (n : Node) (o : Ref)
    (hn : ∀ p k sibs q d, PropAt n p k sibs q → q.dtype = some d → TupleLenReadable d) :
    ⟨o, .propertyValuesCheck, .warning⟩ ∈ issues n ↔
      ∃ p k sibs q d, o = .prop p k ∧ PropAt n p k sibs q ∧ effDtype q = some d ∧
        ∃ v ∈ Checked q.values, fits d v = false := by
  rw [prop_rule n _ .propertyValuesCheck rfl (by simp [defaultReg_property])
    (by intros; rfl) (by intros; rfl)]
  have key := effDtype_readable
  constructor
  · rintro ⟨p, k, sibs, q, hq, hi⟩
    simp only [applyRule, ruleValuesCheck, List.mem_replicate, Issue.mk.injEq, and_true] at hi
    obtain ⟨hk, rfl⟩ := hi
    cases he : effDtype q with
    | none => simp [valuesCheckCount, he] at hk
    | some d =>
      have hd := key q d he (fun e hde => hn p k sibs q e hq hde)
      simp only [valuesCheckCount, he, valuesLoop_some d hd, Option.getD_some] at hk
      obtain ⟨v, hv⟩ := List.exists_mem_of_length_pos (Nat.pos_of_ne_zero hk)
      simp only [List.mem_filter, Bool.not_eq_true'] at hv
      exact ⟨p, k, sibs, q, d, rfl, hq, he, v, hv.1, hv.2⟩
  · rintro ⟨p, k, sibs, q, d, rfl, hq, he, v, hv, hf⟩
    refine ⟨p, k, sibs, q, hq, ?_⟩
    have hd := key q d he (fun e hde => hn p k sibs q e hq hde)
    simp only [applyRule, ruleValuesCheck, List.mem_replicate, Issue.mk.injEq, and_true,
      valuesCheckCount, he, valuesLoop_some d hd, Option.getD_some, ne_eq]
    have hm : v ∈ (Checked q.values).filter (fun v => !fits d v) := by
      simp [List.mem_filter, hv, hf]
    intro h0
    rw [List.length_eq_zero_iff] at h0
    rw [h0] at hm
    cases hm

/-! ### string values that look like another dtype -/

/-- The prototype rule (warning): a `string` Property all of whose values are strings that look
    like one and the same other dtype. -/
theorem string_check_sound_complete (n : Node) (o : Ref) :
    ⟨o, .propertyValuesStringCheck, .warning⟩ ∈ issues n ↔
      ∃ p k sibs q, o = .prop p k ∧ PropAt n p k sibs q ∧ q.dtype = some ['s', 't', 'r', 'i', 'n', 'g'] ∧
        ∃ (c : StrClass) (ss : List Str), ss ≠ [] ∧ q.values = ss.map Val.str ∧ c ≠ .string ∧
          ∀ s ∈ ss, strClass s = c := by
  rw [prop_rule n _ .propertyValuesStringCheck rfl (by simp [defaultReg_property])
    (by intros; rfl) (by intros; rfl)]
  have key : ∀ q : Prp, stringCheckFires q = true ↔
      (q.dtype = some ['s', 't', 'r', 'i', 'n', 'g'] ∧
        ∃ (c : StrClass) (ss : List Str), ss ≠ [] ∧ q.values = ss.map Val.str ∧ c ≠ .string ∧
          ∀ s ∈ ss, strClass s = c) := by
    intro q
    unfold stringCheckFires
    simp only [Bool.and_eq_true, beq_iff_eq]
    apply and_congr_right
    intro _
    cases hv : q.values with
    | nil =>
      constructor
      · intro h; cases h
      · rintro ⟨c, ss, hne, h, _⟩
        cases ss with
        | nil => exact absurd rfl hne
        | cons _ _ => simp at h
    | cons v vs =>
      cases hc : strClasses (v :: vs) with
      | none =>
        constructor
        · intro h; cases h
        · rintro ⟨c, ss, _, h, _⟩
          have := (strClasses_some (v :: vs) (ss.map strClass)).mpr ⟨ss, h, rfl⟩
          rw [hc] at this; cases this
      | some cs =>
        obtain ⟨ss, h1, h2⟩ := (strClasses_some _ _).mp hc
        cases ss with
        | nil => simp at h1
        | cons s ss' =>
          subst h2
          simp only [List.map_cons, Bool.and_eq_true, List.all_eq_true, beq_iff_eq, bne_iff_ne,
            ne_eq, List.mem_map, forall_exists_index, and_imp, forall_apply_eq_imp_iff₂]
          constructor
          · rintro ⟨hall, hne⟩
            refine ⟨strClass s, s :: ss', by simp, h1, hne, ?_⟩
            intro x hx
            simp only [List.mem_cons] at hx
            rcases hx with rfl | hx
            · rfl
            · exact hall x hx
          · rintro ⟨c, ss2, _, h, hne, hall⟩
            rw [h1] at h
            have hinj : s :: ss' = ss2 := by
              have : (s :: ss').map Val.str = ss2.map Val.str := h
              exact (List.map_inj_right (fun a b hab => by cases hab; rfl)).mp this
            subst hinj
            have hs := hall s (by simp)
            refine ⟨fun x hx => ?_, by rw [hs]; exact hne⟩
            rw [hall x (by simp [hx]), hs]
  constructor
  · rintro ⟨p, k, sibs, q, hq, hi⟩
    simp only [applyRule, ruleValuesStringCheck] at hi
    split at hi
    · rename_i hf
      simp at hi
      exact ⟨p, k, sibs, q, hi, hq, (key q).mp hf⟩
    · simp at hi
  · rintro ⟨p, k, sibs, q, rfl, hq, h⟩
    refine ⟨p, k, sibs, q, hq, ?_⟩
    simp [applyRule, ruleValuesStringCheck, (key q).mpr h]


/-! ### cardinalities (via `Card.cardIssue`, the model of `_cardinality_validation` of C09) -/

/-- Unmet Property cardinality of a Section (warning). -/
theorem props_card_sound_complete (n : Node) (o : Ref) :
    ⟨o, .sectionPropertiesCardinality, .warning⟩ ∈ issues n ↔
      ∃ p s, o = .sec p ∧ n.secAt p = some s ∧
        (Card.cardIssue s.propCard s.props.length).isSome = true := by
  rw [sec_rule n _ .sectionPropertiesCardinality rfl (by simp [defaultReg_section])
    (by intros; rfl) (by intros; rfl)]
  simp only [applyRule, rulePropsCard, cardRule_iff]
  constructor
  · rintro ⟨p, s, hs, rfl, h⟩; exact ⟨p, s, rfl, hs, h⟩
  · rintro ⟨p, s, rfl, hs, h⟩; exact ⟨p, s, hs, rfl, h⟩

/-- Unmet sub-Section cardinality of a Section (warning). -/
theorem secs_card_sound_complete (n : Node) (o : Ref) :
    ⟨o, .sectionSectionsCardinality, .warning⟩ ∈ issues n ↔
      ∃ p s, o = .sec p ∧ n.secAt p = some s ∧
        (Card.cardIssue s.secCard s.subs.length).isSome = true := by
  rw [sec_rule n _ .sectionSectionsCardinality rfl (by simp [defaultReg_section])
    (by intros; rfl) (by intros; rfl)]
  simp only [applyRule, ruleSecsCard, cardRule_iff]
  constructor
  · rintro ⟨p, s, hs, rfl, h⟩; exact ⟨p, s, rfl, hs, h⟩
  · rintro ⟨p, s, rfl, hs, h⟩; exact ⟨p, s, hs, rfl, h⟩

/-- Unmet values cardinality of a Property (warning). -/
theorem vals_card_sound_complete (n : Node) (o : Ref) :
    ⟨o, .propertyValuesCardinality, .warning⟩ ∈ issues n ↔
      ∃ p k sibs q, o = .prop p k ∧ PropAt n p k sibs q ∧
        (Card.cardIssue q.valCard q.values.length).isSome = true := by
  rw [prop_rule n _ .propertyValuesCardinality rfl (by simp [defaultReg_property])
    (by intros; rfl) (by intros; rfl)]
  simp only [applyRule, ruleValsCard, cardRule_iff]
  constructor
  · rintro ⟨p, k, sibs, q, hq, rfl, h⟩; exact ⟨p, k, sibs, q, rfl, hq, h⟩
  · rintro ⟨p, k, sibs, q, rfl, hq, h⟩; exact ⟨p, k, sibs, q, hq, rfl, h⟩

/-- For every cardinality a setter can store (`C09.Stored`, see `C09.slot_always_stored`),
    "the rule reports" is "the child count lies outside [min, max]". -/
theorem card_report_is_outside (c : Card.Card) (hc : C09.Stored c) (k : Nat) :
    (Card.cardIssue c k).isSome = true ↔ Card.Outside c k :=
  C09.report_iff_outside c hc k

/-! ### duplicates among siblings -/

/-- Duplicate name/type among sibling Sections (error): reported for a child Section iff an
    earlier sibling (under the Document or under any Section) has the same name and type. -/
theorem unique_name_type_sound_complete (n : Node) (o : Ref) :
    ⟨o, .sectionUniqueNameType, .error⟩ ∈ issues n ↔
      ∃ p l pre x post, n.childSecs p = some l ∧ l = pre ++ x :: post ∧
        o = .sec (p ++ [pre.length]) ∧ ∃ y ∈ pre, y.name = x.name ∧ y.type = x.type := by
  rw [mem_issues_rule n _ .sectionUniqueNameType rfl]
  have go : ∀ (path : List Nat) (l : List Sec),
      (⟨o, .sectionUniqueNameType, .error⟩ : Issue) ∈
        (scanM [] (labelled (fun i => Ref.sec (path ++ [i])) (fun s : Sec => (s.name, s.type)) 0 l)).1.map
          (fun r => (⟨r, .sectionUniqueNameType, .error⟩ : Issue)) ↔
      ∃ pre x post, l = pre ++ x :: post ∧ o = .sec (path ++ [pre.length]) ∧
        ∃ y ∈ pre, y.name = x.name ∧ y.type = x.type := by
    intro path l
    simp only [List.mem_map, Issue.mk.injEq, and_true, exists_eq_right, mem_scan_labelled,
      Prod.mk.injEq]
  constructor
  · rintro ⟨v, hv, _, hi⟩
    rw [mem_visits] at hv
    rcases hv with ⟨d, rfl, rfl⟩ | ⟨p, s, hs, rfl⟩ | ⟨p, k, sibs, q, hq, rfl⟩
    · simp only [applyRule, ruleUniqueNameType] at hi
      obtain ⟨pre, x, post, hl, ho, hy⟩ := (go [] d.secs).mp hi
      exact ⟨[], d.secs, pre, x, post, by simp [Node.childSecs], hl, ho, hy⟩
    · simp only [applyRule, ruleUniqueNameType] at hi
      obtain ⟨pre, x, post, hl, ho, hy⟩ := (go p s.subs).mp hi
      exact ⟨p, s.subs, pre, x, post, (childSecs_iff _ _ _).mpr (Or.inr ⟨s, hs, rfl⟩), hl, ho, hy⟩
    · simp [applyRule, ruleUniqueNameType] at hi
  · rintro ⟨p, l, pre, x, post, hc, hl, ho, hy⟩
    rcases (childSecs_iff _ _ _).mp hc with ⟨d, rfl, rfl, rfl⟩ | ⟨s, hs, rfl⟩
    · refine ⟨⟨.doc, .doc d⟩, (mem_visits _ _).mpr (Or.inl ⟨d, rfl, rfl⟩),
        by simp [Obj.klass, defaultReg_odML], ?_⟩
      simp only [applyRule, ruleUniqueNameType]
      exact (go [] d.secs).mpr ⟨pre, x, post, hl, ho, hy⟩
    · refine ⟨⟨.sec p, .sec s⟩, (mem_visits _ _).mpr (Or.inr (Or.inl ⟨p, s, hs, rfl⟩)),
        by simp [Obj.klass, defaultReg_section], ?_⟩
      simp only [applyRule, ruleUniqueNameType]
      exact (go p s.subs).mpr ⟨pre, x, post, hl, ho, hy⟩

/-- Duplicate names among the Properties of a Section (error): reported for a Property iff an
    earlier Property of the same Section has the same name. -/
theorem unique_prop_names_sound_complete (n : Node) (o : Ref) :
    ⟨o, .propertyUniqueName, .error⟩ ∈ issues n ↔
      ∃ p s pre x post, n.secAt p = some s ∧ s.props = pre ++ x :: post ∧
        o = .prop p pre.length ∧ ∃ y ∈ pre, y.name = x.name := by
  rw [sec_rule n _ .propertyUniqueNames rfl (by simp [defaultReg_section])
    (by intro ref d; cases ref <;> rfl) (by intro ref sibs q; cases ref <;> rfl)]
  simp only [applyRule, ruleUniquePropNames, List.mem_map, Issue.mk.injEq, and_true,
    exists_eq_right, mem_scan_labelled]
  constructor
  · rintro ⟨p, s, hs, pre, x, post, h⟩; exact ⟨p, s, pre, x, post, hs, h⟩
  · rintro ⟨p, s, pre, x, post, hs, h⟩; exact ⟨p, s, hs, pre, x, post, h⟩

/-! ### duplicate ids -/

/-- Document order of the objects below a Document, with their ids: per Section its Properties,
    then the Section, then its sub-Sections. -/
def docIdEntries (d : Doc) : List (Ref × Str) := secsIdEntries [] 0 d.secs

/-- The issue kind a duplicate id is reported with: by the kind of object. -/
def dupIdKind : Ref → IssueId
  | .prop _ _ => .propertyUniqueIds
  | _ => .sectionUniqueIds

/-- Duplicate ids (error): validating a Document reports an object iff its id is the
    Document's or that of an object earlier in document order. -/
theorem unique_ids_sound_complete (d : Doc) (o : Ref) (iid : IssueId)
    (hi : iid = .sectionUniqueIds ∨ iid = .propertyUniqueIds) :
    ⟨o, iid, .error⟩ ∈ issues (.doc d) ↔
      iid = dupIdKind o ∧
      ∃ pre k post, docIdEntries d = pre ++ (o, k) :: post ∧ (k = d.id ∨ k ∈ pre.map (·.2)) := by
  have hr : (⟨o, iid, .error⟩ : Issue).id.rule = some .documentUniqueIds := by
    rcases hi with rfl | rfl <;> rfl
  rw [mem_issues_rule _ _ _ hr]
  have hid : ∀ r : Ref, idIssue r = ⟨o, iid, .error⟩ ↔ r = o ∧ iid = dupIdKind o := by
    intro r
    cases r <;> simp only [idIssue, Issue.mk.injEq, and_true, dupIdKind] <;>
      (constructor
       · rintro ⟨rfl, rfl⟩; exact ⟨rfl, rfl⟩
       · rintro ⟨rfl, h⟩; exact ⟨rfl, h.symm⟩)
  have hdoc : (⟨o, iid, .error⟩ : Issue) ∈ ruleDocumentUniqueIds ⟨.doc, .doc d⟩ ↔
      iid = dupIdKind o ∧
      ∃ pre k post, docIdEntries d = pre ++ (o, k) :: post ∧ (k = d.id ∨ k ∈ pre.map (·.2)) := by
    simp only [ruleDocumentUniqueIds, List.mem_map, hid, secsUniqueIds_eq, mem_scanM,
      List.mem_singleton, docIdEntries]
    constructor
    · rintro ⟨r, h, rfl, hk⟩; exact ⟨hk, h⟩
    · rintro ⟨hk, h⟩; exact ⟨o, h, rfl, hk⟩
  constructor
  · rintro ⟨v, hv, hreg, hi⟩
    rw [mem_visits] at hv
    rcases hv with ⟨d', hd, rfl⟩ | ⟨p, s, hs, rfl⟩ | ⟨p, k, sibs, q, hq, rfl⟩
    · cases hd; exact hdoc.mp hi
    · simp [Obj.klass, defaultReg_section] at hreg
    · simp [Obj.klass, defaultReg_property] at hreg
  · intro h
    exact ⟨⟨.doc, .doc d⟩, (mem_visits _ _).mpr (Or.inl ⟨d, rfl, rfl⟩),
      by simp [Obj.klass, defaultReg_odML], hdoc.mpr h⟩

/-- The document order used by the duplicate-id rule lists exactly the Sections and Properties
    of the Document, each with its id. -/
theorem id_entries_cover (d : Doc) (r : Ref) (k : Str) :
    (r, k) ∈ docIdEntries d ↔
      (∃ p s, r = .sec p ∧ (Node.doc d).secAt p = some s ∧ k = s.id) ∨
      (∃ p i s q, r = .prop p i ∧ (Node.doc d).secAt p = some s ∧ s.props[i]? = some q ∧
        k = q.id) := by
  unfold docIdEntries
  rw [mem_secsIdEntries]
  have hv : ∀ v, v ∈ secsVisits [] 0 d.secs ↔ (v ∈ visits (.doc d) ∧ v.ref ≠ .doc) := by
    intro v
    simp only [visits, List.mem_cons]
    constructor
    · intro h
      refine ⟨Or.inr h, ?_⟩
      rw [mem_secsVisits] at h
      obtain ⟨j, c, _, h | h⟩ := h
      · obtain ⟨p, t, _, rfl⟩ := h; simp
      · obtain ⟨p, t, k, q, _, _, rfl⟩ := h; simp
    · rintro ⟨rfl | h, hne⟩
      · exact absurd rfl hne
      · exact h
  constructor
  · rintro ⟨v, hm, rfl, rfl⟩
    obtain ⟨hm, hne⟩ := (hv v).mp hm
    rw [mem_visits] at hm
    rcases hm with ⟨d', _, rfl⟩ | ⟨p, s, hs, rfl⟩ | ⟨p, i, sibs, q, hq, rfl⟩
    · exact absurd rfl hne
    · exact Or.inl ⟨p, s, rfl, hs, rfl⟩
    · rcases hq with ⟨s, hs, _, hq, _⟩ | ⟨h, _⟩
      · exact Or.inr ⟨p, i, s, q, rfl, hs, hq, rfl⟩
      · cases h
  · rintro (⟨p, s, rfl, hs, rfl⟩ | ⟨p, i, s, q, rfl, hs, hq, rfl⟩)
    · exact ⟨⟨.sec p, .sec s⟩,
        (hv _).mpr ⟨(mem_visits _ _).mpr (Or.inr (Or.inl ⟨p, s, hs, rfl⟩)), by simp⟩, rfl, rfl⟩
    · exact ⟨⟨.prop p i, .prop (some s.props) q⟩,
        (hv _).mpr ⟨(mem_visits _ _).mpr (Or.inr (Or.inr ⟨p, i, some s.props, q,
          Or.inl ⟨s, hs, by simp, hq, rfl⟩, rfl⟩)), by simp⟩, rfl, rfl⟩


/-- Ids are only compared when a Document is validated: a stand-alone Section or Property
    never gets a duplicate-id issue. -/
theorem unique_ids_only_documents (n : Node) (hn : ∀ d, n ≠ .doc d) (o : Ref) (iid : IssueId)
    (hi : iid = .sectionUniqueIds ∨ iid = .propertyUniqueIds) (r : Rank) :
    ⟨o, iid, r⟩ ∉ issues n := by
  have hr : (⟨o, iid, r⟩ : Issue).id.rule = some .documentUniqueIds := by
    rcases hi with rfl | rfl <;> rfl
  rw [mem_issues_rule _ _ _ hr]
  rintro ⟨v, hv, hreg, _⟩
  rw [mem_visits] at hv
  rcases hv with ⟨d', hd, rfl⟩ | ⟨p, s, hs, rfl⟩ | ⟨p, k, sibs, q, hq, rfl⟩
  · exact hn d' hd
  · simp [Obj.klass, defaultReg_section] at hreg
  · simp [Obj.klass, defaultReg_property] at hreg

/-! ## Ranks -/

/-- An issue kind always comes with its documented rank. -/
theorem rank_by_id (n : Node) (iss : Issue) (h : iss ∈ issues n) : iss.rank = iss.id.rank := by
  obtain ⟨v, _, r, _, hi⟩ := (mem_issues n iss).mp h
  exact (applyRule_sound r v iss hi).2

/-- Errors and warnings are never confused: no issue kind is reported with both ranks,
    whatever the objects. -/
theorem rank_never_confused (n n' : Node) (o o' : Ref) (i : IssueId) :
    ¬ (⟨o, i, .error⟩ ∈ issues n ∧ ⟨o', i, .warning⟩ ∈ issues n') := by
  rintro ⟨h1, h2⟩
  have e1 := rank_by_id n _ h1
  have e2 := rank_by_id n' _ h2
  simp only at e1 e2
  rw [← e1] at e2
  cases e2

/-- The kinds that carry rank error: exactly the five the property lists. -/
def errorKinds : List IssueId :=
  [.objectRequiredAttributes, .sectionUniqueIds, .propertyUniqueIds, .sectionUniqueNameType,
   .propertyUniqueName]

theorem error_kinds (i : IssueId) : i.rank = .error ↔ i ∈ errorKinds := by
  cases i <;> simp [IssueId.rank, errorKinds]

/-- Saving is refused iff the Document has an issue of one of the five error kinds; warnings
    alone never block saving. -/
theorem blocks_save_iff (d : Doc) :
    blocksSave d = true ↔ ∃ iss ∈ issues (.doc d), iss.id ∈ errorKinds := by
  simp only [blocksSave, List.any_eq_true, beq_iff_eq]
  constructor
  · rintro ⟨iss, h, hr⟩
    exact ⟨iss, h, (error_kinds _).mp (by rw [← rank_by_id _ _ h]; exact hr)⟩
  · rintro ⟨iss, h, hk⟩
    exact ⟨iss, h, by rw [rank_by_id _ _ h]; exact (error_kinds _).mpr hk⟩

/-- The rank a rule function yields. -/
def ruleRank : Rule → Rank
  | .documentUniqueIds | .objectRequiredAttributes | .propertyUniqueNames
  | .sectionUniqueNameType => .error
  | _ => .warning

def rankLabelName : Rank → String
  | .error => "LABEL_ERROR"
  | .warning => "LABEL_WARNING"

/-- The rank literals found in the source of each registered rule (regenerated table; rules
    that delegate to a helper have an empty entry) are the ranks of the model. -/
theorem ranks_agree :
    (∀ e ∈ Gen.Validation.ranks, ∀ r ∈ Rule.all, r.name = e.1 → e.2 ≠ [] →
      e.2 = [rankLabelName (ruleRank r)]) ∧
    (∀ i : IssueId, ∀ r, i.rule = some r → i.rank = ruleRank r) := by
  constructor
  · decide
  · intro i r h
    cases i <;> simp [IssueId.rule] at h <;> subst h <;> rfl

theorem labels_distinct :
    Gen.Validation.labelError = Rank.error.label ∧ Gen.Validation.labelWarning = Rank.warning.label ∧
    Rank.error.label ≠ Rank.warning.label := by decide

/-! ## Termination without raising -/

/-- Validating any Document, Section or Property returns (never raises) and yields exactly
    `issues n`, provided tuple dtypes have a readable length. -/
theorem validate_total (n : Node)
    (hn : ∀ p k sibs q d, PropAt n p k sibs q → q.dtype = some d → TupleLenReadable d) :
    validate n = .ok (issues n) := by
  have hc : crashesWith ruleCrashes defaultReg n = false := by
    simp only [crashesWith, List.any_eq_false, List.any_eq_true, not_exists, not_and,
      Bool.not_eq_true]
    intro v hv r _
    rw [mem_visits] at hv
    rcases hv with ⟨d, _, rfl⟩ | ⟨p, s, hs, rfl⟩ | ⟨p, k, sibs, q, hq, rfl⟩
    · cases r <;> rfl
    · cases r <;> rfl
    · cases r <;> try rfl
      simp only [ruleCrashes, Option.isNone_eq_false_iff, valuesCheckCount]
      cases he : effDtype q with
      | none => simp
      | some d =>
        have hd := effDtype_readable q d he (fun e hde => hn p k sibs q e hq hde)
        simp [valuesLoop_some d hd]
  simp [validate, runWith, hc, issues]

/-- Without the hypothesis the statement is false: `int("x")` raises inside the rule. -/
theorem validate_total_counterexample :
    validate (.prop { id := ['i'], name := ['p'], dtype := some ['x', '-', 't', 'u', 'p', 'l', 'e'],
                      values := [.int 1], dependency := none, depValue := none,
                      valCard := none }) = .crash := by decide


/-- Every reported issue is of one of the thirteen kinds of the default rules (never
    `custom_validation`), so the rule-by-rule theorems above account for every issue. -/
theorem every_issue_accounted (n : Node) (iss : Issue) (h : iss ∈ issues n) :
    iss.id ∈ [IssueId.objectRequiredAttributes, .sectionTypeMustBeDefined, .sectionUniqueIds,
      .propertyUniqueIds, .sectionUniqueNameType, .propertyUniqueName, .objectNameReadable,
      .propertyDependencyCheck, .propertyValuesCheck, .propertyValuesStringCheck,
      .sectionPropertiesCardinality, .sectionSectionsCardinality, .propertyValuesCardinality] := by
  obtain ⟨v, _, r, _, hi⟩ := (mem_issues n iss).mp h
  have := (applyRule_sound r v iss hi).1
  cases hid : iss.id <;> simp [hid, IssueId.rule] at this ⊢

/-! ## Non-vacuity and witnesses -/

section Examples

def p2 : Prp := { id := ['2'], name := ['p', '2'], dtype := some ['s', 't', 'r', 'i', 'n', 'g'],
                  values := [.str ['a', 'b', 'c']], dependency := none, depValue := none,
                  valCard := none }
/-- depends on the existing sibling `p2`, required value present -/
def p1 : Prp := { id := ['1'], name := ['p', '1'], dtype := some ['i', 'n', 't'],
                  values := [.int 1], dependency := some ['p', '2'],
                  depValue := some ['a', 'b', 'c'], valCard := none }
/-- depends on a name that only a sub-Section has -/
def p3 : Prp := { p1 with id := ['3'], name := ['p', '3'], dependency := some ['q'], depValue := none }
def sub : Sec := .mk ['5'] ['q'] (some ['t']) none none [] []
def sec0 : Sec := .mk ['4'] ['s'] (some ['t']) none none [p2, p1, p3] [sub]
def doc0 : Doc := { id := ['0'], secs := [sec0] }

/-- The witness of the defect fixed on branch work-C08: a dependency on an existing sibling
    Property is satisfied, a dependency on a sub-Section's name is an ordinary "missing"
    warning (it used to raise `AttributeError`), and nothing else is reported. -/
example : validate (.doc doc0) =
    .ok [⟨.prop [0] 2, .propertyDependencyCheck, .warning⟩] := by decide

example : PropAt (.doc doc0) [0] 1 (some [p2, p1, p3]) p1 := Or.inl ⟨sec0, rfl, by simp, rfl, rfl⟩

/-- The hypothesis of `validate_total` / `values_check_sound_complete` is met by every dtype
    `valid_type` accepts, e.g. `3-tuple`, and by non-tuple dtypes trivially. -/
example : TupleLenReadable ['3', '-', 't', 'u', 'p', 'l', 'e'] := by unfold TupleLenReadable; decide
example : TupleLenReadable ['i', 'n', 't'] := by unfold TupleLenReadable; decide

/-- A date value in an `int` Property, an `int` in a `2-tuple` Property: warnings, no crash. -/
example : validate (.prop { p1 with dependency := none, values := [.date, .int 1] }) =
    .ok [⟨.prop [] 0, .propertyValuesCheck, .warning⟩] := by decide
example : validate (.prop { id := ['1'], name := ['p'], dtype := some ['2', '-', 't', 'u', 'p', 'l', 'e'],
                            values := [.int 1, .list 2], dependency := none, depValue := none,
                            valCard := none }) =
    .ok [⟨.prop [] 0, .propertyValuesCheck, .warning⟩] := by decide

/-- Duplicate ids, duplicate name/type, missing type, `n.s.`: errors and warnings side by side. -/
example : validate (.doc { id := ['0'], secs :=
      [.mk ['0'] ['a'] (some ['n', '.', 's', '.']) none none [] [],
       .mk ['1'] ['a'] (some ['n', '.', 's', '.']) none none [] [],
       .mk ['1'] ['b'] none none none [] []] }) =
    .ok [⟨.sec [0], .sectionUniqueIds, .error⟩, ⟨.sec [2], .sectionUniqueIds, .error⟩,
         ⟨.sec [1], .sectionUniqueNameType, .error⟩,
         ⟨.sec [0], .sectionTypeMustBeDefined, .warning⟩,
         ⟨.sec [1], .sectionTypeMustBeDefined, .warning⟩,
         ⟨.sec [2], .objectRequiredAttributes, .error⟩] := by decide

/-- A stand-alone Section: its own Properties are not validated (only their names compared). -/
example : validate (.sec (.mk ['4'] ['s'] (some ['t']) none none [p3, p3] [])) =
    .ok [⟨.prop [] 1, .propertyUniqueName, .error⟩] := by decide

end Examples

/-! ## The writer is an object: a save does not depend on what the writer was asked before

`Model/ValidWriter.lean`: an `ODMLWriter` with the attributes `__init__` creates, `write_file` as a
state transition, a session = one writer and the documents handed to it one after the other (the
states of one document between edits, or different documents).  "Only errors block saving" for a
writer that has been used: whatever it wrote or refused before, the document is refused iff it has
an issue of one of the five error kinds *now*, and written iff all its issues are warnings. -/

theorem validate_ok_or_crash (n : Node) : validate n = .crash ∨ validate n = .ok (issues n) := by
  unfold validate runWith issues
  by_cases h : crashesWith ruleCrashes defaultReg n = true
  · left; simp [h]
  · right; simp [h]

theorem write_outcome_stateless (w : Writer) (d : Doc) : (w.writeFile d).2 = saveOutcome d := by
  unfold Writer.writeFile saveOutcome
  cases validate (.doc d) with
  | crash => rfl
  | ok iss =>
    by_cases h : iss.any (·.rank == .error) = true
    · simp [h]
    · simp [h]
      cases w.parser <;> rfl

theorem write_session_pointwise (w : Writer) (ds : List Doc) :
    w.session ds = ds.map saveOutcome := by
  induction ds generalizing w with
  | nil => rfl
  | cons d ds ih => simp [Writer.session, write_outcome_stateless, ih]

theorem save_outcome_refused_iff (d : Doc) :
    saveOutcome d = .refused ↔
      validate (.doc d) ≠ .crash ∧ ∃ iss ∈ issues (.doc d), iss.id ∈ errorKinds := by
  rw [← blocks_save_iff]
  rcases validate_ok_or_crash (.doc d) with h | h
  · simp [saveOutcome, h]
  · simp only [saveOutcome, h, blocksSave]
    by_cases hb : (issues (.doc d)).any (·.rank == .error) = true
    · simp [hb]
    · simp [hb]

theorem save_refused_iff_after_any_history (w : Writer) (pre : List Doc) (d : Doc)
    (hd : validate (.doc d) ≠ .crash) :
    (w.session (pre ++ [d])).getLast? = some .refused ↔
      ∃ iss ∈ issues (.doc d), iss.id ∈ errorKinds := by
  rw [write_session_pointwise]
  simp only [List.map_append, List.map_cons, List.map_nil, List.getLast?_append, List.getLast?_singleton,
    Option.some_or, Option.some.injEq]
  rw [save_outcome_refused_iff]
  simp [hd]

theorem save_written_iff_after_any_history (w : Writer) (pre : List Doc) (d : Doc)
    (hd : validate (.doc d) ≠ .crash) :
    (w.session (pre ++ [d])).getLast? = some .written ↔
      ∀ iss ∈ issues (.doc d), iss.rank = .warning := by
  rw [write_session_pointwise]
  simp only [List.map_append, List.map_cons, List.map_nil, List.getLast?_append, List.getLast?_singleton,
    Option.some_or, Option.some.injEq]
  rcases validate_ok_or_crash (.doc d) with h | h
  · exact absurd h hd
  · simp only [saveOutcome, h]
    by_cases hb : (issues (.doc d)).any (·.rank == .error) = true
    · simp only [hb, if_true]
      constructor
      · intro hc; cases hc
      · intro hall
        obtain ⟨iss, hi, hr⟩ := List.any_eq_true.mp hb
        have := hall iss hi
        simp [this] at hr
    · simp only [hb]
      constructor
      · intro _ iss hi
        cases hr : iss.rank with
        | warning => rfl
        | error =>
          exfalso; apply hb
          exact List.any_eq_true.mpr ⟨iss, hi, by simp [hr]⟩
      · intro _; rfl

/-- The history of the seeded change: refused, repaired, asked again. -/
example : (Writer.fresh .xml).session
    [{ id := ['0'], secs := [.mk ['1'] ['a'] none none none [] []] },
     { id := ['0'], secs := [.mk ['1'] ['a'] (some ['t']) none none [] []] }] =
    [.refused, .written] := by decide

end C08
