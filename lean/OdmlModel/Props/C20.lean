/-
C20 — Searches over exported RDF return exactly the matching objects.

Property theorems only; models: `Model/Query.lean`, `Model/Rdf.lean` (tied to /repo by
`harness/c20.py`), helper lemmas: `Proofs/Query.lean`, `Proofs/Rdf.lean`.

Reading guide
  * `prepareQuery q`   the basic graph pattern of the SPARQL text `QueryCreator` builds
  * `solutions g pats` nested-loop evaluation of the pattern (validated against rdflib)
  * `directEval ds q`  rows `(?d, ?s, ?p)` computed on the documents themselves: objects related
                       by direct containment that carry all requested attribute=value pairs
  * `subsets pairs`    the combinations `FuzzyFinder` executes, in execution order
-/
import OdmlModel.Model.Query
import OdmlModel.Proofs.Query
import OdmlModel.Props.C10

set_option linter.unusedSimpArgs false
set_option linter.unusedVariables false

namespace C20
open Rdf Query List

/-! ## 1. Vocabulary and totality -/

/-- The names the query text hard-codes (`odml:hasSection`, `odml:hasProperty`, `odml:hasValue`,
    the three classes) are the ones of the regenerated writer tables, and every attribute name
    the query parsers accept is a key of the RDF map of its class. -/
theorem query_vocabulary_matches_writer :
    Gen.Format.documentRdfMap.lookup "sections" = some (String.ofList (ns ++ "hasSection".toList)) ∧
    Gen.Format.sectionRdfMap.lookup "sections" = some (String.ofList (ns ++ "hasSection".toList)) ∧
    Gen.Format.sectionRdfMap.lookup "properties" = some (String.ofList (ns ++ "hasProperty".toList)) ∧
    Gen.Format.propertyRdfMap.lookup "value" = some (String.ofList (ns ++ "hasValue".toList)) ∧
    odmlIri "Document" = .iri Gen.Format.documentRdfType.toList ∧
    odmlIri "Section" = .iri Gen.Format.sectionRdfType.toList ∧
    odmlIri "Property" = .iri Gen.Format.propertyRdfType.toList ∧
    (∀ k ∈ ["id", "author", "date", "version", "repository", "sections"],
      k ∈ Gen.Format.documentRdfMap.map (·.1)) ∧
    (∀ k ∈ ["id", "name", "definition", "type", "repository", "reference", "sections", "properties"],
      k ∈ Gen.Format.sectionRdfMap.map (·.1)) ∧
    (∀ k ∈ ["id", "name", "definition", "dtype", "unit", "uncertainty", "reference", "value_origin"],
      k ∈ Gen.Format.propertyRdfMap.map (·.1)) := by decide

/-- Building and running a query never fails for attribute names of the odML RDF model,
    whatever the searched values and whatever the graph. -/
theorem query_never_fails (q : QParams) (g : Graph)
    (h : ∀ x ∈ q.doc ++ q.sec ++ q.prop,
      ∃ k : String, x.attr = k.toList ∧ k ∈ (tableOf x.kind).map (·.1)) :
    (∃ pats, prepareQuery q = .ok pats) ∧ ∃ rows, queryRows g q = .ok rows := by
  obtain ⟨a, ha⟩ := attrPats_ok q.doc (fun x hx => h x (by simp [hx]))
  obtain ⟨b, hb⟩ := attrPats_ok q.sec (fun x hx => h x (by simp [hx]))
  obtain ⟨c, hc⟩ := attrPats_ok q.prop (fun x hx => h x (by simp [hx]))
  have : ∃ pats, prepareQuery q = .ok pats := by
    unfold prepareQuery
    simp only [ha, hb, hc]
    exact ⟨_, rfl⟩
  obtain ⟨pats, hp⟩ := this
  refine ⟨⟨pats, hp⟩, ?_⟩
  unfold queryRows
  simp only [hp]
  exact ⟨_, rfl⟩

/-- … whereas a name outside the model makes the SPARQL text unparsable. -/
example : prepareQuery ⟨[], [⟨.sec, "foo".toList, "x".toList, []⟩], []⟩ = .error .parse := by rfl

/-! ## 2. The evaluator -/

/-- Soundness of `solutions`: every returned binding instantiates every pattern to a triple of
    the graph. -/
theorem evalBGP_sound (g : Graph) (pats : List Pat) (b : Binding) (h : b ∈ solutions g pats) :
    ∀ pat ∈ pats, ∃ t ∈ g, instPat b pat t := by
  obtain ⟨b0, hb0, e⟩ := mem_evalBGP.mp h
  exact (ext_sound e).2

/-- Completeness of `solutions`: whenever a binding instantiates every pattern to a triple of
    the graph, a returned binding agrees with it on everything it binds. -/
theorem evalBGP_complete (g : Graph) (pats : List Pat) (b' : Binding)
    (h : ∀ pat ∈ pats, ∃ t ∈ g, instPat b' pat t) :
    ∃ b ∈ solutions g pats, b.le b' := by
  obtain ⟨b, e, l⟩ := ext_complete (b := {}) (b' := b') (fun x t hx => by cases x <;> cases hx) h
  exact ⟨b, mem_evalBGP.mpr ⟨{}, by simp, e⟩, l⟩

/-! ## 3. Combinations -/

/-- **Match mode executes every non-empty combination**: the executed queries are exactly the
    non-empty sub-lists of the (sorted) given pairs in which no attribute of one kind of object
    is asked twice (such a combination cannot have a hit). -/
theorem combinations_exact (pairs : List Pair) (l : List Pair) :
    l ∈ subsets pairs ↔ l ≠ [] ∧ l.Sublist (pairs.mergeSort pairLe) ∧ NoClashL l := by
  unfold subsets
  rw [mem_mergeSort, mem_dfsLoop _ [] l Pairwise.nil]
  constructor
  · rintro ⟨ext, hne, hs, rfl, hn⟩
    exact ⟨by simpa using hne, by simpa using hs, hn⟩
  · rintro ⟨hne, hs, hn⟩
    exact ⟨l, hne, hs, by simp, hn⟩

/-- … most specific (longest) first. -/
theorem combinations_most_specific_first (pairs : List Pair) :
    (subsets pairs).Pairwise (fun a b => b.length ≤ a.length) := by
  unfold subsets
  have := pairwise_mergeSort (le := lenGe) lenGe_trans lenGe_total (dfsLoop (pairs.mergeSort pairLe) [])
  exact this.imp (fun h => by simpa [lenGe] using h)

/-- … and exactly the combinations with a hit are reported, in that order. -/
theorem hitless_omitted (g : Graph) (pairs : List Pair)
    (out : List (QParams × List (Option Term × Option Term × Option Term)))
    (h : findRows g pairs = .ok out) :
    out.map (·.2) = ((subsets pairs).filterMap fun c =>
      match queryRows g (groupPairs c) with
      | .ok rows => if rows.isEmpty then none else some rows
      | .error _ => none) := by
  unfold findRows at h
  generalize subsets pairs = l at h
  induction l generalizing out with
  | nil => simp [findRows.go] at h; subst h; rfl
  | cons c r ih =>
    simp only [findRows.go] at h
    cases hq : queryRows g (groupPairs c) with
    | error e => simp [hq] at h
    | ok rows =>
      cases hr : findRows.go g r with
      | error e => simp [hq, hr] at h
      | ok rest =>
        simp only [hq, hr, Except.ok.injEq] at h
        have := ih rest hr
        subst h
        rw [filterMap_cons]
        simp only [hq]
        by_cases he : rows.isEmpty = true
        · simp only [he, if_true]; exact this
        · simp only [he, Bool.false_eq_true, if_false, map_cons]; rw [this]

/-- A fuzzy search reports what the match search on the attribute=term pairs reports. -/
theorem fuzzy_equals_match_on_pairs (g : Graph) (f : FParams) :
    findRows g (fuzzyPairs f) = findRows g (matchPairs (fuzzyAsMatch f)) := by
  simp [fuzzyPairs, matchPairs, fuzzyAsMatch]

/-! ## 4. Soundness and completeness of the generated queries -/

/-- The full-strength statement: on the export of any document set, the rows of the generated
    query are exactly the rows of the direct evaluation. -/
def query_sound_complete_statement : Prop :=
  ∀ (ds : List DocT) (q : QParams), WFDocs ds → RdfRepr ds →
    ∀ pats, prepareQuery q = .ok pats →
    ∀ row, row ∈ (solutions (exportRdf ⟨false, []⟩ ds) pats).map (fun b => (b.d, b.s, b.p)) ↔
      row ∈ directEval ds q

def dS : DocT :=
  ⟨"d1".toList, [("author", .str "me".toList)], none,
   [.mk "s1".toList [("name", .str "s".toList), ("type", .str "t".toList)]
     [⟨"p1".toList, [("name", .str "s".toList), ("unit", .str "mV".toList)], []⟩] []]⟩
def qS : QParams :=
  ⟨[⟨.doc, "author".toList, "me".toList, []⟩], [⟨.sec, "name".toList, "s".toList, []⟩],
   [⟨.prop, "name".toList, "s".toList, []⟩, ⟨.prop, "unit".toList, "mV".toList, []⟩]⟩

/-- What the queries need of the regenerated tables. -/
theorem query_tables_ok : QTablesOK where
  base := C10.rdf_tables_wellformed
  docSecs := by decide
  secSecs := by decide
  secProps := by decide
  hsNotProp := by decide
  hpNotDoc := by decide
  hpNotProp := by decide
  hsIri := by decide
  hpIri := by decide
  docIri := by decide
  secIri := by decide
  propIri := by decide
  typesDistinct := by decide

/-- **Sound and complete** on exports without repositories, for queries over the string-valued
    attributes (`QuerySafe`: Document author/version; Section name/type/definition/reference;
    Property name/definition/dtype/unit/reference/value_origin), of one kind or spanning kinds:
    a row `(?d, ?s, ?p)` is returned iff its objects are related by direct containment and carry
    all requested values — none that lacks one, none missing. -/
theorem query_sound_complete (ds : List DocT) (q : QParams) (wf : WFDocs ds) (r : RdfRepr ds)
    (nr : NoRepo ds) (safe : QuerySafe q) (row : Row) :
    ∃ rows, queryRows (exportRdf ⟨false, []⟩ ds) q = .ok rows ∧
      (row ∈ rows ↔ row ∈ directEval ds q) :=
  Query.sound_complete query_tables_ok ds q wf r nr safe row

/-- The hypotheses are satisfiable, with a query spanning all three kinds that has a hit. -/
example : WFDocs [dS] ∧ RdfRepr [dS] ∧ NoRepo [dS] ∧ QuerySafe qS ∧
    (some (node "d1".toList), some (node "s1".toList), some (node "p1".toList)) ∈ directEval [dS] qS :=
  ⟨wfDocs_of_B (by decide), rdfRepr_of_B (by decide),
   noRepo_of_B (by decide), querySafe_of_B (by decide), by decide⟩

/-! ## 5. Witnesses of the defects that remain (known findings) -/

def dW : DocT :=
  ⟨"d1".toList, [("author", .str "me".toList), ("date", .date "2020-01-02".toList)], none,
   [.mk "s1".toList [("name", .str "s".toList), ("type", .str "t".toList)]
     [⟨"p1".toList, [("name", .str "p".toList), ("dtype", .str "int".toList),
                     ("uncertainty", .float "0.5".toList)], [⟨"20".toList, xsdInteger⟩]⟩] []]⟩

example : WFDocs [dW] ∧ RdfRepr [dW] := ⟨wfDocs_of_B (by decide), rdfRepr_of_B (by decide)⟩

/-- Typed literals never match: the Document carries the date, the query finds nothing. -/
theorem typed_literal_never_matches_counterexample :
    let q : QParams := ⟨[⟨.doc, "date".toList, "2020-01-02".toList, []⟩], [], []⟩
    queryRows (exportRdf ⟨false, []⟩ [dW]) q = .ok [] ∧
    (some (node "d1".toList), none, none) ∈ directEval [dW] q := by
  constructor
  · rfl
  · decide

/-- Value queries ask for `rdf:Bag` / `rdf:li`, the writer emits `rdf:Seq` / `rdf:_n`. -/
theorem value_query_never_matches_counterexample :
    let q : QParams := ⟨[], [], [⟨.prop, "value".toList, [], ["20".toList]⟩]⟩
    queryRows (exportRdf ⟨false, []⟩ [dW]) q = .ok [] ∧
    (none, some (node "s1".toList), some (node "p1".toList)) ∈ directEval [dW] q := by
  constructor
  · rfl
  · decide

/-- The id is never exported as `hasId`, so a search by id finds nothing. -/
theorem id_never_matches_counterexample :
    let q : QParams := ⟨[⟨.doc, "id".toList, "d1".toList, []⟩], [], []⟩
    queryRows (exportRdf ⟨false, []⟩ [dW]) q = .ok [] := by
  rfl

/-- Hence the full-strength statement is false of the model (and of the code). -/
theorem query_sound_complete_counterexample : ¬ query_sound_complete_statement := by
  intro st
  have h := st [dW] ⟨[⟨.doc, "date".toList, "2020-01-02".toList, []⟩], [], []⟩
    (wfDocs_of_B (by decide)) (rdfRepr_of_B (by decide)) _ rfl (some (node "d1".toList), none, none)
  have h2 : (some (node "d1".toList), (none : Option Term), (none : Option Term)) ∈
      directEval [dW] ⟨[⟨.doc, "date".toList, "2020-01-02".toList, []⟩], [], []⟩ :=
    typed_literal_never_matches_counterexample.2
  have h3 := h.mpr h2
  have e : ∀ pats, prepareQuery ⟨[⟨.doc, "date".toList, "2020-01-02".toList, []⟩], [], []⟩ = .ok pats →
      solutions (exportRdf ⟨false, []⟩ [dW]) pats = [] := by
    intro pats hp
    have : pats = [⟨.var .d, .const rdfType, .const (odmlIri "Document")⟩,
       ⟨.var .d, .const (.iri "https://g-node.org/odml-rdf#hasDate".toList),
        .const (.lit "2020-01-02".toList [])⟩] := by
      have h0 : prepareQuery ⟨[⟨.doc, "date".toList, "2020-01-02".toList, []⟩], [], []⟩ = .ok
          [⟨.var .d, .const rdfType, .const (odmlIri "Document")⟩,
           ⟨.var .d, .const (.iri "https://g-node.org/odml-rdf#hasDate".toList),
            .const (.lit "2020-01-02".toList [])⟩] := rfl
      rw [h0] at hp; cases hp; rfl
    subst this
    rfl
  rw [e _ rfl] at h3
  simp at h3

end C20
