/-
C20 — Searches over exported RDF return exactly the matching objects.

Property theorems only; models: `Model/Query.lean`, `Model/Rdf.lean` (tied to /repo by
`harness/c20.py`), helper lemmas: `Proofs/Query.lean`, `Proofs/QueryFull.lean`, `Proofs/QueryRepo.lean`,
`Proofs/Rdf.lean`.

Reading guide
  * `prepareQuery q`   the basic graph pattern of the SPARQL text `QueryCreator` builds; a position
                       `PT.str s` is a helper variable with `FILTER (STR(?t) = "s")`
  * `prepareFilters q` the FILTERs of that text on the variables of the rows (`Flt`: node IRI for an
                       id, member of the value node, type of the terminology node)
  * `solutions g pats` nested-loop evaluation of the pattern (validated against rdflib);
    `filtered g pats fs` the solutions that pass the FILTERs
  * `directEval ds q`  rows `(?d, ?s, ?p)` computed on the documents themselves: objects related
                       by direct containment that carry all requested attribute=value pairs
  * `directEval' ds q` the same for all searchable attributes (`Proofs/QueryFull.lean`): an object
                       also carries its `id`, a Property carries a `value` pair when every searched
                       value is the text of one of its values, `repository` is an attribute like the
                       others; equal to `directEval` on the queries of `QuerySafe`
  * `subsets pairs`    the combinations `FuzzyFinder` executes, in execution order
-/
import OdmlModel.Model.Query
import OdmlModel.Model.Finder
import OdmlModel.Proofs.Query
import OdmlModel.Proofs.QueryFull
import OdmlModel.Proofs.QueryRepo
import OdmlModel.Props.C10

set_option linter.unusedSimpArgs false
set_option linter.unusedVariables false

namespace C20
open Rdf Query List

/-! ## 1. Vocabulary and totality -/

/-- The names the query text hard-codes (`odml:hasSection`, `odml:hasProperty`, `odml:hasValue`,
    the three classes) are the ones of the regenerated writer tables, and every attribute name
    the query parsers accept is a key of the RDF map of its class. -/
theorem query_vocabulary_matches_writer :
    Gen.Format.documentRdfMap.lookup "sections" = some (String.ofList (ns ++ "hasSection".toList)) ∧
    Gen.Format.sectionRdfMap.lookup "sections" = some (String.ofList (ns ++ "hasSection".toList)) ∧
    Gen.Format.sectionRdfMap.lookup "properties" = some (String.ofList (ns ++ "hasProperty".toList)) ∧
    Gen.Format.propertyRdfMap.lookup "value" = some (String.ofList (ns ++ "hasValue".toList)) ∧
    odmlIri "Document" = .iri Gen.Format.documentRdfType.toList ∧
    odmlIri "Section" = .iri Gen.Format.sectionRdfType.toList ∧
    odmlIri "Property" = .iri Gen.Format.propertyRdfType.toList ∧
    (∀ k ∈ ["id", "author", "date", "version", "repository", "sections"],
      k ∈ Gen.Format.documentRdfMap.map (·.1)) ∧
    (∀ k ∈ ["id", "name", "definition", "type", "repository", "reference", "sections", "properties"],
      k ∈ Gen.Format.sectionRdfMap.map (·.1)) ∧
    (∀ k ∈ ["id", "name", "definition", "dtype", "unit", "uncertainty", "reference", "value_origin"],
      k ∈ Gen.Format.propertyRdfMap.map (·.1)) := by decide

/-- Building and running a query never fails for attribute names of the odML RDF model,
    whatever the searched values and whatever the graph. -/
theorem query_never_fails (q : QParams) (g : Graph)
    (h : ∀ x ∈ q.doc ++ q.sec ++ q.prop,
      ∃ k : String, x.attr = k.toList ∧ k ∈ (tableOf x.kind).map (·.1)) :
    (∃ pats, prepareQuery q = .ok pats) ∧ ∃ rows, queryRows g q = .ok rows := by
  obtain ⟨a, ha⟩ := attrPats_ok q.doc (fun x hx => h x (by simp [hx]))
  obtain ⟨b, hb⟩ := attrPats_ok q.sec (fun x hx => h x (by simp [hx]))
  obtain ⟨c, hc⟩ := attrPats_ok q.prop (fun x hx => h x (by simp [hx]))
  have : ∃ pats, prepareQuery q = .ok pats := by
    unfold prepareQuery
    simp only [ha, hb, hc]
    exact ⟨_, rfl⟩
  obtain ⟨pats, hp⟩ := this
  refine ⟨⟨pats, hp⟩, ?_⟩
  unfold queryRows
  simp only [hp]
  exact ⟨_, rfl⟩

/-- … whereas a name outside the model makes the SPARQL text unparsable. -/
example : prepareQuery ⟨[], [⟨.sec, "foo".toList, "x".toList, []⟩], []⟩ = .error .parse := by rfl

/-! ## 2. The evaluator -/

/-- Soundness of `solutions`: every returned binding instantiates every pattern to a triple of
    the graph. -/
theorem evalBGP_sound (g : Graph) (pats : List Pat) (b : Binding) (h : b ∈ solutions g pats) :
    ∀ pat ∈ pats, ∃ t ∈ g, instPat b pat t := by
  obtain ⟨b0, hb0, e⟩ := mem_evalBGP.mp h
  exact (ext_sound e).2

/-- Completeness of `solutions`: whenever a binding instantiates every pattern to a triple of
    the graph, a returned binding agrees with it on everything it binds. -/
theorem evalBGP_complete (g : Graph) (pats : List Pat) (b' : Binding)
    (h : ∀ pat ∈ pats, ∃ t ∈ g, instPat b' pat t) :
    ∃ b ∈ solutions g pats, b.le b' := by
  obtain ⟨b, e, l⟩ := ext_complete (b := {}) (b' := b') (fun x t hx => by cases x <;> cases hx) h
  exact ⟨b, mem_evalBGP.mpr ⟨{}, by simp, e⟩, l⟩

/-- The FILTERs: a solution of the group is a solution of the basic graph pattern for which
    every FILTER holds; and what each kind of FILTER says, in terms of the triples of the graph. -/
theorem filtered_exact (g : Graph) (pats : List Pat) (fs : List Flt) (b : Binding) :
    b ∈ filtered g pats fs ↔ b ∈ solutions g pats ∧ ∀ f ∈ fs, f.holds g b = true := by
  simp [filtered, mem_filter, all_eq_true]

/-- `FILTER (STR(?x) = "s")`: the variable is bound to the IRI `s` or to a literal with the
    lexical form `s` (of any datatype). -/
theorem filter_strEq_exact (g : Graph) (b : Binding) (x : Var) (s : Str) :
    (Flt.strEq x s).holds g b = true ↔ ∃ t, b.get x = some t ∧ strOf t = some s := by
  simp only [Flt.holds]
  cases h : b.get x <;> simp [h]

/-- `FILTER EXISTS { ?x ?t1 ?t2 . FILTER (STRSTARTS(STR(?t1), "…#_") && STR(?t2) = "s") }`: the node
    has a member (`rdf:_n`) whose text is `s`. -/
theorem filter_member_exact (g : Graph) (b : Binding) (x : Var) (s : Str) (n : Term)
    (hx : b.get x = some n) :
    (Flt.member x s).holds g b = true ↔
      ∃ t ∈ g, t.s = n ∧ isMemberPred t.p = true ∧ strOf t.o = some s := by
  simp only [Flt.holds, boundTo, hx, any_eq_true, Bool.and_eq_true, beq_iff_eq]
  constructor
  · rintro ⟨t, ht, ⟨e1, e2⟩, e3⟩; exact ⟨t, ht, e1.symm, e2, e3⟩
  · rintro ⟨t, ht, e1, e2, e3⟩; exact ⟨t, ht, ⟨e1.symm, e2⟩, e3⟩

/-- `FILTER EXISTS { ?x pred ?t1 . ?t1 rdf:type ?t2 . FILTER (STR(?t2) = "s") }`: the node is linked
    by `pred` to a node one of whose types has the text `s`. -/
theorem filter_typedBy_exact (g : Graph) (b : Binding) (x : Var) (pred : Term) (s : Str) (n : Term)
    (hx : b.get x = some n) :
    (Flt.typedBy x pred s).holds g b = true ↔
      ∃ m u, (⟨n, pred, m⟩ : Triple) ∈ g ∧ (⟨m, rdfType, u⟩ : Triple) ∈ g ∧ strOf u = some s := by
  simp only [Flt.holds, boundTo, hx, any_eq_true, Bool.and_eq_true, beq_iff_eq]
  constructor
  · rintro ⟨⟨ts, tp, to⟩, ht, ⟨e1, e2⟩, ⟨us, up, uo⟩, hu, ⟨e3, e4⟩, e5⟩
    simp only at e1 e2 e3 e4 e5
    subst e1 e2 e3 e4
    exact ⟨_, _, ht, hu, e5⟩
  · rintro ⟨m, u, ht, hu, e⟩
    exact ⟨_, ht, ⟨rfl, rfl⟩, _, hu, ⟨rfl, rfl⟩, e⟩

/-- An `id` pair of any kind of object adds no triple pattern, only the FILTER on the node of the
    object, and that FILTER selects exactly the node the writer names with that id
    (`URIRef(ODML_NS + str(obj.id))`) - all ids, all graphs, all bindings. -/
theorem id_pair_exact (k : Kind) (v : Str) (vs : List Str) (g : Graph) (b : Binding) (i : Str)
    (hx : b.get (varOf k) = some (node i)) :
    attrPat ⟨k, "id".toList, v, vs⟩ = .ok [] ∧
    attrFlt ⟨k, "id".toList, v, vs⟩ = [.strEq (varOf k) (ns ++ v)] ∧
    ((Flt.strEq (varOf k) (ns ++ v)).holds g b = true ↔ i = v) := by
  refine ⟨by cases k <;> rfl, by cases k <;> rfl, ?_⟩
  simp [Flt.holds, hx, node, strOf]

/-! ## 3. Combinations -/

/-- **Match mode executes every non-empty combination**: the executed queries are exactly the
    non-empty sub-lists of the (sorted) given pairs in which no attribute of one kind of object
    is asked twice (such a combination cannot have a hit). -/
theorem combinations_exact (pairs : List Pair) (l : List Pair) :
    l ∈ subsets pairs ↔ l ≠ [] ∧ l.Sublist (pairs.mergeSort pairLe) ∧ NoClashL l := by
  unfold subsets
  rw [mem_mergeSort, mem_dfsLoop _ [] l Pairwise.nil]
  constructor
  · rintro ⟨ext, hne, hs, rfl, hn⟩
    exact ⟨by simpa using hne, by simpa using hs, hn⟩
  · rintro ⟨hne, hs, hn⟩
    exact ⟨l, hne, hs, by simp, hn⟩

/-- … most specific (longest) first. -/
theorem combinations_most_specific_first (pairs : List Pair) :
    (subsets pairs).Pairwise (fun a b => b.length ≤ a.length) := by
  unfold subsets
  have := pairwise_mergeSort (le := lenGe) lenGe_trans lenGe_total (dfsLoop (pairs.mergeSort pairLe) [])
  exact this.imp (fun h => by simpa [lenGe] using h)

/-- … and exactly the combinations with a hit are reported, in that order. -/
theorem hitless_omitted (g : Graph) (pairs : List Pair)
    (out : List (QParams × List (Option Term × Option Term × Option Term)))
    (h : findRows g pairs = .ok out) :
    out.map (·.2) = ((subsets pairs).filterMap fun c =>
      match queryRows g (groupPairs c) with
      | .ok rows => if rows.isEmpty then none else some rows
      | .error _ => none) := by
  unfold findRows at h
  generalize subsets pairs = l at h
  induction l generalizing out with
  | nil => simp [findRows.go] at h; subst h; rfl
  | cons c r ih =>
    simp only [findRows.go] at h
    cases hq : queryRows g (groupPairs c) with
    | error e => simp [hq] at h
    | ok rows =>
      cases hr : findRows.go g r with
      | error e => simp [hq, hr] at h
      | ok rest =>
        simp only [hq, hr, Except.ok.injEq] at h
        have := ih rest hr
        subst h
        rw [filterMap_cons]
        simp only [hq]
        by_cases he : rows.isEmpty = true
        · simp only [he, if_true]; exact this
        · simp only [he, Bool.false_eq_true, if_false, map_cons]; rw [this]

/-- A fuzzy search reports what the match search on the attribute=term pairs reports. -/
theorem fuzzy_equals_match_on_pairs (g : Graph) (f : FParams) :
    findRows g (fuzzyPairs f) = findRows g (matchPairs (fuzzyAsMatch f)) := by
  simp [fuzzyPairs, matchPairs, fuzzyAsMatch]

/-! ## 4. Soundness and completeness of the generated queries -/

def dS : DocT :=
  ⟨"d1".toList, [("author", .str "me".toList), ("date", .date "2020-01-02".toList)], none,
   [.mk "s1".toList [("name", .str "s".toList), ("type", .str "t".toList)]
     [⟨"p1".toList, [("name", .str "s".toList), ("unit", .str "mV".toList),
                     ("uncertainty", .float "0.5".toList)], []⟩] []]⟩
def qS : QParams :=
  ⟨[⟨.doc, "author".toList, "me".toList, []⟩, ⟨.doc, "date".toList, "2020-01-02".toList, []⟩],
   [⟨.sec, "name".toList, "s".toList, []⟩],
   [⟨.prop, "name".toList, "s".toList, []⟩, ⟨.prop, "unit".toList, "mV".toList, []⟩,
    ⟨.prop, "uncertainty".toList, "0.5".toList, []⟩]⟩

/-- What the queries need of the regenerated tables. -/
theorem query_tables_ok : QTablesOK where
  base := C10.rdf_tables_wellformed
  docSecs := by decide
  secSecs := by decide
  secProps := by decide
  hsNotProp := by decide
  hpNotDoc := by decide
  hpNotProp := by decide
  hsIri := by decide
  hpIri := by decide
  docIri := by decide
  secIri := by decide
  propIri := by decide
  typesDistinct := by decide

/-- **Sound and complete** on exports without repositories, for queries over the attributes of
    `QuerySafe` (Document author/version/date; Section name/type/definition/reference; Property
    name/definition/dtype/unit/reference/value_origin/uncertainty - the string-valued ones and the
    two that are exported as typed literals), of one kind or spanning kinds: a row `(?d, ?s, ?p)`
    is returned iff its objects are related by direct containment and carry all requested values
    — none that lacks one, none missing. -/
theorem query_sound_complete (ds : List DocT) (q : QParams) (wf : WFDocs ds) (r : RdfRepr ds)
    (nr : NoRepo ds) (safe : QuerySafe q) (row : Row) :
    ∃ rows, queryRows (exportRdf ⟨false, []⟩ ds) q = .ok rows ∧
      (row ∈ rows ↔ row ∈ directEval ds q) :=
  Query.sound_complete query_tables_ok ds q wf r nr safe row

/-- **A value pair is exact** on the export (no sub-classing, no repositories) of every well-formed
    document set: its FILTERs are one membership test of the value node per searched value, and
    with `?v` bound to the value node of a Property they all hold iff every searched value is the
    text of one of the values of that Property (`carriesValues`, the clause of `directEval`) -
    whatever the datatype of the exported literals, at whatever position. -/
theorem value_pair_exact (ds : List DocT) (wf : WFDocs ds) (nr : NoRepo ds) (p : PropT)
    (hp : p ∈ docProps ds) (b : Binding) (hb : b.get .v = some (.seqn p.id)) (v : Str) (vs : List Str) :
    attrFlt ⟨.prop, "value".toList, v, vs⟩ = vs.map (Flt.member .v) ∧
    ((∀ f ∈ attrFlt ⟨.prop, "value".toList, v, vs⟩, f.holds (exportRdf ⟨false, []⟩ ds) b = true) ↔
      carriesValues p ⟨.prop, "value".toList, v, vs⟩ = true) := by
  have h1 : attrFlt ⟨.prop, "value".toList, v, vs⟩ = vs.map (Flt.member .v) := rfl
  refine ⟨h1, ?_⟩
  rw [h1]
  simp only [mem_map, forall_exists_index, and_imp, forall_apply_eq_imp_iff₂, carriesValues,
    all_eq_true, any_eq_true, beq_iff_eq]
  refine forall_congr' (fun s => forall_congr' (fun _ => ?_))
  exact Query.value_filter_exact query_tables_ok wf nr hp
    ⟨String.ofList (ns ++ "hasValue".toList), by decide⟩ b hb s

/-- The hypotheses are satisfiable, with a query spanning all three kinds that has a hit. -/
example : WFDocs [dS] ∧ RdfRepr [dS] ∧ NoRepo [dS] ∧ QuerySafe qS ∧
    (some (node "d1".toList), some (node "s1".toList), some (node "p1".toList)) ∈ directEval [dS] qS :=
  ⟨wfDocs_of_B (by decide), rdfRepr_of_B (by decide),
   noRepo_of_B (by decide), querySafe_of_B (by decide), by decide⟩

/-! ## 4b. Composition: `id`, `value` and `repository` pairs inside the main theorem

`directEval'` is the direct specification for all searchable attributes (`objCarries`: for `id` the id
of the object is the searched string; `propCarries`: for `value` every searched value is the text of
one of the values of the Property; otherwise `carries`).  The three theorems have the shape of
`query_sound_complete`; each widens the scope of the queries, the last one also the scope of the
document sets (repositories allowed). -/

/-- What the value and repository pairs need of the regenerated tables. -/
theorem query_tables_ok2 : QTablesOK2 where
  base := query_tables_ok
  propValue := by decide
  docRepo := by decide
  secRepo := by decide
  hvIri := by decide
  htIri := by decide

/-- The extended specification agrees with `directEval` on the queries of `query_sound_complete`. -/
theorem direct_spec_extends (ds : List DocT) (q : QParams) (safe : QuerySafe q) :
    directEval' ds q = directEval ds q :=
  Query.directEval'_eq_of_safe ds q safe

/-- **Sound and complete with `id` pairs** (step 1): as `query_sound_complete`, for queries that
    also contain `id` pairs of any kind of object (Document / Section / Property), alone or together
    with other pairs, of one kind or spanning kinds: a row is returned iff its objects are related by
    direct containment, have the requested ids and carry all other requested values. -/
theorem query_sound_complete_ids (ds : List DocT) (q : QParams) (wf : WFDocs ds) (r : RdfRepr ds)
    (nr : NoRepo ds) (ids : QueryIds q) (row : Row) :
    ∃ rows, queryRows (exportRdf ⟨false, []⟩ ds) q = .ok rows ∧
      (row ∈ rows ↔ row ∈ directEval' ds q) :=
  Query.sound_complete_norepo query_tables_ok2 ds q wf r nr
    (queryFull_of_values (queryValues_of_ids ids)) row

/-- **Sound and complete with `value` pairs** (step 2): as `query_sound_complete_ids`, for queries
    that also contain `value` pairs: the Property of a returned row holds every searched value (as
    the text of one of its values, whatever the datatype and the position), and every such Property
    is returned.  `?v` (the value node) is bound by the query but is no part of the rows. -/
theorem query_sound_complete_values (ds : List DocT) (q : QParams) (wf : WFDocs ds) (r : RdfRepr ds)
    (nr : NoRepo ds) (vals : QueryValues q) (row : Row) :
    ∃ rows, queryRows (exportRdf ⟨false, []⟩ ds) q = .ok rows ∧
      (row ∈ rows ↔ row ∈ directEval' ds q) :=
  Query.sound_complete_norepo query_tables_ok2 ds q wf r nr (queryFull_of_values vals) row

def dV : DocT :=
  ⟨"d1".toList, [("author", .str "me".toList), ("date", .date "2020-01-02".toList)], none,
   [.mk "s1".toList [("name", .str "s".toList), ("type", .str "t".toList)]
     [⟨"p1".toList, [("name", .str "p".toList), ("dtype", .str "int".toList),
                     ("uncertainty", .float "0.5".toList)], [⟨"20".toList, xsdInteger⟩, ⟨"25".toList, xsdInteger⟩]⟩,
      ⟨"p2".toList, [("name", .str "q".toList)], [⟨"x".toList, []⟩]⟩] [],
    .mk "s2".toList [("name", .str "s2".toList), ("type", .str "t".toList)] [] []]⟩

def dV2 : DocT := ⟨"d2".toList, [("author", .str "you".toList)], none, []⟩

def qI : QParams :=
  ⟨[⟨.doc, "id".toList, "d1".toList, []⟩, ⟨.doc, "author".toList, "me".toList, []⟩],
   [⟨.sec, "id".toList, "s1".toList, []⟩],
   [⟨.prop, "id".toList, "p2".toList, []⟩, ⟨.prop, "name".toList, "q".toList, []⟩]⟩

def qV : QParams :=
  ⟨[⟨.doc, "id".toList, "d1".toList, []⟩],
   [⟨.sec, "name".toList, "s".toList, []⟩],
   [⟨.prop, "value".toList, [], ["25".toList, "20".toList]⟩, ⟨.prop, "id".toList, "p1".toList, []⟩,
    ⟨.prop, "dtype".toList, "int".toList, []⟩]⟩

/-- The hypotheses are satisfiable: two Documents, queries spanning all three kinds with `id` pairs
    (and a `value` pair with two searched values), each with a hit. -/
example : WFDocs [dV, dV2] ∧ RdfRepr [dV, dV2] ∧ NoRepo [dV, dV2] ∧ QueryIds qI ∧ QueryValues qV ∧
    (some (node "d1".toList), some (node "s1".toList), some (node "p2".toList)) ∈ directEval' [dV, dV2] qI ∧
    (some (node "d1".toList), some (node "s1".toList), some (node "p1".toList)) ∈ directEval' [dV, dV2] qV :=
  ⟨wfDocs_of_B (by decide), rdfRepr_of_B (by decide), noRepo_of_B (by decide), by decide, by decide,
   by decide, by decide⟩

/-- **Sound and complete, all searchable attributes, repositories included** (step 3): on the
    export (no sub-classing) of every document set with unique ids and representable attributes whose
    repositories are `RepoOK` (set to a non-empty value that is not one of the three odML class
    IRIs; document sets without repositories are a special case, `repoOK_of_noRepo`), for every
    query of `QueryFull` - every attribute name the query parsers accept for the kind of object
    except the child lists: Document author / version / date / id / repository; Section name / type /
    definition / reference / id / repository; Property name / definition / dtype / unit / reference /
    value_origin / uncertainty / id / value - of one kind or spanning kinds: a row `(?d, ?s, ?p)` is
    returned by the generated query (basic graph pattern and FILTERs) iff its objects are related by
    direct containment and carry all requested values - none that lacks one, none missing. -/
theorem query_sound_complete_full (ds : List DocT) (q : QParams) (wf : WFDocs ds) (r : RdfRepr ds)
    (ro : RepoOK ds) (full : QueryFull q) (row : Row) :
    ∃ rows, queryRows (exportRdf ⟨false, []⟩ ds) q = .ok rows ∧
      (row ∈ rows ↔ row ∈ directEval' ds q) :=
  Query.sound_complete_full query_tables_ok2 ds q wf r ro full row

/-- **A match-mode search is exact for every executed combination**: for given pairs over searchable
    attributes (each under the key of its kind) every combination the finder executes
    (`combinations_exact`: every non-empty clash-free sub-list of the sorted pairs) returns exactly
    the rows of the objects that carry all pairs of the combination. -/
theorem match_search_sound_complete (ds : List DocT) (pairs : List Pair) (wf : WFDocs ds)
    (r : RdfRepr ds) (ro : RepoOK ds) (hp : ∀ x ∈ pairs, fullPair x.kind x) (c : List Pair)
    (hc : c ∈ subsets pairs) (row : Row) :
    ∃ rows, queryRows (exportRdf ⟨false, []⟩ ds) (groupPairs c) = .ok rows ∧
      (row ∈ rows ↔ row ∈ directEval' ds (groupPairs c)) := by
  have hsub := ((combinations_exact pairs c).mp hc).2.1
  have hmem : ∀ x ∈ c, fullPair x.kind x := fun x hx =>
    hp x ((mem_mergeSort (le := pairLe)).mp (hsub.subset hx))
  refine query_sound_complete_full ds (groupPairs c) wf r ro ⟨?_, ?_, ?_⟩ row <;>
    (intro x hx
     simp only [groupPairs, mem_filter, beq_iff_eq] at hx
     have := hmem x hx.1
     rw [hx.2] at this
     exact this)

/-- **What a match-mode search reports** (all searchable attributes, repositories included): the
    search succeeds; the reported blocks are exactly the executed combinations
    (`combinations_exact`, most specific first: `combinations_most_specific_first`) that have a hit on
    the documents, in execution order; and the rows of each block are exactly the rows of the objects
    that carry all pairs of its combination. -/
theorem match_search_reports_exact (ds : List DocT) (pairs : List Pair) (wf : WFDocs ds)
    (r : RdfRepr ds) (ro : RepoOK ds) (hp : ∀ x ∈ pairs, fullPair x.kind x) :
    ∃ out, findRows (exportRdf ⟨false, []⟩ ds) pairs = .ok out ∧
      out.map (·.1) =
        ((subsets pairs).filter fun c => !(directEval' ds (groupPairs c)).isEmpty).map groupPairs ∧
      ∀ blk ∈ out, ∀ row, row ∈ blk.2 ↔ row ∈ directEval' ds blk.1 :=
  Query.findRows_go_exact _ ds (subsets pairs)
    (fun c hc row => match_search_sound_complete ds pairs wf r ro hp c hc row)

/-- … and a fuzzy search (`FIND attributes HAVING terms`) over searchable attributes reports exactly
    that for the attribute = term pairs (`fuzzy_equals_match_on_pairs`). -/
theorem fuzzy_search_reports_exact (ds : List DocT) (f : FParams) (wf : WFDocs ds)
    (r : RdfRepr ds) (ro : RepoOK ds) (hd : ∀ a ∈ f.doc, String.ofList a ∈ fullAttrs .doc)
    (hs : ∀ a ∈ f.sec, String.ofList a ∈ fullAttrs .sec)
    (hpr : ∀ a ∈ f.prop, String.ofList a ∈ fullAttrs .prop) :
    ∃ out, findRows (exportRdf ⟨false, []⟩ ds) (fuzzyPairs f) = .ok out ∧
      out.map (·.1) =
        ((subsets (fuzzyPairs f)).filter fun c => !(directEval' ds (groupPairs c)).isEmpty).map groupPairs ∧
      ∀ blk ∈ out, ∀ row, row ∈ blk.2 ↔ row ∈ directEval' ds blk.1 := by
  refine match_search_reports_exact ds (fuzzyPairs f) wf r ro ?_
  intro x hx
  simp only [fuzzyPairs, mem_append, mem_flatMap, mem_map] at hx
  rcases hx with (⟨a, ha, v, _, rfl⟩ | ⟨a, ha, v, _, rfl⟩) | ⟨a, ha, v, _, rfl⟩
  · exact ⟨rfl, hd a ha⟩
  · exact ⟨rfl, hs a ha⟩
  · exact ⟨rfl, hpr a ha⟩

def qF : QParams :=
  ⟨[⟨.doc, "repository".toList, "http://x.org/t.xml".toList, []⟩, ⟨.doc, "id".toList, "d1".toList, []⟩],
   [⟨.sec, "repository".toList, "http://x.org/s.xml".toList, []⟩, ⟨.sec, "type".toList, "t".toList, []⟩],
   [⟨.prop, "value".toList, [], ["20".toList]⟩, ⟨.prop, "uncertainty".toList, "0.5".toList, []⟩]⟩

/-! ## 5. The other shapes of a query (repaired findings): typed literals, values, id, repository

Until the `fix:` commits eb38590, 573e2b8, 57076b7 every one of these queries returned no row
(plain string literal against a typed one; `rdf:Bag` / `rdf:li` against `rdf:Seq` / `rdf:_n`;
a `hasId` triple that is never written; the repository URL as a literal).  The witnesses of the
former counterexample theorems now find their objects, and only them. -/

def dW : DocT :=
  ⟨"d1".toList, [("author", .str "me".toList), ("date", .date "2020-01-02".toList),
                 ("repository", .str "http://x.org/t.xml".toList)], none,
   [.mk "s1".toList [("name", .str "s".toList), ("type", .str "t".toList),
                     ("repository", .str "http://x.org/s.xml".toList)]
     [⟨"p1".toList, [("name", .str "p".toList), ("dtype", .str "int".toList),
                     ("uncertainty", .float "0.5".toList)], [⟨"20".toList, xsdInteger⟩, ⟨"25".toList, xsdInteger⟩]⟩,
      ⟨"p2".toList, [("name", .str "q".toList)], [⟨"x".toList, []⟩]⟩] [],
    .mk "s2".toList [("name", .str "s2".toList), ("type", .str "t".toList)] [] []]⟩

def dW2 : DocT := ⟨"d2".toList, [("author", .str "you".toList)], none, []⟩

example : WFDocs [dW, dW2] ∧ RdfRepr [dW, dW2] :=
  ⟨wfDocs_of_B (by decide), rdfRepr_of_B (by decide)⟩

/-- The hypotheses of `query_sound_complete_full` are satisfiable: Documents and Sections with
    repositories, a query spanning all three kinds with repository, id, value and typed-literal pairs
    that has a hit; and the direct specification gives the rows the executed query gives
    (`repository_query_matches`, `value_query_matches`; the candidate list names a row once per way
    of reading `?d`, hence `eraseDups` - the theorems speak about membership). -/
example : WFDocs [dW, dW2] ∧ RdfRepr [dW, dW2] ∧ RepoOK [dW, dW2] ∧ QueryFull qF ∧
    (directEval' [dW, dW2] qF).eraseDups =
      [(some (node "d1".toList), some (node "s1".toList), some (node "p1".toList))] ∧
    (directEval' [dW, dW2] ⟨[], [⟨.sec, "repository".toList, "http://x.org/s.xml".toList, []⟩], []⟩).eraseDups
      = [(some (node "d1".toList), some (node "s1".toList), none)] ∧
    directEval' [dW, dW2] ⟨[], [], [⟨.prop, "value".toList, [], ["20".toList, "x".toList]⟩]⟩ = [] :=
  ⟨wfDocs_of_B (by decide), rdfRepr_of_B (by decide), repoOK_of_B (by decide), queryFull_of_B (by decide),
   by decide, by decide, by decide⟩

/-- Typed literals match by their text: the Document that carries the date is found (and not the
    other one); a date nobody carries finds nothing. -/
theorem typed_literal_query_matches :
    queryRows (exportRdf ⟨false, []⟩ [dW, dW2]) ⟨[⟨.doc, "date".toList, "2020-01-02".toList, []⟩], [], []⟩
      = .ok [(some (node "d1".toList), none, none)] ∧
    queryRows (exportRdf ⟨false, []⟩ [dW, dW2]) ⟨[], [], [⟨.prop, "uncertainty".toList, "0.5".toList, []⟩]⟩
      = .ok [(none, some (node "s1".toList), some (node "p1".toList))] ∧
    queryRows (exportRdf ⟨false, []⟩ [dW, dW2]) ⟨[⟨.doc, "date".toList, "2020-01-03".toList, []⟩], [], []⟩
      = .ok [] := by
  refine ⟨?_, ?_, ?_⟩ <;> rfl

/-- Value queries find the Property that holds every searched value, whatever the datatype of the
    exported literal; a Property that lacks one of them is not found. -/
theorem value_query_matches :
    queryRows (exportRdf ⟨false, []⟩ [dW, dW2]) ⟨[], [], [⟨.prop, "value".toList, [], ["25".toList, "20".toList]⟩]⟩
      = .ok [(none, some (node "s1".toList), some (node "p1".toList))] ∧
    queryRows (exportRdf ⟨false, []⟩ [dW, dW2]) ⟨[], [], [⟨.prop, "value".toList, [], ["x".toList]⟩]⟩
      = .ok [(none, some (node "s1".toList), some (node "p2".toList))] ∧
    queryRows (exportRdf ⟨false, []⟩ [dW, dW2]) ⟨[], [], [⟨.prop, "value".toList, [], ["20".toList, "x".toList]⟩]⟩
      = .ok [] := by
  refine ⟨?_, ?_, ?_⟩ <;> rfl

/-- A search by id finds the object with that id. -/
theorem id_query_matches :
    queryRows (exportRdf ⟨false, []⟩ [dW, dW2]) ⟨[⟨.doc, "id".toList, "d2".toList, []⟩], [], []⟩
      = .ok [(some (node "d2".toList), none, none)] ∧
    queryRows (exportRdf ⟨false, []⟩ [dW, dW2]) ⟨[], [⟨.sec, "id".toList, "s2".toList, []⟩], []⟩
      = .ok [(some (node "d1".toList), some (node "s2".toList), none)] ∧
    queryRows (exportRdf ⟨false, []⟩ [dW, dW2])
        ⟨[], [⟨.sec, "id".toList, "s1".toList, []⟩], [⟨.prop, "id".toList, "p2".toList, []⟩]⟩
      = .ok [(some (node "d1".toList), some (node "s1".toList), some (node "p2".toList))] ∧
    queryRows (exportRdf ⟨false, []⟩ [dW, dW2]) ⟨[⟨.doc, "id".toList, "s1".toList, []⟩], [], []⟩
      = .ok [] := by
  refine ⟨?_, ?_, ?_, ?_⟩ <;> rfl

/-- A search by repository finds the objects whose own repository is that URL. -/
theorem repository_query_matches :
    queryRows (exportRdf ⟨false, []⟩ [dW, dW2]) ⟨[⟨.doc, "repository".toList, "http://x.org/t.xml".toList, []⟩], [], []⟩
      = .ok [(some (node "d1".toList), none, none)] ∧
    queryRows (exportRdf ⟨false, []⟩ [dW, dW2]) ⟨[], [⟨.sec, "repository".toList, "http://x.org/s.xml".toList, []⟩], []⟩
      = .ok [(some (node "d1".toList), some (node "s1".toList), none)] ∧
    queryRows (exportRdf ⟨false, []⟩ [dW, dW2]) ⟨[], [⟨.sec, "repository".toList, "http://x.org/t.xml".toList, []⟩], []⟩
      = .ok [] := by
  refine ⟨?_, ?_, ?_⟩ <;> rfl

/-! ## The finder object: a search answers the call it is given (round 6)

`Model/Finder.lean`: what a `FuzzyFinder` keeps between two calls (`graph`, `q_params`, `_subsets`)
and `find` statement by statement.  The parameters of a call are what the caller's dictionary says
when `find` is called (the harness hands the same dictionary object, changed in place, to the
library). -/

/-- **A search answers the call.**  Whatever the finder was used for before (`f` is any state: after
    other searches, other dictionaries, refused or failed calls), a call with a valid mode, a graph
    (passed now, or left out after an earlier call passed it) and parameters given one way reports
    what `findRows` reports for THIS graph and the pairs the parameters say NOW - nothing of an
    earlier question is left in the answer; and the finder keeps this graph. -/
theorem search_answers_the_call (f : Finder) (c : Call) (g : Graph) (pairs : List Pair)
    (hm : c.modeOk = true)
    (hg : c.graph = some g ∨ (c.graph = none ∧ f.graph = some g))
    (hp : (c.qStr = some pairs ∧ c.qParams = none) ∨ (c.qStr = none ∧ c.qParams = some pairs)) :
    (f.find c).2 = liftQ (findRows g pairs) ∧ (f.find c).1.graph = some g := by
  obtain ⟨m, cg, cs, cd⟩ := c
  obtain ⟨fg, fp, fs⟩ := f
  simp only at hm hg hp
  subst hm
  have hfr : findRows g pairs = findRows.go g (subsets pairs) := rfl
  rcases hg with rfl | ⟨rfl, rfl⟩ <;> rcases hp with ⟨rfl, rfl⟩ | ⟨rfl, rfl⟩ <;>
    simp [Finder.find, hfr]

/-- A call with a valid mode that passes a graph leaves that graph on the finder - also when it is
    refused afterwards for its parameters (`_validate_find_input_attributes` takes the graph first). -/
theorem graph_kept_by_any_call (f : Finder) (c : Call) (g : Graph) (hm : c.modeOk = true)
    (hg : c.graph = some g) : (f.find c).1.graph = some g := by
  obtain ⟨m, cg, cs, cd⟩ := c
  simp only at hm hg
  subst hm; subst hg
  cases cs <;> cases cd <;> simp [Finder.find]

/-- ... so a search that leaves the graph out is a search on the graph of the previous call. -/
theorem search_without_graph_uses_last_passed (f : Finder) (c : Call) (g : Graph) (pairs : List Pair)
    (hm : c.modeOk = true) (hg : c.graph = some g) :
    ((f.find c).1.find ⟨true, none, none, some pairs⟩).2 = liftQ (findRows g pairs) :=
  (search_answers_the_call _ _ g pairs rfl (Or.inr ⟨rfl, graph_kept_by_any_call f c g hm hg⟩)
    (Or.inr ⟨rfl, rfl⟩)).1

/-- **The reporting clause over histories**: after ANY history of calls on one finder (searches in
    either mode with any parameters, refused calls, calls whose queries could not be built), a
    match search - parameters as a string or as a dictionary - on the export of `ds` reports exactly
    the executed combinations of the pairs given now that have a hit, most specific first, each
    with exactly the rows of the objects that carry all its pairs (`match_search_reports_exact`);
    with `fuzzyPairs f` for `pairs` this is the fuzzy search (`fuzzy_search_reports_exact`). -/
theorem search_reports_exact_after_any_history (hist : List Call) (ds : List DocT) (pairs : List Pair)
    (viaString : Bool) (wf : WFDocs ds) (r : RdfRepr ds) (ro : RepoOK ds)
    (hp : ∀ x ∈ pairs, fullPair x.kind x) :
    ∃ out, ((({} : Finder).run hist).find
        ⟨true, some (exportRdf ⟨false, []⟩ ds), if viaString then some pairs else none,
         if viaString then none else some pairs⟩).2 = .ok out ∧
      out.map (·.1) =
        ((subsets pairs).filter fun c => !(directEval' ds (groupPairs c)).isEmpty).map groupPairs ∧
      ∀ blk ∈ out, ∀ row, row ∈ blk.2 ↔ row ∈ directEval' ds blk.1 := by
  obtain ⟨out, ho, h1, h2⟩ := match_search_reports_exact ds pairs wf r ro hp
  refine ⟨out, ?_, h1, h2⟩
  have h := (search_answers_the_call (({} : Finder).run hist)
    ⟨true, some (exportRdf ⟨false, []⟩ ds), if viaString then some pairs else none,
     if viaString then none else some pairs⟩ (exportRdf ⟨false, []⟩ ds) pairs rfl (Or.inl rfl)
    (by cases viaString <;> simp)).1
  rw [h, ho]; rfl

end C20
