/-
C02 — JSON and YAML save/load are lossless and keep the odML 1.1 layout.

Property theorems only; helper lemmas are in `Proofs/Dict.lean`.
Model: `Model/Dict.lean`, `Model/DictDoc.lean` (tied to /repo by `harness/c02.py`).
-/
import OdmlModel.Model.Dict
import OdmlModel.Model.DictDoc
import OdmlModel.Proofs.Dict
import OdmlModel.Proofs.DictRead
import OdmlModel.Proofs.DictRound
import OdmlModel.Proofs.DictRefuse

namespace C02
open Dict

/-- Every key the three writers can emit is accepted by `is_valid_attribute` of the same format
    class, and the reader maps it to a keyword argument of the constructor (tables regenerated
    from /repo/odml/format.py on every run). -/
theorem format_keys_valid :
    (docLayoutKeys.all (isValidAttr Gen.Format.documentArgs Gen.Format.documentMap) = true) ∧
    (secLayoutKeys.all (isValidAttr Gen.Format.sectionArgs Gen.Format.sectionMap) = true) ∧
    (propLayoutKeys.all (isValidAttr Gen.Format.propertyArgs Gen.Format.propertyMap) = true) ∧
    ((docLayoutKeys.filter (· != "sections")).all
        (fun k => docKwargs.contains (mapKey Gen.Format.documentMap k)) = true) ∧
    ((secLayoutKeys.filter (fun k => k != "sections" && k != "properties")).all
        (fun k => secKwargs.contains (mapKey Gen.Format.sectionMap k)) = true) ∧
    (propLayoutKeys.all (fun k => propKwargs.contains (mapKey Gen.Format.propertyMap k)) = true) := by
  decide

/-- The written structure is the odML 1.1 dictionary layout: root keys exactly `Document` and
    `odml-version` (= FORMAT_VERSION), below only keys defined by the format tables, no key twice,
    for every document (any size, any attribute values). -/
theorem dict_layout (d : Doc) : layoutOK (wrap (writeDoc d)) = true :=
  layoutOK_write d

/-- A structure in the odML 1.1 layout produced elsewhere loads to the document it describes:
    whenever the independent look-up semantics `denote` assigns a document to a dictionary (any
    size, keys in any order), `DictReader.to_odml` returns exactly that document, with an empty
    warning list, with `ignore_errors` off and on. -/
theorem dict_denote (lib : Lib) (m : Mode) (j : J) (d : Doc) (h : denote lib j = some d) :
    readDict lib m j = .ok (d, []) :=
  readDict_denote lib m j d h

/-- On a dictionary in the layout the strict and the lenient reader return the same document. -/
theorem strict_lenient_agree (lib : Lib) (j : J) (d : Doc) (h : denote lib j = some d) :
    readDict lib .strict j = readDict lib .lenient j := by
  rw [dict_denote lib .strict j d h, dict_denote lib .lenient j d h]

/-- A key the format does not define: the strict reader raises `ParserException` at that key,
    the lenient reader records one warning and goes on with the remaining keys. -/
theorem foreign_key_strict (k : String) (v : J) (r attrs : List (String × J)) (ws : List Warn)
    (h : isValidAttr Gen.Format.propertyArgs Gen.Format.propertyMap k = false) :
    scanPropKeys .strict ((k, v) :: r) attrs ws = .error .parser := by
  simp [scanPropKeys, h, errorM]

theorem foreign_key_lenient (k : String) (v : J) (r attrs : List (String × J)) (ws : List Warn)
    (h : isValidAttr Gen.Format.propertyArgs Gen.Format.propertyMap k = false) :
    scanPropKeys .lenient ((k, v) :: r) attrs ws =
      scanPropKeys .lenient r attrs (ws ++ [.invalidAttr k]) := by
  simp [scanPropKeys, h, errorM]

/-! ## Round trip -/

/-- The full-strength statement of the property over the model: every valid document comes back
    unchanged (same tree, order, ids, attributes, dtypes, cardinalities, typed values), without
    warnings, through every transport that keeps the scalar classes, in both reader modes. -/
def C02_statement : Prop :=
  ∀ (lib : Lib) (t : Transport) (m : Mode) (d : Doc), ScalarCodec t → wfDoc lib d = true →
    readDict lib m (t.apply (wrap (writeDoc d))) = .ok (d, [])

/-- Save then load is the identity, for documents of any size:
    valid (`wfDoc`), attribute values among None / bool / int / float / str and no comma inside an
    item of an odML n-tuple (`dictRepr`; this includes the falsy attribute values 0, 0.0, False, ""
    and n-tuple values of any arity). `t` is any transport satisfying the json / yaml scalar
    contract, with any key order. -/
theorem dict_roundtrip_partial (lib : Lib) (t : Transport) (m : Mode) (d : Doc) (sc : ScalarCodec t)
    (hwf : wfDoc lib d = true) (hr : dictRepr d = true) :
    readDict lib m (t.apply (wrap (writeDoc d))) = .ok (d, []) :=
  readDict_denote lib m _ d (denote_write sc lib d hwf hr)

/-- The written dictionary is in the domain of `denote` and denotes the document itself. -/
theorem write_denotes (lib : Lib) (t : Transport) (d : Doc) (sc : ScalarCodec t)
    (hwf : wfDoc lib d = true) (hr : dictRepr d = true) :
    denote lib (t.apply (wrap (writeDoc d))) = some d :=
  denote_write sc lib d hwf hr

/-- The three concrete transports: the dictionary handed over in memory, JSON (date, time and
    datetime objects come back as strings), YAML (times come back as strings, keys sorted). -/
theorem roundtrip_direct (lib : Lib) (m : Mode) (d : Doc)
    (hwf : wfDoc lib d = true) (hr : dictRepr d = true) :
    readDict lib m (Transport.direct.apply (wrap (writeDoc d))) = .ok (d, []) :=
  dict_roundtrip_partial lib _ m d direct_codec hwf hr

theorem roundtrip_json (lib : Lib) (m : Mode) (d : Doc)
    (hwf : wfDoc lib d = true) (hr : dictRepr d = true) :
    readDict lib m (Transport.json.apply (wrap (writeDoc d))) = .ok (d, []) :=
  dict_roundtrip_partial lib _ m d json_codec hwf hr

theorem roundtrip_yaml (lib : Lib) (m : Mode) (d : Doc)
    (hwf : wfDoc lib d = true) (hr : dictRepr d = true) :
    readDict lib m (Transport.yaml.apply (wrap (writeDoc d))) = .ok (d, []) :=
  dict_roundtrip_partial lib _ m d yaml_codec hwf hr

/-- JSON and YAML always load to the same document as each other (both are `readDict` of the same
    written dictionary, seen through two transports), in any combination of reader modes.
    Remark: the XML pipeline (C01) yields the same document up to its whitespace trimming. -/
theorem json_yaml_agree (lib : Lib) (m₁ m₂ : Mode) (d : Doc)
    (hwf : wfDoc lib d = true) (hr : dictRepr d = true) :
    readDict lib m₁ (Transport.json.apply (wrap (writeDoc d))) =
    readDict lib m₂ (Transport.yaml.apply (wrap (writeDoc d))) := by
  rw [roundtrip_json lib m₁ d hwf hr, roundtrip_yaml lib m₂ d hwf hr]

/-- Round trip of one Property dictionary (the unit the key loop works on). -/
theorem prop_roundtrip (lib : Lib) (t : Transport) (m : Mode) (p : Prp) (ws : List Warn)
    (sc : ScalarCodec t) (hwf : wfProp lib p = true) (hr : reprProp p = true) :
    parseProp lib m (t.apply (writeProp p)) ws = .ok (some p, ws) :=
  parseProp_denote lib m _ p ws (denoteProp_write sc lib p hwf hr)

/-- Stored cardinalities survive: the list form written for a cardinality is parsed and
    re-formatted to the same cardinality (reuses C09.persist_list and C09.stored_fixpoint). -/
theorem card_roundtrip (t : Transport) (sc : ScalarCodec t) (c : Card.Card) (h : cardOk c = true) :
    readCard ((optOf (cardJ c)).map t.apply) = .ok c :=
  readCard_cardJ sc c h

/-! ## Witnesses -/

/-- A library instance for closed examples (identity on the canonical tokens). -/
def idLib : Lib :=
  { uuid := some, pyInt := fun _ => none, pyFloat := fun _ => none, floatOfInt := fun _ => none,
    intOfFloat := fun _ => none, dateOfStr := some, timeOfStr := some, datetimeOfStr := some,
    timeNorm := some, datetimeNorm := some }

/-- A Property with every falsy-but-set attribute (uncertainty 0, dependency value False,
    unit "") and YAML-retypable strings as values. -/
def falsyProp : Prp :=
  { id := "i", name := .str "yes", values := [.str "null", .str "1e3", .str " x "],
    unit := .str "", definition := .null, dependency := .null, dependencyValue := .bool false,
    uncertainty := .int 0, reference := .null, dtype := some "string", valueOrigin := .float "0.0",
    valCard := some (some 2, some 2) }

def falsyDoc : Doc :=
  { id := "d", version := .int 0, author := .str "", date := .date "2020-01-02", repository := .null,
    secs := [.mk "s" (.str "null") (.str "t") .null .null .null .null .null none (some (none, some 3))
              [falsyProp] []] }

/-- The hypotheses of the round-trip theorem are satisfiable by a document full of falsy
    attribute values, which therefore survives JSON and YAML (fixed defect: they were dropped). -/
example : wfDoc idLib falsyDoc = true ∧ dictRepr falsyDoc = true := by
  decide

theorem falsy_attributes_kept (m : Mode) :
    readDict idLib m (Transport.json.apply (wrap (writeDoc falsyDoc))) = .ok (falsyDoc, []) ∧
    readDict idLib m (Transport.yaml.apply (wrap (writeDoc falsyDoc))) = .ok (falsyDoc, []) :=
  ⟨roundtrip_json idLib m falsyDoc (by decide) (by decide),
   roundtrip_yaml idLib m falsyDoc (by decide) (by decide)⟩

example : denote idLib (wrap (writeDoc falsyDoc)) = some falsyDoc :=
  write_denotes idLib Transport.direct falsyDoc direct_codec (by decide) (by decide)

/-- A Property holding two 2-tuples (items with spaces, quotes, brackets inside). -/
def tupleProp : Prp :=
  { id := "i", name := .str "p", values := [.arr [.str "a b", .str "(c"], .arr [.str "\"", .str "]"]],
    unit := .null, definition := .null, dependency := .null, dependencyValue := .null,
    uncertainty := .null, reference := .null, dtype := some "2-tuple", valueOrigin := .null,
    valCard := none }

/-- n-tuple values are inside the proved round trip (non-vacuity of `dictRepr` for tuples). -/
example (m : Mode) : parseProp idLib m (Transport.json.apply (writeProp tupleProp)) [] =
    .ok (some tupleProp, []) :=
  prop_roundtrip idLib _ m tupleProp [] json_codec (by decide) (by decide)

/-- An n-tuple Property whose item contains a comma. -/
def commaProp : Prp :=
  { id := "i", name := .str "p", values := [.arr [.str "a,b", .str "c"]],
    unit := .null, definition := .null, dependency := .null, dependencyValue := .null,
    uncertainty := .null, reference := .null, dtype := some "2-tuple", valueOrigin := .null,
    valCard := none }

/-- Never written in altered form: for every valid document whose optional attributes are
    None / bool / int / float / str, the writer either raises `ParserException` (`writeRefused`,
    nothing is written) or the saved text loads back to the very same document, without warnings,
    in both reader modes, through every transport satisfying the scalar contract. -/
theorem dict_roundtrip_or_refused (lib : Lib) (t : Transport) (m : Mode) (d : Doc)
    (sc : ScalarCodec t) (hwf : wfDoc lib d = true) (ha : atomsDoc d = true) :
    writeRefused d = true ∨ readDict lib m (t.apply (wrap (writeDoc d))) = .ok (d, []) := by
  cases hnr : writeRefused d with
  | true => exact Or.inl rfl
  | false =>
    exact Or.inr (dict_roundtrip_partial lib t m d sc hwf (dictRepr_of_not_refused lib d hwf ha hnr))

/-- The refusal is exact: on valid documents the writer refuses precisely those the bracketed
    tuple text cannot carry (a comma inside an n-tuple item). -/
theorem refused_iff_not_repr (lib : Lib) (d : Doc) (hwf : wfDoc lib d = true)
    (ha : atomsDoc d = true) : writeRefused d = false ↔ dictRepr d = true :=
  ⟨dictRepr_of_not_refused lib d hwf ha, not_refused_of_dictRepr d⟩

/-- `C02_statement` at full strength is false of the code as it is: a valid n-tuple Property
    whose item contains a comma is refused by the writer (ParserException, since fix 0846f56) -
    so such a document cannot be saved as JSON / YAML at all; the text the unfixed writer produced,
    `[(a,b;c)]`, is split at every comma by the values setter (strict reader: ParserException,
    lenient reader: the Property is dropped with a warning). Known finding C02-tuple-item-comma. -/
theorem tuple_comma_counterexample :
    wfProp idLib commaProp = true ∧ propWriteRefused commaProp = true ∧
    parseProp idLib .strict (writeProp commaProp) [] = .error .parser ∧
    parseProp idLib .lenient (writeProp commaProp) [] = .ok (none, [.propNotCreated]) := by
  refine ⟨by decide, by decide, by rfl, by rfl⟩

end C02
