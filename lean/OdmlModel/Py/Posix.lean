/-
Model of the `posixpath` functions that `odml.base.Sectionable._get_relative_path` uses
(CPython 3.12 `Lib/posixpath.py`): `commonprefix`, `dirname`, `normpath`, `relpath`
(for absolute arguments, which is all `_get_relative_path` ever passes when both paths start
with `/`), and `str.count('/')`, `"/".join`, `str * n`.
Strings are `List Char`. Validated differentially against the real `posixpath` by the
`posix` stream of `harness/c14.py` on every run.
-/
import OdmlModel.Py.Str

namespace Py.Posix

/-- `posixpath.commonprefix([a, b])`: **character-wise** longest common prefix
    (`s1 = min(m); s2 = max(m); for i, c in enumerate(s1): if c != s2[i]: return s1[:i]`). -/
def commonPrefix : List Char → List Char → List Char
  | a :: as, b :: bs => if a = b then a :: commonPrefix as bs else []
  | _, _ => []

/-- `commonprefix` on two lists of path components (as used inside `relpath`). -/
def commonPrefixSegs : List (List Char) → List (List Char) → List (List Char)
  | a :: as, b :: bs => if a = b then a :: commonPrefixSegs as bs else []
  | _, _ => []

/-- `s.rstrip('/')` -/
def rstripSlash (s : List Char) : List Char := (s.reverse.dropWhile (· = '/')).reverse

/-- `p[:p.rfind('/') + 1]` -/
def headThroughLastSlash (p : List Char) : List Char := (p.reverse.dropWhile (· ≠ '/')).reverse

/-- `posixpath.dirname(p)`:
    `i = p.rfind('/') + 1; head = p[:i]; if head and head != '/'*len(head): head = head.rstrip('/')` -/
def dirname (p : List Char) : List Char :=
  let head := headThroughLastSlash p
  if head ≠ [] ∧ ¬ head.all (· = '/') then rstripSlash head else head

/-- `"/".join(segs)` -/
def joinSlash : List (List Char) → List Char
  | [] => []
  | [s] => s
  | s :: rest => s ++ '/' :: joinSlash rest

/-- The component loop of `normpath`: `acc` is `new_comps`. -/
def normComps (initialSlashes : Bool) : List (List Char) → List (List Char) → List (List Char)
  | acc, [] => acc
  | acc, comp :: rest =>
    if comp = [] ∨ comp = ['.'] then normComps initialSlashes acc rest
    else if comp ≠ ['.', '.'] ∨ (!initialSlashes ∧ acc = []) ∨
            (acc ≠ [] ∧ acc.getLast? = some ['.', '.']) then
      normComps initialSlashes (acc ++ [comp]) rest
    else if acc ≠ [] then normComps initialSlashes acc.dropLast rest
    else normComps initialSlashes acc rest

/-- number of leading slashes kept by `normpath`: 0, 1, or 2 (exactly two are preserved). -/
def initialSlashes (p : List Char) : Nat :=
  match p with
  | '/' :: '/' :: '/' :: _ => 1
  | '/' :: '/' :: _ => 2
  | '/' :: _ => 1
  | _ => 0

/-- `posixpath.normpath(p)` -/
def normpath (p : List Char) : List Char :=
  if p = [] then ['.'] else
  let n := initialSlashes p
  let comps := normComps (n != 0) [] (Py.splitOn '/' p)
  let path := List.replicate n '/' ++ joinSlash comps
  if path = [] then ['.'] else path

/-- `[x for x in abspath(p).split('/') if x]` for an absolute `p` (`abspath = normpath`). -/
def absSegs (p : List Char) : List (List Char) := (Py.splitOn '/' (normpath p)).filter (· ≠ [])

/-- `posixpath.relpath(path, start)` for absolute `path` and `start`. -/
def relpath (path start : List Char) : List Char :=
  let startList := absSegs start
  let pathList := absSegs path
  let i := (commonPrefixSegs startList pathList).length
  let rel := List.replicate (startList.length - i) ['.', '.'] ++ pathList.drop i
  if rel = [] then ['.'] else joinSlash rel

/-- `s.count('/')` -/
def countSlash (s : List Char) : Nat := s.count '/'

/-- `"../" * n` -/
def dotdotSlash : Nat → List Char
  | 0 => []
  | n + 1 => '.' :: '.' :: '/' :: dotdotSlash n

end Py.Posix
