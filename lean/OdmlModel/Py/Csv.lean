/-
Model of Python's `csv.writer(stream, dialect="excel").writerow(row)` and
`list(csv.reader(StringIO(s), dialect="excel"))[0]` (CPython 3.12 `Modules/_csv.c`), for one
record, over `List Char`.  Excel dialect: delimiter `,`, quotechar `"`, doublequote, no
escapechar, no skipinitialspace, QUOTE_MINIMAL, lineterminator `\r\n`, not strict.

Validated differentially against the real `csv` module by the stream `csvlib` of
`harness/c01.py`.  Not modelled: the field size limit (131072 characters).
-/
namespace Py.Csv

/-! ### Writer -/

/-- Characters that make `join_append` quote a field: delimiter, quotechar, or a character of
    the line terminator. -/
def needsQuote (c : Char) : Bool := c == ',' || c == '"' || c == '\r' || c == '\n'

/-- Body of a quoted field: every quote character doubled. -/
def escapeBody : List Char → List Char
  | [] => []
  | c :: cs => if c == '"' then '"' :: '"' :: escapeBody cs else c :: escapeBody cs

/-- One field as `join_append` writes it (QUOTE_MINIMAL). -/
def renderField (f : List Char) : List Char :=
  if f.any needsQuote then '"' :: (escapeBody f ++ ['"']) else f

/-- Fields joined by the delimiter. -/
def joinFields : List (List Char) → List Char
  | [] => []
  | [f] => renderField f
  | f :: fs => renderField f ++ ',' :: joinFields fs

/-- The record text without the line terminator.  A record that would be empty although it
    has a field (one empty field) is written as `""`. -/
def rowBody (row : List (List Char)) : List Char :=
  if row == [[]] then ['"', '"'] else joinFields row

/-- `writer.writerow(row); stream.getvalue()` -/
def writeRow (row : List (List Char)) : List Char := rowBody row ++ ['\r', '\n']

/-! ### Reader -/

inductive PState where
  | startRecord | startField | inField | inQuoted | quoteInQuoted | eatCrnl
  deriving Repr, DecidableEq

/-- Parser state: automaton state, the field being collected, the fields saved so far. -/
structure RS where
  st : PState
  field : List Char
  fields : List (List Char)
  deriving Repr, DecidableEq

def RS.init : RS := ⟨.startRecord, [], []⟩

def RS.save (s : RS) (next : PState) : RS := ⟨next, [], s.fields ++ [s.field]⟩
def RS.add (s : RS) (c : Char) (next : PState) : RS := ⟨next, s.field ++ [c], s.fields⟩
def RS.goto (s : RS) (next : PState) : RS := { s with st := next }

def isNl (c : Char) : Bool := c == '\n' || c == '\r'

/-- `START_FIELD` case of `parse_process_char` for a real character. -/
def stepStartField (s : RS) (c : Char) : RS :=
  if isNl c then s.save .eatCrnl
  else if c == '"' then s.goto .inQuoted
  else if c == ',' then s.save .startField
  else s.add c .inField

/-- `parse_process_char` for a real character; `none` = `_csv.Error`. -/
def step (s : RS) (c : Char) : Option RS :=
  match s.st with
  | .startRecord =>
    if isNl c then some (s.goto .eatCrnl) else some (stepStartField s c)
  | .startField => some (stepStartField s c)
  | .inField =>
    if isNl c then some (s.save .eatCrnl)
    else if c == ',' then some (s.save .startField)
    else some (s.add c .inField)
  | .inQuoted =>
    if c == '"' then some (s.goto .quoteInQuoted) else some (s.add c .inQuoted)
  | .quoteInQuoted =>
    if c == '"' then some (s.add c .inQuoted)
    else if c == ',' then some (s.save .startField)
    else if isNl c then some (s.save .eatCrnl)
    else some (s.add c .inField)
  | .eatCrnl =>
    if isNl c then some s else none

/-- `parse_process_char(self, EOL)` (never fails). -/
def eol (s : RS) : RS :=
  match s.st with
  | .startRecord => s
  | .startField => s.save .startRecord
  | .inField => s.save .startRecord
  | .inQuoted => s
  | .quoteInQuoted => s.save .startRecord
  | .eatCrnl => s.goto .startRecord

inductive Err where
  | csvError        -- `_csv.Error`
  | noRecord        -- `list(reader)` is empty: `[0]` raises `IndexError`
  deriving Repr, DecidableEq

/-- `list(csv.reader(...))[0]`: `Reader_iternext` repeated until the input is exhausted; the
    answer is the first record, but an error in *any* later record surfaces as well.
    The input is fed line by line (`StringIO` iteration: a line ends after each `\n`); `mid`
    says that the current line has characters.  After each line an EOL is processed and a
    record is complete when the automaton is back in `startRecord` (then the parser is reset).
    At the end of the input an unfinished quoted field is saved.  `done` is the first record
    once it is complete. -/
def run (s : RS) (mid : Bool) (done : Option (List (List Char))) :
    List Char → Except Err (List (List Char))
  | [] =>
    if mid then
      let s' := eol s
      if s'.st == .startRecord then .ok (done.getD s'.fields)
      else .ok (done.getD (s'.fields ++ [s'.field]))
    else if s.st == .inQuoted || !s.field.isEmpty then .ok (done.getD (s.fields ++ [s.field]))
    else match done with
      | some r => .ok r
      | none => .error .noRecord
  | c :: cs =>
    match step s c with
    | none => .error .csvError
    | some s1 =>
      if c == '\n' then
        let s2 := eol s1
        if s2.st == .startRecord then run RS.init false (some (done.getD s2.fields)) cs
        else run s2 false done cs
      else run s1 true done cs

/-- `list(csv.reader(StringIO(text), dialect="excel"))[0]` -/
def readFirst (text : List Char) : Except Err (List (List Char)) := run RS.init false none text

end Py.Csv
