/-
Model of `str(uuid.UUID(s))` as the odML constructors and `new_id` use it
(CPython `Lib/uuid.py`, `UUID.__init__` with a hex string, and `UUID.__str__`):

    hex = hex.replace('urn:', '').replace('uuid:', '')
    hex = hex.strip('{}').replace('-', '')
    if len(hex) != 32: raise ValueError
    int = int_(hex, 16)                    # Python's lenient int(): sign, 0x, '_', white space
    if not 0 <= int < 1 << 128: raise ValueError
    str: '%032x' % int, hyphenated 8-4-4-4-12

Restricted to ASCII (Python's `int` also accepts other Unicode decimal digits; those are kept
out of the modelled stream). Validated differentially against CPython by `harness/c04.py`.
-/
import OdmlModel.Py.Str

namespace Py.Uuid

/-- `s.replace(pat, "")`: leftmost non-overlapping occurrences removed. -/
def removeAll (pat : List Char) (s : List Char) : List Char :=
  if pat.isEmpty then s else go s.length s
where
  go : Nat → List Char → List Char
    | 0, s => s
    | _, [] => []
    | fuel + 1, c :: cs =>
      if pat.isPrefixOf (c :: cs) then go fuel ((c :: cs).drop pat.length)
      else c :: go fuel cs

/-- `s.strip('{}')` -/
def stripBraces (s : List Char) : List Char :=
  let f := fun (l : List Char) => l.dropWhile (fun c => c == '{' || c == '}')
  (f (f s).reverse).reverse

def hexVal (c : Char) : Option Nat :=
  if '0' ≤ c ∧ c ≤ '9' then some (c.toNat - 48)
  else if 'a' ≤ c ∧ c ≤ 'f' then some (c.toNat - 87)
  else if 'A' ≤ c ∧ c ≤ 'F' then some (c.toNat - 55)
  else none

/-- digits of `int(_, 16)` after sign and prefix: hex digits with single underscores between
    digits (an underscore is also allowed right after the `0x` prefix). -/
def hexDigits : Bool → List Char → Nat → Option Nat
  -- `prevDigit`: the previous character was a digit (or the prefix, for the first call)
  | prev, [], acc => if prev then some acc else none
  | prev, c :: cs, acc =>
    if c == '_' then (if prev && !cs.isEmpty then hexDigitsAfterUnderscore cs acc else none)
    else match hexVal c with
      | some d => hexDigits true cs (16 * acc + d)
      | none => none
where
  hexDigitsAfterUnderscore : List Char → Nat → Option Nat
    | [], _ => none
    | c :: cs, acc =>
      match hexVal c with
      | some d => hexDigits true cs (16 * acc + d)
      | none => none

/-- C `isspace` in the C locale (TAB..CR and the space). -/
def isCSpace (c : Char) : Bool :=
  let n := c.toNat
  (9 ≤ n && n ≤ 13) || n == 32

/-- The white space `int()` skips around a `str`. An ASCII-only string is handed to the C parser
    as it is, which skips C `isspace` only - not the separators U+001C..U+001F that `str.strip()`
    removes (`int("1\x1c", 16)` raises ValueError). A string with a non-ASCII character is first
    rewritten with every `str.isspace()` character replaced by a blank, so there the whole Python
    white space set is skipped. -/
def intStrip (s : List Char) : List Char :=
  if s.all (fun c => c.toNat < 128) then
    ((s.dropWhile isCSpace).reverse.dropWhile isCSpace).reverse
  else Py.strip s

/-- Python `int(s, 16)`: `none` = ValueError. Returns sign and magnitude. -/
def pyIntHex (s : List Char) : Option (Bool × Nat) :=
  let t := intStrip s
  let (neg, t1) := match t with
    | '-' :: r => (true, r)
    | '+' :: r => (false, r)
    | r => (false, r)
  -- optional 0x / 0X prefix; after it a single underscore may follow
  let body : Option (List Char × Bool) := match t1 with
    | '0' :: 'x' :: r => some (r, true)
    | '0' :: 'X' :: r => some (r, true)
    | r => some (r, false)
  match body with
  | none => none
  | some (digits, prefixed) =>
    match digits with
    | [] => none
    | '_' :: r => if prefixed then (match r with
        | [] => none
        | _ => (hexDigits false r 0).map (fun n => (neg, n))) else none
    | _ => (hexDigits false digits 0).map (fun n => (neg, n))

/-- `uuid.UUID(s).int`: `none` = ValueError. -/
def parse (s : List Char) : Option Nat :=
  let h1 := removeAll "uuid:".toList (removeAll "urn:".toList s)
  let h2 := (stripBraces h1).filter (· != '-')
  if h2.length != 32 then none
  else match pyIntHex h2 with
    | none => none
    | some (neg, n) =>
      if neg && n != 0 then none
      else if n < 2 ^ 128 then some n else none

def hexChar (d : Nat) : Char :=
  if d < 10 then Char.ofNat (48 + d) else Char.ofNat (87 + d)

/-- `'%0{w}x' % n` for `n < 16^w`: exactly `w` lower-case hex digits (higher digits dropped). -/
def hexPad : Nat → Nat → List Char
  | 0, _ => []
  | w + 1, n => hexPad w (n / 16) ++ [hexChar (n % 16)]

/-- hyphenation 8-4-4-4-12 of the 32 hex digits -/
def hyphenate (h : List Char) : List Char :=
  h.take 8 ++ ['-'] ++ (h.drop 8).take 4 ++ ['-'] ++ (h.drop 12).take 4 ++ ['-'] ++
    (h.drop 16).take 4 ++ ['-'] ++ h.drop 20

/-- `str(uuid.UUID(int=n))` -/
def render (n : Nat) : List Char := hyphenate (hexPad 32 n)

/-- The id a constructor ends up with: the normalised `oid` if it is a valid UUID text, else a
    fresh one (`fresh` stands for the bits of `uuid.uuid4()`). -/
def ctorId (oid : Option (List Char)) (fresh : Nat) : List Char :=
  match oid with
  | none => render fresh
  | some s => match parse s with
    | some n => render n
    | none => render fresh

/-- `obj.new_id(oid)`: `none` = ValueError (id unchanged). -/
def newId (oid : Option (List Char)) (fresh : Nat) : Option (List Char) :=
  match oid with
  | none => some (render fresh)
  | some s => (parse s).map render

def isLowerHex (c : Char) : Bool := ('0' ≤ c && c ≤ '9') || ('a' ≤ c && c ≤ 'f')

/-- Canonical form: five groups of 8-4-4-4-12 lower-case hex digits joined by hyphens. -/
def Canonical (s : List Char) : Prop :=
  ∃ a b c d e : List Char,
    s = a ++ ['-'] ++ b ++ ['-'] ++ c ++ ['-'] ++ d ++ ['-'] ++ e ∧
    a.length = 8 ∧ b.length = 4 ∧ c.length = 4 ∧ d.length = 4 ∧ e.length = 12 ∧
    (a ++ b ++ c ++ d ++ e).all isLowerHex = true

end Py.Uuid
