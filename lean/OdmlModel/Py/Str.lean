/-
Models of the pieces of Python's `str` API that the modelled odML code uses.
Strings are `List Char` (Python strings are sequences of code points; so are Lean `Char`s).
Each definition is validated differentially against CPython by `harness/corr_py.py`.
-/
namespace Py

/-- `str.isspace()` for a single code point: the set `str.strip()`/`str.split()` use. -/
def isSpace (c : Char) : Bool :=
  let n := c.toNat
  (9 ≤ n && n ≤ 13) || (28 ≤ n && n ≤ 32) || n == 0x85 || n == 0xA0 || n == 0x1680 ||
  (0x2000 ≤ n && n ≤ 0x200A) || n == 0x2028 || n == 0x2029 || n == 0x202F || n == 0x205F ||
  n == 0x3000

/-- `s.lstrip()` -/
def lstrip : List Char → List Char
  | [] => []
  | c :: cs => if isSpace c then lstrip cs else c :: cs

/-- `s.rstrip()` -/
def rstrip (s : List Char) : List Char := (lstrip s.reverse).reverse

/-- `s.strip()` -/
def strip (s : List Char) : List Char := rstrip (lstrip s)

/-- `s.strip(ch)` for a one-character argument. -/
def lstripChar (ch : Char) : List Char → List Char
  | [] => []
  | c :: cs => if c == ch then lstripChar ch cs else c :: cs
def stripChar (ch : Char) (s : List Char) : List Char :=
  (lstripChar ch (lstripChar ch s).reverse).reverse

/-- `s.split(sep)` for a one-character separator: always at least one field. -/
def splitOn (sep : Char) : List Char → List (List Char)
  | [] => [[]]
  | c :: cs =>
    if c == sep then [] :: splitOn sep cs
    else match splitOn sep cs with
      | [] => [[c]]            -- unreachable; keeps the function total
      | f :: fs => (c :: f) :: fs

/-- `s[1:-1]` -/
def slice1m1 (s : List Char) : List Char := (s.drop 1).dropLast

/-- ASCII restriction of `str.isdigit()`: non-empty and all in `0`..`9`.
    (CPython also accepts other Unicode digits; those are kept out of the modelled stream.) -/
def isDigitStr (s : List Char) : Bool := !s.isEmpty && s.all Char.isDigit

/-- `int(s)` for a string of ASCII digits. -/
def natOfDigits (s : List Char) : Nat := s.foldl (fun acc c => 10 * acc + (c.toNat - 48)) 0

/-- `str(n)` for a natural number. -/
def natToDigits (n : Nat) : List Char := Nat.toDigits 10 n

/-- `str(i)` for an integer. -/
def intToStr (i : Int) : List Char :=
  match i with
  | .ofNat n => natToDigits n
  | .negSucc n => '-' :: natToDigits (n + 1)

/-- ASCII restriction of `str.lower()`. -/
def lower (s : List Char) : List Char := s.map Char.toLower

end Py
