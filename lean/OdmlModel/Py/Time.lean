/-
Models of `datetime.date/time/datetime`, their `isoformat`/`str`/`repr`, `strftime` and
`strptime` for the three odML formats
   FORMAT_DATE "%Y-%m-%d",  FORMAT_TIME "%H:%M:%S",  FORMAT_DATETIME "%Y-%m-%d %H:%M:%S".

`strptime` compiles the format into a regular expression and demands that the match covers the
whole string.  For these formats (fields separated by literal `-`/`:`/whitespace, last field
at the end of the string) the regex alternations
   %Y \d\d\d\d          %m 1[0-2]|0[1-9]|[1-9]     %d 3[01]|[12]\d|0[1-9]|[1-9]| [1-9]
   %H 2[0-3]|[0-1]\d|\d %M [0-5]\d|\d               %S 6[0-1]|[0-5]\d|\d
are equivalent to "the field text is one of the listed words" which is what is modelled.
Only ASCII digits are modelled (CPython also accepts other Unicode digits).
No time zones (tzinfo) are modelled.
-/
import OdmlModel.Py.Str

namespace Py

structure Date where
  y : Nat
  m : Nat
  d : Nat
  deriving DecidableEq, Repr, Inhabited

structure Time where
  h : Nat
  mi : Nat
  s : Nat
  us : Nat
  deriving DecidableEq, Repr, Inhabited

structure DateTime where
  date : Date
  time : Time
  deriving DecidableEq, Repr, Inhabited

def isLeap (y : Nat) : Bool := y % 4 == 0 && (y % 100 != 0 || y % 400 == 0)

def daysInMonth (y m : Nat) : Nat :=
  if m == 2 then (if isLeap y then 29 else 28)
  else if m == 4 || m == 6 || m == 9 || m == 11 then 30
  else 31

/-- what the `date(y, m, d)` constructor accepts -/
def Date.valid (x : Date) : Bool :=
  1 ≤ x.y && x.y ≤ 9999 && 1 ≤ x.m && x.m ≤ 12 && 1 ≤ x.d && x.d ≤ daysInMonth x.y x.m

def Time.valid (t : Time) : Bool := t.h < 24 && t.mi < 60 && t.s < 60 && t.us < 1000000

def DateTime.valid (x : DateTime) : Bool := x.date.valid && x.time.valid

/-! ### formatting -/

def digitChar (k : Nat) : Char := Char.ofNat (48 + k % 10)

/-- `"%02d"` for n < 100 -/
def pad2 (n : Nat) : List Char := [digitChar (n / 10), digitChar n]

/-- `"%04d"` for n < 10000 -/
def pad4 (n : Nat) : List Char :=
  [digitChar (n / 1000), digitChar (n / 100), digitChar (n / 10), digitChar n]

/-- `"%06d"` for n < 1000000 -/
def pad6 (n : Nat) : List Char :=
  [digitChar (n / 100000), digitChar (n / 10000), digitChar (n / 1000), digitChar (n / 100),
   digitChar (n / 10), digitChar n]

/-- `date.isoformat()` = `str(date)` -/
def Date.iso (x : Date) : List Char := pad4 x.y ++ ['-'] ++ pad2 x.m ++ ['-'] ++ pad2 x.d

/-- `time.strftime("%H:%M:%S")` -/
def Time.hms (t : Time) : List Char := pad2 t.h ++ [':'] ++ pad2 t.mi ++ [':'] ++ pad2 t.s

/-- `time.isoformat()` = `str(time)` -/
def Time.iso (t : Time) : List Char := t.hms ++ (if t.us == 0 then [] else '.' :: pad6 t.us)

/-- `str(datetime)` = `isoformat(sep=" ")` -/
def DateTime.str (x : DateTime) : List Char := x.date.iso ++ [' '] ++ x.time.iso

/-- `datetime.isoformat()` (what `date_get` sees for a `datetime`, which is a `date`) -/
def DateTime.iso (x : DateTime) : List Char := x.date.iso ++ ['T'] ++ x.time.iso

/-- `datetime.strftime("%Y-%m-%d %H:%M:%S")` with glibc: `%Y` is **not** zero padded. -/
def DateTime.strftime (x : DateTime) : List Char :=
  natToDigits x.date.y ++ ['-'] ++ pad2 x.date.m ++ ['-'] ++ pad2 x.date.d ++ [' '] ++ x.time.hms

/-! ### parsing -/

def dval (c : Char) : Nat := c.toNat - 48

/-- one or two digit field; `lo ≤ value ≤ hi`; a single `0` is allowed iff `lo = 0`;
    two-digit texts may have a leading zero. -/
def field12 (lo hi : Nat) (s : List Char) : Option Nat :=
  match s with
  | [a] => if a.isDigit && lo ≤ dval a && dval a ≤ hi then some (dval a) else none
  | [a, b] =>
    if a.isDigit && b.isDigit then
      let v := 10 * dval a + dval b
      if lo ≤ v && v ≤ hi then some v else none
    else none
  | _ => none

/-- `%d` also accepts a space followed by one non-zero digit -/
def fieldDay (s : List Char) : Option Nat :=
  match s with
  | [' ', b] => if b.isDigit && 1 ≤ dval b then some (dval b) else none
  | _ => field12 1 31 s

def fieldYear (s : List Char) : Option Nat :=
  match s with
  | [a, b, c, d] =>
    if a.isDigit && b.isDigit && c.isDigit && d.isDigit then
      some (1000 * dval a + 100 * dval b + 10 * dval c + dval d)
    else none
  | _ => none

def mkDate (y m d : Nat) : Option Date :=
  let x : Date := ⟨y, m, d⟩
  if x.valid then some x else none

/-- `strptime(s, "%Y-%m-%d").date()` -/
def parseDate (s : List Char) : Option Date :=
  match splitOn '-' s with
  | [ys, ms, ds] =>
    match fieldYear ys, field12 1 12 ms, fieldDay ds with
    | some y, some m, some d => mkDate y m d
    | _, _, _ => none
  | _ => none

/-- `strptime(s, "%H:%M:%S").time()`; seconds 60/61 pass the regex and are refused by the
    constructor, which is the same as refusing them here. -/
def parseTime (s : List Char) : Option Time :=
  match splitOn ':' s with
  | [hs, ms, ss] =>
    match field12 0 23 hs, field12 0 59 ms, field12 0 59 ss with
    | some h, some m, some sec => some ⟨h, m, sec, 0⟩
    | _, _, _ => none
  | _ => none

/-- the `%d` alternative ` [1-9]`: one leading space belongs to the day field -/
def dayLead (rest : List Char) : List Char × List Char :=
  match rest with
  | ' ' :: q => ([' '], q)
  | q => ([], q)

/-- `strptime(s, "%Y-%m-%d %H:%M:%S")`: date part, one or more whitespace characters, time part.
    The day field ends at the first whitespace character that is not its own leading space. -/
def parseDateTime (s : List Char) : Option DateTime :=
  match splitOn '-' s with
  | [ys, ms, rest] =>
    -- rest = day field, whitespace+, time
    let lr := dayLead rest
    let dtxt := lr.1 ++ lr.2.takeWhile (fun c => !isSpace c)
    let after := lr.2.dropWhile (fun c => !isSpace c)
    match after with
    | [] => none
    | _ :: _ =>
      let ttxt := lstrip after
      match fieldYear ys, field12 1 12 ms, fieldDay dtxt, parseTime ttxt with
      | some y, some m, some d, some t =>
        match mkDate y m d with
        | some dd => some ⟨dd, t⟩
        | none => none
      | _, _, _, _ => none
  | _ => none

end Py
