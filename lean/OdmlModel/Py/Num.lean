/-
Models of `int(str)`, `float(str)`, `repr(float)`, `int(float)`, `float(int)` as far as
odml/dtypes.py uses them.

Floats are modelled as *decimal* numbers `± mant · 10^exp` (plus `inf`, `nan`).  This is exact
for the modelled stream: decimal texts / floats with at most 15 significant digits and a
magnitude inside the double range (for these `float(text)` → shortest `repr` is the identity on
the normalised decimal, truncation to `int` and `==` agree with the decimal value).  Other
floats are kept out of the compared stream by the harness (implementation-only oracle stream).
Only ASCII digits are modelled (`int("١٢")` is kept out of the stream).
-/
import OdmlModel.Py.Str

namespace Py

/-- A decimal number `(-1)^neg · mant · 10^exp`. -/
structure Dec where
  neg : Bool
  mant : Nat
  exp : Int
  deriving DecidableEq, Repr, Inhabited

/-- The model of a Python `float`. -/
inductive Flt where
  | fin (d : Dec)
  | inf (neg : Bool)
  | nan
  deriving DecidableEq, Repr, Inhabited

/-- Strip trailing decimal zeros of the mantissa (fuel = number of digits is enough). -/
def Dec.normGo : Nat → Nat → Int → Nat × Int
  | 0, m, e => (m, e)
  | fuel + 1, m, e => if m != 0 && m % 10 == 0 then Dec.normGo fuel (m / 10) (e + 1) else (m, e)

def Dec.norm (d : Dec) : Dec :=
  if d.mant == 0 then { neg := d.neg, mant := 0, exp := 0 }
  else
    let r := Dec.normGo (natToDigits d.mant).length d.mant d.exp
    { neg := d.neg, mant := r.1, exp := r.2 }

def Dec.isZero (d : Dec) : Bool := d.mant == 0

/-- `float(i)` for an int. -/
def Flt.ofInt (i : Int) : Flt :=
  .fin (Dec.norm { neg := decide (i < 0), mant := i.natAbs, exp := 0 })

/-- The integer a finite decimal truncates to (`int(x)` rounds towards zero). -/
def Dec.trunc (d : Dec) : Int :=
  let a : Nat := if d.exp ≥ 0 then d.mant * 10 ^ d.exp.toNat else d.mant / 10 ^ (-d.exp).toNat
  if d.neg then -(a : Int) else (a : Int)

/-- Is the decimal equal to the integer `i` (Python `x == i`)? -/
def Dec.eqInt (d : Dec) (i : Int) : Bool :=
  let n := d.norm
  if n.mant == 0 then i == 0
  else n.exp ≥ 0 && (if n.neg then -((n.mant * 10 ^ n.exp.toNat : Nat) : Int) else ((n.mant * 10 ^ n.exp.toNat : Nat) : Int)) == i

/-- Python `==` on two floats (`nan != nan`, `0.0 == -0.0`). -/
def Flt.eq : Flt → Flt → Bool
  | .fin a, .fin b =>
    let x := a.norm; let y := b.norm
    if x.mant == 0 then y.mant == 0 else x == y
  | .inf a, .inf b => a == b
  | _, _ => false

def Flt.eqInt : Flt → Int → Bool
  | .fin d, i => d.eqInt i
  | _, _ => false

/-- outcome of `int(float)` -/
inductive TruncRes where
  | ok (i : Int)
  | overflow       -- int(inf)
  | value          -- int(nan)
  deriving DecidableEq, Repr

def Flt.toInt : Flt → TruncRes
  | .fin d => .ok d.trunc
  | .inf _ => .overflow
  | .nan => .value

/-! ### digit groups -/

/-- `digits ( "_" digits )*` → the digits without the underscores. -/
def digitGroup : (prevDigit : Bool) → List Char → Option (List Char)
  | pd, [] => if pd then some [] else none
  | pd, c :: cs =>
    if c.isDigit then (digitGroup true cs).map (c :: ·)
    else if c == '_' && pd then digitGroup false cs
    else none

/-- an optional sign: (negative?, rest) -/
def signSplit (t : List Char) : Bool × List Char :=
  match t with
  | '-' :: r => (true, r)
  | '+' :: r => (false, r)
  | r => (false, r)

/-- `int(s)` for a `str` argument, base 10. -/
def parseInt (s : List Char) : Option Int :=
  let sb := signSplit (strip s)
  match digitGroup false sb.2 with
  | some ds => let n : Int := (natOfDigits ds : Nat); some (if sb.1 then -n else n)
  | none => none

/-- split at the first character satisfying `p` (that character is the head of the rest) -/
def spanUntil (p : Char → Bool) : List Char → List Char × List Char
  | [] => ([], [])
  | c :: cs => if p c then ([], c :: cs) else let r := spanUntil p cs; (c :: r.1, r.2)

/-- an optional digit group (empty allowed) -/
def optGroup (s : List Char) : Option (List Char) :=
  if s.isEmpty then some [] else digitGroup false s

/-- `float(s)` for a `str` argument. -/
def parseFloat (s : List Char) : Option Flt :=
  let sb := signSplit (strip s)
  let neg := sb.1
  let body := sb.2
  let low := lower body
  if low == "inf".toList || low == "infinity".toList then some (.inf neg)
  else if low == "nan".toList then some .nan
  else
    let (numPart, expPart) := spanUntil (fun c => c == 'e' || c == 'E') body
    let (ip, fp0) := spanUntil (fun c => c == '.') numPart
    let fp := fp0.drop 1
    -- "1." and ".5" are fine, "." and "" are not
    if ip.isEmpty && fp.isEmpty then none
    else
      match optGroup ip, optGroup fp with
      | some i, some f =>
        let e? : Option Int :=
          match expPart with
          | [] => some 0
          | _ :: r =>
            let es := signSplit r
            match digitGroup false es.2 with
            | some ds => let n : Int := (natOfDigits ds : Nat); some (if es.1 then -n else n)
            | none => none
        match e? with
        | some e =>
          some (.fin (Dec.norm { neg := neg, mant := natOfDigits (i ++ f), exp := e - (f.length : Int) }))
        | none => none
      | _, _ => none

/-! ### repr -/

def zeros (n : Nat) : List Char := List.replicate n '0'

/-- `repr(x)` / `str(x)` of a float (CPython `float_repr_style = 'short'`). -/
def Flt.repr : Flt → List Char
  | .nan => "nan".toList
  | .inf neg => (if neg then ['-'] else []) ++ "inf".toList
  | .fin d0 =>
    let d := d0.norm
    let sign : List Char := if d.neg then ['-'] else []
    if d.mant == 0 then sign ++ "0.0".toList
    else
      let ds := natToDigits d.mant
      let n : Int := ds.length
      let decpt : Int := n + d.exp
      if decpt > 16 || decpt < -3 then
        -- exponent form d[.ddd]e±XX
        let e := decpt - 1
        let es := natToDigits e.natAbs
        let es := if es.length < 2 then '0' :: es else es
        let m := match ds with
          | [] => []
          | c :: [] => [c]
          | c :: r => c :: '.' :: r
        sign ++ m ++ ['e'] ++ (if e < 0 then ['-'] else ['+']) ++ es
      else if decpt ≤ 0 then
        sign ++ "0.".toList ++ zeros (-decpt).toNat ++ ds
      else if decpt ≥ n then
        sign ++ ds ++ zeros (decpt - n).toNat ++ ".0".toList
      else
        sign ++ ds.take decpt.toNat ++ ['.'] ++ ds.drop decpt.toNat

end Py
