/-
Helper lemmas for C10 (round 6): the writer with sub-classing switched off.

  * `saveSection_off` / `exportRdf_off`: with `rdf_subclassing = False` the exported triples do
    not depend on the sub-class map the writer holds (default map, custom map, both merged);
  * `flat_no_subclass`: with the switch off no triple of the (flat) graph has the predicate
    `rdfs:subClassOf` or the object `rdfs:Class`.
-/
import OdmlModel.Model.Rdf
import OdmlModel.Proofs.Rdf

set_option linter.unusedSimpArgs false
set_option linter.unusedVariables false

namespace Rdf
open List

/-! ## 1. The map is not looked at when the switch is off -/

theorem flatMap_congr' {α β} {f g : α → List β} {l : List α} (h : ∀ a ∈ l, f a = g a) :
    l.flatMap f = l.flatMap g := by
  induction l with
  | nil => rfl
  | cons a l ih =>
    simp only [flatMap_cons]
    rw [h a (by simp), ih (fun b hb => h b (by simp [hb]))]

theorem sectionTypeTriples_off (m m' : List (Str × Str)) (n : Term) (a : Attrs) :
    sectionTypeTriples ⟨false, m⟩ n a = sectionTypeTriples ⟨false, m'⟩ n a := by
  simp [sectionTypeTriples]

mutual
theorem saveSection_off (m m' : List (Str × Str)) :
    ∀ s : SecT, saveSection ⟨false, m⟩ s = saveSection ⟨false, m'⟩ s
  | .mk id a ps ss => by
    have ih : ∀ n p, saveSecList ⟨false, m⟩ n p ss = saveSecList ⟨false, m'⟩ n p ss :=
      fun n p => saveSecList_off m m' n p ss
    have e : ∀ kp, secStep ⟨false, m⟩ (node id) a ps ss kp = secStep ⟨false, m'⟩ (node id) a ps ss kp := by
      intro kp
      unfold secStep
      rw [ih]
    rw [saveSection_eq, saveSection_eq, sectionTypeTriples_off m m']
    rw [flatMap_congr' (fun kp _ => e kp)]
theorem saveSecList_off (m m' : List (Str × Str)) (n p : Term) :
    ∀ ss : List SecT, saveSecList ⟨false, m⟩ n p ss = saveSecList ⟨false, m'⟩ n p ss
  | [] => by simp [saveSecList]
  | s :: r => by
    simp only [saveSecList]
    rw [saveSection_off m m' s, saveSecList_off m m' n p r]
end

theorem saveDocument_off (m m' : List (Str × Str)) (d : DocT) :
    saveDocument ⟨false, m⟩ d = saveDocument ⟨false, m'⟩ d := by
  have e : ∀ kp, docStep ⟨false, m⟩ d kp = docStep ⟨false, m'⟩ d kp := by
    intro kp
    unfold docStep
    rw [saveSecList_off m m']
  rw [saveDocument_eq, saveDocument_eq, flatMap_congr' (fun kp _ => e kp)]

/-- With the switch off the export is the same for every sub-class map. -/
theorem exportRdf_off (m m' : List (Str × Str)) (ds : List DocT) :
    exportRdf ⟨false, m⟩ ds = exportRdf ⟨false, m'⟩ ds := by
  unfold exportRdf
  exact flatMap_congr' (fun d _ => saveDocument_off m m' d)

/-! ## 2. No sub-class declaration in the graph when the switch is off -/

/-- A triple that declares no sub-class: its predicate is not `rdfs:subClassOf`. -/
def NoDecl (t : Triple) : Prop := t.p ≠ rdfsSubClassOf

theorem li_ne_subClassOf (k : Nat) : li k ≠ rdfsSubClassOf := by
  intro e
  have h := liIndex_li k
  rw [e, liIndex_subClassOf] at h
  cases h

theorem rdfType_ne_subClassOf : rdfType ≠ rdfsSubClassOf := by decide
theorem hasTerminology_ne_subClassOf : hasTerminology ≠ rdfsSubClassOf := by decide
theorem hasDocument_ne_subClassOf : hasDocument ≠ rdfsSubClassOf := by decide
theorem hasFileName_ne_subClassOf : hasFileName ≠ rdfsSubClassOf := by decide

theorem noDecl_seqItems {seq : Term} {t : Triple} : ∀ {k : Nat} {vs : List Lit},
    t ∈ seqItems seq k vs → NoDecl t
  | _, [], h => by simp [seqItems] at h
  | k, v :: vs, h => by
    simp only [seqItems, mem_cons] at h
    rcases h with rfl | h
    · exact li_ne_subClassOf k
    · exact noDecl_seqItems h

theorem noDecl_saveRepositoryNode {n pred : Term} {url : Str} {t : Triple} (hp : pred ≠ rdfsSubClassOf)
    (h : t ∈ saveRepositoryNode n pred url) : NoDecl t := by
  simp only [saveRepositoryNode, mem_cons, mem_nil_iff, or_false] at h
  rcases h with rfl | rfl | rfl
  · exact rdfType_ne_subClassOf
  · exact hasTerminology_ne_subClassOf
  · exact hp

theorem noDecl_saveSecAttr {n : Term} {a : Attrs} {kp : String × String} {t : Triple}
    (hp : Term.iri kp.2.toList ≠ rdfsSubClassOf) (h : t ∈ saveSecAttr n a kp) : NoDecl t := by
  unfold saveSecAttr at h
  split at h
  · simp at h
  · split at h
    · simp at h
    · split at h
      · exact noDecl_saveRepositoryNode hp h
      · simp only [mem_cons, mem_nil_iff, or_false] at h; subst h; exact hp

theorem noDecl_saveDocAttr {n : Term} {a : Attrs} {kp : String × String} {t : Triple}
    (hp : Term.iri kp.2.toList ≠ rdfsSubClassOf) (h : t ∈ saveDocAttr n a kp) : NoDecl t := by
  unfold saveDocAttr at h
  split at h
  · simp at h
  · split at h
    · simp at h
    · split at h
      · exact noDecl_saveRepositoryNode hp h
      · split at h <;>
          (simp only [mem_cons, mem_nil_iff, or_false] at h; subst h; exact hp)

theorem noDecl_ownSecStep {n : Term} {a : Attrs} {ps : List PropT} {ss : List SecT}
    {kp : String × String} {t : Triple} (hp : Term.iri kp.2.toList ≠ rdfsSubClassOf)
    (h : t ∈ ownSecStep n a ps ss kp) : NoDecl t := by
  unfold ownSecStep at h
  split at h
  · simp at h
  · split at h
    · simp only [mem_map, secLink] at h; obtain ⟨c, _, rfl⟩ := h; exact hp
    · split at h
      · simp only [mem_map, propLink] at h; obtain ⟨c, _, rfl⟩ := h; exact hp
      · exact noDecl_saveSecAttr hp h

theorem noDecl_ownDocStep {d : DocT} {kp : String × String} {t : Triple}
    (hp : Term.iri kp.2.toList ≠ rdfsSubClassOf) (h : t ∈ ownDocStep d kp) : NoDecl t := by
  unfold ownDocStep at h
  split at h
  · simp at h
  · split at h
    · simp only [mem_map, secLink] at h; obtain ⟨c, _, rfl⟩ := h; exact hp
    · exact noDecl_saveDocAttr hp h

theorem noDecl_savePropertyKey {p : PropT} {kp : String × String} {t : Triple}
    (hp : Term.iri kp.2.toList ≠ rdfsSubClassOf) (h : t ∈ savePropertyKey p kp) : NoDecl t := by
  unfold savePropertyKey at h
  simp only at h
  split at h
  · split at h
    · simp at h
    · simp only [saveValues, mem_cons] at h
      rcases h with rfl | rfl | h
      · exact rdfType_ne_subClassOf
      · exact hp
      · exact noDecl_seqItems h
  · split at h
    · simp at h
    · split at h
      · simp at h
      · split at h
        · simp only [mem_cons, mem_nil_iff, or_false] at h; subst h; exact hp
        · simp at h

theorem noDecl_saveProperty (ok : TableOK Gen.Format.propertyRdfMap) (p : PropT) {t : Triple}
    (h : t ∈ saveProperty p) : NoDecl t := by
  unfold saveProperty at h
  simp only [mem_cons, mem_flatMap] at h
  rcases h with rfl | ⟨kp, hkp, h⟩
  · exact rdfType_ne_subClassOf
  · exact noDecl_savePropertyKey (ok.notMeta kp hkp).2.1 h

theorem noDecl_ownDoc (ok : TableOK Gen.Format.documentRdfMap) (d : DocT) {t : Triple}
    (h : t ∈ ownDoc d) : NoDecl t := by
  unfold ownDoc docHead at h
  simp only [mem_append, mem_cons, mem_nil_iff, or_false, mem_flatMap] at h
  rcases h with (rfl | rfl | rfl) | ⟨kp, hkp, h⟩
  · exact rdfType_ne_subClassOf
  · exact hasDocument_ne_subClassOf
  · exact hasFileName_ne_subClassOf
  · exact noDecl_ownDocStep (ok.notMeta kp hkp).2.1 h

/-- The own triples of a Section when the switch is off: its type is `odml:Section`. -/
theorem noDecl_ownSec_off (ok : TableOK Gen.Format.sectionRdfMap) (m : List (Str × Str)) (s : SecT)
    {t : Triple} (h : t ∈ ownSec ⟨false, m⟩ s) : NoDecl t := by
  obtain ⟨id, a, ps, ss⟩ := s
  unfold ownSec sectionTypeTriples at h
  simp only [Bool.false_eq_true, if_false, mem_append, mem_cons, mem_nil_iff, or_false,
    mem_flatMap] at h
  rcases h with rfl | ⟨kp, hkp, h⟩
  · exact rdfType_ne_subClassOf
  · exact noDecl_ownSecStep (ok.notMeta kp hkp).2.1 h

/-- With the switch off no triple of the exported graph declares a sub-class. -/
theorem export_off_noDecl (ok : TablesOK) (m : List (Str × Str)) (ds : List DocT) {t : Triple}
    (h : t ∈ exportRdf ⟨false, m⟩ ds) : NoDecl t := by
  have h' := (export_flat ⟨false, m⟩ ok.secOK ok.docOK ds).mem_iff.mp h
  rw [flatGraph_eq] at h'
  simp only [mem_append, mem_flatMap] at h'
  rcases h' with ⟨d, _, hd⟩ | ⟨s, _, hs⟩ | ⟨p, _, hp⟩
  · exact noDecl_ownDoc ok.doc d hd
  · exact noDecl_ownSec_off ok.sec m s hs
  · exact noDecl_saveProperty ok.prop p hp

/-- … and every Section node is typed `odml:Section`. -/
theorem export_off_plain (ok : TablesOK) (m : List (Str × Str)) (ds : List DocT) (s : SecT)
    (hs : s ∈ docSecs ds) :
    ⟨node s.id, rdfType, .iri Gen.Format.sectionRdfType.toList⟩ ∈ exportRdf ⟨false, m⟩ ds := by
  refine (export_flat ⟨false, m⟩ ok.secOK ok.docOK ds).mem_iff.mpr ?_
  rw [flatGraph_eq]
  refine mem_append_right _ (mem_append_left _ (mem_flatMap.mpr ⟨s, hs, ?_⟩))
  obtain ⟨id, a, ps, ss⟩ := s
  unfold ownSec sectionTypeTriples
  exact mem_append_left _ (by simp [SecT.id])

end Rdf
