/-
Whole-document XML round trip, part 3: one Property element.

`prop_roundtrip`: `readTag` on `writeProp p` is `(trimProp p, no new warning)` for every
well-formed, representable Property with a lower-case dtype — the fold of the per-key steps over
the regenerated key table, the mandatory-argument check, and `odml.Property(**arguments)`.
-/
import OdmlModel.Proofs.XmlRoundVal
set_option linter.unusedSimpArgs false

namespace Xml
open Py Py.Csv

theorem flatMap_keys {β} (args : List (String × Nat)) (g : String → List β) :
    args.flatMap (fun kv => g kv.1) = (args.map (·.1)).flatMap g := by
  induction args with
  | nil => rfl
  | cons a as ih => simp [ih]

theorem mandatory_ok (m : Mode) (f : Fmt) (present : List String) :
    ∀ (L : List (String × Nat)) (w : Nat),
      (∀ kr ∈ L, kr.2 ≠ 0 → f.pyName kr.1 ∈ present) → mandatoryLoop m f present L w = .ok w := by
  intro L
  induction L with
  | nil => intro w _; rfl
  | cons kr rest ih =>
    intro w h
    obtain ⟨k, req⟩ := kr
    have ih' := ih w (fun x hx => h x (by simp [hx]))
    by_cases hr : req = 0
    · simp [mandatoryLoop, hr, ih']
    · have := h (k, req) (by simp) hr
      simp [mandatoryLoop, this, ih']

/-- facts about a well-formed dtype -/
theorem dtype_facts (lib : TokLib) (p : PropT) (hwf : propWf lib p = true) (hlow : propLower p = true) :
    normText p.dtype = p.dtype ∧ (if validType p.dtype then p.dtype.map lower else none) = p.dtype := by
  simp only [propWf, Bool.and_eq_true] at hwf
  have h := hwf.2
  cases hd : p.dtype with
  | none => simp [normText, validType]
  | some d =>
    rw [hd] at h
    simp only [Bool.and_eq_true, beq_iff_eq, Bool.not_eq_true'] at h
    simp only [propLower, hd, beq_iff_eq] at hlow
    simp [normText, h.1.1.1, h.1.1.2, h.1.2, hlow]

theorem createProp_of (lib : TokLib) (a : Args) (p : PropT) (vs : List Str)
    (hwf : propWf lib p = true) (hrepr : propRepr p = true) (hlow : propLower p = true)
    (hvs : ((valueText p).isEmpty = true ∧ p.values = []) ∨
      ((valueText p).isEmpty = false ∧ loadValues lib p.dtype vs = .ok (p.dtype, p.values.map trimVal)))
    (h : ∀ k ∈ (fmtOf .prop).keys, a.lookup ((fmtOf .prop).pyName k) = propArg vs p k) :
    createProp lib a = .ok (trimProp p) := by
  have e1 := h "id" (by decide)
  have e2 := h "name" (by decide)
  have e3 := h "value" (by decide)
  have e4 := h "unit" (by decide)
  have e5 := h "definition" (by decide)
  have e6 := h "dependency" (by decide)
  have e7 := h "dependencyvalue" (by decide)
  have e8 := h "uncertainty" (by decide)
  have e9 := h "reference" (by decide)
  have e10 := h "type" (by decide)
  have e11 := h "value_origin" (by decide)
  have e12 := h "val_cardinality" (by decide)
  rw [show (fmtOf .prop).pyName "id" = "oid" by decide] at e1
  rw [show (fmtOf .prop).pyName "name" = "name" by decide] at e2
  rw [show (fmtOf .prop).pyName "value" = "values" by decide] at e3
  rw [show (fmtOf .prop).pyName "unit" = "unit" by decide] at e4
  rw [show (fmtOf .prop).pyName "definition" = "definition" by decide] at e5
  rw [show (fmtOf .prop).pyName "dependency" = "dependency" by decide] at e6
  rw [show (fmtOf .prop).pyName "dependencyvalue" = "dependency_value" by decide] at e7
  rw [show (fmtOf .prop).pyName "uncertainty" = "uncertainty" by decide] at e8
  rw [show (fmtOf .prop).pyName "reference" = "reference" by decide] at e9
  rw [show (fmtOf .prop).pyName "type" = "dtype" by decide] at e10
  rw [show (fmtOf .prop).pyName "value_origin" = "value_origin" by decide] at e11
  rw [show (fmtOf .prop).pyName "val_cardinality" = "val_cardinality" by decide] at e12
  have hwf' := hwf
  simp only [propWf, Bool.and_eq_true] at hwf'
  obtain ⟨⟨⟨hid, hname⟩, hcard⟩, _⟩ := hwf'
  simp only [propRepr, Bool.and_eq_true] at hrepr
  obtain ⟨⟨hnr, _⟩, hur⟩ := hrepr
  obtain ⟨hd1, hd2⟩ := dtype_facts lib p hwf hlow
  have g1 := getText_of_some a "oid" _ e1
  have g2 := getText_of_some a "name" _ e2
  have g4 := getText_of_map a "unit" _ e4
  have g5 := getText_of_map a "definition" _ e5
  have g6 := getText_of_map a "dependency" _ e6
  have g7 := getText_of_map a "dependency_value" _ e7
  have g8 := getText_of_map a "uncertainty" _ e8
  have g9 := getText_of_map a "reference" _ e9
  have g10 := getText_of_map a "dtype" _ e10
  have g11 := getText_of_map a "value_origin" _ e11
  have g12 := loadCard_of_map a "val_cardinality" p.valCard hcard e12
  unfold createProp
  simp only [g1, g2, g4, g5, g6, g7, g8, g9, g10, g11, g12, hd1, hd2, e3,
    idOk_facts p.id hid, name_facts p.name p.id hname hnr, unc_facts p.uncertainty hur]
  rcases hvs with ⟨he, hv⟩ | ⟨he, hv⟩
  · simp only [propArg, valsArg, he, hv, if_true, loadValues, List.map_nil]
    simp only [trimProp, hd1, hv, List.map_nil]
  · simp only [propArg, valsArg, he, hv, Bool.false_eq_true, if_false]
    simp only [trimProp, hd1]

theorem valueText_nil (p : PropT) (h : p.values = []) : valueText p = [] := by
  simp [valueText, h, toCsv_nil]

theorem mem_keys_of_lookup {β} (l : List (String × β)) (a : String) (h : (l.lookup a).isSome = true) :
    a ∈ l.map (·.1) := by
  cases hl : l.lookup a with
  | none => rw [hl] at h; cases h
  | some v => exact lookup_some_mem l a v hl

/-- the `<value>` element of a well-formed, representable Property: what the reader finds in it
    and what the `values` setter makes of that -/
theorem value_elem (lib : TokLib) (p : PropT)
    (hwf : propWf lib p = true) (hrepr : propRepr p = true) (hlow : propLower p = true) :
    ∃ vs,
      ((valueText p).isEmpty = true ∨
        ((strip (valueText p)).isEmpty = false ∧ fromCsv (valueText p) = .ok vs)) ∧
      (((valueText p).isEmpty = true ∧ p.values = []) ∨
        ((valueText p).isEmpty = false ∧
          loadValues lib p.dtype vs = .ok (p.dtype, p.values.map trimVal))) := by
  by_cases hvals : p.values = []
  · have := valueText_nil p hvals
    exact ⟨[], Or.inl (by simp [this]), Or.inl ⟨by simp [this], hvals⟩⟩
  · have hwf' := hwf
    simp only [propWf, Bool.and_eq_true] at hwf'
    have h := hwf'.2
    cases hd : p.dtype with
    | none => rw [hd] at h; simp at h; exact absurd h hvals
    | some d =>
      rw [hd] at h
      simp only [Bool.and_eq_true, beq_iff_eq, Bool.not_eq_true', List.all_eq_true] at h
      simp only [propLower, hd, beq_iff_eq] at hlow
      simp only [propRepr, Bool.and_eq_true] at hrepr
      obtain ⟨vs, h1, h2, h3⟩ := value_facts lib d p.values h.1.1.1 hlow h.2 hrepr.1.2 hvals p hd rfl
      exact ⟨vs, Or.inr ⟨h1, h2⟩, Or.inr ⟨ne_nil_of_strip h1, h3⟩⟩

/-- **One Property element**: the reader applied to what the writer emitted for a well-formed,
    representable Property returns the trimmed Property and warns about nothing — in either
    mode, whatever the order of the keys in the format table. -/
theorem prop_roundtrip (m : Mode) (lib : TokLib) (tag : String) (p : PropT) (w : Nat)
    (hwf : propWf lib p = true) (hrepr : propRepr p = true) (hlow : propLower p = true) :
    readTag m lib .prop tag (writeProp p) w = .ok (.prop (trimProp p), w) := by
  obtain ⟨vs, hv1, hv2⟩ := value_elem lib p hwf hrepr hlow
  have hnd : ((fmtOf .prop).keys.map (fmtOf .prop).pyName).Nodup := by decide
  have hfold := readKids_keys m lib .prop tag (propSpec vs p) (propKey p) []
    (fmtOf .prop).keys ⟨[], [], [], [], w⟩ hnd (fun _ _ => rfl)
    (fun k _ rest st hn => prop_step m lib tag p vs hv1 k rest st hn)
  simp only [List.append_nil] at hfold
  have hkids : readKids m lib .prop tag (Gen.Format.propertyArgs.flatMap fun kv => propKey p kv.1)
      ⟨[], [], [], [], w⟩ = .ok ((fmtOf .prop).keys.foldl ((propSpec vs p).apply (fmtOf .prop))
        ⟨[], [], [], [], w⟩) := by
    rw [flatMap_keys]
    exact hfold.trans (by simp [readKids])
  have hlook := fun k hk => lookup_foldl (propSpec vs p) (fmtOf .prop) (fmtOf .prop).keys w hnd k hk
  -- mandatory arguments
  have hreq : ∀ kr ∈ (fmtOf .prop).args, kr.2 ≠ 0 → kr.1 = "id" ∨ kr.1 = "name" ∨ kr.1 = "value" := by
    decide
  have hkeys : ∀ kr ∈ (fmtOf .prop).args, kr.1 ∈ (fmtOf .prop).keys := fun kr h =>
    List.mem_map.mpr ⟨kr, h, rfl⟩
  rw [writeProp, readTag.eq_1]
  simp only [attrLoop, hkids]
  rw [mandatory_ok]
  · simp only [foldl_apply_warns]
    rw [createProp_of lib _ p vs hwf hrepr hlow hv2 hlook]
  · intro kr hkr hreq'
    apply List.mem_append_left
    apply mem_keys_of_lookup
    rw [hlook kr.1 (hkeys kr hkr)]
    rcases hreq kr hkr hreq' with h | h | h <;> rw [h] <;> rfl

end Xml
