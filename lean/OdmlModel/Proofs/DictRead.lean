/-
Helper lemmas for C02: the reader's key loops against look-up (`denote`).
-/
import OdmlModel.Model.Dict
import OdmlModel.Model.DictDoc
import OdmlModel.Proofs.Dict

namespace Dict
open Py

/-! ## `find`, `assocSet` -/

@[simp] theorem find_nil (k : String) : find k [] = none := rfl

theorem find_cons (k k' : String) (v : J) (r : List (String × J)) :
    find k ((k', v) :: r) = if k' == k then some v else find k r := rfl

theorem find_append (k : String) (a b : List (String × J)) :
    find k (a ++ b) = (find k a).orElse (fun _ => find k b) := by
  induction a with
  | nil => simp
  | cons kv r ih =>
    obtain ⟨k', v⟩ := kv
    simp only [List.cons_append, find_cons]
    split <;> simp [ih]

theorem find_none_of_not_mem {k : String} {l : List (String × J)} (h : k ∉ keysOf l) :
    find k l = none := by
  induction l with
  | nil => rfl
  | cons kv r ih =>
    obtain ⟨k', v⟩ := kv
    simp only [keysOf_cons, List.mem_cons, not_or] at h
    have : (k' == k) = false := by simpa using fun e => h.1 e.symm
    simp [find_cons, this, ih h.2]

theorem assocSet_not_mem {k : String} {l : List (String × J)} (v : J) (h : k ∉ keysOf l) :
    assocSet l k v = l ++ [(k, v)] := by
  induction l with
  | nil => rfl
  | cons kv r ih =>
    obtain ⟨k', v'⟩ := kv
    simp only [keysOf_cons, List.mem_cons, not_or] at h
    have : (k' == k) = false := by simpa using fun e => h.1 e.symm
    simp [assocSet, this, ih h.2]

/-- Building a dict key by key from pairs with distinct keys gives the pairs. -/
theorem foldl_assocSet_nodup (l acc : List (String × J)) (h : (keysOf (acc ++ l)).Nodup) :
    l.foldl (fun a kv => assocSet a kv.1 kv.2) acc = acc ++ l := by
  induction l generalizing acc with
  | nil => simp
  | cons kv r ih =>
    obtain ⟨k, v⟩ := kv
    have hk : k ∉ keysOf acc := by
      simp only [keysOf_append, keysOf_cons, List.nodup_append, List.nodup_cons] at h
      intro hm
      exact h.2.2 k hm k (by simp) rfl
    simp only [List.foldl_cons, assocSet_not_mem v hk]
    rw [ih]
    · simp
    · simpa using h

/-- Look-up in a list with distinct keys does not depend on the order. -/
theorem find_perm {l₁ l₂ : List (String × J)} (hp : l₁.Perm l₂) (hn : (keysOf l₁).Nodup) (k : String) :
    find k l₁ = find k l₂ := by
  induction hp with
  | nil => rfl
  | cons x _ ih =>
    obtain ⟨k', v⟩ := x
    simp only [keysOf_cons, List.nodup_cons] at hn
    simp [find_cons, ih hn.2]
  | swap x y l =>
    obtain ⟨kx, vx⟩ := x
    obtain ⟨ky, vy⟩ := y
    simp only [keysOf_cons, List.nodup_cons, List.mem_cons, not_or] at hn
    simp only [find_cons]
    by_cases h1 : (ky == k) = true <;> by_cases h2 : (kx == k) = true <;> simp [h1, h2]
    simp only [beq_iff_eq] at h1 h2
    exact absurd (h1.trans h2.symm) hn.1.1
  | trans h1 _ ih1 ih2 =>
    have hp12 : (keysOf _).Perm (keysOf _) := h1.map (fun kv : String × J => kv.1)
    rw [ih1 hn, ih2 (hp12.nodup_iff.1 hn)]

theorem keysOf_perm {l₁ l₂ : List (String × J)} (hp : l₁.Perm l₂) : (keysOf l₁).Perm (keysOf l₂) :=
  hp.map _

/-! ## Appending children with distinct names -/

theorem hasDupNames_append (a b : List J) :
    hasDupNames (a ++ b) = (hasDupNames a || a.any (fun x => b.any (nameEq x)) || hasDupNames b) := by
  induction a with
  | nil => simp [hasDupNames]
  | cons x r ih =>
    simp only [List.cons_append, hasDupNames, ih, List.any_append, List.any_cons]
    cases r.any (nameEq x) <;> cases b.any (nameEq x) <;> cases hasDupNames r <;>
      cases (r.any fun x => b.any (nameEq x)) <;> simp

/-- Children whose names are pairwise different are all appended, in order, without a warning. -/
theorem appendAll_nodup {α : Type} (m : Mode) (nameOf : α → J) (new kept : List α) (ws : List Warn)
    (h : hasDupNames ((kept ++ new).map nameOf) = false) :
    appendAll m nameOf kept new ws = .ok (kept ++ new, ws) := by
  induction new generalizing kept with
  | nil => simp [appendAll]
  | cons c r ih =>
    have h' := h
    rw [List.map_append, hasDupNames_append] at h'
    simp only [Bool.or_eq_false_iff, List.map_cons, List.any_cons] at h'
    have hk : kept.any (fun k => nameEq (nameOf k) (nameOf c)) = false := by
      have := h'.1.2
      simp only [List.any_eq_false, List.mem_map, forall_exists_index, and_imp,
        forall_apply_eq_imp_iff₂, Bool.or_eq_true, not_or, Bool.not_eq_true] at this
      simp only [List.any_eq_false, Bool.not_eq_true]
      intro k hk
      exact (this k hk).1
    simp only [appendAll, hk, Bool.false_eq_true, if_false]
    rw [ih (kept ++ [c]) (by simpa using h)]
    simp

/-! ## Key loops over dictionaries in the layout -/

/-- The pairs the reader hands to the constructor: keys mapped to python names. -/
def mapped (pm : KMap) (kvs : List (String × J)) : List (String × J) :=
  kvs.map (fun kv => (mapKey pm kv.1, kv.2))

theorem keysOf_mapped (pm : KMap) (kvs : List (String × J)) :
    keysOf (mapped pm kvs) = (keysOf kvs).map (mapKey pm) := by
  simp [keysOf, mapped]

theorem nodup_map_on {f : String → String} {l : List String}
    (hinj : ∀ a ∈ l, ∀ b ∈ l, f a = f b → a = b) (h : l.Nodup) : (l.map f).Nodup := by
  induction l with
  | nil => simp
  | cons x r ih =>
    simp only [List.nodup_cons] at h
    simp only [List.map_cons, List.nodup_cons, List.mem_map, not_exists, not_and]
    refine ⟨fun b hb hfb => ?_, ih (fun a ha b hb => hinj a (by simp [ha]) b (by simp [hb])) h.2⟩
    have := hinj b (by simp [hb]) x (by simp) hfb
    exact h.1 (this ▸ hb)

/-- Facts about one format class, each closed by `decide` over the regenerated tables. -/
structure FormatFacts (args : Args) (pm : KMap) (L K : List String) : Prop where
  valid : ∀ k ∈ L, isValidAttr args pm k = true
  kw : ∀ k ∈ L, mapKey pm k ∈ K
  inj : ∀ a ∈ L, ∀ b ∈ L, mapKey pm a = mapKey pm b → a = b
  back : ∀ k ∈ L, ∀ py ∈ K, (mapKey pm k == py) = (k == odmlName pm py)

theorem propFacts : FormatFacts Gen.Format.propertyArgs Gen.Format.propertyMap propLayoutKeys propKwargs :=
  ⟨by decide, by decide, by decide, by decide⟩

theorem find_mapped {args : Args} {pm : KMap} {L K : List String} (ff : FormatFacts args pm L K)
    {kvs : List (String × J)} (hL : ∀ kv ∈ kvs, kv.1 ∈ L) {py : String} (hpy : py ∈ K) :
    find py (mapped pm kvs) = find (odmlName pm py) kvs := by
  induction kvs with
  | nil => rfl
  | cons kv r ih =>
    obtain ⟨k, v⟩ := kv
    have hk : k ∈ L := hL (k, v) (by simp)
    simp only [mapped, List.map_cons, find_cons, ff.back k hk py hpy]
    have := ih (fun kv h => hL kv (by simp [h]))
    simp only [mapped] at this
    rw [this]

theorem nodup_mapped {args : Args} {pm : KMap} {L K : List String} (ff : FormatFacts args pm L K)
    {kvs : List (String × J)} (hL : ∀ kv ∈ kvs, kv.1 ∈ L) (hn : (keysOf kvs).Nodup) :
    (keysOf (mapped pm kvs)).Nodup := by
  rw [keysOf_mapped]
  apply nodup_map_on _ hn
  intro a ha b hb
  have ha' : a ∈ L := by
    simp only [keysOf, List.mem_map] at ha
    obtain ⟨kv, hkv, rfl⟩ := ha
    exact hL kv hkv
  have hb' : b ∈ L := by
    simp only [keysOf, List.mem_map] at hb
    obtain ⟨kv, hkv, rfl⟩ := hb
    exact hL kv hkv
  exact ff.inj a ha' b hb'

theorem mapped_keys_in {args : Args} {pm : KMap} {L K : List String} (ff : FormatFacts args pm L K)
    {kvs : List (String × J)} (hL : ∀ kv ∈ kvs, kv.1 ∈ L) :
    (mapped pm kvs).all (fun kv => K.contains kv.1) = true := by
  simp only [mapped, List.all_map, List.all_eq_true]
  intro kv hkv
  simpa using ff.kw kv.1 (hL kv hkv)

/-- What the assignments `attrs[fmt.map(k)] = v` of a key loop build from an empty dict. -/
theorem foldl_assocSet_mapped {args : Args} {pm : KMap} {L K : List String}
    (ff : FormatFacts args pm L K) {kvs : List (String × J)} (hL : ∀ kv ∈ kvs, kv.1 ∈ L)
    (hn : (keysOf kvs).Nodup) :
    kvs.foldl (fun a kv => assocSet a (mapKey pm kv.1) kv.2) [] = mapped pm kvs := by
  have := foldl_assocSet_nodup (mapped pm kvs) [] (by simpa using nodup_mapped ff hL hn)
  simpa [mapped, List.foldl_map] using this

/-! ### Properties -/

theorem scanPropKeys_valid (m : Mode) (kvs attrs : List (String × J)) (ws : List Warn)
    (h : ∀ kv ∈ kvs, isValidAttr Gen.Format.propertyArgs Gen.Format.propertyMap kv.1 = true) :
    scanPropKeys m kvs attrs ws =
      .ok (kvs.foldl (fun a kv => assocSet a (mapKey Gen.Format.propertyMap kv.1) kv.2) attrs, ws) := by
  induction kvs generalizing attrs with
  | nil => rfl
  | cons kv r ih =>
    obtain ⟨k, v⟩ := kv
    have hk := h (k, v) (by simp)
    simp only [scanPropKeys, hk, if_true, List.foldl_cons]
    exact ih _ (fun kv hkv => h kv (by simp [hkv]))

theorem propArgsOf_congr {g₁ g₂ : String → Option J} (h : ∀ py ∈ propKwargs, g₁ py = g₂ py) :
    propArgsOf g₁ = propArgsOf g₂ := by
  simp only [propArgsOf]
  rw [h "oid" (by decide), h "name" (by decide), h "values" (by decide), h "unit" (by decide),
    h "definition" (by decide), h "dependency" (by decide), h "dependency_value" (by decide),
    h "uncertainty" (by decide), h "reference" (by decide), h "dtype" (by decide),
    h "value_origin" (by decide), h "val_cardinality" (by decide)]

theorem contains_mem {L : List String} {k : String} (h : L.contains k = true) : k ∈ L := by
  simpa using h

/-- A property dictionary in the layout is read as the Property it denotes, without warnings,
    by the strict and by the lenient reader. -/
theorem parseProp_denote (lib : Lib) (m : Mode) (j : J) (p : Prp) (ws : List Warn)
    (h : denoteProp lib j = some p) : parseProp lib m j ws = .ok (some p, ws) := by
  cases j with
  | obj kvs =>
    simp only [denoteProp] at h
    split at h
    · rename_i hc
      simp only [Bool.and_eq_true, List.all_eq_true] at hc
      obtain ⟨hL0, hn0⟩ := hc
      have hL : ∀ kv ∈ kvs, kv.1 ∈ propLayoutKeys := fun kv hkv => contains_mem (hL0 kv hkv)
      have hn := (nodupKeys_iff _).1 hn0
      have hvalid : ∀ kv ∈ kvs, isValidAttr Gen.Format.propertyArgs Gen.Format.propertyMap kv.1 = true :=
        fun kv hkv => propFacts.valid kv.1 (hL kv hkv)
      simp only [parseProp, scanPropKeys_valid m kvs [] ws hvalid,
        foldl_assocSet_mapped propFacts hL hn, mapped_keys_in propFacts hL]
      have hargs : propArgsOf (fun k => find k (mapped Gen.Format.propertyMap kvs)) =
          propArgsOf (fun py => find (odmlName Gen.Format.propertyMap py) kvs) :=
        propArgsOf_congr (fun py hpy => find_mapped propFacts hL hpy)
      rw [hargs]
      split at h
      · rename_i x hx
        cases h
        simp [hx]
      · cases h
    · cases h
  | _ => simp [denoteProp] at h

theorem parsePropList_denote (lib : Lib) (m : Mode) (xs : List J) (ps : List Prp) (ws : List Warn)
    (h : denotePropList lib xs = some ps) : parsePropList lib m xs ws = .ok (ps, ws) := by
  induction xs generalizing ps with
  | nil => simp only [denotePropList] at h; cases h; rfl
  | cons x r ih =>
    simp only [denotePropList] at h
    split at h
    · rename_i p ps' hp hps
      cases h
      simp [parsePropList, parseProp_denote lib m x p ws hp, ih ps' hps]
    · cases h

theorem parseProps_denote (lib : Lib) (m : Mode) (v : J) (ps : List Prp) (ws : List Warn)
    (h : denoteProps lib v = some ps) : parseProps lib m v ws = .ok (ps, ws) := by
  cases v with
  | arr xs => exact parsePropList_denote lib m xs ps ws h
  | _ => simp [denoteProps] at h

/-! ### Sections -/

/-- The attribute pairs of a section / document dictionary (everything but the child lists). -/
def attrKvs (kvs : List (String × J)) : List (String × J) :=
  kvs.filter (fun kv => kv.1 != "properties" && kv.1 != "sections")

def secAttrKeys : List String := secLayoutKeys.filter (fun k => k != "properties" && k != "sections")
def docAttrKeys : List String := docLayoutKeys.filter (fun k => k != "properties" && k != "sections")

theorem secFacts : FormatFacts Gen.Format.sectionArgs Gen.Format.sectionMap secAttrKeys secKwargs :=
  ⟨by decide, by decide, by decide, by decide⟩

theorem docFacts : FormatFacts Gen.Format.documentArgs Gen.Format.documentMap docAttrKeys docKwargs :=
  ⟨by decide, by decide, by decide, by decide⟩

theorem find_attrKvs {k : String} (kvs : List (String × J))
    (hk : (k != "properties" && k != "sections") = true) : find k (attrKvs kvs) = find k kvs := by
  induction kvs with
  | nil => rfl
  | cons kv r ih =>
    obtain ⟨k', v⟩ := kv
    simp only [attrKvs, List.filter_cons]
    by_cases h : (k' != "properties" && k' != "sections") = true
    · simp only [h, if_true, find_cons]
      simp only [attrKvs] at ih
      rw [ih]
    · simp only [h, find_cons]
      have : (k' == k) = false := by
        simp only [beq_eq_false_iff_ne, ne_eq]
        rintro rfl
        exact h hk
      simp only [attrKvs] at ih
      simp [this, ih]

theorem attrKvs_keys {L : List String} {kvs : List (String × J)} (hL : ∀ kv ∈ kvs, kv.1 ∈ L) :
    ∀ kv ∈ attrKvs kvs, kv.1 ∈ L.filter (fun k => k != "properties" && k != "sections") := by
  intro kv hkv
  simp only [attrKvs, List.mem_filter] at hkv
  simp only [List.mem_filter]
  exact ⟨hL kv hkv.1, hkv.2⟩

theorem attrKvs_nodup {kvs : List (String × J)} (hn : (keysOf kvs).Nodup) :
    (keysOf (attrKvs kvs)).Nodup := by
  have : (keysOf (attrKvs kvs)).Sublist (keysOf kvs) := by
    simp only [keysOf, attrKvs]
    exact (List.filter_sublist).map _
  exact hn.sublist this

theorem propsOfKvs_absent (lib : Lib) {kvs : List (String × J)} (h : "properties" ∉ keysOf kvs) :
    propsOfKvs lib kvs = some [] := by
  induction kvs with
  | nil => rfl
  | cons kv r ih =>
    obtain ⟨k, v⟩ := kv
    simp only [keysOf_cons, List.mem_cons, not_or] at h
    have : (k == "properties") = false := by simpa using fun e => h.1 e.symm
    simp [propsOfKvs, this, ih h.2]

theorem secsOfKvs_absent (lib : Lib) {kvs : List (String × J)} (h : "sections" ∉ keysOf kvs) :
    secsOfKvs lib kvs = some [] := by
  induction kvs with
  | nil => simp [secsOfKvs]
  | cons kv r ih =>
    obtain ⟨k, v⟩ := kv
    simp only [keysOf_cons, List.mem_cons, not_or] at h
    have : (k == "sections") = false := by simpa using fun e => h.1 e.symm
    simp [secsOfKvs, this, ih h.2]

theorem secArgsOf_congr {g₁ g₂ : String → Option J} (h : ∀ py ∈ secKwargs, g₁ py = g₂ py) :
    secArgsOf g₁ = secArgsOf g₂ := by
  simp only [secArgsOf]
  rw [h "oid" (by decide), h "name" (by decide), h "type" (by decide), h "definition" (by decide),
    h "reference" (by decide), h "link" (by decide), h "repository" (by decide),
    h "include" (by decide), h "sec_cardinality" (by decide), h "prop_cardinality" (by decide)]

theorem docArgsOf_congr {g₁ g₂ : String → Option J} (h : ∀ py ∈ docKwargs, g₁ py = g₂ py) :
    docArgsOf g₁ = docArgsOf g₂ := by
  simp only [docArgsOf]
  rw [h "oid" (by decide), h "version" (by decide), h "author" (by decide), h "date" (by decide),
    h "repository" (by decide)]

/-- The state the key loop of `parse_sections` reaches on a dictionary in the layout. -/
def scanSecSpec (kvs : List (String × J)) (ps : List Prp) (ss : List Sec) (acc : SecAcc) : SecAcc :=
  { attrs := (attrKvs kvs).foldl (fun a kv => assocSet a (mapKey Gen.Format.sectionMap kv.1) kv.2) acc.attrs,
    props := if "properties" ∈ keysOf kvs then ps else acc.props,
    secs := if "sections" ∈ keysOf kvs then ss else acc.secs }

theorem secLayout_valid : ∀ k ∈ secLayoutKeys,
    isValidAttr Gen.Format.sectionArgs Gen.Format.sectionMap k = true := by decide

theorem docLayout_valid : ∀ k ∈ docLayoutKeys,
    isValidAttr Gen.Format.documentArgs Gen.Format.documentMap k = true := by decide

theorem finishSec_denote (lib : Lib) (m : Mode) (kvs : List (String × J)) (ws : List Warn)
    (hL : ∀ kv ∈ kvs, kv.1 ∈ secLayoutKeys) (hn : (keysOf kvs).Nodup)
    (props : List Prp) (secs : List Sec) (s : Sec)
    (hprops : propsOfKvs lib kvs = some props) (hsecs : secsOfKvs lib kvs = some secs)
    (h : (match createSec lib (secArgsOf (fun py => find (odmlName Gen.Format.sectionMap py) kvs)) with
          | .ok (.mk id name type d r l rp inc sc pc _ _) =>
            if hasDupNames (props.map (·.name)) || hasDupNames (secs.map Sec.name) then none
            else some (Sec.mk id name type d r l rp inc sc pc props secs)
          | _ => none) = some s) :
    finishSec lib m (scanSecSpec kvs props secs { attrs := [], props := [], secs := [] }) ws
      = .ok (some s, ws) := by
  have hLa := attrKvs_keys hL
  have hna := attrKvs_nodup hn
  have hattrs : (scanSecSpec kvs props secs { attrs := [], props := [], secs := [] }).attrs
      = mapped Gen.Format.sectionMap (attrKvs kvs) := by
    simp only [scanSecSpec]
    exact foldl_assocSet_mapped secFacts hLa hna
  have hargs : secArgsOf (fun k => find k (mapped Gen.Format.sectionMap (attrKvs kvs))) =
      secArgsOf (fun py => find (odmlName Gen.Format.sectionMap py) kvs) := by
    apply secArgsOf_congr
    intro py hpy
    rw [find_mapped secFacts hLa hpy]
    apply find_attrKvs
    revert py
    decide
  simp only [finishSec, hattrs, mapped_keys_in secFacts hLa, hargs]
  split at h
  · rename_i id name type d r l rp inc sc pc x y hc
    simp only [hc]
    split at h
    · cases h
    · rename_i hd
      cases h
      have hp : (scanSecSpec kvs props secs { attrs := [], props := [], secs := [] }).props = props := by
        simp only [scanSecSpec]; split <;> rename_i hm
        · rfl
        · rw [propsOfKvs_absent lib hm] at hprops; cases hprops; rfl
      have hs : (scanSecSpec kvs props secs { attrs := [], props := [], secs := [] }).secs = secs := by
        simp only [scanSecSpec]; split <;> rename_i hm
        · rfl
        · rw [secsOfKvs_absent lib hm] at hsecs; cases hsecs; rfl
      simp only [Bool.or_eq_true, not_or, Bool.not_eq_true] at hd
      simp only [hp, hs]
      rw [appendAll_nodup m (fun p : Prp => p.name) props [] ws (by simpa using hd.1)]
      simp only [List.nil_append]
      rw [appendAll_nodup m Sec.name secs [] ws (by simpa using hd.2)]
      simp
  · cases h

mutual
theorem parseSec_denote (lib : Lib) (m : Mode) : (j : J) → (s : Sec) → (ws : List Warn) →
    denoteSec lib j = some s → parseSec lib m j ws = .ok (some s, ws)
  | .obj kvs, s, ws, h => by
    simp only [denoteSec] at h
    split at h
    · rename_i hc
      simp only [Bool.and_eq_true, List.all_eq_true] at hc
      obtain ⟨hL0, hn0⟩ := hc
      have hL : ∀ kv ∈ kvs, kv.1 ∈ secLayoutKeys := fun kv hkv => contains_mem (hL0 kv hkv)
      have hn := (nodupKeys_iff _).1 hn0
      cases hp : propsOfKvs lib kvs with
      | none => simp [hp] at h
      | some props =>
        cases hs : secsOfKvs lib kvs with
        | none => simp [hp, hs] at h
        | some secs =>
          have hscan := scanSecKeys_denote lib m kvs hL hn props secs hp hs
            { attrs := [], props := [], secs := [] } ws
          simp only [parseSec, hscan]
          apply finishSec_denote lib m kvs ws hL hn props secs s hp hs
          simp only [hp, hs] at h
          cases hc : createSec lib (secArgsOf fun py => find (odmlName Gen.Format.sectionMap py) kvs) with
          | ok x =>
            cases x with
            | mk id name type d r l rp inc sc pc x y =>
              simp only [hc] at h ⊢
              exact h
          | raised => simp [hc] at h
          | unmodelled => simp [hc] at h
    · cases h
  | .null, _, _, h => by simp [denoteSec] at h
  | .bool _, _, _, h => by simp [denoteSec] at h
  | .int _, _, _, h => by simp [denoteSec] at h
  | .float _, _, _, h => by simp [denoteSec] at h
  | .str _, _, _, h => by simp [denoteSec] at h
  | .date _, _, _, h => by simp [denoteSec] at h
  | .time _, _, _, h => by simp [denoteSec] at h
  | .datetime _, _, _, h => by simp [denoteSec] at h
  | .arr _, _, _, h => by simp [denoteSec] at h
theorem parseSecsJ_denote (lib : Lib) (m : Mode) : (j : J) → (ss : List Sec) → (ws : List Warn) →
    denoteSecsJ lib j = some ss → parseSecsJ lib m j ws = .ok (ss, ws)
  | .arr xs, ss, ws, h => by
    simp only [denoteSecsJ] at h
    simp only [parseSecsJ]
    exact parseSecList_denote lib m xs ss ws h
  | .null, _, _, h => by simp [denoteSecsJ] at h
  | .bool _, _, _, h => by simp [denoteSecsJ] at h
  | .int _, _, _, h => by simp [denoteSecsJ] at h
  | .float _, _, _, h => by simp [denoteSecsJ] at h
  | .str _, _, _, h => by simp [denoteSecsJ] at h
  | .date _, _, _, h => by simp [denoteSecsJ] at h
  | .time _, _, _, h => by simp [denoteSecsJ] at h
  | .datetime _, _, _, h => by simp [denoteSecsJ] at h
  | .obj _, _, _, h => by simp [denoteSecsJ] at h
theorem parseSecList_denote (lib : Lib) (m : Mode) : (xs : List J) → (ss : List Sec) →
    (ws : List Warn) → denoteSecList lib xs = some ss → parseSecList lib m xs ws = .ok (ss, ws)
  | [], ss, ws, h => by
    simp only [denoteSecList] at h; cases h; simp [parseSecList]
  | x :: r, ss, ws, h => by
    simp only [denoteSecList] at h
    split at h
    · rename_i s ss' hs hss
      cases h
      simp [parseSecList, parseSec_denote lib m x s ws hs, parseSecList_denote lib m r ss' ws hss]
    · cases h
theorem scanSecKeys_denote (lib : Lib) (m : Mode) : (kvs : List (String × J)) →
    (∀ kv ∈ kvs, kv.1 ∈ secLayoutKeys) → (keysOf kvs).Nodup →
    (ps : List Prp) → (ss : List Sec) → propsOfKvs lib kvs = some ps → secsOfKvs lib kvs = some ss →
    (acc : SecAcc) → (ws : List Warn) →
    scanSecKeys lib m kvs acc ws = .ok (scanSecSpec kvs ps ss acc, ws)
  | [], _, _, ps, ss, _, _, acc, ws => by
    simp [scanSecKeys, scanSecSpec, attrKvs, keysOf]
  | (k, v) :: r, hL, hn, ps, ss, hp, hs, acc, ws => by
    have hk : k ∈ secLayoutKeys := hL (k, v) (by simp)
    have hv := secLayout_valid k hk
    have hn' : k ∉ keysOf r ∧ (keysOf r).Nodup := by simpa using hn
    have hL' : ∀ kv ∈ r, kv.1 ∈ secLayoutKeys := fun kv h => hL kv (by simp [h])
    by_cases h1 : k = "properties"
    · subst h1
      have hp' : denoteProps lib v = some ps := by simpa [propsOfKvs] using hp
      have hs' : secsOfKvs lib r = some ss := by simpa [secsOfKvs] using hs
      have hpr := propsOfKvs_absent lib hn'.1
      have ih := scanSecKeys_denote lib m r hL' hn'.2 [] ss hpr hs' { acc with props := ps } ws
      simp only [scanSecKeys, hv, parseProps_denote lib m v ps ws hp', ih]
      simp [scanSecSpec, attrKvs, hn'.1]
    · by_cases h2 : k = "sections"
      · subst h2
        have hs' : denoteSecsJ lib v = some ss := by simpa [secsOfKvs] using hs
        have hp' : propsOfKvs lib r = some ps := by simpa [propsOfKvs] using hp
        have hsr := secsOfKvs_absent lib hn'.1
        have ih := scanSecKeys_denote lib m r hL' hn'.2 ps [] hp' hsr { acc with secs := ss } ws
        simp only [scanSecKeys, hv, parseSecsJ_denote lib m v ss ws hs', ih]
        simp [scanSecSpec, attrKvs, hn'.1]
      · have hp' : propsOfKvs lib r = some ps := by simpa [propsOfKvs, h1] using hp
        have hs' : secsOfKvs lib r = some ss := by simpa [secsOfKvs, h2] using hs
        have ih := scanSecKeys_denote lib m r hL' hn'.2 ps ss hp' hs'
          { acc with attrs := assocSet acc.attrs (mapKey Gen.Format.sectionMap k) v } ws
        simp only [scanSecKeys, hv, h1, h2, ih]
        simp [scanSecSpec, attrKvs, h1, h2, Ne.symm h1, Ne.symm h2]
end

/-! ### Document -/

theorem scanDocKeys_denote (lib : Lib) (m : Mode) (kvs : List (String × J))
    (hL : ∀ kv ∈ kvs, kv.1 ∈ docLayoutKeys) (hn : (keysOf kvs).Nodup)
    (ss : List Sec) (hs : secsOfKvs lib kvs = some ss)
    (attrs : List (String × J)) (secs : List Sec) (ws : List Warn) :
    scanDocKeys lib m kvs attrs secs ws =
      .ok ((attrKvs kvs).foldl (fun a kv => assocSet a (mapKey Gen.Format.documentMap kv.1) kv.2) attrs,
           (if "sections" ∈ keysOf kvs then ss else secs), ws) := by
  induction kvs generalizing attrs secs ss with
  | nil => simp [scanDocKeys, attrKvs, keysOf]
  | cons kv r ih =>
    obtain ⟨k, v⟩ := kv
    have hk : k ∈ docLayoutKeys := hL (k, v) (by simp)
    have hv := docLayout_valid k hk
    have hn' : k ∉ keysOf r ∧ (keysOf r).Nodup := by simpa using hn
    have hL' : ∀ kv ∈ r, kv.1 ∈ docLayoutKeys := fun kv h => hL kv (by simp [h])
    have hnp : k ≠ "properties" := by
      rintro rfl
      revert hk
      decide
    by_cases h2 : k = "sections"
    · subst h2
      have hs' : denoteSecsJ lib v = some ss := by simpa [secsOfKvs] using hs
      have hsr := secsOfKvs_absent lib hn'.1
      have := ih hL' hn'.2 [] hsr attrs ss
      simp only [scanDocKeys, hv, parseSecsJ_denote lib m v ss ws hs', this]
      simp [attrKvs, hn'.1]
    · have hs' : secsOfKvs lib r = some ss := by simpa [secsOfKvs, h2] using hs
      have := ih hL' hn'.2 ss hs' (assocSet attrs (mapKey Gen.Format.documentMap k) v) secs
      simp only [scanDocKeys, hv, h2, this]
      simp [attrKvs, h2, hnp, Ne.symm h2]

/-- A dictionary in the odML 1.1 layout is read as the document it denotes, without warnings,
    by the strict and by the lenient reader. -/
theorem readDict_denote (lib : Lib) (m : Mode) (j : J) (d : Doc) (h : denote lib j = some d) :
    readDict lib m j = .ok (d, []) := by
  cases j with
  | obj root =>
    simp only [denote] at h
    split at h
    · rename_i kvs v hD hV
      split at h
      · rename_i hc
        simp only [Bool.and_eq_true, List.all_eq_true] at hc
        obtain ⟨⟨hver, hL0⟩, hn0⟩ := hc
        have hL : ∀ kv ∈ kvs, kv.1 ∈ docLayoutKeys := fun kv hkv => contains_mem (hL0 kv hkv)
        have hn := (nodupKeys_iff _).1 hn0
        cases hs : secsOfKvs lib kvs with
        | none => simp [hs] at h
        | some secs =>
          have hLa := attrKvs_keys hL
          have hna := attrKvs_nodup hn
          have hscan := scanDocKeys_denote lib m kvs hL hn secs hs [] [] []
          rw [foldl_assocSet_mapped docFacts hLa hna] at hscan
          have hargs : docArgsOf (fun k => find k (mapped Gen.Format.documentMap (attrKvs kvs))) =
              docArgsOf (fun py => find (odmlName Gen.Format.documentMap py) kvs) := by
            apply docArgsOf_congr
            intro py hpy
            rw [find_mapped docFacts hLa hpy]
            apply find_attrKvs
            revert py
            decide
          have hsecs : (if "sections" ∈ keysOf kvs then secs else []) = secs := by
            split
            · rfl
            · rename_i hm
              rw [secsOfKvs_absent lib hm] at hs; cases hs; rfl
          simp only [readDict, hD, hV, hver, hscan, mapped_keys_in docFacts hLa, hargs, hsecs]
          simp only [hs] at h
          cases hc : createDoc lib (docArgsOf fun py => find (odmlName Gen.Format.documentMap py) kvs) with
          | ok x =>
            simp only [hc] at h ⊢
            split at h
            · cases h
            · rename_i hd
              cases h
              simp only [makeDoc, mapped_keys_in docFacts hLa, hargs, hc, Bool.not_true,
                Bool.false_eq_true, if_false]
              rw [appendAll_nodup m Sec.name secs [] [] (by simpa using hd)]
              simp
          | raised => simp [hc] at h
          | unmodelled => simp [hc] at h
      · cases h
    · cases h
  | _ => simp [denote] at h

end Dict
