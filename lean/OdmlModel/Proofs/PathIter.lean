/-
Traversal lemmas for C14: the queue loop of `itersections` visits the tree level by level.
-/
import OdmlModel.Model.Path
import OdmlModel.Proofs.Path

set_option linter.unusedSimpArgs false
set_option linter.unusedVariables false

namespace Path
open PathTree

/-! ## the queue loop = concatenation of levels -/

theorem bfs_nil (md : Option Int) : bfs md [] = [] := by rw [bfs]

theorem bfs_cons (md : Option Int) (e : Entry) (q : List Entry) :
    bfs md (e :: q) = e :: bfs md (q ++ pushed md e) := by rw [bfs]

/-- processing a front segment `xs` of the queue outputs `xs` and moves its children to the back -/
theorem bfs_append (md : Option Int) (xs ys : List Entry) :
    bfs md (xs ++ ys) = xs ++ bfs md (ys ++ xs.flatMap (pushed md)) := by
  induction xs generalizing ys with
  | nil => simp
  | cons e xs ih =>
    rw [List.cons_append, bfs_cons, List.append_assoc, ih]
    simp [List.flatMap_cons, List.append_assoc]

theorem bfs_level (md : Option Int) (xs : List Entry) :
    bfs md xs = xs ++ bfs md (xs.flatMap (pushed md)) := by
  have := bfs_append md xs []
  simpa using this

/-- the first `n` levels below `xs`: `xs`, then the children of those of `xs` that may expand, … -/
def levelsUpTo (md : Option Int) (xs : List Entry) : Nat → List Entry
  | 0 => []
  | n + 1 => xs ++ levelsUpTo md (xs.flatMap (pushed md)) n

theorem levelsUpTo_nil (md : Option Int) (n : Nat) : levelsUpTo md [] n = [] := by
  induction n with
  | zero => rfl
  | succ n ih => simp [levelsUpTo, ih]

theorem qsize_nil : qsize [] = 0 := rfl

theorem qsize_cons (e : Entry) (q : List Entry) : qsize (e :: q) = e.2.1.size + qsize q := by
  simp [qsize]

theorem qsize_append (a b : List Entry) : qsize (a ++ b) = qsize a + qsize b := by
  simp [qsize, sizeList_append]

theorem qsize_pushed_le (md : Option Int) (e : Entry) : qsize (pushed md e) + 1 ≤ e.2.1.size := by
  have h4 := Sec.size_eq e.2.1
  unfold pushed
  split
  · rw [qsize_kidsFrom]; omega
  · simp [qsize]; omega

theorem qsize_next_lt (md : Option Int) (xs : List Entry) (h : xs ≠ []) :
    qsize (xs.flatMap (pushed md)) < qsize xs := by
  induction xs with
  | nil => exact absurd rfl h
  | cons e r ih =>
    rw [List.flatMap_cons, qsize_append, qsize_cons]
    have h1 := qsize_pushed_le md e
    by_cases hr : r = []
    · subst hr; simp [qsize_nil]; omega
    · have := ih hr; omega

/-- **Breadth first**: the visiting order of the queue loop is level 0, then level 1, … -/
theorem bfs_eq_levels (md : Option Int) (n : Nat) (xs : List Entry) (hn : qsize xs < n) :
    bfs md xs = levelsUpTo md xs n := by
  induction n generalizing xs with
  | zero => omega
  | succ n ih =>
    rw [bfs_level, levelsUpTo]
    by_cases hx : xs = []
    · subst hx; simp [bfs_nil, levelsUpTo_nil]
    · have := qsize_next_lt md xs hx
      rw [ih _ (by omega)]

/-! ## levels are sorted and duplicate free -/

theorem mem_kidsFrom (p : Pos) (lvl i : Nat) (l : List Sec) (e : Entry) :
    e ∈ kidsFrom p lvl i l ↔ ∃ j s, l[j]? = some s ∧ e = (p ++ [i + j], s, lvl) := by
  induction l generalizing i with
  | nil => simp [kidsFrom]
  | cons c r ih =>
    simp only [kidsFrom, List.mem_cons, ih]
    constructor
    · rintro (h | ⟨j, s, hj, he⟩)
      · exact ⟨0, c, by simp, by simpa using h⟩
      · exact ⟨j + 1, s, by simpa using hj, by rw [he]; congr 3; omega⟩
    · rintro ⟨j, s, hj, he⟩
      cases j with
      | zero => left; simp at hj; subst hj; simpa using he
      | succ j => right; exact ⟨j, s, by simpa using hj, by rw [he]; congr 3; omega⟩

theorem mem_pushed (md : Option Int) (x e : Entry) :
    e ∈ pushed md x ↔ expands md x.2.2 = true ∧
      ∃ j s, x.2.1.subs[j]? = some s ∧ e = (x.1 ++ [j], s, x.2.2 + 1) := by
  unfold pushed
  split
  · rename_i h
    simp [mem_kidsFrom, h]
  · rename_i h
    simp [h]

theorem pairwise_flatMap {α β : Type} (R : β → β → Prop) (f : α → List β) (xs : List α)
    (h1 : ∀ x ∈ xs, (f x).Pairwise R)
    (h2 : xs.Pairwise (fun x y => ∀ a ∈ f x, ∀ b ∈ f y, R a b)) :
    (xs.flatMap f).Pairwise R := by
  induction xs with
  | nil => simp
  | cons x r ih =>
    rw [List.flatMap_cons, List.pairwise_append]
    rw [List.pairwise_cons] at h2
    refine ⟨h1 x (by simp), ih (fun y hy => h1 y (by simp [hy])) h2.2, ?_⟩
    intro a ha b hb
    rw [List.mem_flatMap] at hb
    obtain ⟨y, hy, hb⟩ := hb
    exact h2.1 y hy a ha b hb

theorem kidsFrom_pairwise_ne (p : Pos) (lvl i : Nat) (l : List Sec) :
    (kidsFrom p lvl i l).Pairwise (fun a b => a.1 ≠ b.1) := by
  induction l generalizing i with
  | nil => simp [kidsFrom]
  | cons c r ih =>
    simp only [kidsFrom, List.pairwise_cons]
    refine ⟨?_, ih (i + 1)⟩
    intro e he
    rw [mem_kidsFrom] at he
    obtain ⟨j, s, _, he⟩ := he
    rw [he]
    simp
    omega

/-- a level: all entries on the same level, positions of the same length, pairwise different -/
structure LevelOk (base lvl : Nat) (xs : List Entry) : Prop where
  lvl_eq : ∀ e ∈ xs, e.2.2 = lvl
  len_eq : ∀ e ∈ xs, e.1.length = base + lvl
  ne : xs.Pairwise (fun a b => a.1 ≠ b.1)

theorem LevelOk.next {base lvl : Nat} {xs : List Entry} (md : Option Int) (h : LevelOk base lvl xs) :
    LevelOk base (lvl + 1) (xs.flatMap (pushed md)) := by
  refine ⟨?_, ?_, ?_⟩
  · intro e he
    rw [List.mem_flatMap] at he
    obtain ⟨x, hx, he⟩ := he
    rw [mem_pushed] at he
    obtain ⟨_, j, s, _, he⟩ := he
    rw [he]; simp [h.lvl_eq x hx]
  · intro e he
    rw [List.mem_flatMap] at he
    obtain ⟨x, hx, he⟩ := he
    rw [mem_pushed] at he
    obtain ⟨_, j, s, _, he⟩ := he
    rw [he]; simp [h.len_eq x hx]; omega
  · apply pairwise_flatMap
    · intro x hx
      unfold pushed
      split
      · exact kidsFrom_pairwise_ne _ _ _ _
      · simp
    · refine List.Pairwise.imp_of_mem ?_ h.ne
      intro x y hx hy hxy a ha b hb
      rw [mem_pushed] at ha hb
      obtain ⟨_, j, s, _, ha⟩ := ha
      obtain ⟨_, j', s', _, hb⟩ := hb
      rw [ha, hb]
      simp only [ne_eq]
      intro heq
      have hl : x.1.length = y.1.length := by rw [h.len_eq x hx, h.len_eq y hy]
      exact hxy (List.append_inj_left heq hl)

/-- the concatenated levels are sorted by level and free of duplicate positions -/
theorem levels_sorted_nodup (md : Option Int) (base : Nat) (n lvl : Nat) (xs : List Entry)
    (h : LevelOk base lvl xs) :
    (levelsUpTo md xs n).Pairwise (fun a b => a.2.2 ≤ b.2.2 ∧ a.1 ≠ b.1) ∧
    (∀ e ∈ levelsUpTo md xs n, lvl ≤ e.2.2 ∧ e.1.length = base + e.2.2) := by
  induction n generalizing lvl xs with
  | zero => simp [levelsUpTo]
  | succ n ih =>
    obtain ⟨ih1, ih2⟩ := ih (lvl + 1) _ (h.next md)
    simp only [levelsUpTo]
    refine ⟨?_, ?_⟩
    · rw [List.pairwise_append]
      refine ⟨?_, ih1, ?_⟩
      · refine List.Pairwise.imp_of_mem ?_ h.ne
        intro a b ha hb hab
        exact ⟨by rw [h.lvl_eq a ha, h.lvl_eq b hb]; exact Nat.le_refl _, hab⟩
      · intro a ha b hb
        obtain ⟨hb1, hb2⟩ := ih2 b hb
        refine ⟨by rw [h.lvl_eq a ha]; omega, ?_⟩
        intro heq
        have := h.len_eq a ha
        rw [heq, hb2] at this
        omega
    · intro e he
      rw [List.mem_append] at he
      rcases he with he | he
      · exact ⟨by rw [h.lvl_eq e he]; exact Nat.le_refl _, by rw [h.len_eq e he, h.lvl_eq e he]⟩
      · obtain ⟨a, b⟩ := ih2 e he
        exact ⟨by omega, b⟩

theorem kidsFrom_levelOk (lvl : Nat) (l : List Sec) : LevelOk 0 1 (kidsFrom [] 1 0 l) := by
  refine ⟨?_, ?_, kidsFrom_pairwise_ne _ _ _ _⟩
  · intro e he
    rw [mem_kidsFrom] at he
    obtain ⟨j, s, _, he⟩ := he
    rw [he]
  · intro e he
    rw [mem_kidsFrom] at he
    obtain ⟨j, s, _, he⟩ := he
    rw [he]; simp

/-- the initial queue of `itersections` is a level -/
theorem initialQueue_levelOk (d : Doc) (start : Pos) (md : Option Int) :
    ∃ lvl, LevelOk start.length lvl (initialQueue d start md) := by
  unfold initialQueue
  cases start with
  | nil =>
    refine ⟨1, ?_⟩
    simp only
    cases docExpands md
    · exact ⟨by simp, by simp, by simp⟩
    · exact kidsFrom_levelOk 1 _
  | cons i r =>
    refine ⟨0, ?_⟩
    simp only
    split
    · exact ⟨by simp, by simp, by simp⟩
    · exact ⟨by simp, by simp, by simp⟩

end Path

namespace Path
open PathTree

/-! ## every queue entry is a valid (position, Section) pair -/

def EntryValid (d : Doc) (e : Entry) : Prop := secAt d.secs e.1 = some e.2.1

theorem pushed_valid (d : Doc) (md : Option Int) (x e : Entry) (hx : EntryValid d x)
    (he : e ∈ pushed md x) : EntryValid d e := by
  rw [mem_pushed] at he
  obtain ⟨_, j, s, hj, he⟩ := he
  rw [he]
  unfold EntryValid at hx ⊢
  simp only
  rw [secAt_append _ _ _ _ (by simp) (kidsAt_of_secAt _ _ _ hx), secAt_single]
  exact hj

theorem levels_valid (d : Doc) (md : Option Int) (n : Nat) (xs : List Entry)
    (h : ∀ x ∈ xs, EntryValid d x) : ∀ e ∈ levelsUpTo md xs n, EntryValid d e := by
  induction n generalizing xs with
  | zero => simp [levelsUpTo]
  | succ n ih =>
    intro e he
    simp only [levelsUpTo, List.mem_append] at he
    rcases he with he | he
    · exact h e he
    · refine ih _ ?_ e he
      intro y hy
      rw [List.mem_flatMap] at hy
      obtain ⟨x, hx, hy⟩ := hy
      exact pushed_valid d md x y (h x hx) hy

theorem initialQueue_valid (d : Doc) (start : Pos) (md : Option Int) :
    ∀ x ∈ initialQueue d start md, EntryValid d x := by
  unfold initialQueue
  cases start with
  | nil =>
    simp only
    cases docExpands md
    · simp
    · intro x hx
      simp only [↓reduceIte, mem_kidsFrom] at hx
      obtain ⟨j, s, hj, hx⟩ := hx
      rw [hx]
      simpa [EntryValid, secAt] using hj
  | cons i r =>
    simp only
    cases hs : secAt d.secs (i :: r) with
    | none => simp
    | some s => simp [EntryValid, hs]

/-! ## find -/

theorem mem_findAllIn (lw : Str → Str) (p : Pos) (key otype : Option Str) (sub : Bool) (i : Nat) (l : List Sec)
    (q : Pos) :
    q ∈ findAllIn lw p key otype sub i l ↔
      ∃ j s, l[j]? = some s ∧ q = p ++ [i + j] ∧ matchesObj lw (some s) key otype sub = true := by
  induction l generalizing i with
  | nil => simp [findAllIn]
  | cons c r ih =>
    simp only [findAllIn, List.mem_append, ih]
    constructor
    · rintro (h | ⟨j, s, hj, hq, hm⟩)
      · split at h
        · rename_i hm
          exact ⟨0, c, by simp, by simpa using h, hm⟩
        · simp at h
      · exact ⟨j + 1, s, by simpa using hj, by rw [hq]; congr 2; omega, hm⟩
    · rintro ⟨j, s, hj, hq, hm⟩
      cases j with
      | zero =>
        left
        simp at hj; subst hj
        simp [hm, hq]
      | succ j => right; exact ⟨j, s, by simpa using hj, by rw [hq]; congr 2; omega, hm⟩

end Path
