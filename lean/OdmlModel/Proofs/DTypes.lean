/-
Helper lemmas for C05 (model: `Model/DTypes.lean`).
-/
import OdmlModel.Model.DTypes
import OdmlModel.Proofs.Str

set_option linter.unusedSimpArgs false
set_option linter.unusedVariables false

namespace DT
open Py

/-! ## strings -/

theorem splitOn_ne_nil (sep : Char) (s : List Char) : splitOn sep s ≠ [] := by
  cases s with
  | nil => simp [splitOn]
  | cons c cs =>
    unfold splitOn
    split
    · simp
    · split <;> simp


theorem mem_lstrip {c : Char} : ∀ {s : List Char}, c ∈ lstrip s → c ∈ s := by
  intro s
  induction s with
  | nil => intro h; exact h
  | cons a t ih =>
    intro h
    unfold lstrip at h
    split at h
    · exact List.mem_cons_of_mem _ (ih h)
    · exact h

theorem mem_strip {c : Char} {s : List Char} (h : c ∈ strip s) : c ∈ s := by
  unfold strip rstrip at h
  have h1 : c ∈ (lstrip s).reverse := mem_lstrip (List.mem_reverse.mp h)
  exact mem_lstrip (List.mem_reverse.mp h1)

theorem splitOn_mem_no_sep (sep : Char) : ∀ (s : List Char) (f : List Char), f ∈ splitOn sep s →
    ∀ c ∈ f, (c == sep) = false := by
  intro s
  induction s with
  | nil => intro f hf c hc; simp [splitOn] at hf; subst hf; cases hc
  | cons a t ih =>
    intro f hf c hc
    unfold splitOn at hf
    by_cases ha : (a == sep) = true
    · simp only [ha, ↓reduceIte, List.mem_cons] at hf
      rcases hf with rfl | hf
      · cases hc
      · exact ih f hf c hc
    · simp only [ha, Bool.false_eq_true, ↓reduceIte] at hf
      cases hsp : splitOn sep t with
      | nil => exact absurd hsp (splitOn_ne_nil sep t)
      | cons g gs =>
        simp only [hsp, List.mem_cons] at hf
        rcases hf with rfl | hf
        · rcases List.mem_cons.mp hc with rfl | hc
          · simpa using ha
          · exact ih g (by simp [hsp]) c hc
        · exact ih f (by simp [hsp, hf]) c hc

theorem lstrip_idem (s : List Char) : lstrip (lstrip s) = lstrip s := by
  induction s with
  | nil => rfl
  | cons a t ih =>
    by_cases ha : isSpace a = true
    · simp [lstrip, ha, ih]
    · have : lstrip (a :: t) = a :: t := by simp [lstrip, ha]
      rw [this, this]

theorem lstrip_append_nonspace {a : Char} (ha : isSpace a = false) :
    ∀ (l : List Char), lstrip (l ++ [a]) = lstrip l ++ [a] := by
  intro l
  induction l with
  | nil => simp [lstrip, ha]
  | cons b t ih =>
    by_cases hb : isSpace b = true
    · simp [lstrip, hb, ih]
    · simp [lstrip, hb]

theorem strip_idem (s : List Char) : strip (strip s) = strip s := by
  unfold strip
  have key : ∀ t : List Char, lstrip t = t → lstrip (rstrip t) = rstrip t := by
    intro t ht
    cases t with
    | nil => rfl
    | cons a t' =>
      have ha : isSpace a = false := by
        by_cases h : isSpace a = true
        · exfalso
          have h2 : lstrip (a :: t') = lstrip t' := by simp [lstrip, h]
          rw [h2] at ht
          have hl : (lstrip t').length ≤ t'.length := by
            clear ht h2
            induction t' with
            | nil => simp [lstrip]
            | cons b u ih => unfold lstrip; split <;> simp <;> omega
          rw [ht] at hl; simp at hl; omega
        · simpa using h
      unfold rstrip
      simp only [List.reverse_cons, lstrip_append_nonspace ha, List.reverse_append,
        List.reverse_singleton, List.singleton_append]
      exact lstrip_of_head ha
  have h1 : lstrip (rstrip (lstrip s)) = rstrip (lstrip s) := key _ (lstrip_idem s)
  rw [h1]
  unfold rstrip
  simp only [List.reverse_reverse, lstrip_idem]



/-- items as `tuple_get` produces them -/
def Stripped (s : List Char) : Prop := strip s = s ∧ ∀ c ∈ s, (c == ';') = false

/-! ## classes of stored values -/

/-- The Python type a dtype stands for (what `dtypes.get` dispatches on for a normalised name).
    `any` only for names that `valid_type` refuses. -/
inductive Cls where
  | int | float | bool | str | date | time | datetime
  | tuple (n : Int)
  | any
  deriving DecidableEq, Repr

def clsOfNorm (d : List Char) : Cls :=
  if endsWithTuple d then
    match parseInt (d.take (d.length - 6)) with
    | some n => .tuple n
    | none => .any
  else if d == "int".toList then .int
  else if d == "float".toList then .float
  else if d == "time".toList then .time
  else if d == "date".toList then .date
  else if d == "datetime".toList then .datetime
  else if d == "boolean".toList || d == "bool".toList then .bool
  else if d == "tuple".toList then .any
  else .str

def clsOf : DType → Cls
  | none => .str
  | some d0 => if d0.isEmpty then .str else clsOfNorm (normDtype d0)

/-- an item of a stored n-tuple: a string without surrounding white space and without `;` -/
def TupleItem (a : Atom) : Prop := ∃ s, a = .str s ∧ Stripped s

/-- `w` is of the Python type of the class (strict reading of the property). -/
def HasClass : Cls → Elem → Prop
  | .int, .atom (.int _) => True
  | .float, .atom (.float _) => True
  | .bool, .atom (.bool _) => True
  | .str, .atom (.str _) => True
  | .date, .atom (.date d) => d.valid = true
  | .time, .atom (.time t) => t.valid = true ∧ t.us = 0
  | .datetime, .atom (.datetime x) => x.time.us = 0
  | .tuple n, .seq false xs => (xs.length : Int) = n ∧ xs ≠ [] ∧ ∀ a ∈ xs, TupleItem a
  | .any, _ => True
  | _, _ => False

/-- what the implementation guarantees: as `HasClass`, but an n-tuple Property may hold `None`
    (known finding: `tuple_get` returns `None` for an empty item). -/
def HasClassW (c : Cls) (w : Elem) : Prop :=
  HasClass c w ∨ ((∃ n, c = .tuple n) ∧ w = .atom .none)

theorem HasClass.weak {c w} (h : HasClass c w) : HasClassW c w := Or.inl h

/-! ## small facts about the Py models -/

theorem field12_le {lo hi : Nat} {s : List Char} {v : Nat} (h : field12 lo hi s = some v) :
    lo ≤ v ∧ v ≤ hi := by
  unfold field12 at h
  split at h
  · split at h
    · simp at h; subst h; simp_all
    · cases h
  · split at h
    · simp only at h
      split at h
      · simp at h; subst h; simp_all
      · cases h
    · cases h
  · cases h

theorem mkDate_valid {y m d : Nat} {x : Date} (h : mkDate y m d = some x) : x.valid = true := by
  unfold mkDate at h
  simp only at h
  split at h
  · cases h; assumption
  · cases h

theorem parseDate_valid {s : List Char} {x : Date} (h : parseDate s = some x) : x.valid = true := by
  unfold parseDate at h
  split at h
  · split at h
    · exact mkDate_valid h
    · cases h
  · cases h

theorem parseTime_valid {s : List Char} {t : Time} (h : parseTime s = some t) :
    t.valid = true ∧ t.us = 0 := by
  unfold parseTime at h
  split at h
  · split at h
    · rename_i hh hm hs
      cases h
      have := field12_le hh; have := field12_le hm; have := field12_le hs
      simp [Time.valid]; omega
    · cases h
  · cases h

theorem parseDateTime_us {s : List Char} {x : DateTime} (h : parseDateTime s = some x) :
    x.time.us = 0 := by
  unfold parseDateTime at h
  split at h
  · simp only at h
    split at h
    · cases h
    · split at h
      · rename_i ht
        split at h
        · cases h; exact (parseTime_valid ht).2
        · cases h
      · cases h
  · cases h

/-! ## the converters return values of their class -/

theorem ofTrunc_cls {r : TruncRes} {w : Elem} (h : ofTrunc r = .ok w) : ∃ i, w = .atom (.int i) := by
  cases r <;> simp [ofTrunc] at h
  exact ⟨_, h.symm⟩

theorem intGet_cls {v w : Elem} (h : intGet v = .ok w) : HasClass .int w := by
  have : ∃ i, w = .atom (.int i) := by
    unfold intGet at h
    split at h
    · cases h; exact ⟨_, rfl⟩
    · split at h
      · cases h; exact ⟨_, rfl⟩
      · cases h; exact ⟨_, rfl⟩
      · exact ofTrunc_cls h
      · split at h
        · cases h; exact ⟨_, rfl⟩
        · split at h
          · exact ofTrunc_cls h
          · cases h
      · cases h
  obtain ⟨i, rfl⟩ := this; trivial

theorem floatGet_cls {v w : Elem} (h : floatGet v = .ok w) : HasClass .float w := by
  have : ∃ f, w = .atom (.float f) := by
    unfold floatGet at h
    split at h
    · cases h; exact ⟨_, rfl⟩
    · split at h
      · cases h; exact ⟨_, rfl⟩
      · cases h; exact ⟨_, rfl⟩
      · cases h; exact ⟨_, rfl⟩
      · split at h
        · cases h; exact ⟨_, rfl⟩
        · cases h
      · cases h
  obtain ⟨f, rfl⟩ := this; trivial

theorem booleanGet_cls {v w : Elem} (h : booleanGet v = .ok w) : HasClass .bool w := by
  have : ∃ b, w = .atom (.bool b) := by
    unfold booleanGet at h
    split at h
    · cases h; exact ⟨_, rfl⟩
    · split at h
      · simp only at h
        split at h
        · cases h; exact ⟨_, rfl⟩
        · split at h
          · cases h; exact ⟨_, rfl⟩
          · cases h
      · split at h
        · cases h; exact ⟨_, rfl⟩
        · split at h
          · cases h; exact ⟨_, rfl⟩
          · cases h
  obtain ⟨b, rfl⟩ := this; trivial

theorem strGet_cls (v : Elem) : HasClass .str (strGet v) := by
  unfold strGet; split <;> trivial

theorem timeGet_cls {now : DateTime} (hn : now.valid = true) {v w : Elem}
    (h : timeGet now v = .ok w) : HasClass .time w := by
  unfold timeGet at h
  split at h
  · cases h
    simp [DateTime.valid, Time.valid] at hn
    simp [HasClass, Time.valid]; omega
  · split at h
    · split at h
      · rename_i hp; cases h; exact parseTime_valid hp
      · cases h
    · split at h
      · rename_i hp; cases h; exact parseTime_valid hp
      · cases h
    · cases h

theorem dateGet_cls {now : DateTime} (hn : now.valid = true) {v w : Elem}
    (h : dateGet now v = .ok w) : HasClass .date w := by
  unfold dateGet at h
  split at h
  · cases h
    simp [DateTime.valid] at hn
    exact hn.1
  · split at h
    · split at h
      · rename_i hp; cases h; exact parseDate_valid hp
      · cases h
    · split at h
      · rename_i hp; cases h; exact parseDate_valid hp
      · cases h
    · split at h
      · rename_i hp; cases h; exact parseDate_valid hp
      · cases h
    · cases h

theorem datetimeGet_cls {now : DateTime} {v w : Elem}
    (h : datetimeGet now v = .ok w) : HasClass .datetime w := by
  unfold datetimeGet at h
  split at h
  · cases h; simp [HasClass]
  · split at h
    · cases h; simp [HasClass]
    · split at h
      · rename_i hp; cases h; exact parseDateTime_us hp
      · cases h
    · cases h

theorem tupleItems_of_split (t : List Char) :
    ∀ a ∈ ((splitOn ';' t).map strip).map Atom.str, TupleItem a := by
  intro a ha
  simp only [List.mem_map] at ha
  obtain ⟨s, ⟨piece, hp, rfl⟩, rfl⟩ := ha
  exact ⟨_, rfl, strip_idem piece, fun c hc => splitOn_mem_no_sep ';' t piece hp c (mem_strip hc)⟩

theorem tupleGet_cls {v w : Elem} {c : Option Int} (h : tupleGet v c = .ok w) :
    w = .atom .none ∨ ∃ xs, w = .seq false xs ∧ xs ≠ [] ∧ (∀ a ∈ xs, TupleItem a) ∧
      (∀ n, c = some n → (xs.length : Int) = n) := by
  unfold tupleGet at h
  split at h
  · cases h; exact Or.inl rfl
  · split at h
    · rename_i s0 _
      simp only at h
      have hne : ((splitOn ';' (slice1m1 (strip s0))).map strip).map Atom.str ≠ [] := by
        intro hc
        simp only [List.map_eq_nil_iff] at hc
        exact splitOn_ne_nil _ _ hc
      split at h
      · cases h
      · split at h
        · split at h
          · rename_i n hlen
            cases h
            refine Or.inr ⟨_, rfl, hne, tupleItems_of_split _, ?_⟩
            intro m hm
            cases hm
            simpa using hlen
          · cases h
        · cases h
          refine Or.inr ⟨_, rfl, hne, tupleItems_of_split _, ?_⟩
          intro m hm; cases hm
    · cases h

/-- `dtypes.get` returns a value of the class of the dtype (or `None` for an n-tuple). -/
theorem get_cls {now : DateTime} (hn : now.valid = true) {v w : Elem} {dtype : DType}
    (h : get now v dtype = .ok w) : HasClassW (clsOf dtype) w := by
  unfold get at h
  unfold clsOf
  split at h
  · cases h; exact (strGet_cls v).weak
  · rename_i d0
    split at h
    · rename_i he; simp only [he, ↓reduceIte]; cases h; exact (strGet_cls v).weak
    · rename_i he; simp only [he]
      simp only at h
      unfold clsOfNorm
      split at h
      · rename_i ht
        simp only [ht, ↓reduceIte]
        split at h
        · rename_i n hp
          simp only [hp]
          rcases tupleGet_cls h with rfl | ⟨xs, rfl, hne, hi, hl⟩
          · exact Or.inr ⟨⟨n, rfl⟩, rfl⟩
          · exact Or.inl ⟨hl n rfl, hne, hi⟩
        · cases h
      · rename_i ht
        simp only [ht]
        unfold convGet at h
        split at h
        · rename_i hd; simp only [hd, ↓reduceIte]; exact (intGet_cls h).weak
        · rename_i hd1
          split at h
          · rename_i hd; simp only [hd1, hd, ↓reduceIte]; exact (floatGet_cls h).weak
          · rename_i hd2
            split at h
            · rename_i hd; simp only [hd1, hd2, hd, ↓reduceIte]; exact (timeGet_cls hn h).weak
            · rename_i hd3
              split at h
              · rename_i hd; simp only [hd1, hd2, hd3, hd, ↓reduceIte]; exact (dateGet_cls hn h).weak
              · rename_i hd4
                split at h
                · rename_i hd; simp only [hd1, hd2, hd3, hd4, hd, ↓reduceIte]
                  exact (datetimeGet_cls h).weak
                · rename_i hd5
                  split at h
                  · rename_i hd; simp only [hd1, hd2, hd3, hd4, hd5, hd, ↓reduceIte]
                    exact (booleanGet_cls h).weak
                  · rename_i hd6
                    split at h
                    · rename_i hd; simp only [hd1, hd2, hd3, hd4, hd5, hd6, hd, ↓reduceIte]
                      exact Or.inl trivial
                    · rename_i hd7; simp only [hd1, hd2, hd3, hd4, hd5, hd6, hd7]
                      cases h; exact (strGet_cls v).weak

/-! ## dtype names -/

theorem toLower_idem (c : Char) : c.toLower.toLower = c.toLower := by
  unfold Char.toLower
  split
  · rename_i h
    split
    · rename_i h2
      exfalso
      simp only [ge_iff_le, UInt32.le_iff_toNat_le] at h h2
      have hA : 'A'.val.toNat = 65 := by decide
      have hZ : 'Z'.val.toNat = 90 := by decide
      have e : (c.val + ('a'.val - 'A'.val)).toNat = c.val.toNat + 32 := by
        have : ('a'.val - 'A'.val) = 32 := by decide
        rw [this, UInt32.toNat_add]
        have h3 : c.val.toNat ≤ 90 := by omega
        have : (32 : UInt32).toNat = 32 := by decide
        rw [this]
        omega
      rw [e] at h2
      omega
    · rfl
  · rename_i h; simp

theorem lower_idem (s : List Char) : lower (lower s) = lower s := by
  unfold lower
  rw [List.map_map]
  apply List.map_congr_left
  intro c _
  exact toLower_idem c

theorem normDtype_lower (s : List Char) : normDtype (lower s) = normDtype s := by
  unfold normDtype
  rw [lower_idem]

/-- an accepted dtype stays valid in the spelling that is stored -/
theorem validDType_toDType {d : DtIn} (h : validType d = true) : validDType d.toDType = true := by
  cases d with
  | none => rfl
  | other => rfl
  | str s =>
    simp only [DtIn.toDType, validDType, validType, normDtype_lower] at *
    exact h

theorem infer_valid (v : Elem) : validType (.str (inferDtype v)) = true := by
  unfold inferDtype
  simp only
  by_cases h : validType (.str (mapShorthand v.typeName)) = true
  · simp only [h, ↓reduceIte]
    by_cases h2 : (mapShorthand v.typeName == "string".toList && hasNewline v) = true
    · simp only [h2, ↓reduceIte]; decide
    · simp only [h2]; exact h
  · have h' : validType (.str (mapShorthand v.typeName)) = false := by simpa using h
    simp only [h', Bool.false_eq_true, ↓reduceIte]; decide

theorem inferIfNone_valid {dt : DType} (hd : validDType dt = true) (v0 : Elem) :
    validDType (inferIfNone dt v0) = true := by
  cases dt with
  | none => exact infer_valid v0
  | some d => exact hd

theorem inferIfNone_some (dt : DType) (v0 : Elem) : inferIfNone dt v0 ≠ none := by
  cases dt <;> simp [inferIfNone]

/-! ## states -/

/-- Invariant maintained by the implementation (weak reading: `None` allowed in n-tuples). -/
def ConformsW (s : PropState) : Prop :=
  validDType s.dtype = true ∧ (s.dtype = none → s.values = []) ∧
    ∀ v ∈ s.values, HasClassW (clsOf s.dtype) v

/-- The property's reading: every stored value has the Python type of the dtype. -/
def Conforms (s : PropState) : Prop :=
  validDType s.dtype = true ∧ (s.dtype = none → s.values = []) ∧
    ∀ v ∈ s.values, HasClass (clsOf s.dtype) v

theorem Conforms.weak {s} (h : Conforms s) : ConformsW s :=
  ⟨h.1, h.2.1, fun v hv => (h.2.2 v hv).weak⟩

theorem getAll_cls {now : DateTime} (hn : now.valid = true) {d : DType} :
    ∀ {l ws : List Elem}, getAll now d l = .ok ws → ∀ w ∈ ws, HasClassW (clsOf d) w := by
  intro l
  induction l with
  | nil => intro ws h w hw; simp [getAll] at h; subst h; cases hw
  | cons v vs ih =>
    intro ws h w hw
    unfold getAll at h
    split at h
    · cases h
    · rename_i w0 hg
      split at h
      · cases h
      · rename_i ws0 hr
        cases h
        rcases List.mem_cons.mp hw with rfl | hw
        · exact get_cls hn hg
        · exact ih hr w hw

theorem getAll_length {now : DateTime} {d : DType} :
    ∀ {l ws : List Elem}, getAll now d l = .ok ws → ws.length = l.length := by
  intro l
  induction l with
  | nil => intro ws h; simp [getAll] at h; subst h; rfl
  | cons v vs ih =>
    intro ws h
    unfold getAll at h
    split at h
    · cases h
    · split at h
      · cases h
      · rename_i ws0 hr
        cases h
        simp [ih hr]

/-- what `_validate_values` has accepted is converted without an exception -/
theorem validate_getAll {now : DateTime} {d : DType} :
    ∀ {l : List Elem}, validate now d l = true → ∃ ws, getAll now d l = .ok ws := by
  intro l
  induction l with
  | nil => intro _; exact ⟨[], rfl⟩
  | cons v vs ih =>
    intro h
    simp only [validate, List.all_cons, Bool.and_eq_true] at h
    obtain ⟨hv, hvs⟩ := h
    obtain ⟨ws, hws⟩ := ih (by simpa [validate] using hvs)
    unfold getAll
    cases hg : get now v d with
    | error e => simp [hg, isOk] at hv
    | ok w => exact ⟨w :: ws, by simp [hws]⟩

theorem getAll_validate {now : DateTime} {d : DType} :
    ∀ {l ws : List Elem}, getAll now d l = .ok ws → validate now d l = true := by
  intro l
  induction l with
  | nil => intro _ _; rfl
  | cons v vs ih =>
    intro ws h
    unfold getAll at h
    split at h
    · cases h
    · rename_i w0 hg
      split at h
      · cases h
      · rename_i ws0 hr
        simp only [validate, List.all_cons, Bool.and_eq_true]
        exact ⟨by simp [hg, isOk], by simpa [validate] using ih hr⟩

/-- The `values` setter: a refusal leaves values and dtype as they were. -/
theorem setValues_raised {now : DateTime} {s : PropState} {inp : Inp} {e : Exc}
    (h : (setValues now s inp).2 = .raised e) : (setValues now s inp).1 = s := by
  unfold setValues at h ⊢
  by_cases he : inp.isEmptyInput = true
  · simp [he] at h
  · simp only [he] at h ⊢
    cases hnv : convertValueInput inp with
    | nil => simp [hnv] at h
    | cons v0 rest =>
      simp only [hnv] at h ⊢
      by_cases hval : validate now (inferIfNone s.dtype v0)
          (importIfNeeded now (inferIfNone s.dtype v0) (v0 :: rest)) = true
      · obtain ⟨ws, hws⟩ := validate_getAll hval
        simp [hval, hws] at h
      · simp [hval]

/-- The `values` setter: an accepted assignment stores conforming values. -/
theorem setValues_ok {now : DateTime} (hn : now.valid = true) {s : PropState} {inp : Inp}
    (hd : validDType s.dtype = true) (h : (setValues now s inp).2 = .ok) :
    ConformsW (setValues now s inp).1 := by
  unfold setValues at h ⊢
  by_cases he : inp.isEmptyInput = true
  · simp only [he, ↓reduceIte]
    exact ⟨hd, fun _ => rfl, fun v hv => by cases hv⟩
  · simp only [he] at h ⊢
    cases hnv : convertValueInput inp with
    | nil =>
      simp only [Bool.false_eq_true, ↓reduceIte]
      exact ⟨hd, fun _ => rfl, fun v hv => by cases hv⟩
    | cons v0 rest =>
      simp only [hnv] at h ⊢
      by_cases hval : validate now (inferIfNone s.dtype v0)
          (importIfNeeded now (inferIfNone s.dtype v0) (v0 :: rest)) = true
      · obtain ⟨ws, hws⟩ := validate_getAll hval
        simp only [hval, hws, Bool.not_true, Bool.false_eq_true, ↓reduceIte]
        exact ⟨inferIfNone_valid hd v0, fun hc => absurd hc (inferIfNone_some _ _),
          getAll_cls hn hws⟩
      · simp [hval] at h

theorem setValues_conf {now : DateTime} (hn : now.valid = true) {s : PropState} {inp : Inp}
    (hs : ConformsW s) : ConformsW (setValues now s inp).1 := by
  cases ho : (setValues now s inp).2 with
  | ok => exact setValues_ok hn hs.1 ho
  | raised e => rw [setValues_raised ho]; exact hs

/-! ## list edits -/

theorem mem_removeFirst {x v : Elem} : ∀ {l : List Elem}, v ∈ removeFirst x l → v ∈ l := by
  intro l
  induction l with
  | nil => intro h; cases h
  | cons w ws ih =>
    intro h
    unfold removeFirst at h
    split at h
    · exact List.mem_cons_of_mem _ h
    · rcases List.mem_cons.mp h with rfl | h
      · exact List.mem_cons_self
      · exact List.mem_cons_of_mem _ (ih h)

theorem mem_pyInsert {l : List Elem} {i : Int} {x v : Elem} (h : v ∈ pyInsert l i x) :
    v ∈ l ∨ v = x := by
  unfold pyInsert at h
  simp only [List.mem_append, List.mem_singleton] at h
  rcases h with (h | h) | h
  · exact Or.inl (List.mem_of_mem_take h)
  · exact Or.inr h
  · exact Or.inl (List.mem_of_mem_drop h)

/-! ## the operations -/

theorem conf_of_values {s : PropState} {vals : List Elem} (hs : ConformsW s)
    (hne : s.dtype ≠ none) (h : ∀ v ∈ vals, v ∈ s.values ∨ HasClassW (clsOf s.dtype) v) :
    ConformsW { s with values := vals } :=
  ⟨hs.1, fun hc => absurd hc hne, fun v hv => (h v hv).elim (hs.2.2 v) id⟩

theorem addCore_raised {now : DateTime} {s : PropState} {at? : Option Int} {d : List Char}
    {strict : Bool} {nv : List Elem} {e : Exc}
    (h : (addCore now s at? d strict nv).2 = .raised e) : (addCore now s at? d strict nv).1 = s := by
  cases nv with
  | nil => rfl
  | cons v0 rest =>
    unfold addCore at h ⊢
    by_cases h5 : strictRefuses strict d v0 = true
    · simp [h5]
    · simp only [h5] at h ⊢
      by_cases h6 : validate now s.dtype (v0 :: rest) = true
      · simp only [h6] at h ⊢
        cases hg : get now v0 s.dtype with
        | ok w => simp [hg] at h
        | error e' => simp [hg]
      · simp [h6]

theorem addCore_conf {now : DateTime} (hn : now.valid = true) {s : PropState} {at? : Option Int}
    {d : List Char} {strict : Bool} {nv : List Elem} (hd : s.dtype = some d) (hs : ConformsW s) :
    ConformsW (addCore now s at? d strict nv).1 := by
  cases nv with
  | nil => exact hs
  | cons v0 rest =>
    unfold addCore
    by_cases h5 : strictRefuses strict d v0 = true
    · simp only [h5, ↓reduceIte]; exact hs
    · simp only [h5]
      by_cases h6 : validate now s.dtype (v0 :: rest) = true
      · simp only [h6]
        cases hg : get now v0 s.dtype with
        | error e' => exact hs
        | ok w =>
          have hw : HasClassW (clsOf s.dtype) w := get_cls hn hg
          simp only [Bool.not_true, Bool.false_eq_true, ↓reduceIte]
          apply conf_of_values hs (by simp [hd])
          intro v hv
          cases at? with
          | none =>
            simp only [List.mem_append, List.mem_singleton] at hv
            rcases hv with hv | rfl
            · exact Or.inl hv
            · exact Or.inr hw
          | some i =>
            rcases mem_pyInsert hv with hv | rfl
            · exact Or.inl hv
            · exact Or.inr hw
      · simp only [h6, Bool.not_false, ↓reduceIte]; exact hs

theorem addOne_raised {now : DateTime} {s : PropState} {at? : Option Int} {inp : Inp}
    {strict : Bool} {e : Exc} (h : (addOne now s at? inp strict).2 = .raised e) :
    (addOne now s at? inp strict).1 = s := by
  unfold addOne at h ⊢
  by_cases h1 : inp.isBlank = true
  · simp [h1] at h
  · simp only [h1] at h ⊢
    by_cases h2 : s.values.isEmpty = true
    · simp only [h2, ↓reduceIte] at h ⊢; exact setValues_raised h
    · simp only [h2] at h ⊢
      by_cases h3 : (convertValueInput inp).length > 1
      · simp [h3]
      · simp only [h3] at h ⊢
        by_cases h4 : (convertValueInput inp).isEmpty = true
        · simp [h4] at h
        · simp only [h4] at h ⊢
          cases hd : s.dtype with
          | none => rfl
          | some d =>
            simp only [hd] at h ⊢
            exact addCore_raised h

theorem addOne_conf {now : DateTime} (hn : now.valid = true) {s : PropState} {at? : Option Int}
    {inp : Inp} {strict : Bool} (hs : ConformsW s) : ConformsW (addOne now s at? inp strict).1 := by
  unfold addOne
  by_cases h1 : inp.isBlank = true
  · simp only [h1, ↓reduceIte]; exact hs
  · simp only [h1]
    by_cases h2 : s.values.isEmpty = true
    · simp only [h2, ↓reduceIte]; exact setValues_conf hn hs
    · simp only [h2]
      by_cases h3 : (convertValueInput inp).length > 1
      · simp only [h3, ↓reduceIte]; exact hs
      · simp only [h3]
        by_cases h4 : (convertValueInput inp).isEmpty = true
        · simp only [h4, ↓reduceIte]; exact hs
        · simp only [h4]
          cases hd : s.dtype with
          | none => exact hs
          | some d => exact addCore_conf hn hd hs

theorem extendCore_raised {now : DateTime} {s : PropState} {d : List Char} {strict : Bool}
    {nv : List Elem} {e : Exc} (h : (extendCore now s d strict nv).2 = .raised e) :
    (extendCore now s d strict nv).1 = s := by
  unfold extendCore at h ⊢
  by_cases hr : firstRefuses strict d nv = true
  · simp [hr]
  · simp only [hr] at h ⊢
    by_cases hv : validate now s.dtype nv = true
    · simp only [hv] at h ⊢
      cases hg : getAll now s.dtype nv with
      | ok ws => simp [hg] at h
      | error e' => simp [hg]
    · simp [hv]

theorem extendCore_conf {now : DateTime} (hn : now.valid = true) {s : PropState} {d : List Char}
    {strict : Bool} {nv : List Elem} (hd : s.dtype = some d) (hs : ConformsW s) :
    ConformsW (extendCore now s d strict nv).1 := by
  unfold extendCore
  by_cases hr : firstRefuses strict d nv = true
  · simp only [hr, ↓reduceIte]; exact hs
  · simp only [hr]
    by_cases hv : validate now s.dtype nv = true
    · simp only [hv]
      cases hg : getAll now s.dtype nv with
      | error e' => exact hs
      | ok ws =>
        simp only [Bool.not_true, Bool.false_eq_true, ↓reduceIte]
        apply conf_of_values hs (by simp [hd])
        intro v hvm
        simp only [List.mem_append] at hvm
        rcases hvm with hvm | hvm
        · exact Or.inl hvm
        · exact Or.inr (getAll_cls hn hg v hvm)
    · simp only [hv, Bool.not_false, ↓reduceIte]; exact hs

theorem extend_raised {now : DateTime} {s : PropState} {inp : Inp} {strict : Bool} {e : Exc}
    (h : (extend now s inp strict).2 = .raised e) : (extend now s inp strict).1 = s := by
  unfold extend at h ⊢
  by_cases h2 : s.values.isEmpty = true
  · simp only [h2, ↓reduceIte] at h ⊢; exact setValues_raised h
  · simp only [h2] at h ⊢
    cases hd : s.dtype with
    | none => rfl
    | some d =>
      simp only [hd] at h ⊢
      exact extendCore_raised h

theorem extend_conf {now : DateTime} (hn : now.valid = true) {s : PropState} {inp : Inp}
    {strict : Bool} (hs : ConformsW s) : ConformsW (extend now s inp strict).1 := by
  unfold extend
  by_cases h2 : s.values.isEmpty = true
  · simp only [h2, ↓reduceIte]; exact setValues_conf hn hs
  · simp only [h2]
    cases hd : s.dtype with
    | none => exact hs
    | some d => exact extendCore_conf hn hd hs

theorem setItem_raised {now : DateTime} {s : PropState} {k : Int} {item : Elem} {e : Exc}
    (h : (setItem now s k item).2 = .raised e) : (setItem now s k item).1 = s := by
  unfold setItem at h ⊢
  split
  · rfl
  · rename_i hk
    simp only [hk] at h
    split
    · rfl
    · rename_i w hg
      simp only [hg] at h
      split
      · rfl
      · rename_i hk2; simp [hk2] at h

theorem setItem_conf {now : DateTime} (hn : now.valid = true) {s : PropState} {k : Int}
    {item : Elem} (hs : ConformsW s) : ConformsW (setItem now s k item).1 := by
  cases ho : (setItem now s k item).2 with
  | raised e => rw [setItem_raised ho]; exact hs
  | ok =>
    unfold setItem at ho ⊢
    split
    · exact hs
    · rename_i hk
      simp only [hk] at ho
      split
      · exact hs
      · rename_i w hg
        simp only [hg] at ho
        split
        · exact hs
        · rename_i hk2
          have hne : s.dtype ≠ none := by
            intro hc
            have := hs.2.1 hc
            simp [this] at hk hk2
            omega
          apply conf_of_values hs hne
          intro v hv
          rcases List.mem_or_eq_of_mem_set hv with hv | rfl
          · exact Or.inl hv
          · exact Or.inr (get_cls hn hg)

theorem setDtype_raised {now : DateTime} {s : PropState} {d : DtIn} {e : Exc}
    (h : (setDtype now s d).2 = .raised e) : (setDtype now s d).1 = s := by
  unfold setDtype at h ⊢
  by_cases hv : validType d = true
  · simp only [hv, Bool.not_true, Bool.false_eq_true, ↓reduceIte] at h ⊢
    cases hr : (setValues now { s with dtype := d.toDType } (.seq false s.values)).2 with
    | ok => simp [hr] at h
    | raised e' =>
      simp only [hr]
      rw [setValues_raised hr]
  · simp [hv]

theorem setDtype_conf {now : DateTime} (hn : now.valid = true) {s : PropState} {d : DtIn}
    (hs : ConformsW s) : ConformsW (setDtype now s d).1 := by
  cases ho : (setDtype now s d).2 with
  | raised e => rw [setDtype_raised ho]; exact hs
  | ok =>
    unfold setDtype at ho ⊢
    by_cases hv : validType d = true
    · simp only [hv, Bool.not_true, Bool.false_eq_true, ↓reduceIte] at ho ⊢
      cases hr : (setValues now { s with dtype := d.toDType } (.seq false s.values)).2 with
      | raised e' => simp [hr] at ho
      | ok =>
        simp only [hr]
        exact setValues_ok hn (validDType_toDType hv) hr
    · simp [hv] at ho

theorem merge_raised {now : DateTime} {s : PropState} {ov : List Elem} {od : DType} {strict : Bool}
    {e : Exc} (h : (merge now s ov od strict).2 = .raised e) : (merge now s ov od strict).1 = s := by
  unfold merge at h ⊢
  split
  · rfl
  · rename_i h1
    simp only [h1] at h
    split
    · rfl
    · rename_i h2
      simp only [h2] at h
      exact extend_raised h

theorem merge_conf {now : DateTime} (hn : now.valid = true) {s : PropState} {ov : List Elem}
    {od : DType} {strict : Bool} (hs : ConformsW s) : ConformsW (merge now s ov od strict).1 := by
  unfold merge
  split
  · exact hs
  · split
    · exact hs
    · exact extend_conf hn hs

theorem step_raised {now : DateTime} {s : PropState} {op : Op} {e : Exc}
    (h : (step now s op).2 = .raised e) : (step now s op).1 = s := by
  cases op with
  | setValues v => exact setValues_raised h
  | setDtype d => exact setDtype_raised h
  | append v strict => exact addOne_raised h
  | insert i v strict => exact addOne_raised h
  | extend v strict => exact extend_raised h
  | extendProp vals su =>
    simp only [step] at h ⊢
    split
    · rfl
    · rename_i hsu
      simp only [hsu] at h
      exact extend_raised h
  | setItem k v => exact setItem_raised h
  | remove v => simp [step] at h
  | merge ov od strict => exact merge_raised h
  | clone =>
    simp only [step] at h ⊢
    cases hr : (setValues now s (.seq false s.values)).2 with
    | ok => simp [hr] at h
    | raised e' => simp [hr]

theorem step_conf {now : DateTime} (hn : now.valid = true) {s : PropState} {op : Op}
    (hs : ConformsW s) : ConformsW (step now s op).1 := by
  cases op with
  | setValues v => exact setValues_conf hn hs
  | setDtype d => exact setDtype_conf hn hs
  | append v strict => exact addOne_conf hn hs
  | insert i v strict => exact addOne_conf hn hs
  | extend v strict => exact extend_conf hn hs
  | extendProp vals su =>
    simp only [step]
    split
    · exact hs
    · exact extend_conf hn hs
  | setItem k v => exact setItem_conf hn hs
  | remove v =>
    simp only [step]
    split
    · exact ⟨hs.1, fun hc => by simp [hs.2.1 hc, removeFirst],
        fun w hw => hs.2.2 w (mem_removeFirst hw)⟩
    · exact hs
  | merge ov od strict => exact merge_conf hn hs
  | clone =>
    simp only [step]
    cases hr : (setValues now s (.seq false s.values)).2 with
    | ok => simp only [hr]; exact setValues_conf hn hs
    | raised e' => simp only [hr]; exact hs

/-! ## format / parse round trips of the three odML formats -/

theorem dc_facts : ∀ j, j < 10 →
    (Char.ofNat (48 + j)).isDigit = true ∧ ((Char.ofNat (48 + j)) == '-') = false ∧
    ((Char.ofNat (48 + j)) == ':') = false ∧ ((Char.ofNat (48 + j)) == ' ') = false ∧
    dval (Char.ofNat (48 + j)) = j ∧ isSpace (Char.ofNat (48 + j)) = false := by decide

theorem dc_isDigit (k : Nat) : (digitChar k).isDigit = true := (dc_facts (k % 10) (Nat.mod_lt _ (by omega))).1
theorem dc_ne_dash (k : Nat) : (digitChar k == '-') = false := (dc_facts (k % 10) (Nat.mod_lt _ (by omega))).2.1
theorem dc_ne_colon (k : Nat) : (digitChar k == ':') = false := (dc_facts (k % 10) (Nat.mod_lt _ (by omega))).2.2.1
theorem dc_ne_space (k : Nat) : (digitChar k == ' ') = false := (dc_facts (k % 10) (Nat.mod_lt _ (by omega))).2.2.2.1
theorem dc_dval (k : Nat) : dval (digitChar k) = k % 10 := (dc_facts (k % 10) (Nat.mod_lt _ (by omega))).2.2.2.2.1
theorem dc_not_space (k : Nat) : isSpace (digitChar k) = false := (dc_facts (k % 10) (Nat.mod_lt _ (by omega))).2.2.2.2.2

theorem field12_pad2 {lo hi n : Nat} (h1 : lo ≤ n) (h2 : n ≤ hi) (h3 : n < 100) :
    field12 lo hi (pad2 n) = some n := by
  have e : 10 * (n / 10 % 10) + n % 10 = n := by omega
  simp [field12, pad2, dc_isDigit, dc_dval, e, h1, h2]

theorem fieldDay_pad2 {n : Nat} (h1 : 1 ≤ n) (h2 : n ≤ 31) : fieldDay (pad2 n) = some n := by
  unfold fieldDay pad2
  split
  · rename_i b heq
    simp only [List.cons.injEq, and_true] at heq
    have := dc_ne_space (n / 10)
    simp [heq.1] at this
  · exact field12_pad2 h1 h2 (by omega)

theorem fieldYear_pad4 {y : Nat} (h : y ≤ 9999) : fieldYear (pad4 y) = some y := by
  have e : 1000 * (y / 1000 % 10) + 100 * (y / 100 % 10) + 10 * (y / 10 % 10) + y % 10 = y := by omega
  simp [fieldYear, pad4, dc_isDigit, dc_dval, e]

theorem splitOn_date (a b c : List Char) (ha : ∀ x ∈ a, (x == '-') = false)
    (hb : ∀ x ∈ b, (x == '-') = false) (hc : ∀ x ∈ c, (x == '-') = false) :
    splitOn '-' (a ++ ['-'] ++ b ++ ['-'] ++ c) = [a, b, c] := by
  have := splitOn_append_sep '-' a (b ++ '-' :: c) ha
  have h2 := splitOn_append_sep '-' b c hb
  have h3 := splitOn_no_sep '-' c hc
  have e : a ++ ['-'] ++ b ++ ['-'] ++ c = a ++ '-' :: (b ++ '-' :: c) := by simp
  rw [e, this, h2, h3]

theorem parseDate_iso {d : Date} (h : d.valid = true) : parseDate d.iso = some d := by
  simp only [Date.valid, Bool.and_eq_true, decide_eq_true_eq] at h
  obtain ⟨⟨⟨⟨⟨h1, h2⟩, h3⟩, h4⟩, h5⟩, h6⟩ := h
  have hdim : daysInMonth d.y d.m ≤ 31 := by unfold daysInMonth; split <;> (try split) <;> omega
  unfold parseDate Date.iso
  rw [splitOn_date]
  · simp only [fieldYear_pad4 h2, field12_pad2 h3 h4 (by omega), fieldDay_pad2 h5 (by omega)]
    simp [mkDate, Date.valid, h1, h2, h3, h4, h5, h6]
  · intro x hx; simp [pad4] at hx; rcases hx with rfl | rfl | rfl | rfl <;> exact dc_ne_dash _
  · intro x hx; simp [pad2] at hx; rcases hx with rfl | rfl <;> exact dc_ne_dash _
  · intro x hx; simp [pad2] at hx; rcases hx with rfl | rfl <;> exact dc_ne_dash _
theorem splitOn_time (a b c : List Char) (ha : ∀ x ∈ a, (x == ':') = false)
    (hb : ∀ x ∈ b, (x == ':') = false) (hc : ∀ x ∈ c, (x == ':') = false) :
    splitOn ':' (a ++ [':'] ++ b ++ [':'] ++ c) = [a, b, c] := by
  have := splitOn_append_sep ':' a (b ++ ':' :: c) ha
  have h2 := splitOn_append_sep ':' b c hb
  have h3 := splitOn_no_sep ':' c hc
  have e : a ++ [':'] ++ b ++ [':'] ++ c = a ++ ':' :: (b ++ ':' :: c) := by simp
  rw [e, this, h2, h3]

theorem parseTime_hms {t : Time} (h : t.valid = true) : parseTime t.hms = some { t with us := 0 } := by
  simp only [Time.valid, Bool.and_eq_true, decide_eq_true_eq] at h
  obtain ⟨⟨⟨h1, h2⟩, h3⟩, h4⟩ := h
  unfold parseTime Time.hms
  rw [splitOn_time]
  · simp only [field12_pad2 (Nat.zero_le _) (show t.h ≤ 23 by omega) (by omega),
      field12_pad2 (Nat.zero_le _) (show t.mi ≤ 59 by omega) (by omega),
      field12_pad2 (Nat.zero_le _) (show t.s ≤ 59 by omega) (by omega)]
  · intro x hx; simp [pad2] at hx; rcases hx with rfl | rfl <;> exact dc_ne_colon _
  · intro x hx; simp [pad2] at hx; rcases hx with rfl | rfl <;> exact dc_ne_colon _
  · intro x hx; simp [pad2] at hx; rcases hx with rfl | rfl <;> exact dc_ne_colon _

theorem hms_no_dash (t : Time) : ∀ x ∈ t.hms, (x == '-') = false := by
  intro x hx
  simp [Time.hms, pad2] at hx
  rcases hx with rfl | rfl | rfl | rfl | rfl | rfl | rfl | rfl
  all_goals first | exact dc_ne_dash _ | decide

theorem parseDateTime_str {x : DateTime} (h : x.valid = true) (hus : x.time.us = 0) :
    parseDateTime x.str = some x := by
  simp only [DateTime.valid, Bool.and_eq_true] at h
  obtain ⟨hd, ht⟩ := h
  have hd' := hd
  simp only [Date.valid, Bool.and_eq_true, decide_eq_true_eq] at hd'
  obtain ⟨⟨⟨⟨⟨h1, h2⟩, h3⟩, h4⟩, h5⟩, h6⟩ := hd'
  have hdim : daysInMonth x.date.y x.date.m ≤ 31 := by unfold daysInMonth; split <;> (try split) <;> omega
  have hiso : x.time.iso = x.time.hms := by simp [Time.iso, hus]
  unfold parseDateTime DateTime.str Date.iso
  rw [hiso]
  have e : pad4 x.date.y ++ ['-'] ++ pad2 x.date.m ++ ['-'] ++ pad2 x.date.d ++ [' '] ++ x.time.hms
      = pad4 x.date.y ++ ['-'] ++ pad2 x.date.m ++ ['-'] ++ (pad2 x.date.d ++ ' ' :: x.time.hms) := by simp
  rw [e, splitOn_date]
  · have hrest : pad2 x.date.d ++ ' ' :: x.time.hms =
        digitChar (x.date.d / 10) :: digitChar x.date.d :: ' ' :: x.time.hms := by simp [pad2]
    simp only [hrest]
    have hne : digitChar (x.date.d / 10) ≠ ' ' := by
      have := dc_ne_space (x.date.d / 10); simpa using this
    have hlead : dayLead (digitChar (x.date.d / 10) :: digitChar x.date.d :: ' ' :: x.time.hms) =
        ([], digitChar (x.date.d / 10) :: digitChar x.date.d :: ' ' :: x.time.hms) := by
      unfold dayLead
      split
      · rename_i q heq
        simp only [List.cons.injEq] at heq
        exact absurd heq.1 hne
      · rfl
    have hsp : isSpace ' ' = true := by decide
    have hhead : lstrip x.time.hms = x.time.hms := by
      simp only [Time.hms, pad2, List.cons_append, List.nil_append]
      exact lstrip_of_head (dc_not_space _)
    have hl : lstrip (' ' :: x.time.hms) = x.time.hms := by
      simp [lstrip, hsp, hhead]
    simp only [hlead, List.nil_append, List.takeWhile_cons, List.dropWhile_cons, dc_not_space, hsp,
        Bool.not_false, Bool.not_true, ↓reduceIte, Bool.false_eq_true, hl]
    · 
      have hd2 : fieldDay [digitChar (x.date.d / 10), digitChar x.date.d] = some x.date.d :=
        fieldDay_pad2 h5 (by omega)
      simp only [fieldYear_pad4 h2, field12_pad2 h3 h4 (by omega), hd2, parseTime_hms ht]
      have hm : mkDate x.date.y x.date.m x.date.d = some x.date := by
        simp [mkDate, hd]
      simp only [hm]
      cases x with
      | mk d t => cases t with
        | mk hh mm ss us => simp at hus; simp [hus]
  · intro c hc; simp [pad4] at hc; rcases hc with rfl | rfl | rfl | rfl <;> exact dc_ne_dash _
  · intro c hc; simp [pad2] at hc; rcases hc with rfl | rfl <;> exact dc_ne_dash _
  · intro c hc
    simp only [List.mem_append, List.mem_cons] at hc
    rcases hc with hc | rfl | hc
    · simp [pad2] at hc; rcases hc with rfl | rfl <;> exact dc_ne_dash _
    · decide
    · exact hms_no_dash _ c hc

/-! ## normal form: a stored value converts to itself -/

theorem strGet_str (s : List Char) : strGet (.atom (.str s)) = .atom (.str s) := by
  unfold strGet
  by_cases h : s.isEmpty = true
  · have : s = [] := by simpa using h
    subst this; rfl
  · simp [Elem.isBlank, h, sAtom, Elem.pyStr, Atom.pyStr]

theorem booleanGet_bool (b : Bool) : booleanGet (.atom (.bool b)) = .ok (.atom (.bool b)) := by
  cases b <;> rfl

theorem timeGet_time {now : DateTime} {t : Time} (hv : t.valid = true) (hus : t.us = 0) :
    timeGet now (.atom (.time t)) = .ok (.atom (.time t)) := by
  simp only [timeGet, noneOrEmpty, Bool.false_eq_true, ↓reduceIte, parseTime_hms hv]
  cases t; simp at hus; simp [hus]

theorem dateGet_date {now : DateTime} {d : Date} (hv : d.valid = true) :
    dateGet now (.atom (.date d)) = .ok (.atom (.date d)) := by
  simp only [dateGet, noneOrEmpty, Bool.false_eq_true, ↓reduceIte, parseDate_iso hv]

theorem datetimeGet_datetime {now : DateTime} {x : DateTime} (hus : x.time.us = 0) :
    datetimeGet now (.atom (.datetime x)) = .ok (.atom (.datetime x)) := by
  simp only [datetimeGet, noneOrEmpty, Bool.false_eq_true, ↓reduceIte]
  cases x with
  | mk d t => cases t; simp at hus; simp [hus]

theorem hasClass_int {v} (h : HasClass .int v) : ∃ i, v = .atom (.int i) := by
  cases v with
  | atom a => cases a <;> simp [HasClass] at h ⊢
  | seq t xs => simp [HasClass] at h
theorem hasClass_float {v} (h : HasClass .float v) : ∃ i, v = .atom (.float i) := by
  cases v with
  | atom a => cases a <;> simp [HasClass] at h ⊢
  | seq t xs => simp [HasClass] at h
theorem hasClass_bool {v} (h : HasClass .bool v) : ∃ i, v = .atom (.bool i) := by
  cases v with
  | atom a => cases a <;> simp [HasClass] at h ⊢
  | seq t xs => simp [HasClass] at h
theorem hasClass_str {v} (h : HasClass .str v) : ∃ i, v = .atom (.str i) := by
  cases v with
  | atom a => cases a <;> simp [HasClass] at h ⊢
  | seq t xs => simp [HasClass] at h
theorem hasClass_date {v} (h : HasClass .date v) : ∃ d, v = .atom (.date d) ∧ d.valid = true := by
  cases v with
  | atom a => cases a <;> simp [HasClass] at h ⊢; exact h
  | seq t xs => simp [HasClass] at h
theorem hasClass_time {v} (h : HasClass .time v) :
    ∃ t, v = .atom (.time t) ∧ t.valid = true ∧ t.us = 0 := by
  cases v with
  | atom a => cases a <;> simp [HasClass] at h ⊢; exact h
  | seq t xs => simp [HasClass] at h
theorem hasClass_datetime {v} (h : HasClass .datetime v) :
    ∃ x, v = .atom (.datetime x) ∧ x.time.us = 0 := by
  cases v with
  | atom a => cases a <;> simp [HasClass] at h ⊢; exact h
  | seq t xs => simp [HasClass] at h

/-- A value of the class of a (non-tuple) dtype is a fixed point of `dtypes.get`. -/
theorem get_fixpoint {now : DateTime} {v : Elem} {dtype : DType}
    (h : HasClass (clsOf dtype) v) (hnt : ∀ n, clsOf dtype ≠ .tuple n) (hna : clsOf dtype ≠ .any) :
    get now v dtype = .ok v := by
  unfold get
  unfold clsOf at h hnt hna
  cases dtype with
  | none =>
    obtain ⟨s, rfl⟩ := hasClass_str h
    simp [strGet_str]
  | some d0 =>
    simp only at h hnt hna ⊢
    by_cases he : d0.isEmpty = true
    · simp only [he, ↓reduceIte] at h ⊢
      obtain ⟨s, rfl⟩ := hasClass_str h
      simp [strGet_str]
    · simp only [he] at h hnt hna ⊢
      unfold clsOfNorm at h hnt hna
      by_cases ht : endsWithTuple (normDtype d0) = true
      · simp only [ht, ↓reduceIte] at hnt hna
        cases hp : parseInt ((normDtype d0).take ((normDtype d0).length - 6)) with
        | none => simp [hp] at hna
        | some n => simp [hp] at hnt
      · simp only [ht] at h ⊢
        unfold convGet
        by_cases h1 : (normDtype d0 == "int".toList) = true
        · simp only [h1, ↓reduceIte] at h ⊢
          obtain ⟨i, rfl⟩ := hasClass_int h; rfl
        · simp only [h1] at h ⊢
          by_cases h2 : (normDtype d0 == "float".toList) = true
          · simp only [h2, ↓reduceIte] at h ⊢
            obtain ⟨i, rfl⟩ := hasClass_float h; rfl
          · simp only [h2] at h ⊢
            by_cases h3 : (normDtype d0 == "time".toList) = true
            · simp only [h3, ↓reduceIte] at h ⊢
              obtain ⟨t, rfl, hv, hus⟩ := hasClass_time h
              exact timeGet_time (now := now) hv hus
            · simp only [h3] at h ⊢
              by_cases h4 : (normDtype d0 == "date".toList) = true
              · simp only [h4, ↓reduceIte] at h ⊢
                obtain ⟨d, rfl, hv⟩ := hasClass_date h
                exact dateGet_date (now := now) hv
              · simp only [h4] at h ⊢
                by_cases h5 : (normDtype d0 == "datetime".toList) = true
                · simp only [h5, ↓reduceIte] at h ⊢
                  obtain ⟨x, rfl, hus⟩ := hasClass_datetime h
                  exact datetimeGet_datetime (now := now) hus
                · simp only [h5] at h ⊢
                  by_cases h6 : (normDtype d0 == "boolean".toList || normDtype d0 == "bool".toList) = true
                  · simp only [h6, ↓reduceIte] at h ⊢
                    obtain ⟨b, rfl⟩ := hasClass_bool h
                    exact booleanGet_bool b
                  · simp only [h6] at h hna ⊢
                    by_cases h7 : (normDtype d0 == "tuple".toList) = true
                    · simp only [ht, h1, h2, h3, h4, h5, h6, h7, if_true, if_false, ↓reduceIte] at hna
                      exact absurd rfl hna
                    · simp only [h7] at h ⊢
                      obtain ⟨s, rfl⟩ := hasClass_str h
                      simp [strGet_str]

theorem getAll_fixpoint {now : DateTime} {dtype : DType}
    (hnt : ∀ n, clsOf dtype ≠ .tuple n) (hna : clsOf dtype ≠ .any) :
    ∀ {l : List Elem}, (∀ v ∈ l, HasClass (clsOf dtype) v) → getAll now dtype l = .ok l := by
  intro l
  induction l with
  | nil => intro _; rfl
  | cons v vs ih =>
    intro h
    unfold getAll
    rw [get_fixpoint (h v List.mem_cons_self) hnt hna, ih (fun w hw => h w (List.mem_cons_of_mem _ hw))]

/-- Assigning a Property its own values gives the same values (non-tuple dtypes). -/
theorem setValues_self {now : DateTime} {s : PropState} (hs : Conforms s)
    (hnt : ∀ n, clsOf s.dtype ≠ .tuple n) (hna : clsOf s.dtype ≠ .any) :
    setValues now s (.seq false s.values) = (s, .ok) := by
  unfold setValues
  cases hv : s.values with
  | nil =>
    simp only [Inp.isEmptyInput, List.isEmpty_nil, ↓reduceIte]
    cases s; simp at hv; simp [hv]
  | cons v0 rest =>
    simp only [Inp.isEmptyInput, List.isEmpty_cons, Bool.false_eq_true, ↓reduceIte,
      convertValueInput]
    have hd : inferIfNone s.dtype v0 = s.dtype := by
      cases hdt : s.dtype with
      | none => have := hs.2.1 hdt; simp [hv] at this
      | some d => rfl
    have hall : getAll now s.dtype (v0 :: rest) = .ok (v0 :: rest) :=
      getAll_fixpoint hnt hna (by rw [← hv]; exact hs.2.2)
    have hval := getAll_validate hall
    simp only [hd, importIfNeeded, hval, Bool.not_true, Bool.and_false, Bool.false_eq_true,
      ↓reduceIte, hall]
    cases s; simp at hv; simp [hv]

/-! ## what an accepted `values=` stores -/

theorem setValues_ok_dtype {now : DateTime} {s : PropState} {inp : Inp}
    (h : (setValues now s inp).2 = .ok) (hne : s.dtype ≠ none) :
    (setValues now s inp).1.dtype = s.dtype := by
  unfold setValues at h ⊢
  by_cases he : inp.isEmptyInput = true
  · simp [he]
  · simp only [he] at h ⊢
    cases hnv : convertValueInput inp with
    | nil => simp
    | cons v0 rest =>
      simp only [hnv] at h ⊢
      have hd : inferIfNone s.dtype v0 = s.dtype := by
        cases hdt : s.dtype with
        | none => exact absurd hdt hne
        | some d => rfl
      by_cases hval : validate now (inferIfNone s.dtype v0)
          (importIfNeeded now (inferIfNone s.dtype v0) (v0 :: rest)) = true
      · obtain ⟨ws, hws⟩ := validate_getAll hval
        simp only [hval, hws, Bool.not_true, Bool.false_eq_true, ↓reduceIte]
        exact hd
      · simp [hval] at h

theorem setValues_ok_length {now : DateTime} {s : PropState} {l : List Elem}
    (h : (setValues now s (.seq false l)).2 = .ok)
    (hraw : isTupleRaw (setValues now s (.seq false l)).1.dtype = false) :
    (setValues now s (.seq false l)).1.values.length = l.length := by
  unfold setValues at h hraw ⊢
  cases l with
  | nil => simp [Inp.isEmptyInput]
  | cons v0 rest =>
    simp only [Inp.isEmptyInput, List.isEmpty_cons, Bool.false_eq_true, ↓reduceIte,
      convertValueInput] at h hraw ⊢
    by_cases hval : validate now (inferIfNone s.dtype v0)
        (importIfNeeded now (inferIfNone s.dtype v0) (v0 :: rest)) = true
    · obtain ⟨ws, hws⟩ := validate_getAll hval
      simp only [hval, hws, Bool.not_true, Bool.false_eq_true, ↓reduceIte] at hraw ⊢
      have hl := getAll_length hws
      simp only [importIfNeeded, hraw, Bool.false_and, Bool.false_eq_true, ↓reduceIte] at hl
      exact hl
    · simp [hval] at h

/-! ## a refusal of a value is a `ValueError` -/

theorem convert_ne_nil {inp : Inp} (h : inp.isEmptyInput = false) : convertValueInput inp ≠ [] := by
  cases inp with
  | seq t xs =>
    simp only [Inp.isEmptyInput] at h
    simp only [convertValueInput]
    intro hc; simp [hc] at h
  | one a =>
    cases a with
    | str s =>
      simp only [Inp.isEmptyInput] at h
      simp only [convertValueInput, h, Bool.false_eq_true, ↓reduceIte]
      split
      · intro hc
        simp only [List.map_eq_nil_iff] at hc
        exact splitOn_ne_nil _ _ hc
      · simp
    | none => simp [Inp.isEmptyInput] at h
    | _ => simp [convertValueInput]

theorem tupleImport_ne_nil {n : Nat} {vals : List Elem} (h : vals ≠ []) : tupleImport n vals ≠ [] := by
  unfold tupleImport
  simp only
  split
  · exact h
  · rename_i hr
    intro hc; simp [hc] at hr

theorem importAlways_ne_nil {d : List Char} {vals : List Elem} (h : vals ≠ []) :
    importAlways d vals ≠ [] := by
  unfold importAlways
  split
  · exact tupleImport_ne_nil h
  · exact h

theorem setValues_raised_value {now : DateTime} {s : PropState} {inp : Inp} {e : Exc}
    (h : (setValues now s inp).2 = .raised e) : e = .value := by
  unfold setValues at h
  by_cases he : inp.isEmptyInput = true
  · simp [he] at h
  · simp only [he] at h
    cases hnv : convertValueInput inp with
    | nil => exact absurd hnv (convert_ne_nil (by simpa using he))
    | cons v0 rest =>
      simp only [hnv] at h
      by_cases hval : validate now (inferIfNone s.dtype v0)
          (importIfNeeded now (inferIfNone s.dtype v0) (v0 :: rest)) = true
      · obtain ⟨ws, hws⟩ := validate_getAll hval
        simp [hval, hws] at h
      · simp [hval] at h; exact h.symm

theorem addCore_raised_value {now : DateTime} {s : PropState} {at? : Option Int} {d : List Char}
    {strict : Bool} {nv : List Elem} {e : Exc} (hne : nv ≠ [])
    (h : (addCore now s at? d strict nv).2 = .raised e) : e = .value := by
  cases nv with
  | nil => exact absurd rfl hne
  | cons v0 rest =>
    unfold addCore at h
    by_cases h5 : strictRefuses strict d v0 = true
    · simp [h5] at h; exact h.symm
    · simp only [h5] at h
      by_cases h6 : validate now s.dtype (v0 :: rest) = true
      · simp only [h6] at h
        have h6' := h6
        simp only [validate, List.all_cons, Bool.and_eq_true] at h6'
        cases hg : get now v0 s.dtype with
        | ok w => simp [hg] at h
        | error e' => simp [hg, isOk] at h6'
      · simp [h6] at h; exact h.symm

theorem addOne_raised_value {now : DateTime} {s : PropState} {at? : Option Int} {inp : Inp}
    {strict : Bool} {e : Exc} (hs : ConformsW s)
    (h : (addOne now s at? inp strict).2 = .raised e) : e = .value := by
  unfold addOne at h
  by_cases h1 : inp.isBlank = true
  · simp [h1] at h
  · simp only [h1] at h
    by_cases h2 : s.values.isEmpty = true
    · simp only [h2, ↓reduceIte] at h; exact setValues_raised_value h
    · simp only [h2] at h
      by_cases h3 : (convertValueInput inp).length > 1
      · simp [h3] at h; exact h.symm
      · simp only [h3] at h
        by_cases h4 : (convertValueInput inp).isEmpty = true
        · simp [h4] at h
        · simp only [h4] at h
          cases hd : s.dtype with
          | none => have := hs.2.1 hd; simp [this] at h2
          | some d =>
            simp only [hd] at h
            exact addCore_raised_value (importAlways_ne_nil (by
              intro hc; simp [hc] at h4)) h

theorem extendCore_raised_value {now : DateTime} {s : PropState} {d : List Char} {strict : Bool}
    {nv : List Elem} {e : Exc} (h : (extendCore now s d strict nv).2 = .raised e) : e = .value := by
  unfold extendCore at h
  by_cases hr : firstRefuses strict d nv = true
  · simp [hr] at h; exact h.symm
  · simp only [hr] at h
    by_cases hv : validate now s.dtype nv = true
    · obtain ⟨ws, hws⟩ := validate_getAll hv
      simp [hv, hws] at h
    · simp [hv] at h; exact h.symm

theorem extend_raised_value {now : DateTime} {s : PropState} {inp : Inp} {strict : Bool} {e : Exc}
    (hs : ConformsW s) (h : (extend now s inp strict).2 = .raised e) : e = .value := by
  unfold extend at h
  by_cases h2 : s.values.isEmpty = true
  · simp only [h2, ↓reduceIte] at h; exact setValues_raised_value h
  · simp only [h2] at h
    cases hd : s.dtype with
    | none => have := hs.2.1 hd; simp [this] at h2
    | some d =>
      simp only [hd] at h
      exact extendCore_raised_value h

/-- The exception of a refused call: `ValueError`, except `AttributeError` for an invalid dtype
    name and `IndexError` for an item index outside `0..len`. -/
theorem step_raised_class {now : DateTime} {s : PropState} {op : Op} {e : Exc} (hs : ConformsW s)
    (h : (step now s op).2 = .raised e) :
    e = .value ∨ (∃ d, op = .setDtype d ∧ validType d = false ∧ e = .attr) ∨
      (∃ k v, op = .setItem k v ∧ (k < 0 ∨ k > s.values.length) ∧ e = .index) := by
  cases op with
  | setValues v => exact Or.inl (setValues_raised_value h)
  | setDtype d =>
    simp only [step] at h
    unfold setDtype at h
    by_cases hv : validType d = true
    · simp only [hv, Bool.not_true, Bool.false_eq_true, ↓reduceIte] at h
      cases hr : (setValues now { s with dtype := d.toDType } (.seq false s.values)).2 with
      | ok => simp [hr] at h
      | raised e' => simp [hr] at h; exact Or.inl h.symm
    · simp [hv] at h
      exact Or.inr (Or.inl ⟨d, rfl, by simpa using hv, h.symm⟩)
  | append v strict => exact Or.inl (addOne_raised_value hs h)
  | insert i v strict => exact Or.inl (addOne_raised_value hs h)
  | extend v strict => exact Or.inl (extend_raised_value hs h)
  | extendProp vals su =>
    simp only [step] at h
    by_cases hsu : su = true
    · simp only [hsu, Bool.not_true, Bool.false_eq_true, ↓reduceIte] at h
      exact Or.inl (extend_raised_value hs h)
    · simp [hsu] at h; exact Or.inl h.symm
  | setItem k v =>
    simp only [step] at h
    unfold setItem at h
    by_cases hk : (k < 0 || k > (s.values.length : Int)) = true
    · simp only [hk, ↓reduceIte] at h
      simp at h
      refine Or.inr (Or.inr ⟨k, v, rfl, ?_, h.symm⟩)
      simpa using hk
    · simp only [hk] at h
      cases hg : get now v s.dtype with
      | error e' => simp [hg] at h; exact Or.inl h.symm
      | ok w =>
        simp only [hg] at h
        by_cases hk2 : (k == (s.values.length : Int)) = true
        · simp [hk2] at h; exact Or.inl h.symm
        · simp [hk2] at h
  | remove v => simp [step] at h
  | merge ov od strict =>
    simp only [step] at h
    unfold merge at h
    by_cases h1 : validate now s.dtype ov = true
    · simp only [h1, Bool.not_true, Bool.false_eq_true, ↓reduceIte] at h
      split at h
      · simp at h; exact Or.inl h.symm
      · exact Or.inl (extend_raised_value hs h)
    · simp [h1] at h; exact Or.inl h.symm
  | clone =>
    simp only [step] at h
    cases hr : (setValues now s (.seq false s.values)).2 with
    | ok => simp [hr] at h
    | raised e' => simp [hr] at h; rw [← h]; exact Or.inl (setValues_raised_value hr)

/-! ## value -> text -> value -/

theorem digitGroup_true_digits : ∀ (cs : List Char), cs.all Char.isDigit = true →
    digitGroup true cs = some cs := by
  intro cs
  induction cs with
  | nil => intro _; rfl
  | cons c cs ih =>
    intro h
    simp only [List.all_cons, Bool.and_eq_true] at h
    simp [digitGroup, h.1, ih h.2]

theorem digitGroup_false_digits {c : Char} {cs : List Char} (h : (c :: cs).all Char.isDigit = true) :
    digitGroup false (c :: cs) = some (c :: cs) := by
  simp only [List.all_cons, Bool.and_eq_true] at h
  simp [digitGroup, h.1, digitGroup_true_digits cs h.2]

theorem natToDigits_cons (n : Nat) : ∃ c cs, natToDigits n = c :: cs ∧ c.isDigit = true := by
  have hne := natToDigits_ne_nil n
  have hall := natToDigits_all_digit n
  cases h : natToDigits n with
  | nil => exact absurd h hne
  | cons c cs =>
    rw [h] at hall
    simp only [List.all_cons, Bool.and_eq_true] at hall
    exact ⟨c, cs, rfl, hall.1⟩

theorem isDigit_ne_sign {c : Char} (h : c.isDigit = true) : c ≠ '-' ∧ c ≠ '+' := by
  have := isDigit_bounds h
  constructor <;> (intro hc; subst hc; simp at this)

theorem signSplit_digit {c : Char} (cs : List Char) (h : c.isDigit = true) :
    signSplit (c :: cs) = (false, c :: cs) := by
  have hs := isDigit_ne_sign h
  unfold signSplit
  split
  · rename_i r heq; injection heq with h1 h2; exact absurd h1 hs.1
  · rename_i r heq; injection heq with h1 h2; exact absurd h1 hs.2
  · rfl

theorem parseInt_nat (n : Nat) : parseInt (natToDigits n) = some (n : Int) := by
  obtain ⟨c, cs, hcs, hc⟩ := natToDigits_cons n
  have hall := natToDigits_all_digit n
  unfold parseInt
  simp only [strip_digits hall]
  rw [hcs] at hall ⊢
  simp only [signSplit_digit cs hc, digitGroup_false_digits hall]
  rw [← hcs, natOfDigits_natToDigits]
  simp

theorem strip_neg_digits {ds : List Char} (hne : ds ≠ []) (h : ds.all Char.isDigit = true) :
    strip ('-' :: ds) = '-' :: ds := by
  have h1 : lstrip ('-' :: ds) = '-' :: ds := lstrip_of_head (by decide)
  have hr : (ds.reverse).all Char.isDigit = true := by simpa using h
  have h2 : lstrip (ds.reverse ++ ['-']) = ds.reverse ++ ['-'] := by
    cases hrev : ds.reverse with
    | nil => simp at hrev; exact absurd hrev hne
    | cons b r =>
      rw [hrev] at hr
      simp only [List.all_cons, Bool.and_eq_true] at hr
      simp only [List.cons_append]
      exact lstrip_of_head (isDigit_not_space hr.1)
  simp [strip, rstrip, h1, h2]

theorem parseInt_intToStr (i : Int) : parseInt (intToStr i) = some i := by
  cases i with
  | ofNat n => exact parseInt_nat n
  | negSucc n =>
    obtain ⟨c, cs, hcs, hc⟩ := natToDigits_cons (n + 1)
    have hall := natToDigits_all_digit (n + 1)
    unfold parseInt intToStr
    simp only [strip_neg_digits (natToDigits_ne_nil (n + 1)) hall]
    rw [hcs] at hall
    have hss : signSplit ('-' :: natToDigits (n + 1)) = (true, natToDigits (n + 1)) := rfl
    rw [hss]
    simp only [hcs, digitGroup_false_digits hall]
    rw [← hcs, natOfDigits_natToDigits]
    simp [Int.negSucc_eq]

theorem intGet_text (i : Int) : intGet (sAtom (intToStr i)) = .ok (.atom (.int i)) := by
  have hne : (intToStr i).isEmpty = false := by
    cases i with
    | ofNat n =>
      obtain ⟨c, cs, hcs, _⟩ := natToDigits_cons n
      simp [intToStr, hcs]
    | negSucc n => simp [intToStr]
  simp [intGet, sAtom, noneOrEmpty, hne, parseInt_intToStr]

/-- value → text → value for scalar dtypes (`dtypes.set` then `dtypes.get`).  For floats the
    CPython contract `float(repr(x)) == x` is an explicit hypothesis. -/
theorem set_get_roundtrip {now : DateTime} {v : Elem} {dtype : DType}
    (h : HasClass (clsOf dtype) v) (hnt : ∀ n, clsOf dtype ≠ .tuple n) (hna : clsOf dtype ≠ .any)
    (hf : ∀ f, v = .atom (.float f) → parseFloat f.repr = some f) :
    ∃ t, set now v dtype = .ok t ∧ get now t dtype = .ok v := by
  have hget := get_fixpoint (now := now) h hnt hna
  unfold set
  cases dtype with
  | none =>
    obtain ⟨s, rfl⟩ := hasClass_str (by simpa [clsOf] using h)
    exact ⟨_, rfl, by simpa [strGet_str] using hget⟩
  | some d0 =>
    by_cases he : d0.isEmpty = true
    · simp only [he, ↓reduceIte]
      obtain ⟨s, rfl⟩ := hasClass_str (by simpa [clsOf, he] using h)
      exact ⟨_, rfl, by simpa [strGet_str] using hget⟩
    · simp only [he]
      unfold clsOf at h hnt hna
      simp only [he] at h hnt hna
      unfold clsOfNorm at h hnt hna
      by_cases ht : endsWithTuple (normDtype d0) = true
      · simp only [ht, ↓reduceIte] at hnt hna
        cases hp : parseInt ((normDtype d0).take ((normDtype d0).length - 6)) with
        | none => simp [hp] at hna
        | some n => simp [hp] at hnt
      · simp only [ht, Bool.false_eq_true, ↓reduceIte] at h ⊢
        -- a str value is passed through
        by_cases hstr : ∃ s, v = .atom (.str s)
        · obtain ⟨s, rfl⟩ := hstr
          exact ⟨strGet (.atom (.str s)), rfl, by simpa [strGet_str] using hget⟩
        · have hconv : setScalar now (normDtype d0) v = convSet now (normDtype d0) v := by
            unfold setScalar
            split
            · rename_i s; exact absurd ⟨s, rfl⟩ hstr
            · rfl
          rw [hconv]
          by_cases h1 : (normDtype d0 == "int".toList) = true
          · have hd := eq_of_beq h1
            simp only [h1, ↓reduceIte] at h
            obtain ⟨i, rfl⟩ := hasClass_int h
            refine ⟨sAtom (intToStr i), ?_, ?_⟩
            · rw [hd]; rfl
            · unfold get
              simp only [he, Bool.false_eq_true, ↓reduceIte, ht]
              rw [hd]
              exact intGet_text i
          · simp only [h1] at h
            by_cases h2 : (normDtype d0 == "float".toList) = true
            · have hd := eq_of_beq h2
              simp only [h2, ↓reduceIte] at h
              obtain ⟨f, rfl⟩ := hasClass_float h
              refine ⟨sAtom f.repr, ?_, ?_⟩
              · rw [hd]; rfl
              · unfold get
                simp only [he, Bool.false_eq_true, ↓reduceIte, ht]
                rw [hd]
                have hne : f.repr.isEmpty = false := by
                  cases hr : f.repr with
                  | nil =>
                    have := hf f rfl
                    rw [hr] at this
                    simp [parseFloat, strip, rstrip, lstrip, signSplit, lower, spanUntil] at this
                  | cons c cs => rfl
                show floatGet (sAtom f.repr) = _
                simp [floatGet, sAtom, noneOrEmpty, hne, hf f rfl]
            · simp only [h2] at h
              by_cases h3 : (normDtype d0 == "time".toList) = true
              · have hd := eq_of_beq h3
                simp only [h3, ↓reduceIte] at h
                obtain ⟨t, rfl, hv, hus⟩ := hasClass_time h
                refine ⟨_, ?_, hget⟩
                rw [hd]
                exact timeGet_time (now := now) hv hus
              · simp only [h3] at h
                by_cases h4 : (normDtype d0 == "date".toList) = true
                · have hd := eq_of_beq h4
                  simp only [h4, ↓reduceIte] at h
                  obtain ⟨d, rfl, hv⟩ := hasClass_date h
                  refine ⟨_, ?_, hget⟩
                  rw [hd]
                  exact dateGet_date (now := now) hv
                · simp only [h4] at h
                  by_cases h5 : (normDtype d0 == "datetime".toList) = true
                  · have hd := eq_of_beq h5
                    simp only [h5, ↓reduceIte] at h
                    obtain ⟨x, rfl, hus⟩ := hasClass_datetime h
                    refine ⟨_, ?_, hget⟩
                    rw [hd]
                    exact datetimeGet_datetime (now := now) hus
                  · simp only [h5] at h
                    by_cases h6 : (normDtype d0 == "boolean".toList || normDtype d0 == "bool".toList) = true
                    · simp only [h6, ↓reduceIte] at h
                      obtain ⟨b, rfl⟩ := hasClass_bool h
                      refine ⟨_, ?_, hget⟩
                      unfold convSet
                      simp only [h3, h4, h5, h6, Bool.false_eq_true, ↓reduceIte]
                      exact booleanGet_bool b
                    · simp only [h6] at h
                      by_cases h7 : (normDtype d0 == "tuple".toList) = true
                      · simp only [ht, h1, h2, h3, h4, h5, h6, h7, if_true, if_false, ↓reduceIte] at hna
                        exact absurd rfl hna
                      · simp only [h7] at h
                        obtain ⟨s, rfl⟩ := hasClass_str h
                        exact absurd ⟨s, rfl⟩ hstr

/-- the converter `dtypes.get` applies for a class -/
def convOf (now : DateTime) : Cls → Elem → R Elem
  | .int, w => intGet w
  | .float, w => floatGet w
  | .bool, w => booleanGet w
  | .str, w => .ok (strGet w)
  | .date, w => dateGet now w
  | .time, w => timeGet now w
  | .datetime, w => datetimeGet now w
  | _, w => .ok w

theorem get_eq_conv {now : DateTime} {dtype : DType}
    (hnt : ∀ n, clsOf dtype ≠ .tuple n) (hna : clsOf dtype ≠ .any) (w : Elem) :
    get now w dtype = convOf now (clsOf dtype) w := by
  unfold get
  unfold clsOf at hnt hna ⊢
  cases dtype with
  | none => rfl
  | some d0 =>
    simp only at hnt hna ⊢
    by_cases he : d0.isEmpty = true
    · simp only [he, ↓reduceIte]; rfl
    · simp only [he] at hnt hna ⊢
      unfold clsOfNorm at hnt hna ⊢
      by_cases ht : endsWithTuple (normDtype d0) = true
      · simp only [ht, ↓reduceIte] at hnt hna
        cases hp : parseInt ((normDtype d0).take ((normDtype d0).length - 6)) with
        | none => simp [hp] at hna
        | some n => simp [hp] at hnt
      · simp only [ht, Bool.false_eq_true, ↓reduceIte] at hna ⊢
        unfold convGet
        by_cases h1 : (normDtype d0 == "int".toList) = true
        · simp only [h1, ↓reduceIte]; rfl
        · simp only [h1] at hna ⊢
          by_cases h2 : (normDtype d0 == "float".toList) = true
          · simp only [h2, ↓reduceIte]; rfl
          · simp only [h2] at hna ⊢
            by_cases h3 : (normDtype d0 == "time".toList) = true
            · simp only [h3, ↓reduceIte]; rfl
            · simp only [h3] at hna ⊢
              by_cases h4 : (normDtype d0 == "date".toList) = true
              · simp only [h4, ↓reduceIte]; rfl
              · simp only [h4] at hna ⊢
                by_cases h5 : (normDtype d0 == "datetime".toList) = true
                · simp only [h5, ↓reduceIte]; rfl
                · simp only [h5] at hna ⊢
                  by_cases h6 : (normDtype d0 == "boolean".toList || normDtype d0 == "bool".toList) = true
                  · simp only [h6, ↓reduceIte]; rfl
                  · simp only [h6] at hna ⊢
                    by_cases h7 : (normDtype d0 == "tuple".toList) = true
                    · simp only [h7, if_true, if_false, ↓reduceIte] at hna
                      exact absurd rfl hna
                    · simp only [h7, Bool.false_eq_true, ↓reduceIte]; rfl

theorem iso_ne_nil (d : Date) : d.iso.isEmpty = false := by simp [Date.iso, pad4]
theorem hms_ne_nil (t : Time) : t.hms.isEmpty = false := by simp [Time.hms, pad2]

/-- `str(value)` converts back to the value (all scalar classes except float; a datetime must be a
    valid one, which every Python datetime object is). -/
theorem str_get_roundtrip {now : DateTime} {v : Elem} {dtype : DType}
    (h : HasClass (clsOf dtype) v) (hnt : ∀ n, clsOf dtype ≠ .tuple n) (hna : clsOf dtype ≠ .any)
    (hnf : clsOf dtype ≠ .float)
    (hdt : ∀ x, v = .atom (.datetime x) → x.valid = true) :
    get now (sAtom v.pyStr) dtype = .ok v := by
  rw [get_eq_conv hnt hna]
  cases hc : clsOf dtype with
  | int =>
    rw [hc] at h; obtain ⟨i, rfl⟩ := hasClass_int h
    exact intGet_text i
  | float => exact absurd hc hnf
  | bool =>
    rw [hc] at h; obtain ⟨b, rfl⟩ := hasClass_bool h
    cases b <;> rfl
  | str =>
    rw [hc] at h; obtain ⟨s, rfl⟩ := hasClass_str h
    simp [convOf, sAtom, Elem.pyStr, Atom.pyStr, strGet_str]
  | date =>
    rw [hc] at h; obtain ⟨d, rfl, hv⟩ := hasClass_date h
    simp [convOf, dateGet, sAtom, Elem.pyStr, Atom.pyStr, noneOrEmpty, iso_ne_nil, parseDate_iso hv]
  | time =>
    rw [hc] at h; obtain ⟨t, rfl, hv, hus⟩ := hasClass_time h
    have : t.iso = t.hms := by simp [Time.iso, hus]
    simp only [convOf, timeGet, sAtom, Elem.pyStr, Atom.pyStr, noneOrEmpty, this, hms_ne_nil,
      Bool.false_eq_true, ↓reduceIte, parseTime_hms hv]
    cases t; simp at hus; simp [hus]
  | datetime =>
    rw [hc] at h; obtain ⟨x, rfl, hus⟩ := hasClass_datetime h
    have hne : x.str.isEmpty = false := by simp [DateTime.str, Date.iso, pad4]
    simp [convOf, datetimeGet, sAtom, Elem.pyStr, Atom.pyStr, noneOrEmpty, hne,
      parseDateTime_str (hdt x rfl) hus]
  | tuple n => exact absurd hc (hnt n)
  | any => exact absurd hc hna

/-! ## normal form of n-tuples: re-import of the stored lists -/

def joinSS : List (List Char) → List Char
  | [] => []
  | [s] => s
  | s :: rest => s ++ [';', ' '] ++ joinSS rest

theorem joinSS_cons2 (s q : List Char) (r : List (List Char)) :
    joinSS (s :: q :: r) = s ++ ';' :: (' ' :: joinSS (q :: r)) := by
  simp [joinSS]

theorem joinSS_head (c : Char) (q : List Char) (r : List (List Char)) :
    c :: joinSS (q :: r) = joinSS ((c :: q) :: r) := by
  cases r <;> simp [joinSS]

theorem body_eq : ∀ (s : List Char) (ss : List (List Char)),
    ((s :: ss).map (fun x => x ++ [';', ' '])).flatten = joinSS (s :: ss) ++ [';', ' '] := by
  intro s ss
  induction ss generalizing s with
  | nil => simp [joinSS]
  | cons q r ih =>
    have := ih q
    simp only [List.map_cons, List.flatten_cons] at this ⊢
    rw [this, joinSS_cons2]
    simp

theorem tupleText_eq (s : List Char) (ss : List (List Char)) :
    tupleText ((s :: ss).map Atom.str) = ['('] ++ joinSS (s :: ss) ++ [')'] := by
  unfold tupleText
  have h1 : ((s :: ss).map Atom.str).map (fun a => a.pyStr ++ [';', ' ']) =
      (s :: ss).map (fun x => x ++ [';', ' ']) := by
    rw [List.map_map]; rfl
  simp only [h1, body_eq]
  have : (joinSS (s :: ss) ++ [';', ' ']).length - 2 = (joinSS (s :: ss)).length := by simp
  rw [this, List.take_left']
  rfl

theorem splitOn_joinSS : ∀ (ps : List (List Char)) (p : List Char),
    (∀ c ∈ p, (c == ';') = false) → (∀ q ∈ ps, ∀ c ∈ q, (c == ';') = false) →
    splitOn ';' (joinSS (p :: ps)) = p :: ps.map (fun q => ' ' :: q) := by
  intro ps
  induction ps with
  | nil => intro p hp _; simp [joinSS, splitOn_no_sep ';' p hp]
  | cons q r ih =>
    intro p hp hps
    rw [joinSS_cons2, splitOn_append_sep ';' p _ hp, joinSS_head]
    have hq : ∀ c ∈ (' ' :: q), (c == ';') = false := by
      intro c hc
      rcases List.mem_cons.mp hc with rfl | hc
      · decide
      · exact hps q (by simp) c hc
    rw [ih (' ' :: q) hq (fun x hx => hps x (by simp [hx]))]
    simp

theorem strip_space_cons (s : List Char) : strip (' ' :: s) = strip s := by
  have : lstrip (' ' :: s) = lstrip s := by
    have h : isSpace ' ' = true := by decide
    simp [lstrip, h]
  simp [strip, this]

theorem strip_ends {a b : Char} (m : List Char) (ha : isSpace a = false) (hb : isSpace b = false) :
    strip (a :: (m ++ [b])) = a :: (m ++ [b]) := by
  have h1 : lstrip (a :: (m ++ [b])) = a :: (m ++ [b]) := lstrip_of_head ha
  have h2 : lstrip (a :: (m ++ [b])).reverse = (a :: (m ++ [b])).reverse := by
    simp only [List.reverse_cons, List.reverse_append, List.reverse_singleton, List.singleton_append,
      List.cons_append]
    exact lstrip_of_head hb
  simp only [strip, rstrip, h1, h2, List.reverse_reverse]


/-- the text `odml_tuple_import` builds from a stored n-tuple is parsed back to the same list -/
theorem tupleGet_tupleText (s : List Char) (ss : List (List Char))
    (h : ∀ x ∈ s :: ss, Stripped x) :
    tupleGet (sAtom (tupleText ((s :: ss).map Atom.str))) (some ((s :: ss).length : Int)) =
      .ok (.seq false ((s :: ss).map Atom.str)) := by
  rw [tupleText_eq]
  have hsp1 : isSpace '(' = false := by decide
  have hsp2 : isSpace ')' = false := by decide
  have hstrip : strip (['('] ++ joinSS (s :: ss) ++ [')']) = '(' :: (joinSS (s :: ss) ++ [')']) := by
    have := strip_ends (joinSS (s :: ss)) hsp1 hsp2
    simpa using this
  have hsplit := splitOn_joinSS ss s (h s (by simp)).2 (fun q hq => (h q (by simp [hq])).2)
  have hmap : (s :: ss.map (fun q => ' ' :: q)).map strip = s :: ss := by
    simp only [List.map_cons, List.map_map, (h s (by simp)).1]
    congr 1
    have : ∀ (l : List (List Char)), (∀ x ∈ l, strip x = x) →
        l.map (strip ∘ fun q => ' ' :: q) = l := by
      intro l hl
      induction l with
      | nil => rfl
      | cons x xs ih =>
        simp only [List.map_cons, Function.comp, strip_space_cons, hl x (by simp)]
        congr 1
        exact ih (fun y hy => hl y (by simp [hy]))
    exact this ss (fun x hx => (h x (by simp [hx])).1)
  have hlast : ('(' :: (joinSS (s :: ss) ++ [')'])).getLast? = some ')' := by
    rw [← List.cons_append, List.getLast?_append]
    simp
  have htr : (Elem.atom (Atom.str (['('] ++ joinSS (s :: ss) ++ [')']))).truthy = true := by
    simp [Elem.truthy, Atom.truthy]
  unfold tupleGet
  simp only [sAtom, htr, Bool.not_true, Bool.false_eq_true, ↓reduceIte, hstrip, hlast]
  simp [slice1m1, hsplit, hmap]


/-- a value as an n-tuple Property stores it: a non-empty list of `n` stripped strings, or `None` -/
def GoodT (n : Int) (v : Elem) : Prop :=
  v = .atom .none ∨ ∃ s ss, v = .seq false ((s :: ss).map Atom.str) ∧
    (((s :: ss).length : Nat) : Int) = n ∧ ∀ x ∈ s :: ss, Stripped x

/-- what `odml_tuple_import` makes of such a value -/
def reimport : Elem → Elem
  | .seq _ xs => sAtom (tupleText xs)
  | v => v

theorem importStep_good {n : Nat} {b : Bool} {acc : List Elem} {v : Elem} (h : GoodT n v) :
    importStep n b acc v = acc ++ [reimport v] := by
  rcases h with rfl | ⟨s, ss, rfl, hl, _⟩
  · rfl
  · have : ss.length + 1 = n := by
      have := hl; simp only [List.length_cons] at this; exact_mod_cast this
    simp [importStep, reimport, this]

theorem foldl_import_good {n : Nat} {b : Bool} : ∀ (vals acc : List Elem),
    (∀ v ∈ vals, GoodT n v) → vals.foldl (importStep n b) acc = acc ++ vals.map reimport := by
  intro vals
  induction vals with
  | nil => intro acc _; simp
  | cons v vs ih =>
    intro acc h
    simp only [List.foldl_cons, importStep_good (h v (by simp)), List.map_cons]
    rw [ih _ (fun w hw => h w (by simp [hw]))]
    simp

theorem tupleImport_good {n : Nat} {vals : List Elem} (h : ∀ v ∈ vals, GoodT n v) :
    tupleImport n vals = vals.map reimport := by
  unfold tupleImport
  simp only [foldl_import_good vals [] h, List.nil_append]
  split
  · rename_i he
    have : vals = [] := by simpa using he
    subst this; rfl
  · rfl


theorem get_tuple {now : DateTime} {d : List Char} {n : Int} (h : clsOf (some d) = .tuple n)
    (w : Elem) : get now w (some d) = tupleGet w (some n) := by
  unfold get
  unfold clsOf at h
  simp only at h ⊢
  by_cases he : d.isEmpty = true
  · simp [he] at h
  · simp only [he, Bool.false_eq_true, ↓reduceIte] at h ⊢
    unfold clsOfNorm at h
    by_cases ht : endsWithTuple (normDtype d) = true
    · simp only [ht, ↓reduceIte] at h ⊢
      cases hp : parseInt ((normDtype d).take ((normDtype d).length - 6)) with
      | none => simp [hp] at h
      | some m => simp [hp] at h; subst h; rfl
    · simp only [ht, Bool.false_eq_true, ↓reduceIte] at h
      repeat' split at h
      all_goals cases h

theorem get_reimport {now : DateTime} {d : List Char} {n : Int} (h : clsOf (some d) = .tuple n)
    {v : Elem} (hv : GoodT n v) : get now (reimport v) (some d) = .ok v := by
  rw [get_tuple h]
  rcases hv with rfl | ⟨s, ss, rfl, hl, hst⟩
  · rfl
  · simp only [reimport]
    rw [← hl]
    exact tupleGet_tupleText s ss hst

theorem get_good {now : DateTime} {d : List Char} {n : Int} (h : clsOf (some d) = .tuple n)
    {v w : Elem} (hv : GoodT n v) (hg : get now v (some d) = .ok w) : w = v := by
  rw [get_tuple h] at hg
  rcases hv with rfl | ⟨s, ss, rfl, hl, hst⟩
  · simp [tupleGet, Elem.truthy, Atom.truthy] at hg; exact hg.symm
  · simp [tupleGet, Elem.truthy] at hg

theorem getAll_reimport {now : DateTime} {d : List Char} {n : Int}
    (h : clsOf (some d) = .tuple n) : ∀ {vals : List Elem}, (∀ v ∈ vals, GoodT n v) →
    getAll now (some d) (vals.map reimport) = .ok vals := by
  intro vals
  induction vals with
  | nil => intro _; rfl
  | cons v vs ih =>
    intro hv
    simp only [List.map_cons, getAll, get_reimport h (hv v (by simp)),
      ih (fun w hw => hv w (by simp [hw]))]

theorem getAll_good {now : DateTime} {d : List Char} {n : Int}
    (h : clsOf (some d) = .tuple n) : ∀ {vals : List Elem}, (∀ v ∈ vals, GoodT n v) →
    validate now (some d) vals = true → getAll now (some d) vals = .ok vals := by
  intro vals
  induction vals with
  | nil => intro _ _; rfl
  | cons v vs ih =>
    intro hv hval
    simp only [validate, List.all_cons, Bool.and_eq_true] at hval
    cases hg : get now v (some d) with
    | error e => simp [hg, isOk] at hval
    | ok w =>
      have := get_good h (hv v (by simp)) hg
      subst this
      simp only [getAll, hg, ih (fun w hw => hv w (by simp [hw])) (by simpa [validate] using hval.2)]

/-- Assigning an n-tuple Property its own values gives the same values and dtype. -/
theorem setValues_self_tuple {now : DateTime} {s : PropState} {d : List Char} {n : Int}
    (hd : s.dtype = some d) (hcls : clsOf (some d) = .tuple n)
    (hraw : endsWithTuple d = true) (hcnt : ((rawCount d : Nat) : Int) = n)
    (hgood : ∀ v ∈ s.values, GoodT n v) :
    setValues now s (.seq false s.values) = (s, .ok) := by
  unfold setValues
  cases hv : s.values with
  | nil =>
    simp only [Inp.isEmptyInput, List.isEmpty_nil, ↓reduceIte]
    cases s; simp at hv; simp [hv]
  | cons v0 rest =>
    simp only [Inp.isEmptyInput, List.isEmpty_cons, Bool.false_eq_true, ↓reduceIte,
      convertValueInput]
    have hinf : inferIfNone s.dtype v0 = some d := by rw [hd]; rfl
    have hg : ∀ v ∈ v0 :: rest, GoodT n v := by rw [← hv]; exact hgood
    have hg' : ∀ v ∈ v0 :: rest, GoodT ((rawCount d : Nat) : Int) v := by rw [hcnt]; exact hg
    rw [hinf]
    have hres : getAll now (some d) (importIfNeeded now (some d) (v0 :: rest)) = .ok (v0 :: rest) := by
      unfold importIfNeeded
      by_cases hval : validate now (some d) (v0 :: rest) = true
      · simp only [hval, Bool.not_true, Bool.and_false, Bool.false_eq_true, ↓reduceIte]
        exact getAll_good hcls hg hval
      · simp only [isTupleRaw, hraw, hval, Bool.not_false, Bool.and_self, ↓reduceIte, countOf]
        rw [tupleImport_good hg']
        exact getAll_reimport hcls hg
    have hval2 := getAll_validate hres
    simp only [hval2, Bool.not_true, Bool.false_eq_true, ↓reduceIte, hres]
    cases s; simp at hv hd; simp [hv, hd]


theorem items_strs : ∀ {xs : List Atom}, (∀ a ∈ xs, TupleItem a) →
    ∃ l : List (List Char), xs = l.map Atom.str ∧ ∀ x ∈ l, Stripped x := by
  intro xs
  induction xs with
  | nil => intro _; exact ⟨[], rfl, fun x hx => by cases hx⟩
  | cons a as ih =>
    intro h
    obtain ⟨s, rfl, hs⟩ := h a (by simp)
    obtain ⟨l, rfl, hl⟩ := ih (fun b hb => h b (by simp [hb]))
    refine ⟨s :: l, rfl, ?_⟩
    intro x hx
    rcases List.mem_cons.mp hx with rfl | hx
    · exact hs
    · exact hl x hx

theorem hasClassW_goodT {n : Int} {v : Elem} (h : HasClassW (.tuple n) v) : GoodT n v := by
  rcases h with h | ⟨_, rfl⟩
  · cases v with
    | atom a => cases a <;> simp [HasClass] at h
    | seq t xs =>
      cases t with
      | true => simp [HasClass] at h
      | false =>
        simp only [HasClass] at h
        obtain ⟨hlen, hne, hi⟩ := h
        obtain ⟨l, rfl, hl⟩ := items_strs hi
        cases l with
        | nil => simp at hne
        | cons s ss =>
          refine Or.inr ⟨s, ss, rfl, ?_, hl⟩
          simpa using hlen
  · exact Or.inl rfl

/-- the raw spelling of a stored n-tuple dtype is the one property.py looks at -/
def TupleOK (dt : DType) : Prop :=
  ∀ d n, dt = some d → clsOf (some d) = .tuple n →
    endsWithTuple d = true ∧ ((rawCount d : Nat) : Int) = n

/-! ## the stored spelling of an n-tuple dtype (`TupleOK`) is an invariant -/

theorem mapShorthand_cases (x : List Char) :
    mapShorthand x = x ∨ mapShorthand x = "string".toList ∨ mapShorthand x = "boolean".toList := by
  unfold mapShorthand
  simp only [Gen.DTypes.dtypeMap, List.find?]
  split
  · rename_i p hp
    split at hp
    · cases hp; exact Or.inr (Or.inl rfl)
    · split at hp
      · cases hp; exact Or.inr (Or.inr rfl)
      · cases hp
  · exact Or.inl rfl

def isTupleCls : Cls → Bool
  | .tuple _ => true
  | _ => false

/-- `infer_dtype` only looks at the type name and at "has a newline" -/
def inferCore (tn : List Char) (nl : Bool) : List Char :=
  let name := mapShorthand tn
  if validType (.str name) then
    if name == "string".toList && nl then "text".toList else name
  else "string".toList

theorem inferDtype_core (v : Elem) : inferDtype v = inferCore v.typeName (hasNewline v) := rfl

def names11 : List (List Char) := ["NoneType".toList, "bool".toList, "int".toList,
    "float".toList, "str".toList, "date".toList, "time".toList, "datetime".toList, "dict".toList,
    "tuple".toList, "list".toList]

theorem typeNames : ∀ v : Elem, v.typeName ∈ names11 := by
  intro v
  cases v with
  | seq t xs =>
    cases t
    · show (if false then "tuple".toList else "list".toList) ∈ names11; decide
    · show (if true then "tuple".toList else "list".toList) ∈ names11; decide
  | atom a =>
    cases a
    · show "NoneType".toList ∈ names11; decide
    · show "bool".toList ∈ names11; decide
    · show "int".toList ∈ names11; decide
    · show "float".toList ∈ names11; decide
    · show "str".toList ∈ names11; decide
    · show "date".toList ∈ names11; decide
    · show "time".toList ∈ names11; decide
    · show "datetime".toList ∈ names11; decide
    · show "dict".toList ∈ names11; decide

theorem inferCore_not_tuple : ∀ tn ∈ names11, ∀ nl : Bool,
    isTupleCls (clsOf (some (inferCore tn nl))) = false := by decide +kernel

theorem infer_not_tuple (v : Elem) (n : Int) : clsOf (some (inferDtype v)) ≠ .tuple n := by
  intro h
  have := inferCore_not_tuple v.typeName (typeNames v) (hasNewline v)
  rw [← inferDtype_core, h] at this
  simp [isTupleCls] at this

theorem takeWhile_digits_dash : ∀ (p rest : List Char), p.all Char.isDigit = true →
    (p ++ '-' :: rest).takeWhile Char.isDigit = p := by
  intro p rest
  induction p with
  | nil => intro _; simp [List.takeWhile]
  | cons c cs ih =>
    intro h
    simp only [List.all_cons, Bool.and_eq_true] at h
    simp [List.takeWhile, h.1, ih h.2]

theorem parseInt_digits {c : Char} {cs : List Char} (h : (c :: cs).all Char.isDigit = true) :
    parseInt (c :: cs) = some ((natOfDigits (c :: cs) : Nat) : Int) := by
  have hc : c.isDigit = true := by
    simp only [List.all_cons, Bool.and_eq_true] at h; exact h.1
  unfold parseInt
  simp only [strip_digits h, signSplit_digit cs hc, digitGroup_false_digits h]
  simp

theorem members_not_tuple (x : List Char) (h : isMember x = true) : endsWithTuple x = false := by
  simp only [isMember, Gen.DTypes.members, List.any_cons, List.any_nil, Bool.or_false,
    Bool.or_eq_true, beq_iff_eq] at h
  rcases h with h | h | h | h | h | h | h | h | h | h <;> (rw [← h]; decide)

/-- the spelling the constructor / dtype setter store satisfies `TupleOK` -/
theorem tupleOK_toDType {d : DtIn} (hv : validType d = true) : TupleOK d.toDType := by
  intro x n hx hcls
  cases d with
  | none => cases hx
  | other => cases hx
  | str s =>
    simp only [DtIn.toDType, Option.some.injEq] at hx
    subst hx
    have hvalid : isMember (normDtype s) = true ∨ isTupleName (normDtype s) = true := by
      simpa [validType] using hv
    have hnorm : normDtype (lower s) = normDtype s := normDtype_lower s
    have hns : normDtype s = mapShorthand (lower s) := rfl
    -- unfold the class
    unfold clsOf at hcls
    simp only at hcls
    by_cases he : (lower s).isEmpty = true
    · simp [he] at hcls
    · simp only [he, Bool.false_eq_true, ↓reduceIte, hnorm] at hcls
      unfold clsOfNorm at hcls
      by_cases ht : endsWithTuple (normDtype s) = true
      · simp only [ht, ↓reduceIte] at hcls
        have hmap : normDtype s = lower s := by
          rcases mapShorthand_cases (lower s) with h | h | h
          · rw [hns, h]
          · rw [hns, h] at ht; exact absurd ht (by decide)
          · rw [hns, h] at ht; exact absurd ht (by decide)
        rw [hmap] at ht hcls hvalid
        have htn : isTupleName (lower s) = true := by
          rcases hvalid with h | h
          · have := members_not_tuple _ h; rw [ht] at this; cases this
          · exact h
        unfold isTupleName at htn
        simp only [ht, Bool.true_and] at htn
        cases hp : (lower s).take ((lower s).length - 6) with
        | nil => simp [hp] at htn
        | cons c cs =>
          simp only [hp, Bool.and_eq_true] at htn hcls
          have hall : (c :: cs).all Char.isDigit = true := by
            simp only [List.all_cons, Bool.and_eq_true]; exact ⟨htn.1.1, htn.2⟩
          rw [parseInt_digits hall] at hcls
          simp only [Cls.tuple.injEq] at hcls
          have hsplit : lower s = (c :: cs) ++ '-' :: ['t', 'u', 'p', 'l', 'e'] := by
            have h1 := List.take_append_drop ((lower s).length - 6) (lower s)
            have h2 : (lower s).drop ((lower s).length - 6) = tupleSuffix := by
              simpa [endsWithTuple] using ht
            rw [hp, h2] at h1
            exact h1.symm
          refine ⟨ht, ?_⟩
          unfold rawCount
          rw [hsplit, takeWhile_digits_dash _ _ hall]
          exact hcls
      · simp only [ht, Bool.false_eq_true, ↓reduceIte] at hcls
        repeat' split at hcls
        all_goals cases hcls

theorem tupleOK_inferIfNone {dt : DType} (h : TupleOK dt) (v0 : Elem) :
    TupleOK (inferIfNone dt v0) := by
  cases dt with
  | none =>
    intro x n hx hcls
    simp only [inferIfNone, Option.some.injEq] at hx
    subst hx
    exact absurd hcls (infer_not_tuple v0 n)
  | some d => exact h


theorem setValues_tupleOK {now : DateTime} {s : PropState} {inp : Inp} (h : TupleOK s.dtype) :
    TupleOK (setValues now s inp).1.dtype := by
  unfold setValues
  by_cases he : inp.isEmptyInput = true
  · simp only [he, ↓reduceIte]; exact h
  · simp only [he]
    cases hnv : convertValueInput inp with
    | nil => exact h
    | cons v0 rest =>
      simp only
      by_cases hval : validate now (inferIfNone s.dtype v0)
          (importIfNeeded now (inferIfNone s.dtype v0) (v0 :: rest)) = true
      · simp only [hval, Bool.not_true, Bool.false_eq_true, ↓reduceIte]
        cases hg : getAll now (inferIfNone s.dtype v0)
            (importIfNeeded now (inferIfNone s.dtype v0) (v0 :: rest)) with
        | ok vs => exact tupleOK_inferIfNone h v0
        | error e => exact tupleOK_inferIfNone h v0
      · simp only [hval, Bool.not_false, ↓reduceIte]; exact h

theorem addCore_dtype {now : DateTime} {s : PropState} {at? : Option Int} {d : List Char}
    {strict : Bool} {nv : List Elem} : (addCore now s at? d strict nv).1.dtype = s.dtype := by
  cases nv with
  | nil => rfl
  | cons v0 rest =>
    unfold addCore
    by_cases h1 : strictRefuses strict d v0 = true
    · simp [h1]
    · simp only [h1, Bool.false_eq_true, ↓reduceIte]
      by_cases h2 : validate now s.dtype (v0 :: rest) = true
      · simp only [h2, Bool.not_true, Bool.false_eq_true, ↓reduceIte]
        cases get now v0 s.dtype <;> rfl
      · simp [h2]

theorem extendCore_dtype {now : DateTime} {s : PropState} {d : List Char} {strict : Bool}
    {nv : List Elem} : (extendCore now s d strict nv).1.dtype = s.dtype := by
  unfold extendCore
  by_cases h1 : firstRefuses strict d nv = true
  · simp [h1]
  · simp only [h1, Bool.false_eq_true, ↓reduceIte]
    by_cases h2 : validate now s.dtype nv = true
    · simp only [h2, Bool.not_true, Bool.false_eq_true, ↓reduceIte]
      cases getAll now s.dtype nv <;> rfl
    · simp [h2]

theorem addOne_tupleOK {now : DateTime} {s : PropState} {at? : Option Int} {inp : Inp}
    {strict : Bool} (h : TupleOK s.dtype) : TupleOK (addOne now s at? inp strict).1.dtype := by
  unfold addOne
  split
  · exact h
  · split
    · exact setValues_tupleOK h
    · split
      · exact h
      · split
        · exact h
        · split
          · exact h
          · rw [addCore_dtype]; exact h

theorem extend_tupleOK {now : DateTime} {s : PropState} {inp : Inp} {strict : Bool}
    (h : TupleOK s.dtype) : TupleOK (extend now s inp strict).1.dtype := by
  unfold extend
  split
  · exact setValues_tupleOK h
  · split
    · exact h
    · rw [extendCore_dtype]; exact h

theorem step_tupleOK {now : DateTime} {s : PropState} {op : Op} (h : TupleOK s.dtype) :
    TupleOK (step now s op).1.dtype := by
  cases op with
  | setValues v => exact setValues_tupleOK h
  | setDtype d =>
    simp only [step]
    unfold setDtype
    by_cases hv : validType d = true
    · simp only [hv, Bool.not_true, Bool.false_eq_true, ↓reduceIte]
      have h2 : TupleOK (setValues now { s with dtype := d.toDType } (.seq false s.values)).1.dtype :=
        setValues_tupleOK (tupleOK_toDType hv)
      split
      · exact h2
      · exact h
    · simp only [hv, Bool.not_false, ↓reduceIte]; exact h
  | append v strict => exact addOne_tupleOK h
  | insert i v strict => exact addOne_tupleOK h
  | extend v strict => exact extend_tupleOK h
  | extendProp vals su =>
    simp only [step]
    split
    · exact h
    · exact extend_tupleOK h
  | setItem k v =>
    simp only [step]
    unfold setItem
    split
    · exact h
    · split
      · exact h
      · split <;> exact h
  | remove v =>
    simp only [step]
    split <;> exact h
  | merge ov od strict =>
    simp only [step]
    unfold merge
    split
    · exact h
    · split
      · exact h
      · exact extend_tupleOK h
  | clone =>
    simp only [step]
    split
    · exact setValues_tupleOK h
    · exact h

theorem ctor_tupleOK {now : DateTime} {d : DtIn} {values value : Inp} {s : PropState}
    (h : ctor now d values value = .ok s) : TupleOK s.dtype := by
  have h0 : TupleOK (if validType d then d.toDType else none) := by
    by_cases hv : validType d = true
    · simp only [hv, ↓reduceIte]; exact tupleOK_toDType hv
    · simp only [hv]; intro x n hx; cases hx
  unfold ctor at h
  simp only at h
  have h1 : TupleOK (setValues now { values := [], dtype := if validType d then d.toDType else none }
      values).1.dtype := setValues_tupleOK h0
  split at h
  · cases h
  · split at h
    · split at h
      · cases h
      · cases h; exact setValues_tupleOK h1
    · cases h; exact h1

/-- a valid dtype never has the catch-all class -/
theorem valid_not_any {dt : DType} (h : validDType dt = true) : clsOf dt ≠ .any := by
  cases dt with
  | none => simp [clsOf]
  | some d =>
    unfold clsOf
    simp only
    by_cases he : d.isEmpty = true
    · simp [he]
    · simp only [he, Bool.false_eq_true, ↓reduceIte]
      have hv : isMember (normDtype d) = true ∨ isTupleName (normDtype d) = true := by
        simpa [validDType, validType] using h
      rcases hv with hm | ht
      · simp only [isMember, Gen.DTypes.members, List.any_cons, List.any_nil, Bool.or_false,
          Bool.or_eq_true, beq_iff_eq] at hm
        rcases hm with hm | hm | hm | hm | hm | hm | hm | hm | hm | hm <;> (rw [← hm]; decide)
      · unfold isTupleName at ht
        simp only [Bool.and_eq_true] at ht
        obtain ⟨hend, hdig⟩ := ht
        unfold clsOfNorm
        simp only [hend, ↓reduceIte]
        cases hp : (normDtype d).take ((normDtype d).length - 6) with
        | nil => simp [hp] at hdig
        | cons c cs =>
          simp only [hp, Bool.and_eq_true] at hdig
          have hall : (c :: cs).all Char.isDigit = true := by
            simp only [List.all_cons, Bool.and_eq_true]; exact ⟨hdig.1.1, hdig.2⟩
          rw [parseInt_digits hall]
          simp


theorem run_tupleOK {now : DateTime} (ops : List Op) :
    ∀ s, TupleOK s.dtype → TupleOK (run now s ops).dtype := by
  induction ops with
  | nil => intro s h; exact h
  | cons op ops ih => intro s h; exact ih _ (step_tupleOK h)

theorem conformsW_strict_of_scalar {s : PropState} (hs : ConformsW s)
    (hnt : ∀ n, clsOf s.dtype ≠ .tuple n) : Conforms s :=
  ⟨hs.1, hs.2.1, fun v hv => (hs.2.2 v hv).elim id (fun h => by
    obtain ⟨⟨n, hn⟩, _⟩ := h
    exact absurd hn (hnt n))⟩

end DT
