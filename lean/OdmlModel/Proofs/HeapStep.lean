/-
One step of any editing operation on a well-formed heap: refused without any change, or a
well-formed heap. (Assembles the per-operation results of HeapOps / HeapSetItem.)
-/
import OdmlModel.Proofs.HeapOps
import OdmlModel.Proofs.HeapSetItem

set_option linter.unusedSimpArgs false
set_option linter.unusedVariables false

namespace Heap

theorem remove_wf {h : H} (w : WF h) (p x : Nat) :
    (∃ e, remove h p x = (h, .raised e)) ∨ (∃ h', remove h p x = (h', .ok) ∧ WF h') := by
  rcases remove_spec w p x with h1 | ⟨hx, he⟩
  · exact Or.inl h1
  · exact Or.inr ⟨_, he, wf_detach w hx⟩

/-- The central step theorem. -/
theorem step_spec {h : H} (w : WF h) (op : Op) :
    (∃ e, step h op = (h, .raised e)) ∨ (∃ h', step h op = (h', .ok) ∧ WF h') := by
  unfold step
  by_cases hh : op.handles.any (fun i => i ≥ h.size) = true
  · simp only [hh, if_true]; exact Or.inl ⟨_, rfl⟩
  simp only [hh, if_false]
  have hlt : ∀ i ∈ op.handles, i < h.size := by
    intro i hi
    rcases Nat.lt_or_ge i h.size with h1 | h1
    · exact h1
    · exfalso; apply hh; rw [List.any_eq_true]; exact ⟨i, hi, by simpa using h1⟩
  cases op with
  | construct k name id parent argsOk =>
    exact construct_spec w k name id parent argsOk
      (fun p hp => hlt p (by simp [Op.handles, hp]))
  | append p x => exact append_wf w (hlt p (by simp [Op.handles])) (hlt x (by simp [Op.handles]))
  | insert p pos x =>
    exact insert_spec w pos (hlt p (by simp [Op.handles])) (hlt x (by simp [Op.handles]))
  | extend p xs =>
    exact extend_spec w xs (hlt p (by simp [Op.handles]))
      (fun x hx => hlt x (by simp [Op.handles, hx]))
  | remove p x => exact remove_wf w p x
  | setParent x np =>
    exact setParent_spec w np (hlt x (by simp [Op.handles]))
      (fun p hp => hlt p (by simp [Op.handles, hp]))
  | setItem p s key v =>
    exact setItem_spec w s key (hlt p (by simp [Op.handles])) (hlt v (by simp [Op.handles]))
  | reorder x i => exact reorder_spec w x i
  | rename x new => exact rename_spec w new (hlt x (by simp [Op.handles]))
  | newId x idText =>
    unfold newId
    cases idText with
    | none => exact Or.inl ⟨_, rfl⟩
    | some s => exact Or.inr ⟨_, rfl, wf_setId w (hlt x (by simp [Op.handles]))⟩

end Heap
