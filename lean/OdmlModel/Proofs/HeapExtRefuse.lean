/-
Refusals of the compound operations of `Model/HeapExt.lean` (property C06).

Part 1: a refusal raised by a pre-check (`merge_check`, `_merge_name_check`, an unresolvable path,
an object of the wrong kind) returns the state it was given - for every state.
-/
import OdmlModel.Proofs.HeapExt

set_option linter.unusedSimpArgs false
set_option linter.unusedVariables false

namespace Heap

/-- The state an operation of a history starts from: the scratch component is reset. -/
def X.start (s : X) : X := { s with orig := id }

@[simp] theorem start_h (s : X) : s.start.h = s.h := rfl
@[simp] theorem start_merged (s : X) : s.start.merged = s.merged := rfl
@[simp] theorem start_link (s : X) : s.start.link = s.link := rfl

end Heap

namespace Heap.Refuse

/-- The three ways `_merge` can go: out of budget in a check, refused by a check (both with the
    state untouched), or both checks passed. -/
theorem mergeAux_cases (O : Oracle) (fuel : Nat) (s : X) (record : Bool) (dest src : Nat) :
    mergeAux O (fuel + 1) s record dest src = (s, .fuel) ∨
    mergeAux O (fuel + 1) s record dest src = (s, .raised .valueError) ∨
    (mergeCheck O fuel s dest src = some true ∧ nameCheck O fuel s dest src = some true) := by
  unfold mergeAux
  split
  · exact Or.inl rfl
  · exact Or.inr (Or.inl rfl)
  · rename_i hc
    split
    · exact Or.inl rfl
    · exact Or.inr (Or.inl rfl)
    · rename_i hn; exact Or.inr (Or.inr ⟨hc, hn⟩)

theorem mergeAux_check_refused (O : Oracle) (fuel : Nat) (s : X) (record : Bool) (dest src : Nat)
    (hc : mergeCheck O fuel s dest src = some false) :
    mergeAux O (fuel + 1) s record dest src = (s, .raised .valueError) := by
  unfold mergeAux
  rw [hc]

theorem mergeAux_name_refused (O : Oracle) (fuel : Nat) (s : X) (record : Bool) (dest src : Nat)
    (hc : mergeCheck O fuel s dest src = some true)
    (hn : nameCheck O fuel s dest src = some false) :
    mergeAux O (fuel + 1) s record dest src = (s, .raised .valueError) := by
  unfold mergeAux
  rw [hc]
  simp only
  rw [hn]

theorem mergeAux_check_fuel (O : Oracle) (fuel : Nat) (s : X) (record : Bool) (dest src : Nat)
    (hc : mergeCheck O fuel s dest src = none) :
    mergeAux O (fuel + 1) s record dest src = (s, .fuel) := by
  unfold mergeAux
  rw [hc]

theorem mergeAux_name_fuel (O : Oracle) (fuel : Nat) (s : X) (record : Bool) (dest src : Nat)
    (hc : mergeCheck O fuel s dest src = some true)
    (hn : nameCheck O fuel s dest src = none) :
    mergeAux O (fuel + 1) s record dest src = (s, .fuel) := by
  unfold mergeAux
  rw [hc]
  simp only
  rw [hn]

/-- `stepX` for a merge of two allocated Sections is the public `merge`. -/
theorem stepX_merge_eq (fuel : Nat) (s : X) (O : Oracle) (dest src : Nat)
    (hd : dest < s.h.size) (hs : src < s.h.size)
    (hkd : (s.h.node dest).kind = .sec) (hks : (s.h.node src).kind = .sec) :
    stepX fuel s O (.merge dest src) = mergePub O fuel s.start dest src := by
  unfold stepX
  simp only
  have hg : ¬ ((XOp.merge dest src).handles.any (fun i => i ≥ s.h.size) = true) := by
    simp [XOp.handles]; omega
  rw [if_neg hg]
  rw [if_neg (by simp [hkd, hks])]
  rfl

/-- A merge addressed at a handle that is no object, or at objects that are not Sections, is
    refused and nothing changes. -/
theorem stepX_merge_bad_args (fuel : Nat) (s : X) (O : Oracle) (dest src : Nat)
    (hbad : ¬ (dest < s.h.size ∧ src < s.h.size ∧ (s.h.node dest).kind = .sec ∧
      (s.h.node src).kind = .sec)) :
    ∃ e, stepX fuel s O (.merge dest src) = (s.start, .raised e) := by
  unfold stepX
  simp only
  split
  · exact ⟨_, rfl⟩
  · rename_i hg
    have hd : dest < s.h.size ∧ src < s.h.size := by
      simp [XOp.handles] at hg; omega
    split
    · exact ⟨_, rfl⟩
    · rename_i hk
      exfalso; apply hbad
      refine ⟨hd.1, hd.2, ?_, ?_⟩
      · cases h : (s.h.node dest).kind <;> simp_all
      · cases h : (s.h.node src).kind <;> simp_all

/-- `stepX` for a link assignment to an allocated Section is the setter. -/
theorem stepX_setLink_eq (fuel : Nat) (s : X) (O : Oracle) (x : Nat) (v : LinkVal)
    (hh : ∀ i ∈ (XOp.setLink x v).handles, i < s.h.size) (hk : (s.h.node x).kind = .sec) :
    stepX fuel s O (.setLink x v) = setLinkAux O fuel s.start x v := by
  unfold stepX
  simp only
  have hg : ¬ ((XOp.setLink x v).handles.any (fun i => i ≥ s.h.size) = true) := by
    simp only [List.any_eq_true, decide_eq_true_eq, not_exists, not_and]
    intro i hi; have := hh i hi; omega
  rw [if_neg hg]
  rw [if_neg (by simp [hk])]
  rfl

theorem stepX_setLink_bad_args (fuel : Nat) (s : X) (O : Oracle) (x : Nat) (v : LinkVal)
    (hbad : ¬ ((∀ i ∈ (XOp.setLink x v).handles, i < s.h.size) ∧ (s.h.node x).kind = .sec)) :
    ∃ e, stepX fuel s O (.setLink x v) = (s.start, .raised e) := by
  unfold stepX
  simp only
  split
  · exact ⟨_, rfl⟩
  · rename_i hg
    split
    · exact ⟨_, rfl⟩
    · rename_i hk
      exfalso; apply hbad
      constructor
      · intro i hi
        rcases Nat.lt_or_ge i s.h.size with h1 | h1
        · exact h1
        · exfalso; apply hg
          simp only [List.any_eq_true, decide_eq_true_eq]
          exact ⟨i, hi, h1⟩
      · cases h : (s.h.node x).kind <;> simp_all

end Heap.Refuse
