/-
C11 helper lemmas, part 2: what the copying functions write. `convertItems`, the values setter,
`cloneProp`, `attach`, the cloning loop and `cloneF` only write locations they have allocated
themselves (`Ext`), and when they succeed the block of new locations is closed (`Closed … (rng h h')`).
-/
import OdmlModel.Proofs.CloneBase
namespace Clone

/-- What a value list denotes: atoms and the contents of the inner lists. -/
inductive Val where
  | atom (s : String)
  | tup (xs : List String)
  deriving DecidableEq, Repr

def resolve (h : H) (l : List Item) : List Val :=
  l.map fun
    | .atom s => Val.atom s
    | .ref t => Val.tup (h.tcell t)

theorem resolve_congr {h h' : H} {l : List Item} (hl : ∀ t, Item.ref t ∈ l → h'.tcell t = h.tcell t) :
    resolve h' l = resolve h l := by
  induction l with
  | nil => rfl
  | cons it rest ih =>
    have ih' := ih (fun t ht => hl t (List.mem_cons_of_mem _ ht))
    cases it with
    | atom s => simp only [resolve, List.map_cons] at *; rw [ih']
    | ref t =>
      simp only [resolve, List.map_cons] at *
      rw [ih', hl t (List.mem_cons_self ..)]

/-! ### Re-conversion of values -/

structure ConvSpec (h h' : H) (src out : List Item) : Prop where
  ext : Ext h h'
  nN : h'.nN = h.nN
  nV : h'.nV = h.nV
  nextId : h'.nextId = h.nextId
  node : h'.node = h.node
  vcell : h'.vcell = h.vcell
  fresh : ∀ t, Item.ref t ∈ out → h.nT ≤ t ∧ t < h'.nT
  same : (∀ t, Item.ref t ∈ src → t < h.nT) → resolve h' out = resolve h src
  len : out.length = src.length

theorem convertItems_spec (src : List Item) : ∀ h, ConvSpec h (convertItems h src).1 src (convertItems h src).2 := by
  induction src with
  | nil => intro h; exact ⟨Ext.refl h, rfl, rfl, rfl, rfl, rfl, by simp [convertItems], fun _ => rfl, rfl⟩
  | cons it rest ih =>
    intro h
    cases it with
    | atom s =>
      have r := ih h
      simp only [convertItems]
      refine ⟨r.ext, r.nN, r.nV, r.nextId, r.node, r.vcell, ?_, ?_, by simp [r.len]⟩
      · intro t ht
        simp only [List.mem_cons, reduceCtorEq, false_or] at ht
        exact r.fresh t ht
      · intro hb
        have := r.same (fun t ht => hb t (List.mem_cons_of_mem _ ht))
        simp only [resolve, List.map_cons] at *
        rw [this]
    | ref t0 =>
      have r := ih (allocT h (h.tcell t0)).1
      have e0 := ext_allocT h (h.tcell t0)
      simp only [convertItems]
      refine ⟨e0.trans r.ext, by rw [r.nN]; rfl, by rw [r.nV]; rfl, by rw [r.nextId]; rfl,
        by rw [r.node]; rfl, by rw [r.vcell]; rfl, ?_, ?_, by simp [r.len]⟩
      · intro t ht
        have m := r.ext.1
        unfold Mono at m
        simp only [allocT_nT] at m
        simp only [List.mem_cons, Item.ref.injEq] at ht
        rcases ht with ht | ht
        · subst ht; simp only [allocT_ret]; omega
        · have := r.fresh t ht
          simp only [allocT_nT] at this; omega
      · intro hbel
        have hs := r.same (fun t ht => by
          have := hbel t (List.mem_cons_of_mem _ ht); simp only [allocT_nT]; omega)
        have hb := r.ext.2.2.2 h.nT (by simp)
        simp only [resolve, List.map_cons, allocT_ret] at *
        rw [hs, hb]
        simp only [allocT_tcell, if_true]
        congr 1
        apply List.map_congr_left
        intro it hit
        cases it with
        | atom s => rfl
        | ref t =>
          have := hbel t (List.mem_cons_of_mem _ hit)
          simp only [allocT_tcell]
          rw [if_neg (by omega)]

theorem litItems_spec (src : List Lit) : ∀ h,
    let r := litItems h src
    Ext h r.1 ∧ r.1.nN = h.nN ∧ r.1.nV = h.nV ∧ r.1.nextId = h.nextId ∧ r.1.node = h.node ∧
    r.1.vcell = h.vcell ∧ (∀ t, Item.ref t ∈ r.2 → h.nT ≤ t ∧ t < r.1.nT) ∧ r.2.length = src.length := by
  induction src with
  | nil => intro h; exact ⟨Ext.refl h, rfl, rfl, rfl, rfl, rfl, by simp [litItems], rfl⟩
  | cons it rest ih =>
    intro h
    cases it with
    | atom s =>
      obtain ⟨e, a, b, c, d, f, g, l⟩ := ih h
      simp only [litItems]
      refine ⟨e, a, b, c, d, f, ?_, by simp [l]⟩
      intro t ht
      simp only [List.mem_cons, reduceCtorEq, false_or] at ht
      exact g t ht
    | tup xs =>
      obtain ⟨e, a, b, c, d, f, g, l⟩ := ih (allocT h xs).1
      have e0 := ext_allocT h xs
      simp only [litItems]
      refine ⟨e0.trans e, by rw [a]; rfl, by rw [b]; rfl, by rw [c]; rfl, by rw [d]; rfl,
        by rw [f]; rfl, ?_, by simp [l]⟩
      intro t ht
      have m := e.1
      unfold Mono at m
      simp only [allocT_nT] at m
      simp only [List.mem_cons, Item.ref.injEq] at ht
      rcases ht with ht | ht
      · subst ht; simp only [allocT_ret]; omega
      · have := g t ht
        simp only [allocT_nT] at this; omega

/-- What assigning `values` does to the store: one object gets a new value list, nothing that
    existed is written. -/
structure SetSpec (h h' : H) (p : Nat) : Prop where
  mono : Mono h h'
  nN : h'.nN = h.nN
  nextId : h'.nextId = h.nextId
  nodeO : ∀ a, a ≠ p → h'.node a = h.node a
  vB : ∀ c, c < h.nV → h'.vcell c = h.vcell c
  tB : ∀ t, t < h.nT → h'.tcell t = h.tcell t
  nodeP : h'.node p = { h.node p with vals := some h.nV }
  nV : h'.nV = h.nV + 1
  cell : ∀ t, Item.ref t ∈ h'.vcell h.nV → h.nT ≤ t ∧ t < h'.nT

theorem setValuesItems_spec (h : H) (p : Nat) (src : List Item) :
    SetSpec h (setValuesItems h p src) p ∧
    ((∀ t, Item.ref t ∈ src → t < h.nT) →
      resolve (setValuesItems h p src) ((setValuesItems h p src).vcell h.nV) = resolve h src) := by
  cases src with
  | nil =>
    simp only [setValuesItems]
    refine ⟨⟨⟨by simp, by simp, by simp, by simp⟩, rfl, rfl, fun a ha => ?_, fun c hc => ?_,
      fun _ _ => rfl, ?_, rfl, ?_⟩, ?_⟩
    · simp [updN_other _ _ _ _ ha]
    · simp [allocV_vcell]; omega
    · simp
    · simp [allocV_vcell]
    · intro _; simp [allocV_vcell, resolve]
  | cons it rest =>
    have r := convertItems_spec (it :: rest) h
    simp only [setValuesItems]
    generalize convertItems h (it :: rest) = cv at r
    obtain ⟨h1, items⟩ := cv
    simp only at r ⊢
    have m := r.ext.1
    unfold Mono at m
    refine ⟨⟨⟨by simp; omega, by simp; omega, by simp; omega, by simp; omega⟩, by simp [r.nN],
      by simp [r.nextId], fun a ha => ?_, fun c hc => ?_, fun t ht => ?_, ?_, by simp [r.nV], ?_⟩, ?_⟩
    · simp [updN_other _ _ _ _ ha, r.node]
    · simp [allocV_vcell, r.nV, r.vcell]; omega
    · simp [r.ext.2.2.2 t ht]
    · simp [r.node, r.nV]
    · simp only [updN_vcell, updN_nT, allocV_nT, allocV_vcell, r.nV, if_true]
      exact r.fresh
    · intro hbel
      simp only [updN_vcell, allocV_vcell, r.nV, if_true]
      have : resolve (updN (allocV h1 items).1 p fun n => { n with vals := some (allocV h1 items).2 }) items
          = resolve h1 items := resolve_congr (fun _ _ => rfl)
      rw [this, r.same hbel]

theorem setValuesLits_spec (h : H) (p : Nat) (src : List Lit) : SetSpec h (setValuesLits h p src) p := by
  cases src with
  | nil =>
    simp only [setValuesLits]
    refine ⟨⟨by simp, by simp, by simp, by simp⟩, rfl, rfl, fun a ha => ?_, fun c hc => ?_,
      fun _ _ => rfl, ?_, rfl, ?_⟩
    · simp [updN_other _ _ _ _ ha]
    · simp [allocV_vcell]; omega
    · simp
    · simp [allocV_vcell]
  | cons it rest =>
    have r := litItems_spec (it :: rest) h
    simp only [setValuesLits]
    generalize litItems h (it :: rest) = cv at r
    obtain ⟨h1, items⟩ := cv
    simp only at r ⊢
    obtain ⟨e, a, b, c, d, f, g, _⟩ := r
    have m := e.1
    unfold Mono at m
    refine ⟨⟨by simp; omega, by simp; omega, by simp; omega, by simp; omega⟩, by simp [a],
      by simp [c], fun x hx => ?_, fun x hx => ?_, fun t ht => ?_, ?_, by simp [b], ?_⟩
    · simp [updN_other _ _ _ _ hx, d]
    · simp [allocV_vcell, b, f]; omega
    · simp [e.2.2.2 t ht]
    · simp [d, b]
    · simp only [updN_vcell, updN_nT, allocV_nT, allocV_vcell, b, if_true]
      exact g

/-- A `SetSpec` step on an object that is new relative to `h0` keeps `h0` intact. -/
theorem SetSpec.ext {h0 h h' : H} {p : Nat} (s : SetSpec h h' p) (e : Ext h0 h) (hp : h0.nN ≤ p) :
    Ext h0 h' := by
  obtain ⟨m, n, v, t⟩ := e
  have m' := s.mono
  unfold Mono at m m'
  refine ⟨by unfold Mono; omega, fun a ha => ?_, fun c hc => ?_, fun x hx => ?_⟩
  · rw [s.nodeO a (by omega), n a ha]
  · rw [s.vB c (by omega), v c hc]
  · rw [s.tB x (by omega), t x hx]

/-! ### Property.clone -/

structure PropCloneSpec (h h' : H) (x c : Nat) (keep : Bool) : Prop where
  ext : Ext h h'
  c_eq : c = h.nN
  nN : h'.nN = h.nN + 1
  nV : h'.nV = h.nV + 1
  node : h'.node c = { h.node x with parent := none, vals := some h.nV,
                                     id := if keep then (h.node x).id else h.nextId }
  nextId : h'.nextId = if keep then h.nextId else h.nextId + 1
  cell : ∀ t, Item.ref t ∈ h'.vcell h.nV → h.nT ≤ t ∧ t < h'.nT
  same : x < h.nN → (∀ t, Item.ref t ∈ valsOf h x → t < h.nT) →
    resolve h' (h'.vcell h.nV) = resolve h (valsOf h x)

theorem cloneProp_spec (h : H) (x : Nat) (keep : Bool) :
    PropCloneSpec h (cloneProp h x keep).1 x (cloneProp h x keep).2 keep := by
  simp only [cloneProp]
  generalize hh2 : updN (allocN h (h.node x)).1 (allocN h (h.node x)).2 (fun n => { n with parent := none }) = h2
  have e2 : Ext h h2 := by
    rw [← hh2]; exact ext_updN (ext_allocN h _) _ _ (by simp)
  have hc : (allocN h (h.node x)).2 = h.nN := rfl
  rw [hc] at hh2 ⊢
  have n2 : h2.node h.nN = { h.node x with parent := none } := by
    rw [← hh2]; simp [allocN_node]
  have s2 : h2.nN = h.nN + 1 ∧ h2.nV = h.nV ∧ h2.nT = h.nT ∧ h2.nextId = h.nextId := by
    rw [← hh2]; simp
  obtain ⟨sp, sres⟩ := setValuesItems_spec h2 h.nN (valsOf h2 x)
  generalize setValuesItems h2 h.nN (valsOf h2 x) = h3 at sp sres
  have e3 : Ext h h3 := sp.ext e2 (Nat.le_refl _)
  have n3 : h3.node h.nN = { h.node x with parent := none, vals := some h.nV } := by
    rw [sp.nodeP, n2, s2.2.1]
  have same3 : x < h.nN → (∀ t, Item.ref t ∈ valsOf h x → t < h.nT) →
      resolve h3 (h3.vcell h.nV) = resolve h (valsOf h x) := by
    intro hx hbel
    have hv : valsOf h2 x = valsOf h x := by
      simp only [valsOf, e2.2.1 x hx]
      cases hvx : (h.node x).vals with
      | none => rfl
      | some cv =>
        simp only
        rw [← hh2]; rfl
    rw [s2.2.1, hv, s2.2.2.1] at sres
    rw [sres hbel]
    apply resolve_congr
    intro t _
    rw [← hh2]; rfl
  cases keep with
  | true =>
    simp only [if_true]
    refine ⟨e3, rfl, by rw [sp.nN, s2.1], by rw [sp.nV, s2.2.1], by rw [n3]; simp,
      by rw [sp.nextId, s2.2.2.2]; simp, ?_, same3⟩
    have := sp.cell
    rw [s2.2.1, s2.2.2.1] at this
    exact this
  | false =>
    simp only [Bool.false_eq_true, if_false]
    refine ⟨ext_newId e3 _ (Nat.le_refl _), rfl, by simp [sp.nN, s2.1], by simp [sp.nV, s2.2.1],
      by rw [newId_node, if_pos rfl, n3, sp.nextId, s2.2.2.2]; simp, by simp [sp.nextId, s2.2.2.2], ?_, ?_⟩
    · have := sp.cell
      rw [s2.2.1, s2.2.2.1] at this
      simpa using this
    · intro hx hbel
      have := same3 hx hbel
      rw [← this]
      apply resolve_congr
      intro t _; rfl

/-- The block a `Property.clone` allocates is closed. -/
theorem cloneProp_closed {h h' : H} {x c : Nat} {keep : Bool} (s : PropCloneSpec h h' x c keep)
    (hk : (h.node x).kind = .prop) : Closed h' (rng h h') := by
  refine ⟨fun a ha hl => ?_, fun v hv hl => ?_⟩
  · have : a = c := by
      have := ha.1; have := s.nN; have := s.c_eq; omega
    subst this
    rw [s.node]
    refine ⟨fun _ p hp => by simp at hp, fun hne => by simp [hk] at hne, fun hs => by simp [hk] at hs,
      fun _ cv hcv => ?_⟩
    simp only [Option.some.injEq] at hcv
    subst hcv
    exact ⟨Nat.le_refl _, by rw [s.nV]; omega⟩
  · have : v = h.nV := by
      have := hv.1; have := s.nV; omega
    subst this
    intro t ht
    exact s.cell t ht

/-! ### `obj.append(child)` on new objects -/

theorem attach_ok {h h' : H} {c child : Nat} (ha : attach h c child = (h', none)) :
    h' = updN (setChildList h c ((h.node child).kind != .prop) (fun l => l ++ [child])) child
          (fun n => { n with parent := some c }) := by
  unfold attach at ha
  simp only at ha
  split at ha
  · simp at ha
  · simp only [Prod.mk.injEq, and_true] at ha
    exact ha.symm

/-- The success case of the spec every (recursive) clone call satisfies. -/
def RecSpec (rec : H → Nat → H × Res) : Prop :=
  ∀ h s h1 sc, rec h s = (h1, .ok sc) →
    Ext h h1 ∧ Closed h1 (rng h h1) ∧ sc = h.nN ∧ h.nN < h1.nN ∧ (h1.node sc).parent = none

/-- Parent reference and sections of an object under construction. -/
def NodeInS (R : Reg) (n : Node) : Prop :=
  (n.kind ≠ .doc → ∀ p, n.parent = some p → R.n p) ∧
  (n.kind ≠ .prop → ∀ c, c ∈ n.secs → R.n c) ∧
  (n.kind = .prop → ∀ c, n.vals = some c → R.v c)

def PropsIn (R : Reg) (n : Node) : Prop := n.kind = .sec → ∀ c, c ∈ n.props → R.n c

theorem nodeIn_of_parts {R n} (a : NodeInS R n) (b : PropsIn R n) : NodeIn R n :=
  ⟨a.1, a.2.1, b, a.2.2⟩

/-- Loop invariant of `for child in …: obj.append(child.clone(…))`: relative to the store `b` in
    which the copy `c` was allocated, nothing of `b` is written, and all finished new objects only
    refer to new locations. -/
structure LoopInv (b h : H) (c : Nat) : Prop where
  ext : Ext b h
  cex : ClosedEx h (rng b h) c
  clo : b.nN ≤ c
  chi : c < h.nN

theorem cloneLoop_spec {rec} (hrec : RecSpec rec) (b : H) (c : Nat) :
    ∀ (l : List Nat) (h h' : H), cloneLoop rec h c l = (h', none) → LoopInv b h c →
      LoopInv b h' c ∧
      (NodeInS (rng b h) (h.node c) → NodeInS (rng b h') (h'.node c)) ∧
      (PropsIn (rng b h) (h.node c) → PropsIn (rng b h') (h'.node c)) ∧
      (h'.node c).kind = (h.node c).kind ∧ (h'.node c).parent = (h.node c).parent ∧
      (h'.node c).id = (h.node c).id ∧ h'.nextId ≥ h.nextId := by
  intro l
  induction l with
  | nil =>
    intro h h' hl inv
    simp only [cloneLoop, Prod.mk.injEq, and_true] at hl
    subst hl
    exact ⟨inv, id, id, rfl, rfl, rfl, Nat.le_refl _⟩
  | cons s rest ih =>
    intro h h' hl inv
    simp only [cloneLoop] at hl
    split at hl
    · simp at hl
    · rename_i h1 sc hr
      split at hl
      · simp at hl
      · rename_i h2 hat
        obtain ⟨e1, cl1, hsc, hlt, hpar⟩ := hrec h s h1 sc hr
        have hh2 := attach_ok hat
        have m1 := e1.1
        have mb := inv.ext.1
        unfold Mono at m1 mb
        have hcne : sc ≠ c := by have := inv.chi; omega
        -- the store after the recursive call, relative to b
        have cex1 : ClosedEx h1 (rng b h1) c := closedEx_glue inv.ext.1 e1 inv.cex cl1
        have hc1 : h1.node c = h.node c := e1.2.1 c inv.chi
        have scR : (rng b h2).n sc := by
          rw [hh2]; simp only [rng, updN_nN, setChildList]; omega
        have cR : (rng b h2).n c := by
          rw [hh2]; simp only [rng, updN_nN, setChildList]
          have := inv.clo; have := inv.chi; omega
        have sz2 : h2.nN = h1.nN ∧ h2.nV = h1.nV ∧ h2.nT = h1.nT ∧ h2.nextId = h1.nextId := by
          rw [hh2]; simp [setChildList]
        have rle : (rng b h1).le (rng b h2) := by
          refine ⟨fun a ha => ?_, fun a ha => ?_, fun a ha => ?_⟩ <;>
            simp only [rng] at * <;> omega
        have e2 : Ext b h2 := by
          rw [hh2]
          exact ext_updN (ext_updN (inv.ext.trans e1) _ _ inv.clo) _ _ (by omega)
        have n2other : ∀ a, a ≠ c → a ≠ sc → h2.node a = h1.node a := by
          intro a ha1 ha2
          rw [hh2, updN_other _ _ _ _ ha2]
          simp only [setChildList]
          rw [updN_other _ _ _ _ ha1]
        have n2sc : h2.node sc = { h1.node sc with parent := some c } := by
          rw [hh2, updN_same]
          simp only [setChildList]
          rw [updN_other _ _ _ _ hcne]
        have n2c : h2.node c =
            (if ((h1.node sc).kind != .prop) = true then { h.node c with secs := (h.node c).secs ++ [sc] }
             else { h.node c with props := (h.node c).props ++ [sc] }) := by
          rw [hh2, updN_other _ _ _ _ (Ne.symm hcne)]
          simp only [setChildList, updN_same, hc1]
        have inv2 : LoopInv b h2 c := by
          refine ⟨e2, ⟨fun a ha hl hne => ?_, fun v hv hl => ?_⟩, inv.clo, by have := inv.chi; rw [sz2.1]; omega⟩
          · by_cases hs : a = sc
            · subst hs
              rw [n2sc]
              have hold := cex1.1 a ⟨by omega, by omega⟩ (by omega) hne
              refine ⟨fun _ p hp => ?_, fun k x hx => rle.1 _ (hold.2.1 k x hx),
                fun k x hx => rle.1 _ (hold.2.2.1 k x hx), fun k x hx => rle.2.1 _ (hold.2.2.2 k x hx)⟩
              simp only [Option.some.injEq] at hp
              subst hp; exact cR
            · rw [n2other a hne hs]
              exact (cex1.1 a ⟨ha.1, by rw [← sz2.1]; exact ha.2⟩ (by rw [← sz2.1]; exact hl) hne).mono rle
          · have hv2 : h2.vcell v = h1.vcell v := by rw [hh2]; rfl
            rw [hv2]
            exact (cex1.2 v ⟨hv.1, by rw [← sz2.2.1]; exact hv.2⟩ (by rw [← sz2.2.1]; exact hl)).mono rle
        obtain ⟨inv', ks, kp, kk, kpar, kid, knx⟩ := ih h2 h' hl inv2
        have rle0 : (rng b h).le (rng b h2) := by
          refine ⟨fun a ha => ?_, fun a ha => ?_, fun a ha => ?_⟩ <;>
            simp only [rng] at * <;> omega
        refine ⟨inv', fun hS => ks ?_, fun hP => kp ?_, ?_, ?_, ?_, ?_⟩
        · rw [n2c]
          split
          · refine ⟨fun k p hp => rle0.1 _ (hS.1 k p hp), fun k x hx => ?_, fun k x hx => rle0.2.1 _ (hS.2.2 k x hx)⟩
            simp only [List.mem_append, List.mem_singleton] at hx
            rcases hx with hx | hx
            · exact rle0.1 _ (hS.2.1 k x hx)
            · subst hx; exact scR
          · exact ⟨fun k p hp => rle0.1 _ (hS.1 k p hp), fun k x hx => rle0.1 _ (hS.2.1 k x hx),
              fun k x hx => rle0.2.1 _ (hS.2.2 k x hx)⟩
        · rw [n2c]
          split
          · exact fun k x hx => rle0.1 _ (hP k x hx)
          · intro k x hx
            simp only [List.mem_append, List.mem_singleton] at hx
            rcases hx with hx | hx
            · exact rle0.1 _ (hP k x hx)
            · subst hx; exact scR
        · rw [kk, n2c]; split <;> rfl
        · rw [kpar, n2c]; split <;> rfl
        · rw [kid, n2c]; split <;> rfl
        · have := e1.1.2.2.2; omega

end Clone
