/-
C15, whole-tree composition, part 6: the converted tree passes the structural acceptance
conditions of the strict reader (`readerAccepts`: no XML attributes on Sections / Properties,
every child tag an argument of the class, `name` / `type` present, root `version` 1.1) - for every
document tree with `LoadWF`, any depth and size.
-/
import OdmlModel.Proofs.ConvWF

namespace Conv
open Conv.Xml

/-! ## The hypothesis -/

/-- The named Property children carry no XML attributes. -/
def propsAccOKb (ks : List Xml) : Bool :=
  (sel "property" ks).all (fun p => (find "name" p.kids).isNone || p.attrs.isEmpty)

mutual
/-- A Section element and everything below it: no XML attributes on Sections and named
    Properties, every Section has a `name` and a `type` child. -/
def accOK : Xml → Bool
  | .elem _ a _ ks =>
    a.isEmpty && (find "name" ks).isSome && (find "type" ks).isSome && propsAccOKb ks && accOKKids ks
def accOKKids : List Xml → Bool
  | [] => true
  | k :: ks => (if k.tag = "section" then accOK k else true) && accOKKids ks
end

/-- **Hypothesis of the loadability theorem** (decidable): the root is `odML` with at most the
    attribute `version`, Sections (any depth) are named and typed, Sections and named Properties
    have no XML attributes.  Nothing else - any children, texts, names, ids, values. -/
def LoadWF (x : Xml) : Bool :=
  x.tag == "odML" && x.attrs.all (fun a => a.1 == "version") && decide (x.attrs.length ≤ 1) &&
  accOKKids x.kids

theorem accOK_parts (k : Xml) (h : accOK k = true) :
    k.attrs.isEmpty = true ∧ (find "name" k.kids).isSome = true ∧ (find "type" k.kids).isSome = true ∧
    propsAccOKb k.kids = true ∧ accOKKids k.kids = true := by
  cases k with
  | elem t a x ks =>
    simp only [accOK, Bool.and_eq_true] at h
    exact ⟨h.1.1.1.1, h.1.1.1.2, h.1.1.2, h.1.2, h.2⟩

theorem accOK_of_mem (ks : List Xml) (h : accOKKids ks = true) (k : Xml) (hk : k ∈ ks)
    (hs : k.tag = "section") : accOK k = true := by
  induction ks with
  | nil => cases hk
  | cons k' ks ih =>
    simp only [accOKKids, Bool.and_eq_true] at h
    rcases List.mem_cons.1 hk with e | hm
    · subst e; simpa [hs] using h.1
    · exact ih h.2 hm

/-! ## The acceptance conditions, from their parts -/

theorem acceptsSec_eq (e : Xml) :
    acceptsSec e = (e.attrs.isEmpty && (find "name" e.kids).isSome && (find "type" e.kids).isSome &&
      acceptsSecKids e.kids) := by
  cases e; simp [acceptsSec]

theorem acceptsSecKids_of (ks : List Xml) (h1 : ∀ k ∈ ks, k.tag ∈ secKeys)
    (h2 : ∀ k ∈ sel "section" ks, acceptsSec k = true)
    (h3 : ∀ k ∈ sel "property" ks, acceptsProp k = true) : acceptsSecKids ks = true := by
  induction ks with
  | nil => simp [acceptsSecKids]
  | cons k ks ih =>
    simp only [acceptsSecKids, Bool.and_eq_true, decide_eq_true_eq]
    refine ⟨⟨h1 k (by simp), ?_⟩, ih (fun k' hm => h1 k' (List.mem_cons_of_mem _ hm))
      (fun k' hm => h2 k' (by rw [sel_cons]; split <;> simp [hm]))
      (fun k' hm => h3 k' (by rw [sel_cons]; split <;> simp [hm]))⟩
    split
    · rename_i hs; exact h2 k (mem_sel.2 ⟨by simp, hs⟩)
    · split
      · rename_i hp; exact h3 k (mem_sel.2 ⟨by simp, hp⟩)
      · rfl

theorem acceptsDocKids_of (ks : List Xml) (h1 : ∀ k ∈ ks, k.tag ∈ docKeys)
    (h2 : ∀ k ∈ sel "section" ks, acceptsSec k = true) : acceptsDocKids ks = true := by
  induction ks with
  | nil => simp [acceptsDocKids]
  | cons k ks ih =>
    simp only [acceptsDocKids, Bool.and_eq_true, decide_eq_true_eq]
    refine ⟨⟨h1 k (by simp), ?_⟩, ih (fun k' hm => h1 k' (List.mem_cons_of_mem _ hm))
      (fun k' hm => h2 k' (by rw [sel_cons]; split <;> simp [hm]))⟩
    split
    · rename_i hs; exact h2 k (mem_sel.2 ⟨by simp, hs⟩)
    · rfl

/-! ## Attributes and child tags through the passes -/

theorem p1_attrs (k : Xml) : (p1 k).attrs = k.attrs := by cases k; simp [p1]
theorem rename_attrs (n : List Char) (k : Xml) : (rename n k).attrs = k.attrs := by
  cases k; simp [rename]
theorem p3_attrs (enc : Bool) (k : Xml) : (p3 enc k).1.attrs = k.attrs := by cases k; simp [p3]
theorem p4_attrs (k : Xml) : (p4 k).1.attrs = k.attrs := by
  cases k; simp only [p4]; split <;> simp
theorem addId_attrs (fresh : List Char) (e : Xml) : (addId fresh e).attrs = e.attrs := by
  cases e; simp only [addId]; split <;> rfl
theorem iter_addId_attrs (fresh : List Char) (n : Nat) (e : Xml) :
    (iter (addId fresh) n e).attrs = e.attrs := by
  induction n generalizing e with
  | zero => rfl
  | succ n ih => simp only [iter]; rw [ih, addId_attrs]

theorem mem_removeFirst {t : String} {k : Xml} {ks : List Xml} (h : k ∈ removeFirst t ks) : k ∈ ks := by
  induction ks with
  | nil => cases h
  | cons k' ks ih =>
    simp only [removeFirst] at h
    split at h
    · exact List.mem_cons_of_mem _ h
    · rcases List.mem_cons.1 h with e | hm
      · subst e; simp
      · exact List.mem_cons_of_mem _ (ih hm)

/-- `_add_id` adds an `id` child and nothing else. -/
theorem addId_kids_tags (P : String → Prop) (hid : P "id") (fresh : List Char) (e : Xml)
    (h : ∀ k ∈ e.kids, P k.tag) : ∀ k ∈ (addId fresh e).kids, P k.tag := by
  cases e with
  | elem tg a x ks =>
    simp only [kids_elem] at h
    intro k hk
    simp only [addId] at hk
    split at hk
    · simp only [kids_elem, List.mem_append, List.mem_singleton] at hk
      rcases hk with hm | e
      · exact h k (mem_removeFirst hm)
      · subst e; exact hid
    · simp only [kids_elem, List.mem_append, List.mem_singleton] at hk
      rcases hk with hm | e
      · exact h k hm
      · subst e; exact hid

theorem iter_addId_kids_tags (P : String → Prop) (hid : P "id") (fresh : List Char) (n : Nat) (e : Xml)
    (h : ∀ k ∈ e.kids, P k.tag) : ∀ k ∈ (iter (addId fresh) n e).kids, P k.tag := by
  induction n generalizing e with
  | zero => exact h
  | succ n ih => simp only [iter]; exact ih _ (addId_kids_tags P hid fresh e h)

theorem p6Kids_tags (P : String → Prop) (fresh : List Char) (d : Nat) (ks : List Xml)
    (h : ∀ k ∈ ks, P k.tag) : ∀ k ∈ p6Kids fresh d ks, P k.tag := by
  rw [p6Kids_eq_map]
  intro k hk
  obtain ⟨k0, hk0, e⟩ := List.mem_map.1 hk
  rw [← e, p6One_tag]
  exact h k0 hk0

theorem propCleanup_tags (pid : PropId) (ks : List Xml) :
    ∀ k ∈ (propCleanup pid ks).1, k.tag ∈ propKeys := by
  induction ks with
  | nil => simp [propCleanup]
  | cons k ks ih =>
    simp only [propCleanup]
    split
    · intro k' hk'
      simp only [List.mem_cons] at hk'
      rcases hk' with rfl | hk'
      · simpa using ‹respell k.tag ∈ propKeys›
      · exact ih k' hk'
    · exact ih

/-! ## A converted Property is accepted -/

theorem acceptsProp_converted (enc : Bool) (fresh sn st : List Char) (n : Nat) (p : Xml)
    (hattr : p.attrs.isEmpty = true) (hn : (find "name" p.kids).isSome = true) :
    acceptsProp (iter (addId fresh) n (transformProp enc sn st p).1) = true := by
  unfold acceptsProp
  simp only [Bool.and_eq_true, List.all_eq_true, decide_eq_true_eq]
  refine ⟨⟨?_, ?_⟩, ?_⟩
  · rw [iter_addId_attrs]; exact hattr
  · apply iter_addId_kids_tags (fun t => t ∈ propKeys) (by decide)
    intro k hk
    rw [transformProp_kids] at hk
    exact propCleanup_tags _ _ k hk
  · rw [find_congr (iter_addId_sel_other "name" (by decide) fresh n _),
      transformProp_find enc sn st p "name" (by decide) (by decide) (by decide)]
    cases hf : find "name" p.kids with
    | none => rw [hf] at hn; cases hn
    | some k => rfl

/-! ## Where the children of stage 1 come from -/

theorem mem_sel_section_p1Kids (e : Xml) (b : Bool) (sm pm : Counter) (sd pd : List (List Char))
    (ks : List Xml) (h : e ∈ sel "section" (p1Kids b sm pm sd pd ks)) :
    ∃ k0 ∈ ks, k0.tag = "section" ∧
      ((e = p1 k0 ∧ find "name" k0.kids = none) ∨ ∃ n, e = rename n (p1 k0)) := by
  induction ks generalizing sm pm sd pd with
  | nil => simp [p1Kids, sel_nil] at h
  | cons k ks ih =>
    simp only [p1Kids] at h
    split at h
    · rename_i hs
      split at h
      · rw [sel_cons, if_pos (by rw [rename_tag, p1_tag]; exact hs)] at h
        rcases List.mem_cons.1 h with e1 | hm
        · exact ⟨k, by simp, hs, Or.inr ⟨_, e1⟩⟩
        · obtain ⟨k0, hk0, r⟩ := ih _ _ _ _ hm
          exact ⟨k0, List.mem_cons_of_mem _ hk0, r⟩
      · rename_i hfn
        rw [sel_cons, if_pos (by rw [p1_tag]; exact hs)] at h
        rcases List.mem_cons.1 h with e1 | hm
        · exact ⟨k, by simp, hs, Or.inl ⟨e1, hfn⟩⟩
        · obtain ⟨k0, hk0, r⟩ := ih _ _ _ _ hm
          exact ⟨k0, List.mem_cons_of_mem _ hk0, r⟩
    · rename_i hs
      split at h
      · split at h
        · rw [sel_cons, if_neg (by rw [rename_tag]; exact hs)] at h
          obtain ⟨k0, hk0, r⟩ := ih _ _ _ _ h
          exact ⟨k0, List.mem_cons_of_mem _ hk0, r⟩
        · rw [sel_cons, if_neg hs] at h
          obtain ⟨k0, hk0, r⟩ := ih _ _ _ _ h
          exact ⟨k0, List.mem_cons_of_mem _ hk0, r⟩
      · rw [sel_cons, if_neg hs] at h
        obtain ⟨k0, hk0, r⟩ := ih _ _ _ _ h
        exact ⟨k0, List.mem_cons_of_mem _ hk0, r⟩

theorem mem_sel_property_p1Kids (e : Xml) (b : Bool) (sm pm : Counter) (sd pd : List (List Char))
    (ks : List Xml) (h : e ∈ sel "property" (p1Kids b sm pm sd pd ks)) :
    ∃ k0 ∈ ks, k0.tag = "property" ∧ (e = k0 ∨ ∃ n, e = rename n k0) := by
  induction ks generalizing sm pm sd pd with
  | nil => simp [p1Kids, sel_nil] at h
  | cons k ks ih =>
    simp only [p1Kids] at h
    split at h
    · rename_i hs
      have hnp : ¬ k.tag = "property" := by rw [hs]; decide
      split at h
      · rw [sel_cons, if_neg (by rw [rename_tag, p1_tag]; exact hnp)] at h
        obtain ⟨k0, hk0, r⟩ := ih _ _ _ _ h
        exact ⟨k0, List.mem_cons_of_mem _ hk0, r⟩
      · rw [sel_cons, if_neg (by rw [p1_tag]; exact hnp)] at h
        obtain ⟨k0, hk0, r⟩ := ih _ _ _ _ h
        exact ⟨k0, List.mem_cons_of_mem _ hk0, r⟩
    · split at h
      · rename_i hpb
        simp only [Bool.and_eq_true, decide_eq_true_eq] at hpb
        split at h
        · rw [sel_cons, if_pos (by rw [rename_tag]; exact hpb.1)] at h
          rcases List.mem_cons.1 h with e1 | hm
          · exact ⟨k, by simp, hpb.1, Or.inr ⟨_, e1⟩⟩
          · obtain ⟨k0, hk0, r⟩ := ih _ _ _ _ hm
            exact ⟨k0, List.mem_cons_of_mem _ hk0, r⟩
        · rw [sel_cons, if_pos hpb.1] at h
          rcases List.mem_cons.1 h with e1 | hm
          · exact ⟨k, by simp, hpb.1, Or.inl e1⟩
          · obtain ⟨k0, hk0, r⟩ := ih _ _ _ _ hm
            exact ⟨k0, List.mem_cons_of_mem _ hk0, r⟩
      · rw [sel_cons] at h
        split at h
        · rename_i hp
          rcases List.mem_cons.1 h with e1 | hm
          · exact ⟨k, by simp, hp, Or.inl e1⟩
          · obtain ⟨k0, hk0, r⟩ := ih _ _ _ _ hm
            exact ⟨k0, List.mem_cons_of_mem _ hk0, r⟩
        · obtain ⟨k0, hk0, r⟩ := ih _ _ _ _ h
          exact ⟨k0, List.mem_cons_of_mem _ hk0, r⟩

/-! ## The Section level -/

theorem sec_kids' (enc : Bool) (n : List Char) (k : Xml) (hs : k.tag = "section") :
    ∃ sn sn' st', (p4 (p3 enc (rename n (p1 k))).1).1.kids =
      (secCleanup sn (p4Kids (p3Kids enc sn' st'
        (setFirstText "name" n (p1Kids true [] [] [] [] k.kids))).1).1).1 := by
  have htag : (p3 enc (rename n (p1 k))).1.tag = "section" := by
    rw [p3_tag, rename_tag, p1_tag]; exact hs
  refine ⟨pyStr (findText "name" (p3 enc (rename n (p1 k))).1.kids),
    parentLabel "name" "unnamed" (rename n (p1 k)).kids,
    parentLabel "type" "untyped" (rename n (p1 k)).kids, ?_⟩
  rw [p4_kids_sec _ htag, p3_kids, rename_kids, p1_kids]
  simp only [hs, beq_self_eq_true]

theorem sec_tag' (enc : Bool) (n : List Char) (k : Xml) :
    (p4 (p3 enc (rename n (p1 k))).1).1.tag = k.tag := by
  rw [p4_tag, p3_tag, rename_tag, p1_tag]

def AccStmt (fresh : List Char) (enc : Bool) (k : Xml) : Prop :=
  k.tag = "section" → accOK k = true → ∀ (d : Nat) (n : List Char),
    acceptsSec (p6 fresh d (p4 (p3 enc (rename n (p1 k))).1).1) = true

/-- The Section children of a node after all passes are accepted. -/
theorem secs_accepted (fresh : List Char) (enc : Bool) (d : Nat) (b : Bool) (ks : List Xml)
    (ih : ∀ k ∈ ks, AccStmt fresh enc k) (hok : accOKKids ks = true) :
    ∀ q ∈ (sel "section" (p1Kids b [] [] [] [] ks)).map
        (fun k => p6 fresh d (p4 (p3 enc k).1).1), acceptsSec q = true := by
  intro q hq
  obtain ⟨e, he, rfl⟩ := List.mem_map.1 hq
  obtain ⟨k0, hk0, hs0, r⟩ := mem_sel_section_p1Kids e b _ _ _ _ ks he
  have hacc := accOK_of_mem ks hok k0 hk0 hs0
  rcases r with ⟨_, hnone⟩ | ⟨n, rfl⟩
  · have := (accOK_parts k0 hacc).2.1
    rw [hnone] at this; cases this
  · exact ih k0 hk0 hs0 hacc d n

theorem section_accepted (fresh : List Char) (enc : Bool) : ∀ k, AccStmt fresh enc k := by
  apply Xml.ind
  intro t a x ks ih hs hck d n
  obtain ⟨hattr, hnamed, htyped, hprops, hkids⟩ := accOK_parts _ hck
  simp only [kids_elem, attrs_elem] at hattr hnamed htyped hprops hkids
  obtain ⟨sn, sn', st', hk4⟩ := sec_kids' enc n (.elem t a x ks) hs
  simp only [kids_elem] at hk4
  have htag4 := sec_tag' enc n (.elem t a x ks)
  rw [hs] at htag4
  have hattr4 : (p4 (p3 enc (rename n (p1 (Xml.elem t a x ks)))).1).1.attrs = a := by
    rw [p4_attrs, p3_attrs, rename_attrs, p1_attrs]; rfl
  rw [p6_eq, htag4, if_pos rfl, hk4, hattr4, acceptsSec_eq, addId_attrs]
  generalize (p4 (p3 enc (rename n (p1 (Xml.elem t a x ks)))).1).1.text = x'
  simp only [attrs_elem, Bool.and_eq_true]
  have hplain : ∀ u, u ∈ secKeys → u ≠ "section" → u ≠ "property" → u ≠ "name" →
      sel u (p6Kids fresh (d + 1) (secCleanup sn (p4Kids (p3Kids enc sn' st'
        (setFirstText "name" n (p1Kids true [] [] [] [] ks))).1).1).1) = sel u ks := by
    intro u hu h1 h2 h3
    rw [sel_p6Kids_other u h1 h2, sel_secCleanup u hu, sel_p4Kids_other u h1,
      sel_p3Kids_other u h1 h2, sel_setFirstText_other u n _ h3, sel_p1Kids_other u h1 h2]
  refine ⟨⟨⟨hattr, ?_⟩, ?_⟩, ?_⟩
  · -- a name
    rw [find_congr (sel_addId_elem _ (by decide) _ _ _ _ _),
      find_congr (sel_p6Kids_other _ (by decide) (by decide) _ _ _),
      find_congr (sel_secCleanup _ (by decide) _ _),
      find_congr (sel_p4Kids_other _ (by decide) _),
      find_congr (sel_p3Kids_other _ (by decide) (by decide) _ _ _ _),
      find_isSome_setFirstText, find_isSome_p1Kids]
    exact hnamed
  · -- a type
    rw [find_congr (sel_addId_elem _ (by decide) _ _ _ _ _),
      find_congr (hplain "type" (by decide) (by decide) (by decide) (by decide))]
    exact htyped
  · apply acceptsSecKids_of
    · -- vocabulary
      apply addId_kids_tags (fun t => t ∈ secKeys) (by decide)
      simp only [kids_elem]
      apply p6Kids_tags
      intro k hk
      rw [secCleanup_eq_filter] at hk
      simpa using (List.mem_filter.1 hk).2
    · -- Sections below
      rw [sel_addId_elem _ (by decide), sel_p6Kids_section, sel_secCleanup _ (by decide),
        sel_p4Kids_section, sel_p3Kids_section, sel_setFirstText_other _ n _ (by decide),
        List.map_map, List.map_map]
      exact secs_accepted fresh enc (d + 1) true ks ih hkids
    · -- Properties
      rw [sel_addId_elem _ (by decide), sel_p6Kids_property, sel_secCleanup _ (by decide),
        sel_p4Kids_other _ (by decide), sel_p3Kids_property,
        sel_setFirstText_other _ n _ (by decide)]
      intro q hq
      obtain ⟨q0, hq0, rfl⟩ := List.mem_map.1 hq
      obtain ⟨e, he, hpe⟩ := List.mem_filterMap.1 hq0
      unfold p3Prop at hpe
      split at hpe
      · cases hpe
      · rename_i hnn
        simp only [Option.some.injEq] at hpe
        subst hpe
        have hen : (find "name" e.kids).isSome = true := by
          cases hf : find "name" e.kids with
          | none => rw [hf] at hnn; exact absurd rfl hnn
          | some _ => rfl
        obtain ⟨k0, hk0, hp0, r⟩ := mem_sel_property_p1Kids e true _ _ _ _ ks he
        have hk0ok : (find "name" k0.kids).isNone = true ∨ k0.attrs.isEmpty = true := by
          have := hprops
          simp only [propsAccOKb, List.all_eq_true, Bool.or_eq_true] at this
          exact this k0 (mem_sel.2 ⟨hk0, hp0⟩)
        have heattr : e.attrs.isEmpty = true := by
          rcases r with rfl | ⟨n', rfl⟩
          · rcases hk0ok with h | h
            · cases hf : find "name" e.kids with
              | none => rw [hf] at hen; cases hen
              | some _ => rw [hf] at h; cases h
            · exact h
          · rw [rename_attrs]
            rcases hk0ok with h | h
            · rw [rename_kids, find_isSome_setFirstText] at hen
              cases hf : find "name" k0.kids with
              | none => rw [hf] at hen; cases hen
              | some _ => rw [hf] at h; cases h
            · exact h
        exact acceptsProp_converted enc fresh sn' st' (d + 1) e heattr hen

/-! ## The Document -/

/-- The children of the converted root are accepted: vocabulary of the Document class, and every
    Section (recursively) accepted. -/
theorem acceptsDocKids_convertTree (fresh : List Char) (x : Xml) (hkids : accOKKids x.kids = true) :
    acceptsDocKids (convertTree fresh x).kids = true := by
  have hsec := section_accepted fresh (encodedValues x)
  have h3k : (stage3 x).1.kids = (p3Kids (encodedValues x) (parentLabel "name" "unnamed" (p1 x).kids)
      (parentLabel "type" "untyped" (p1 x).kids)
      (p1Kids (x.tag == "section") [] [] [] [] x.kids)).1 := by
    simp only [stage3]
    rw [p3_kids, p2_kids, p1_kids]
  have hsel_sec : sel "section" (stage5 x).1.kids =
      (sel "section" (p1Kids (x.tag == "section") [] [] [] [] x.kids)).map
        (fun k => (p4 (p3 (encodedValues x) k).1).1) := by
    simp only [stage5, stage4]
    rw [p5_kids, sel_docCleanup _ (by decide)]
    by_cases ht : (stage3 x).1.tag = "section"
    · rw [p4_kids_sec _ ht, sel_secCleanup _ (by decide), sel_p4Kids_section, h3k,
        sel_p3Kids_section, List.map_map]
      rfl
    · rw [p4_kids_other _ ht, sel_p4Kids_section, h3k, sel_p3Kids_section, List.map_map]
      rfl
  unfold convertTree
  rw [p6_eq]
  apply acceptsDocKids_of
  · apply addId_kids_tags (fun t => t ∈ docKeys) (by decide)
    simp only [kids_elem]
    apply p6Kids_tags
    intro k hk
    simp only [stage5] at hk
    rw [p5_kids, docCleanup_eq_filter] at hk
    simpa using (List.mem_filter.1 hk).2
  · rw [sel_addId_elem _ (by decide), sel_p6Kids_section, hsel_sec, List.map_map]
    exact secs_accepted fresh (encodedValues x) _ _ x.kids (fun k _ => hsec k) hkids

/-! ## `WF10` implies the hypothesis -/

theorem accOK_eq (k : Xml) :
    accOK k = (k.attrs.isEmpty && (find "name" k.kids).isSome && (find "type" k.kids).isSome &&
      propsAccOKb k.kids && accOKKids k.kids) := by
  cases k; simp [accOK]

def AccTreeStmt (k : Xml) : Prop :=
  (∀ s ∈ allSecsL k.kids, wfSecOwn s = true) → (∀ p ∈ allPropsL k.kids, wfProp p = true) →
    accOKKids k.kids = true

theorem acc_tree_ok : ∀ k, AccTreeStmt k := by
  apply Xml.ind
  intro t a x ks ih
  simp only [AccTreeStmt, kids_elem]
  induction ks with
  | nil => intros; simp [accOKKids]
  | cons k ks ihl =>
    intro hsecs hprops
    have ih' : ∀ k' ∈ ks, AccTreeStmt k' := fun k' hm => ih k' (List.mem_cons_of_mem _ hm)
    have hsecs' : ∀ s ∈ allSecsL ks, wfSecOwn s = true := by
      intro s hm; apply hsecs
      simp only [allSecsL, List.mem_append]; exact Or.inr hm
    have hprops' : ∀ p ∈ allPropsL ks, wfProp p = true := by
      intro p hm; apply hprops
      simp only [allPropsL, List.mem_append]; exact Or.inr hm
    simp only [accOKKids, Bool.and_eq_true]
    refine ⟨?_, ihl ih' hsecs' hprops'⟩
    split
    · rename_i hs
      have hk : wfSecOwn k = true := by
        apply hsecs
        simp only [allSecsL, hs, ↓reduceIte, List.mem_append, List.mem_cons]
        exact Or.inl (Or.inl trivial)
      have hsub_s : ∀ s ∈ allSecsL k.kids, wfSecOwn s = true := by
        intro s hm; apply hsecs
        simp only [allSecsL, hs, ↓reduceIte, List.mem_append, List.mem_cons, allSecs_eq]
        exact Or.inl (Or.inr hm)
      have hsub_p : ∀ p ∈ allPropsL k.kids, wfProp p = true := by
        intro p hm; apply hprops
        simp only [allPropsL, hs, ↓reduceIte, List.mem_append, allProps_eq]
        exact Or.inl hm
      have hk' := hk
      simp only [wfSecOwn, Bool.and_eq_true] at hk'
      obtain ⟨⟨⟨hka, _⟩, _⟩, hkt⟩ := hk'
      have hkn : (find "name" k.kids).isSome = true := by
        have := secOwnOKb_of_wfSecOwn k hk
        simp only [secOwnOKb, Bool.and_eq_true] at this
        exact this.1
      rw [accOK_eq]
      simp only [Bool.and_eq_true]
      refine ⟨⟨⟨⟨hka, hkn⟩, hkt⟩, ?_⟩, ih k (by simp) hsub_s hsub_p⟩
      unfold propsAccOKb
      simp only [List.all_eq_true, Bool.or_eq_true]
      intro p hp
      obtain ⟨hpm, hpt⟩ := mem_sel.1 hp
      have := hsub_p p (mem_allPropsL _ p hpm hpt)
      simp only [wfProp, Bool.and_eq_true] at this
      exact Or.inr this.1.1.1.1
    · rfl

theorem accOKKids_of_WF10 (x : Xml) (h : WF10 x = true) : accOKKids x.kids = true := by
  simp only [WF10, Bool.and_eq_true, List.all_eq_true] at h
  obtain ⟨⟨⟨⟨_, _⟩, _⟩, hsecs⟩, hprops⟩ := h
  refine acc_tree_ok x ?_ ?_
  · rw [← allSecs_eq]; exact hsecs
  · rw [← allProps_eq]; exact hprops

end Conv
