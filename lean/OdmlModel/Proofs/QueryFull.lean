/-
C20, composition of the `id`, `value` and `repository` pairs into the soundness / completeness
theorem of the generated queries.  Property theorems: `Props/C20.lean`
(`query_sound_complete_ids`, `…_values`, `…_full`).

Contents
  1. the direct specification `directEval'` (extends `directEval` of `Model/Query.lean`: an object
     also "carries" its id; a Property carries all searched values; a repository is an attribute like
     the others) and the scope `QueryFull` of the queries
  2. `GFacts g ds`: what the proof needs to know of the graph (types, containment links, attribute
     triples, value node and its members, terminology node and its type)
  3. one pair of a query at the node of an object (`pairSat_doc/sec/prop`)
  4. the three parts of a query, the main theorem `sound_complete_gen` from `GFacts`
  5. `GFacts` for exports without repositories (from the lemmas of `Proofs/Query.lean`)
The case analysis of exports *with* repositories is in `Proofs/QueryRepo.lean`.
-/
import OdmlModel.Model.Query
import OdmlModel.Model.QuerySpec
import OdmlModel.Proofs.Query

set_option linter.unusedSimpArgs false
set_option linter.unusedVariables false
set_option linter.unusedSectionVars false
set_option linter.constructorNameAsVariable false

namespace Query
open Rdf List

/-! ## 1. Direct specification for all searchable attributes -/

def fullPair (k : Kind) (x : Pair) : Prop := x.kind = k ∧ String.ofList x.attr ∈ fullAttrs k

/-- **QueryFull**: every pair sits under its own key and asks for a searchable attribute of that
    kind of object (`fullAttrs`), `id`, `value` and `repository` included. -/
def QueryFull (q : QParams) : Prop :=
  (∀ x ∈ q.doc, fullPair .doc x) ∧ (∀ x ∈ q.sec, fullPair .sec x) ∧ (∀ x ∈ q.prop, fullPair .prop x)

theorem queryFull_of_B {q : QParams} (h : queryFullB q = true) : QueryFull q := by
  simp only [queryFullB, Bool.and_eq_true, all_eq_true, fullPairB, beq_iff_eq, contains_iff_mem] at h
  exact ⟨fun x hx => h.1.1 x hx, fun x hx => h.1.2 x hx, fun x hx => h.2 x hx⟩

/-- The order of evaluation the driver uses gives the specification itself. -/
theorem directEvalU'_eq (ds : List DocT) (q : QParams) : directEvalU' ds q = directEval' ds q := by
  unfold directEvalU' directEval'
  apply List.filter_congr
  intro r _
  unfold rowOK'
  cases unboundOK q r.1 r.2.1 r.2.2 <;> simp

theorem directEvalU_eq (ds : List DocT) (q : QParams) : directEvalU ds q = directEval ds q := by
  unfold directEvalU directEval
  apply List.filter_congr
  intro r _
  unfold rowOK
  cases unboundOK q r.1 r.2.1 r.2.2 <;> simp

theorem attr_ne_of {y : Pair} {k : String} (h : String.ofList y.attr ≠ k) :
    (y.attr == k.toList) = false := by
  have : y.attr ≠ k.toList := by
    intro e; apply h; rw [e]; exact String.ofList_toList
  simpa using this

theorem attr_eq_of {y : Pair} {k : String} (h : String.ofList y.attr = k) : y.attr = k.toList := by
  rw [← h, String.toList_ofList]

theorem all_congr_mem {α} {p q : α → Bool} : ∀ {l : List α}, (∀ a ∈ l, p a = q a) → l.all p = l.all q
  | [], _ => rfl
  | x :: r, h => by
    simp only [all_cons]
    rw [h x (by simp), all_congr_mem (fun a ha => h a (by simp [ha]))]

theorem objCarries_safe {K : Kind} {y : Pair} (hs : safePair K y) (id : Str) (a : Attrs) :
    objCarries id a y = carries a y := by
  have := (safeAttrs_facts K _ hs.2).2.2.2.2.2.1
  simp only [objCarries, attr_ne_of this, Bool.false_eq_true, if_false]

theorem propCarries_safe {y : Pair} (hs : safePair .prop y) (p : PropT) :
    propCarries p y = carries p.attrs y := by
  have := (safeAttrs_facts .prop _ hs.2).2.2.2.2.2.2.2.2
  simp only [propCarries, attr_ne_of this, objCarries_safe hs, Bool.false_eq_true, if_false]

/-- On the queries of `QuerySafe` the extended specification is the one of `query_sound_complete`. -/
theorem directEval'_eq_of_safe (ds : List DocT) (q : QParams) (safe : QuerySafe q) :
    directEval' ds q = directEval ds q := by
  unfold directEval' directEval
  congr 1
  funext row
  have e1 : ∀ d : DocT, q.doc.all (objCarries d.id d.attrs) = carriesAll d.attrs q.doc := by
    intro d
    unfold carriesAll
    exact all_congr_mem (fun y hy => objCarries_safe (safe.1 y hy) _ _)
  have e2 : ∀ s : SecT, q.sec.all (objCarries s.id s.attrs) = carriesAll s.attrs q.sec := by
    intro s
    unfold carriesAll
    exact all_congr_mem (fun y hy => objCarries_safe (safe.2.1 y hy) _ _)
  have e3 : ∀ p : PropT, q.prop.all (propCarries p) = propCarriesAll p q.prop := by
    intro p
    unfold propCarriesAll
    refine all_congr_mem (fun y hy => ?_)
    have := (safeAttrs_facts .prop _ (safe.2.2 y hy).2).2.2.2.2.2.2.2.2
    rw [propCarries_safe (safe.2.2 y hy)]
    simp only [attr_ne_of this, Bool.false_eq_true, if_false]
  simp only [rowOK', rowOK, partD', partD, partS', partS, partP', partP, e1, e2, e3]

/-! ## 2. What the proof needs to know of the graph -/

def hvS : String := "https://g-node.org/odml-rdf#hasValue"
def htS : String := "https://g-node.org/odml-rdf#hasTerminology"

/-- Table facts for the value and repository pairs (decidable; discharged in `Props/C20`). -/
structure QTablesOK2 : Prop where
  base : QTablesOK
  propValue : ("value", hvS) ∈ Gen.Format.propertyRdfMap
  docRepo : ("repository", htS) ∈ Gen.Format.documentRdfMap
  secRepo : ("repository", htS) ∈ Gen.Format.sectionRdfMap
  hvIri : odmlIri "hasValue" = .iri hvS.toList
  htIri : hasTerminology = .iri htS.toList

/-- The attribute's Python value, as text, is `s`. -/
def carriesKey (a : Attrs) (k : String) (s : Str) : Bool :=
  match a.lookup k with
  | some v => v.lex == s
  | none => false

theorem carries_eq_key (a : Attrs) (x : Pair) : carries a x = carriesKey a (String.ofList x.attr) x.val := rfl

/-- The triples of the graph `g`, read against the documents `ds`: exactly what the queries look at. -/
structure GFacts (g : Graph) (ds : List DocT) : Prop where
  docType : ∀ x, (⟨x, rdfType, docT⟩ : Triple) ∈ g ↔ ∃ d ∈ ds, x = node d.id
  secType : ∀ x, (⟨x, rdfType, secT⟩ : Triple) ∈ g ↔ ∃ s ∈ docSecs ds, x = node s.id
  propType : ∀ x, (⟨x, rdfType, propT⟩ : Triple) ∈ g ↔ ∃ p ∈ docProps ds, x = node p.id
  hasSec : ∀ x s, s ∈ docSecs ds →
    ((⟨x, .iri hsS.toList, node s.id⟩ : Triple) ∈ g ↔ (x, s) ∈ allSecsWithParent ds)
  hasProp : ∀ x p, p ∈ docProps ds →
    ((⟨x, .iri hpS.toList, node p.id⟩ : Triple) ∈ g ↔ ∃ s ∈ docSecs ds, x = node s.id ∧ p ∈ s.props)
  docAttrs : ∀ d ∈ ds, ∀ l, (∀ y ∈ l, safePair .doc y) →
    (AttrTriples g .doc (node d.id) l ↔ carriesAll d.attrs l = true)
  secAttrs : ∀ s ∈ docSecs ds, ∀ l, (∀ y ∈ l, safePair .sec y) →
    (AttrTriples g .sec (node s.id) l ↔ carriesAll s.attrs l = true)
  propAttrs : ∀ p ∈ docProps ds, ∀ l, (∀ y ∈ l, safePair .prop y) →
    (AttrTriples g .prop (node p.id) l ↔ propCarriesAll p l = true)
  hasValue : ∀ p ∈ docProps ds, ∀ y,
    ((⟨node p.id, .iri hvS.toList, y⟩ : Triple) ∈ g ↔ (y = .seqn p.id ∧ p.values ≠ []))
  member : ∀ p ∈ docProps ds, ∀ s,
    ((∃ t ∈ g, t.s = .seqn p.id ∧ isMemberPred t.p = true ∧ strOf t.o = some s) ↔
      ∃ l ∈ p.values, l.lex = s)
  docRepo : ∀ d ∈ ds, ∀ s,
    ((∃ m u, (⟨node d.id, .iri htS.toList, m⟩ : Triple) ∈ g ∧ (⟨m, rdfType, u⟩ : Triple) ∈ g ∧
        strOf u = some s) ↔ carriesKey d.attrs "repository" s = true)
  secRepo : ∀ c ∈ docSecs ds, ∀ s,
    ((∃ m u, (⟨node c.id, .iri htS.toList, m⟩ : Triple) ∈ g ∧ (⟨m, rdfType, u⟩ : Triple) ∈ g ∧
        strOf u = some s) ↔ carriesKey c.attrs "repository" s = true)

/-! ## 3. One pair of a query at the node of an object -/

theorem holds_member (g : Graph) (b : Binding) (x : Var) (s : Str) (n : Term)
    (hx : b.get x = some n) :
    (Flt.member x s).holds g b = true ↔
      ∃ t ∈ g, t.s = n ∧ isMemberPred t.p = true ∧ strOf t.o = some s := by
  simp only [Flt.holds, boundTo, hx, any_eq_true, Bool.and_eq_true, beq_iff_eq]
  constructor
  · rintro ⟨t, ht, ⟨e1, e2⟩, e3⟩; exact ⟨t, ht, e1.symm, e2, e3⟩
  · rintro ⟨t, ht, e1, e2, e3⟩; exact ⟨t, ht, ⟨e1.symm, e2⟩, e3⟩

theorem holds_typedBy (g : Graph) (b : Binding) (x : Var) (pred : Term) (s : Str) (n : Term)
    (hx : b.get x = some n) :
    (Flt.typedBy x pred s).holds g b = true ↔
      ∃ m u, (⟨n, pred, m⟩ : Triple) ∈ g ∧ (⟨m, rdfType, u⟩ : Triple) ∈ g ∧ strOf u = some s := by
  simp only [Flt.holds, boundTo, hx, any_eq_true, Bool.and_eq_true, beq_iff_eq]
  constructor
  · rintro ⟨⟨ts, tp, to⟩, ht, ⟨e1, e2⟩, ⟨us, up, uo⟩, hu, ⟨e3, e4⟩, e5⟩
    simp only at e1 e2 e3 e4 e5
    subst e1 e2 e3 e4
    exact ⟨_, _, ht, hu, e5⟩
  · rintro ⟨m, u, ht, hu, e⟩
    exact ⟨_, ht, ⟨rfl, rfl⟩, _, hu, ⟨rfl, rfl⟩, e⟩

theorem holds_strEq_node (g : Graph) (b : Binding) (x : Var) (i v : Str)
    (hx : b.get x = some (node i)) : (Flt.strEq x (ns ++ v)).holds g b = true ↔ i = v := by
  simp [Flt.holds, hx, node, strOf]

/-- The patterns of the pair are satisfied and its FILTERs hold. -/
def PairSat (g : Graph) (b : Binding) (y : Pair) : Prop :=
  (∀ pl, attrPat y = .ok pl → Sat g pl b) ∧ ∀ f ∈ attrFlt y, f.holds g b = true

theorem attrPats_mem : ∀ {l : List Pair} {ps : List Pat}, attrPats l = .ok ps →
    ∀ pat, pat ∈ ps ↔ ∃ y ∈ l, ∃ pl, attrPat y = .ok pl ∧ pat ∈ pl
  | [], ps, h, pat => by
    simp only [attrPats, Except.ok.injEq] at h
    subst h
    simp
  | y :: r, ps, h, pat => by
    cases h1 : attrPat y with
    | error e => simp [attrPats, h1] at h
    | ok a =>
      cases h2 : attrPats r with
      | error e => simp [attrPats, h1, h2] at h
      | ok b =>
        simp only [attrPats, h1, h2, Except.ok.injEq] at h
        subst h
        have ih := attrPats_mem h2 pat
        simp only [mem_append, mem_cons, ih]
        constructor
        · rintro (h | ⟨z, hz, pl, e, hm⟩)
          · exact ⟨y, .inl rfl, a, h1, h⟩
          · exact ⟨z, .inr hz, pl, e, hm⟩
        · rintro ⟨z, rfl | hz, pl, e, hm⟩
          · rw [h1] at e; cases e; exact .inl hm
          · exact .inr ⟨z, hz, pl, e, hm⟩

/-- The attribute patterns and FILTERs of one kind, pair by pair. -/
theorem sat_attrPats {g : Graph} {l : List Pair} {ps : List Pat} {b : Binding}
    (h : attrPats l = .ok ps) :
    (Sat g ps b ∧ ∀ f ∈ l.flatMap attrFlt, f.holds g b = true) ↔ ∀ y ∈ l, PairSat g b y := by
  constructor
  · rintro ⟨h1, h2⟩ y hy
    exact ⟨fun pl e pat hp => h1 pat ((attrPats_mem h pat).mpr ⟨y, hy, pl, e, hp⟩),
      fun f hf => h2 f (mem_flatMap.mpr ⟨y, hy, hf⟩)⟩
  · intro H
    refine ⟨fun pat hp => ?_, fun f hf => ?_⟩
    · obtain ⟨y, hy, pl, e, hm⟩ := (attrPats_mem h pat).mp hp
      exact (H y hy).1 pl e pat hm
    · obtain ⟨y, hy, hm⟩ := mem_flatMap.mp hf
      exact (H y hy).2 f hm

/-- A pair of `QuerySafe`: one pattern, no FILTER. -/
theorem pairSat_safe {g : Graph} {b : Binding} {K : Kind} {y : Pair} (hs : safePair K y) {x : Term}
    (hx : b.get (varOf K) = some x) : PairSat g b y ↔ AttrTriples g K x [y] := by
  obtain ⟨pred, hl, hp, hf⟩ := attrPat_safe hs
  have hm : ∀ pat, pat ∈ [patOf y pred] ↔ ∃ y' ∈ [y], ∃ pred',
      (tableOf K).lookup (String.ofList y'.attr) = some pred' ∧ pat = patOf y' pred' := by
    intro pat
    constructor
    · intro h
      simp only [mem_cons, mem_nil_iff, or_false] at h
      subst h
      exact ⟨y, by simp, pred, hl, rfl⟩
    · rintro ⟨y', hy', pred', h1, rfl⟩
      simp only [mem_cons, mem_nil_iff, or_false] at hy'
      subst hy'
      rw [hl] at h1; cases h1; simp
  rw [← sat_attrs hm (fun z hz => by
    simp only [mem_cons, mem_nil_iff, or_false] at hz; subst hz; exact hs.1) hx]
  unfold PairSat
  rw [hf, hp]
  simp


section pairs
variable {g : Graph} {ds : List DocT} (gf : GFacts g ds)
include gf

/-- One Document pair at the node of a Document. -/
theorem pairSat_doc {d : DocT} (hd : d ∈ ds) {b : Binding} (hb : b.d = some (node d.id)) {y : Pair}
    (hy : fullPair .doc y) : PairSat g b y ↔ objCarries d.id d.attrs y = true := by
  obtain ⟨hk, ha⟩ := hy
  have hx : b.get (varOf .doc) = some (node d.id) := hb
  have safeCase : safePair .doc y → (PairSat g b y ↔ objCarries d.id d.attrs y = true) := by
    intro hs
    rw [pairSat_safe hs hx, gf.docAttrs d hd [y] (by simpa using hs), objCarries_safe hs]
    simp [carriesAll]
  simp only [fullAttrs, mem_cons, mem_nil_iff, or_false] at ha
  rcases ha with h | h | h | h | h
  · exact safeCase ⟨hk, by rw [h]; decide⟩
  · exact safeCase ⟨hk, by rw [h]; decide⟩
  · exact safeCase ⟨hk, by rw [h]; decide⟩
  · have ea := attr_eq_of h
    obtain ⟨k, a, v, vs⟩ := y
    simp only at hk ea
    subst hk ea
    have e1 : attrPat ⟨.doc, "id".toList, v, vs⟩ = .ok [] := rfl
    have e2 : attrFlt ⟨.doc, "id".toList, v, vs⟩ = [.strEq .d (ns ++ v)] := rfl
    unfold PairSat
    rw [e2]
    simp only [e1, Except.ok.injEq, forall_eq', mem_cons, mem_nil_iff, or_false, forall_eq]
    rw [holds_strEq_node g b .d d.id v hb]
    simp [Sat, objCarries]
  · have ea := attr_eq_of h
    obtain ⟨k, a, v, vs⟩ := y
    simp only at hk ea
    subst hk ea
    have e1 : attrPat ⟨.doc, "repository".toList, v, vs⟩ = .ok [] := rfl
    have e2 : attrFlt ⟨.doc, "repository".toList, v, vs⟩ = [.typedBy .d (.iri htS.toList) v] := rfl
    have e3 : objCarries d.id d.attrs ⟨.doc, "repository".toList, v, vs⟩ =
        carriesKey d.attrs "repository" v := rfl
    unfold PairSat
    rw [e2, e3]
    simp only [e1, Except.ok.injEq, forall_eq', mem_cons, mem_nil_iff, or_false, forall_eq]
    rw [holds_typedBy g b .d _ v _ hb, gf.docRepo d hd v]
    simp [Sat]

/-- One Section pair at the node of a Section. -/
theorem pairSat_sec {c : SecT} (hc : c ∈ docSecs ds) {b : Binding} (hb : b.s = some (node c.id))
    {y : Pair} (hy : fullPair .sec y) : PairSat g b y ↔ objCarries c.id c.attrs y = true := by
  obtain ⟨hk, ha⟩ := hy
  have hx : b.get (varOf .sec) = some (node c.id) := hb
  have safeCase : safePair .sec y → (PairSat g b y ↔ objCarries c.id c.attrs y = true) := by
    intro hs
    rw [pairSat_safe hs hx, gf.secAttrs c hc [y] (by simpa using hs), objCarries_safe hs]
    simp [carriesAll]
  simp only [fullAttrs, mem_cons, mem_nil_iff, or_false] at ha
  rcases ha with h | h | h | h | h | h
  · exact safeCase ⟨hk, by rw [h]; decide⟩
  · exact safeCase ⟨hk, by rw [h]; decide⟩
  · exact safeCase ⟨hk, by rw [h]; decide⟩
  · exact safeCase ⟨hk, by rw [h]; decide⟩
  · have ea := attr_eq_of h
    obtain ⟨k, a, v, vs⟩ := y
    simp only at hk ea
    subst hk ea
    have e1 : attrPat ⟨.sec, "id".toList, v, vs⟩ = .ok [] := rfl
    have e2 : attrFlt ⟨.sec, "id".toList, v, vs⟩ = [.strEq .s (ns ++ v)] := rfl
    unfold PairSat
    rw [e2]
    simp only [e1, Except.ok.injEq, forall_eq', mem_cons, mem_nil_iff, or_false, forall_eq]
    rw [holds_strEq_node g b .s c.id v hb]
    simp [Sat, objCarries]
  · have ea := attr_eq_of h
    obtain ⟨k, a, v, vs⟩ := y
    simp only at hk ea
    subst hk ea
    have e1 : attrPat ⟨.sec, "repository".toList, v, vs⟩ = .ok [] := rfl
    have e2 : attrFlt ⟨.sec, "repository".toList, v, vs⟩ = [.typedBy .s (.iri htS.toList) v] := rfl
    have e3 : objCarries c.id c.attrs ⟨.sec, "repository".toList, v, vs⟩ =
        carriesKey c.attrs "repository" v := rfl
    unfold PairSat
    rw [e2, e3]
    simp only [e1, Except.ok.injEq, forall_eq', mem_cons, mem_nil_iff, or_false, forall_eq]
    rw [holds_typedBy g b .s _ v _ hb, gf.secRepo c hc v]
    simp [Sat]

/-- The pair asks for values (and so binds `?v`). -/
def needsVP (y : Pair) : Prop := y.attr = "value".toList ∧ y.vals ≠ []

/-- One Property pair at the node of a Property: the Property carries it, and when the pair asks for
    values `?v` is the value node of that Property. -/
theorem pairSat_prop (ok2 : QTablesOK2) {p : PropT} (hp : p ∈ docProps ds) {b : Binding}
    (hb : b.p = some (node p.id)) {y : Pair} (hy : fullPair .prop y) :
    PairSat g b y ↔ (propCarries p y = true ∧ (needsVP y → b.v = some (.seqn p.id))) := by
  obtain ⟨hk, ha⟩ := hy
  have hx : b.get (varOf .prop) = some (node p.id) := hb
  have safeCase : safePair .prop y →
      (PairSat g b y ↔ (propCarries p y = true ∧ (needsVP y → b.v = some (.seqn p.id)))) := by
    intro hs
    have hnv : ¬ needsVP y := by
      intro ⟨e, _⟩
      have := (safeAttrs_facts .prop _ hs.2).2.2.2.2.2.2.2.2
      apply this; rw [e]; exact String.ofList_toList
    have hv := attr_ne_of (safeAttrs_facts .prop _ hs.2).2.2.2.2.2.2.2.2
    have e : propCarriesAll p [y] = carries p.attrs y := by
      simp only [propCarriesAll, all_cons, all_nil, Bool.and_true, hv, Bool.false_eq_true, if_false]
    rw [pairSat_safe hs hx, gf.propAttrs p hp [y] (by simpa using hs), propCarries_safe hs, e]
    exact ⟨fun h => ⟨h, fun h' => absurd h' hnv⟩, fun h => h.1⟩
  simp only [fullAttrs, mem_cons, mem_nil_iff, or_false] at ha
  rcases ha with h | h | h | h | h | h | h | h | h
  · exact safeCase ⟨hk, by rw [h]; decide⟩
  · exact safeCase ⟨hk, by rw [h]; decide⟩
  · exact safeCase ⟨hk, by rw [h]; decide⟩
  · exact safeCase ⟨hk, by rw [h]; decide⟩
  · exact safeCase ⟨hk, by rw [h]; decide⟩
  · exact safeCase ⟨hk, by rw [h]; decide⟩
  · exact safeCase ⟨hk, by rw [h]; decide⟩
  · have ea := attr_eq_of h
    obtain ⟨k, a, v, vs⟩ := y
    simp only at hk ea
    subst hk ea
    have e1 : attrPat ⟨.prop, "id".toList, v, vs⟩ = .ok [] := rfl
    have e2 : attrFlt ⟨.prop, "id".toList, v, vs⟩ = [.strEq .p (ns ++ v)] := rfl
    have hnv : ¬ needsVP ⟨.prop, "id".toList, v, vs⟩ := by
      intro ⟨e, _⟩; simp only at e; exact absurd e (by decide)
    unfold PairSat
    rw [e2]
    simp only [e1, Except.ok.injEq, forall_eq', mem_cons, mem_nil_iff, or_false, forall_eq]
    rw [holds_strEq_node g b .p p.id v hb]
    have e3 : propCarries p ⟨.prop, "id".toList, v, vs⟩ = (p.id == v) := rfl
    have hn' : (needsVP ⟨.prop, "id".toList, v, vs⟩ → b.v = some (.seqn p.id)) ↔ True :=
      ⟨fun _ => trivial, fun _ h => absurd h hnv⟩
    rw [e3, hn']
    simp [Sat]
  · have ea := attr_eq_of h
    obtain ⟨k, a, v, vs⟩ := y
    simp only at hk ea
    subst hk ea
    have e2 : attrFlt ⟨.prop, "value".toList, v, vs⟩ = vs.map (Flt.member .v) := rfl
    have e3 : propCarries p ⟨.prop, "value".toList, v, vs⟩ =
        vs.all fun s => p.values.any fun l => l.lex == s := rfl
    unfold PairSat
    rw [e2, e3]
    simp only [mem_map, forall_exists_index, and_imp, forall_apply_eq_imp_iff₂, all_eq_true,
      any_eq_true, beq_iff_eq, needsVP, true_and]
    by_cases hvs : vs = []
    · subst hvs
      have e1 : attrPat ⟨.prop, "value".toList, v, []⟩ = .ok [] := rfl
      constructor
      · intro _
        exact ⟨fun s hs => absurd hs (by simp), fun h => absurd rfl h⟩
      · intro _
        refine ⟨fun pl e => ?_, fun s hs => absurd hs (by simp)⟩
        rw [e1] at e; cases e
        intro pat hp; simp at hp
    · have e1 : attrPat ⟨.prop, "value".toList, v, vs⟩ =
          .ok [⟨.var .p, .const (odmlIri "hasValue"), .var .v⟩] := by
        cases vs with
        | nil => exact absurd rfl hvs
        | cons a r => rfl
      simp only [e1, Except.ok.injEq, forall_eq']
      have hsat : Sat g [⟨.var .p, .const (odmlIri "hasValue"), .var .v⟩] b ↔
          (b.v = some (.seqn p.id) ∧ p.values ≠ []) := by
        rw [sat_cons, sat_vcv, ok2.hvIri]
        constructor
        · rintro ⟨⟨x, y, h1, h2, ht⟩, _⟩
          have : b.p = some x := h1
          rw [hb] at this; cases this
          obtain ⟨rfl, hne⟩ := (gf.hasValue p hp y).mp ht
          exact ⟨h2, hne⟩
        · rintro ⟨h1, h2⟩
          exact ⟨⟨node p.id, .seqn p.id, hb, h1, (gf.hasValue p hp _).mpr ⟨rfl, h2⟩⟩,
            fun _ h => by simp at h⟩
      rw [hsat]
      constructor
      · rintro ⟨⟨hv, _⟩, hf⟩
        refine ⟨fun s hs => ?_, fun _ => hv⟩
        have := (holds_member g b .v s _ hv).mp (hf s hs)
        exact (gf.member p hp s).mp this
      · rintro ⟨hc, hv'⟩
        have hv := hv' hvs
        refine ⟨⟨hv, ?_⟩, fun s hs => ?_⟩
        · intro e
          cases vs with
          | nil => exact hvs rfl
          | cons a r =>
            obtain ⟨l, hl, _⟩ := hc a (by simp)
            rw [e] at hl; simp at hl
        · exact (holds_member g b .v s _ hv).mpr ((gf.member p hp s).mpr (hc s hs))

end pairs


/-! ## 4. The three parts of a query; soundness and completeness from `GFacts` -/

/-- Some Property pair asks for values: the query binds `?v`. -/
def needsV (q : QParams) : Prop := ∃ y ∈ q.prop, needsVP y

def PD' (ds : List DocT) (q : QParams) (b : Binding) : Prop :=
  q.doc = [] ∨ ∃ d ∈ ds, b.d = some (node d.id) ∧ q.doc.all (objCarries d.id d.attrs) = true
def PS' (ds : List DocT) (q : QParams) (b : Binding) : Prop :=
  q.sec = [] ∨ ∃ ps ∈ allSecsWithParent ds, b.d = some ps.1 ∧ b.s = some (node ps.2.id) ∧
    q.sec.all (objCarries ps.2.id ps.2.attrs) = true
def PP' (ds : List DocT) (q : QParams) (b : Binding) : Prop :=
  q.prop = [] ∨ ∃ ps ∈ allSecsWithParent ds, b.s = some (node ps.2.id) ∧
    ∃ p ∈ ps.2.props, b.p = some (node p.id) ∧ q.prop.all (propCarries p) = true ∧
      (needsV q → b.v = some (.seqn p.id))
/-- `PP'` without the clause on `?v` (the rows do not show `?v`). -/
def PP0 (ds : List DocT) (q : QParams) (os op : Option Term) : Prop :=
  q.prop = [] ∨ ∃ ps ∈ allSecsWithParent ds, os = some (node ps.2.id) ∧
    ∃ p ∈ ps.2.props, op = some (node p.id) ∧ q.prop.all (propCarries p) = true

section parts'
variable (ok2 : QTablesOK2) {g : Graph} {ds : List DocT} (gf : GFacts g ds) {q : QParams}
  (full : QueryFull q)
include ok2 gf full

theorem satD'_iff {dp : List Pat} (h : attrPats q.doc = .ok dp) (b : Binding) :
    (Sat g (docPats q dp) b ∧ ∀ f ∈ q.doc.flatMap attrFlt, f.holds g b = true) ↔ PD' ds q b := by
  unfold docPats PD'
  by_cases he : q.doc = []
  · simp [he, Sat]
  · have he' : q.doc.isEmpty = false := by simpa using he
    simp only [he', Bool.false_eq_true, if_false, he, false_or]
    rw [sat_cons, sat_vcc, ok2.base.docIri, and_assoc]
    constructor
    · rintro ⟨⟨x, hx, ht⟩, hs, hf⟩
      obtain ⟨d, hd, rfl⟩ := (gf.docType x).mp ht
      have hb : b.d = some (node d.id) := hx
      refine ⟨d, hd, hb, ?_⟩
      rw [all_eq_true]
      intro y hy
      exact (pairSat_doc gf hd hb (full.1 y hy)).mp ((sat_attrPats h).mp ⟨hs, hf⟩ y hy)
    · rintro ⟨d, hd, hb, hc⟩
      rw [all_eq_true] at hc
      have := (sat_attrPats (g := g) (b := b) h).mpr
        (fun y hy => (pairSat_doc gf hd hb (full.1 y hy)).mpr (hc y hy))
      exact ⟨⟨node d.id, hb, (gf.docType _).mpr ⟨d, hd, rfl⟩⟩, this.1, this.2⟩

theorem satS'_iff {sp : List Pat} (h : attrPats q.sec = .ok sp) (b : Binding) :
    (Sat g (secPats q sp) b ∧ ∀ f ∈ q.sec.flatMap attrFlt, f.holds g b = true) ↔ PS' ds q b := by
  unfold secPats PS'
  by_cases he : q.sec = []
  · simp [he, Sat]
  · have he' : q.sec.isEmpty = false := by simpa using he
    simp only [he', Bool.false_eq_true, if_false, he, false_or]
    rw [sat_cons, sat_cons, sat_vcv, sat_vcc, ok2.base.secIri, ok2.base.hsIri]
    constructor
    · rintro ⟨⟨⟨x, y, hx, hy, ht⟩, ⟨y', hy', ht'⟩, hs⟩, hf⟩
      have : y' = y := by
        have h1 : b.get .s = some y := hy
        have h2 : b.get .s = some y' := hy'
        rw [h1] at h2; cases h2; rfl
      subst this
      obtain ⟨s, hsm, rfl⟩ := (gf.secType y').mp ht'
      have hpar := (gf.hasSec x s hsm).mp ht
      have hb : b.s = some (node s.id) := hy
      refine ⟨(x, s), hpar, hx, hy, ?_⟩
      rw [all_eq_true]
      intro z hz
      exact (pairSat_sec gf hsm hb (full.2.1 z hz)).mp ((sat_attrPats h).mp ⟨hs, hf⟩ z hz)
    · rintro ⟨⟨x, s⟩, hpar, hx, hy, hc⟩
      have hsm : s ∈ docSecs ds := child_mem_docSecs hpar
      simp only at hx hy hc
      rw [all_eq_true] at hc
      have := (sat_attrPats (g := g) (b := b) h).mpr
        (fun z hz => (pairSat_sec gf hsm hy (full.2.1 z hz)).mpr (hc z hz))
      exact ⟨⟨⟨x, node s.id, hx, hy, (gf.hasSec x s hsm).mpr hpar⟩,
        ⟨node s.id, hy, (gf.secType _).mpr ⟨s, hsm, rfl⟩⟩, this.1⟩, this.2⟩

theorem satP'_iff {pp : List Pat} (h : attrPats q.prop = .ok pp) (b : Binding) :
    (Sat g (propPats q pp) b ∧ ∀ f ∈ q.prop.flatMap attrFlt, f.holds g b = true) ↔ PP' ds q b := by
  unfold propPats PP'
  by_cases he : q.prop = []
  · simp [he, Sat]
  · have he' : q.prop.isEmpty = false := by simpa using he
    simp only [he', Bool.false_eq_true, if_false, he, false_or]
    rw [sat_cons, sat_cons, sat_vcv, sat_vcc, ok2.base.propIri, ok2.base.hpIri]
    constructor
    · rintro ⟨⟨⟨x, y, hx, hy, ht⟩, ⟨y', hy', ht'⟩, hs⟩, hf⟩
      have : y' = y := by
        have h1 : b.get .p = some y := hy
        have h2 : b.get .p = some y' := hy'
        rw [h1] at h2; cases h2; rfl
      subst this
      obtain ⟨p, hpm, rfl⟩ := (gf.propType y').mp ht'
      obtain ⟨s, hsm, rfl, hps⟩ := (gf.hasProp x p hpm).mp ht
      obtain ⟨par, hpar⟩ := exists_parent hsm
      have hb : b.p = some (node p.id) := hy
      have H := fun z hz => (pairSat_prop gf ok2 hpm hb (full.2.2 z hz)).mp
        ((sat_attrPats h).mp ⟨hs, hf⟩ z hz)
      refine ⟨(par, s), hpar, hx, p, hps, hy, ?_, ?_⟩
      · rw [all_eq_true]
        exact fun z hz => (H z hz).1
      · rintro ⟨z, hz, hn⟩
        exact (H z hz).2 hn
    · rintro ⟨⟨par, s⟩, hpar, hx, p, hps, hy, hc, hv⟩
      have hsm : s ∈ docSecs ds := child_mem_docSecs hpar
      have hpm : p ∈ docProps ds := mem_flatMap.mpr ⟨s, hsm, hps⟩
      simp only at hx hps
      rw [all_eq_true] at hc
      have := (sat_attrPats (g := g) (b := b) h).mpr
        (fun z hz => (pairSat_prop gf ok2 hpm hy (full.2.2 z hz)).mpr
          ⟨hc z hz, fun hn => hv ⟨z, hz, hn⟩⟩)
      exact ⟨⟨⟨node s.id, node p.id, hx, hy, (gf.hasProp _ p hpm).mpr ⟨s, hsm, rfl, hps⟩⟩,
        ⟨node p.id, hy, (gf.propType _).mpr ⟨p, hpm, rfl⟩⟩, this.1⟩, this.2⟩

end parts'

theorem partD'_iff (ds : List DocT) (q : QParams) (b : Binding) :
    partD' ds q b.d = true ↔ PD' ds q b := by
  simp only [partD', PD', Bool.or_eq_true, isEmpty_iff, any_eq_true, Bool.and_eq_true, beq_iff_eq]

theorem partS'_iff (ds : List DocT) (q : QParams) (b : Binding) :
    partS' ds q b.d b.s = true ↔ PS' ds q b := by
  simp only [partS', PS', Bool.or_eq_true, isEmpty_iff, any_eq_true, Bool.and_eq_true, beq_iff_eq,
    and_assoc]

theorem partP'_iff (ds : List DocT) (q : QParams) (os op : Option Term) :
    partP' ds q os op = true ↔ PP0 ds q os op := by
  simp only [partP', PP0, Bool.or_eq_true, isEmpty_iff, any_eq_true, Bool.and_eq_true, beq_iff_eq]

theorem PP'_to_PP0 {ds : List DocT} {q : QParams} {b : Binding} (h : PP' ds q b) : PP0 ds q b.s b.p := by
  rcases h with h | ⟨ps, hps, h1, p, hp, h2, hc, _⟩
  · exact .inl h
  · exact .inr ⟨ps, hps, h1, p, hp, h2, hc⟩

theorem fullAttrs_keys : ∀ (K : Kind) (k : String), k ∈ fullAttrs K → k ∈ (tableOf K).map (·.1) := by
  intro K k hk
  cases K <;> simp only [fullAttrs, mem_cons, mem_nil_iff, or_false] at hk
  · rcases hk with rfl | rfl | rfl | rfl | rfl <;> decide
  · rcases hk with rfl | rfl | rfl | rfl | rfl | rfl <;> decide
  · rcases hk with rfl | rfl | rfl | rfl | rfl | rfl | rfl | rfl | rfl <;> decide

theorem fullPair_key {K : Kind} {x : Pair} (h : fullPair K x) :
    ∃ k : String, x.attr = k.toList ∧ k ∈ (tableOf x.kind).map (·.1) :=
  ⟨String.ofList x.attr, String.toList_ofList.symm, by rw [h.1]; exact fullAttrs_keys K _ h.2⟩

/-- The variables a pattern of a pair mentions: the variable of its kind of object, or `?v`. -/
theorem attrPat_mentions {y : Pair} {pl : List Pat} (h : attrPat y = .ok pl) {pat : Pat}
    (hp : pat ∈ pl) {w : Var} (hm : mentions pat w) : w = varOf y.kind ∨ w = .v := by
  unfold attrPat at h
  split at h
  · rename_i hc
    simp only [Bool.and_eq_true, beq_iff_eq] at hc
    split at h
    · cases h; simp at hp
    · cases h
      simp only [mem_cons, mem_nil_iff, or_false] at hp
      subst hp
      rcases hm with e | e | e <;> cases e
      · left; rw [hc.1]; rfl
      · right; rfl
  · split at h
    · split at h <;> cases h
      · simp at hp
      · simp at hp
      · simp only [mem_cons, mem_nil_iff, or_false] at hp
        subst hp
        rcases hm with e | e | e <;> cases e
        left; rfl
      · simp only [mem_cons, mem_nil_iff, or_false] at hp
        subst hp
        rcases hm with e | e | e <;> cases e
        left; rfl
    · split at h <;> cases h
      simp at hp

theorem get_ne_none {b : Binding} {x : Var} {t : Term} (h : b.get x = some t) : b.get x ≠ none := by
  rw [h]; simp

/-- Which variables the patterns of a query certainly bind. -/
theorem sat_bound {g : Graph} {q : QParams} {dp sp pp : List Pat} {b : Binding}
    (hk : ∀ y ∈ q.prop, y.kind = .prop) (hpp : attrPats q.prop = .ok pp)
    (h : Sat g (docPats q dp ++ secPats q sp ++ propPats q pp) b) :
    (q.doc ≠ [] → b.d ≠ none) ∧ (q.sec ≠ [] → b.d ≠ none ∧ b.s ≠ none) ∧
    (q.prop ≠ [] → b.s ≠ none ∧ b.p ≠ none) ∧ (needsV q → b.v ≠ none) := by
  rw [sat_append, sat_append] at h
  obtain ⟨⟨h1, h2⟩, h3⟩ := h
  have hP : q.prop ≠ [] → (b.s ≠ none ∧ b.p ≠ none) ∧ Sat g pp b := by
    intro he
    have he' : q.prop.isEmpty = false := by simpa using he
    unfold propPats at h3
    simp only [he', Bool.false_eq_true, if_false] at h3
    rw [sat_cons, sat_cons, sat_vcv] at h3
    obtain ⟨⟨x, y, hx, hy, _⟩, _, hs⟩ := h3
    exact ⟨⟨get_ne_none (x := .s) hx, get_ne_none (x := .p) hy⟩, hs⟩
  refine ⟨?_, ?_, fun he => (hP he).1, ?_⟩
  · intro he
    have he' : q.doc.isEmpty = false := by simpa using he
    unfold docPats at h1
    simp only [he', Bool.false_eq_true, if_false] at h1
    rw [sat_cons, sat_vcc] at h1
    obtain ⟨⟨x, hx, _⟩, _⟩ := h1
    exact get_ne_none (x := .d) hx
  · intro he
    have he' : q.sec.isEmpty = false := by simpa using he
    unfold secPats at h2
    simp only [he', Bool.false_eq_true, if_false] at h2
    rw [sat_cons, sat_vcv] at h2
    obtain ⟨⟨x, y, hx, hy, _⟩, _⟩ := h2
    exact ⟨get_ne_none (x := .d) hx, get_ne_none (x := .s) hy⟩
  · rintro ⟨y, hy, ha, hv⟩
    have he : q.prop ≠ [] := by intro e; rw [e] at hy; simp at hy
    have hs := (hP he).2
    have e1 : attrPat y = .ok [⟨.var .p, .const (odmlIri "hasValue"), .var .v⟩] := by
      unfold attrPat
      have : y.vals.isEmpty = false := by simpa using hv
      simp [hk y hy, ha, this]
    have := hs ⟨.var .p, .const (odmlIri "hasValue"), .var .v⟩
      ((attrPats_mem hpp _).mpr ⟨y, hy, _, e1, by simp⟩)
    obtain ⟨x, z, _, hz, _⟩ := sat_vcv.mp this
    exact get_ne_none (x := .v) hz

/-- **Sound and complete, from the facts about the graph**: for a query over any searchable
    attributes a row is returned by the generated query (basic graph pattern and FILTERs) iff it is
    a row of the direct evaluation on the documents. -/
theorem sound_complete_gen (ok2 : QTablesOK2) {g : Graph} {ds : List DocT} (gf : GFacts g ds)
    (q : QParams) (full : QueryFull q) (row : Row) :
    ∃ rows, queryRows g q = .ok rows ∧ (row ∈ rows ↔ row ∈ directEval' ds q) := by
  obtain ⟨dp, hdp⟩ := attrPats_ok q.doc (fun x hx => fullPair_key (full.1 x hx))
  obtain ⟨sp, hsp⟩ := attrPats_ok q.sec (fun x hx => fullPair_key (full.2.1 x hx))
  obtain ⟨pp, hpp⟩ := attrPats_ok q.prop (fun x hx => fullPair_key (full.2.2 x hx))
  have hq := prepareQuery_eq hdp hsp hpp
  have hsat : ∀ b, (Sat g (docPats q dp ++ secPats q sp ++ propPats q pp) b ∧
      ∀ f ∈ prepareFilters q, f.holds g b = true) ↔ PD' ds q b ∧ PS' ds q b ∧ PP' ds q b := by
    intro b
    rw [← satD'_iff ok2 gf full hdp b, ← satS'_iff ok2 gf full hsp b, ← satP'_iff ok2 gf full hpp b]
    unfold prepareFilters
    simp only [sat_append, mem_append]
    constructor
    · rintro ⟨⟨⟨a1, a2⟩, a3⟩, hf⟩
      exact ⟨⟨a1, fun f h => hf f (.inl (.inl h))⟩, ⟨a2, fun f h => hf f (.inl (.inr h))⟩,
        ⟨a3, fun f h => hf f (.inr h)⟩⟩
    · rintro ⟨⟨a1, f1⟩, ⟨a2, f2⟩, ⟨a3, f3⟩⟩
      refine ⟨⟨⟨a1, a2⟩, a3⟩, fun f h => ?_⟩
      rcases h with (h | h) | h
      · exact f1 f h
      · exact f2 f h
      · exact f3 f h
  refine ⟨(filtered g (docPats q dp ++ secPats q sp ++ propPats q pp) (prepareFilters q)).map
    (fun b => (b.d, b.s, b.p)), by simp only [queryRows, hq], ?_⟩
  -- which variables the patterns mention
  have mA : ∀ {l : List Pair} {ps : List Pat} {K : Kind}, attrPats l = .ok ps → (∀ y ∈ l, y.kind = K) →
      ∀ pat ∈ ps, ∀ v, mentions pat v → v = varOf K ∨ v = .v := by
    intro l ps K h hk pat hp v hv
    obtain ⟨y, hy, pl, e, hm⟩ := (attrPats_mem h pat).mp hp
    rw [← hk y hy]
    exact attrPat_mentions e hm hv
  have mD : ∀ pat ∈ docPats q dp, ∀ v, mentions pat v → v = .d ∨ v = .v := by
    intro pat hp v hv
    unfold docPats at hp
    split at hp
    · simp at hp
    · simp only [mem_cons] at hp
      rcases hp with rfl | hp
      · rcases hv with h | h | h <;> cases h; exact .inl rfl
      · exact mA hdp (fun y hy => (full.1 y hy).1) pat hp v hv
  have mS : ∀ pat ∈ secPats q sp, ∀ v, mentions pat v → v = .d ∨ v = .s ∨ v = .v := by
    intro pat hp v hv
    unfold secPats at hp
    split at hp
    · simp at hp
    · simp only [mem_cons] at hp
      rcases hp with rfl | rfl | hp
      · rcases hv with h | h | h <;> cases h
        · exact .inl rfl
        · exact .inr (.inl rfl)
      · rcases hv with h | h | h <;> cases h; exact .inr (.inl rfl)
      · rcases mA hsp (fun y hy => (full.2.1 y hy).1) pat hp v hv with h | h
        · exact .inr (.inl h)
        · exact .inr (.inr h)
  have mP : ∀ pat ∈ propPats q pp, ∀ v, mentions pat v → v = .s ∨ v = .p ∨ v = .v := by
    intro pat hp v hv
    unfold propPats at hp
    split at hp
    · simp at hp
    · simp only [mem_cons] at hp
      rcases hp with rfl | rfl | hp
      · rcases hv with h | h | h <;> cases h
        · exact .inl rfl
        · exact .inr (.inl rfl)
      · rcases hv with h | h | h <;> cases h; exact .inr (.inl rfl)
      · exact .inr (mA hpp (fun y hy => (full.2.2 y hy).1) pat hp v hv)
  have eD : q.doc = [] → docPats q dp = [] := fun h => by simp [docPats, h]
  have eS : q.sec = [] → secPats q sp = [] := fun h => by simp [secPats, h]
  have eP : q.prop = [] → propPats q pp = [] := fun h => by simp [propPats, h]
  simp only [mem_map, filtered, mem_filter, all_eq_true]
  constructor
  · -- soundness
    rintro ⟨b, ⟨hb, hflt⟩, rfl⟩
    obtain ⟨b0, hb0, hext⟩ := mem_evalBGP.mp hb
    simp only [mem_cons, mem_nil_iff, or_false] at hb0
    subst hb0
    have hs := (hsat b).mp ⟨(ext_sound hext).2, hflt⟩
    have fd : q.doc = [] → q.sec = [] → b.d = none := by
      intro h1 h2
      have := ext_frame hext (y := .d) (by
        intro pat hp hm
        rw [eD h1, eS h2, nil_append, nil_append] at hp
        rcases mP pat hp _ hm with h | h | h <;> cases h)
      exact this
    have fs : q.sec = [] → q.prop = [] → b.s = none := by
      intro h1 h2
      have := ext_frame hext (y := .s) (by
        intro pat hp hm
        rw [eS h1, eP h2, append_nil, append_nil] at hp
        rcases mD pat hp _ hm with h | h <;> cases h)
      exact this
    have fp : q.prop = [] → b.p = none := by
      intro h1
      have := ext_frame hext (y := .p) (by
        intro pat hp hm
        rw [eP h1, append_nil, mem_append] at hp
        rcases hp with hp | hp
        · rcases mD pat hp _ hm with h | h <;> cases h
        · rcases mS pat hp _ hm with h | h | h <;> cases h)
      exact this
    have hs3 := PP'_to_PP0 hs.2.2
    unfold directEval'
    rw [mem_filter]
    refine ⟨(mem_candidates ds _).mpr ⟨?_, ?_, ?_⟩, ?_⟩
    · rcases hs.1 with h1 | ⟨d, hd, e, _⟩
      · rcases hs.2.1 with h2 | ⟨ps, hps, e, _⟩
        · exact .inl (fd h1 h2)
        · exact .inr (.inr ⟨ps, hps, e⟩)
      · exact .inr (.inl ⟨d, hd, e⟩)
    · rcases hs.2.1 with h1 | ⟨ps, hps, _, e, _⟩
      · rcases hs3 with h2 | ⟨ps, hps, e, _⟩
        · exact .inl (fs h1 h2)
        · exact .inr ⟨ps, hps, e⟩
      · exact .inr ⟨ps, hps, e⟩
    · rcases hs3 with h1 | ⟨ps, hps, _, p, hp, e, _⟩
      · exact .inl (fp h1)
      · exact .inr ⟨ps, hps, p, hp, e⟩
    · simp only [rowOK', Bool.and_eq_true]
      refine ⟨⟨⟨(partD'_iff ds q b).mpr hs.1, (partS'_iff ds q b).mpr hs.2.1⟩,
        (partP'_iff ds q b.s b.p).mpr hs3⟩, ?_⟩
      simp only [unboundOK, Bool.and_eq_true, Bool.or_eq_true, Bool.not_eq_true', isEmpty_eq_false_iff,
        beq_iff_eq]
      refine ⟨⟨?_, ?_⟩, ?_⟩
      · by_cases h1 : q.doc = []
        · by_cases h2 : q.sec = []
          · exact .inr (fd h1 h2)
          · exact .inl (.inr h2)
        · exact .inl (.inl h1)
      · by_cases h1 : q.sec = []
        · by_cases h2 : q.prop = []
          · exact .inr (fs h1 h2)
          · exact .inl (.inr h2)
        · exact .inl (.inl h1)
      · by_cases h1 : q.prop = []
        · exact .inr (fp h1)
        · exact .inl h1
  · -- completeness
    intro hrow
    unfold directEval' at hrow
    rw [mem_filter] at hrow
    obtain ⟨_, hok⟩ := hrow
    obtain ⟨od, os, op⟩ := row
    simp only [rowOK', Bool.and_eq_true] at hok
    obtain ⟨⟨⟨h1, h2⟩, h3⟩, h4⟩ := hok
    have h3' := (partP'_iff ds q os op).mp h3
    -- `?v`: the value node of the Property when the query asks for values
    obtain ⟨ov, hov, hovn⟩ : ∃ ov, PP' ds q ⟨od, os, op, ov⟩ ∧ (¬ needsV q → ov = none) := by
      by_cases hn : needsV q
      · rcases h3' with h | ⟨ps, hps, e1, p, hp, e2, hc⟩
        · obtain ⟨y, hy, _⟩ := hn
          rw [h] at hy; simp at hy
        · exact ⟨some (.seqn p.id), .inr ⟨ps, hps, e1, p, hp, e2, hc, fun _ => rfl⟩,
            fun h => absurd hn h⟩
      · refine ⟨none, ?_, fun _ => rfl⟩
        rcases h3' with h | ⟨ps, hps, e1, p, hp, e2, hc⟩
        · exact .inl h
        · exact .inr ⟨ps, hps, e1, p, hp, e2, hc, fun h => absurd h hn⟩
    have hs' := (hsat ⟨od, os, op, ov⟩).mpr
      ⟨(partD'_iff ds q ⟨od, os, op, ov⟩).mp h1, (partS'_iff ds q ⟨od, os, op, ov⟩).mp h2, hov⟩
    obtain ⟨b, hext, hle⟩ := ext_complete (b := {}) (b' := ⟨od, os, op, ov⟩)
      (fun x t hx => by cases x <;> cases hx) hs'.1
    have hbd := sat_bound (fun y hy => (full.2.2 y hy).1) hpp (ext_sound hext).2
    obtain ⟨bD, bS, bP, bV⟩ := hbd
    simp only [unboundOK, Bool.and_eq_true, Bool.or_eq_true, Bool.not_eq_true', isEmpty_eq_false_iff,
      beq_iff_eq] at h4
    obtain ⟨⟨u1, u2⟩, u3⟩ := h4
    have hd : b.d = od := by
      cases hbd : b.d with
      | some t => exact (hle .d t hbd).symm
      | none =>
        rcases u1 with (h | h) | h
        · exact absurd hbd (bD h)
        · exact absurd hbd (bS h).1
        · exact h.symm
    have hsv : b.s = os := by
      cases hbs : b.s with
      | some t => exact (hle .s t hbs).symm
      | none =>
        rcases u2 with (h | h) | h
        · exact absurd hbs (bS h).2
        · exact absurd hbs (bP h).1
        · exact h.symm
    have hpv : b.p = op := by
      cases hbp : b.p with
      | some t => exact (hle .p t hbp).symm
      | none =>
        rcases u3 with h | h
        · exact absurd hbp (bP h).2
        · exact h.symm
    have hvv : b.v = ov := by
      cases hbv : b.v with
      | some t => exact (hle .v t hbv).symm
      | none =>
        by_cases hn : needsV q
        · exact absurd hbv (bV hn)
        · exact (hovn hn).symm
    have hbe : b = ⟨od, os, op, ov⟩ := by
      cases b
      simp only at hd hsv hpv hvv
      simp [hd, hsv, hpv, hvv]
    refine ⟨b, ⟨mem_evalBGP.mpr ⟨{}, by simp, hext⟩, ?_⟩, by rw [hd, hsv, hpv]⟩
    rw [hbe]
    exact hs'.2


/-! ## 5. The facts about the graph, for exports without repositories -/

theorem hasValue_of_facts (ok2 : QTablesOK2) {g : Graph} {ds : List DocT} (F : Facts g ds) {p : PropT}
    (hp : p ∈ docProps ds) (y : Term) :
    (⟨node p.id, .iri hvS.toList, y⟩ : Triple) ∈ g ↔ (y = .seqn p.id ∧ p.values ≠ []) := by
  rw [← mem_objects, (F.propValue p hp hvS ok2.propValue).mem_iff]
  cases hv : p.values with
  | nil => simp
  | cons a r => simp

theorem repo_objs_doc (ok2 : QTablesOK2) {g : Graph} {ds : List DocT} (F : Facts g ds) {d : DocT}
    (hd : d ∈ ds) (m : Term) :
    (⟨node d.id, .iri htS.toList, m⟩ : Triple) ∈ g ↔
      m ∈ attrObjs PyVal.truthy docConv d.attrs "repository" := by
  rw [← mem_objects, (F.docAttr d hd ("repository", htS) ok2.docRepo (by decide) (by decide)).mem_iff]

theorem repo_objs_sec (ok2 : QTablesOK2) {g : Graph} {ds : List DocT} (F : Facts g ds) {c : SecT}
    (hc : c ∈ docSecs ds) (m : Term) :
    (⟨node c.id, .iri htS.toList, m⟩ : Triple) ∈ g ↔
      m ∈ attrObjs PyVal.truthy secConv c.attrs "repository" := by
  rw [← mem_objects,
    (F.secAttr c hc ("repository", htS) ok2.secRepo (by decide) (by decide) (by decide)).mem_iff]

/-- `GFacts` holds of the export (no sub-classing) of every well-formed, representable document
    set without repositories. -/
theorem gfacts_norepo (ok2 : QTablesOK2) {ds : List DocT} (wf : WFDocs ds) (r : RdfRepr ds)
    (nr : NoRepo ds) : GFacts (exportRdf cfg0 ds) ds := by
  have ok := ok2.base
  have hperm := export_flat cfg0 ok.base.secOK ok.base.docOK ds
  have hg : ∀ t, t ∈ exportRdf cfg0 ds ↔ t ∈ flatGraph cfg0 ds := fun t => hperm.mem_iff
  have F := facts_export cfg0 wf ok.base (Perm.refl (exportRdf cfg0 ds))
  exact {
    docType := doc_type_iff ok wf r nr hg F
    secType := sec_type_iff ok wf r nr hg F
    propType := prop_type_iff ok wf r nr hg F
    hasSec := fun x s hs => hasSection_iff ok wf r nr hg F x hs
    hasProp := fun x p hp => hasProperty_iff ok wf r nr hg F x hp
    docAttrs := fun d hd l hs => doc_attrs_iff ok wf r nr hg F hd l hs
    secAttrs := fun s hs l hl => sec_attrs_iff ok wf r nr hg F hs l hl
    propAttrs := fun p hp l hl => prop_attrs_iff ok wf r nr hg F hp l hl
    hasValue := fun p hp y => hasValue_of_facts ok2 F hp y
    member := fun p hp s =>
      (holds_member (exportRdf cfg0 ds) ⟨none, none, none, some (.seqn p.id)⟩ .v s _ rfl).symm.trans
        (value_filter_exact ok wf nr hp ⟨hvS, ok2.propValue⟩ _ rfl s)
    docRepo := fun d hd s => by
      simp only [repo_objs_doc ok2 F hd, attrObjs, carriesKey, nr.1 d hd]
      simp
    secRepo := fun c hc s => by
      simp only [repo_objs_sec ok2 F hc, attrObjs, carriesKey, nr.2 c hc]
      simp }

/-- Sound and complete on exports without repositories, all searchable attributes. -/
theorem sound_complete_norepo (ok2 : QTablesOK2) (ds : List DocT) (q : QParams) (wf : WFDocs ds)
    (r : RdfRepr ds) (nr : NoRepo ds) (full : QueryFull q) (row : Row) :
    ∃ rows, queryRows (exportRdf cfg0 ds) q = .ok rows ∧ (row ∈ rows ↔ row ∈ directEval' ds q) :=
  sound_complete_gen ok2 (gfacts_norepo ok2 wf r nr) q full row


/-! ## 6. The intermediate scopes: queries with `id` pairs, and with `value` pairs -/

def idsPairB (k : Kind) (x : Pair) : Bool :=
  x.kind == k && ((safeAttrs k).contains (String.ofList x.attr) || x.attr == "id".toList)

def queryIdsB (q : QParams) : Bool :=
  q.doc.all (idsPairB .doc) && q.sec.all (idsPairB .sec) && q.prop.all (idsPairB .prop)

/-- **QueryIds**: the pairs of `QuerySafe`, and `id` pairs of any kind of object. -/
def QueryIds (q : QParams) : Prop := queryIdsB q = true
instance (q : QParams) : Decidable (QueryIds q) := by unfold QueryIds; infer_instance

def queryValuesB (q : QParams) : Bool :=
  q.doc.all (idsPairB .doc) && q.sec.all (idsPairB .sec) &&
    q.prop.all (fun x => idsPairB .prop x || (x.kind == .prop && x.attr == "value".toList))

/-- **QueryValues**: the pairs of `QueryIds`, and `value` pairs (Property). -/
def QueryValues (q : QParams) : Prop := queryValuesB q = true
instance (q : QParams) : Decidable (QueryValues q) := by unfold QueryValues; infer_instance

theorem safe_sub_full : ∀ K : Kind, ∀ k ∈ safeAttrs K, k ∈ fullAttrs K := by
  intro K; cases K <;> decide

theorem fullPair_of_idsPairB {K : Kind} {x : Pair} (h : idsPairB K x = true) : fullPair K x := by
  simp only [idsPairB, Bool.and_eq_true, Bool.or_eq_true, beq_iff_eq, contains_iff_mem] at h
  refine ⟨h.1, ?_⟩
  rcases h.2 with h2 | h2
  · exact safe_sub_full K _ h2
  · rw [h2, String.ofList_toList]
    cases K <;> decide

theorem queryValues_of_ids {q : QParams} (h : QueryIds q) : QueryValues q := by
  simp only [QueryIds, queryIdsB, Bool.and_eq_true, all_eq_true] at h
  simp only [QueryValues, queryValuesB, Bool.and_eq_true, all_eq_true, Bool.or_eq_true]
  exact ⟨⟨h.1.1, h.1.2⟩, fun x hx => .inl (h.2 x hx)⟩

theorem queryFull_of_values {q : QParams} (h : QueryValues q) : QueryFull q := by
  simp only [QueryValues, queryValuesB, Bool.and_eq_true, all_eq_true, Bool.or_eq_true] at h
  refine ⟨fun x hx => fullPair_of_idsPairB (h.1.1 x hx), fun x hx => fullPair_of_idsPairB (h.1.2 x hx),
    fun x hx => ?_⟩
  rcases h.2 x hx with h2 | h2
  · exact fullPair_of_idsPairB h2
  · simp only [beq_iff_eq] at h2
    refine ⟨h2.1, ?_⟩
    rw [h2.2, String.ofList_toList]
    decide

end Query
