/-
Helper lemmas for C14: trees and positions, `split`/`join`, `_get_section_by_path`.
(The posixpath lemmas are in `Proofs/PathPosix.lean`, the traversal lemmas in `Proofs/PathIter.lean`.)
-/
import OdmlModel.Model.Path
import OdmlModel.Proofs.Str

set_option linter.unusedSimpArgs false
set_option linter.unusedVariables false

namespace PathTree

/-! ## names -/

theorem plainName_iff (n : Str) :
    plainName n = true ↔ n ≠ [] ∧ '/' ∉ n ∧ ':' ∉ n ∧ n ≠ ['.'] ∧ n ≠ ['.', '.'] := by
  simp [plainName, and_assoc]

theorem distinct_cons (n : Str) (r : List Str) :
    distinct (n :: r) = true ↔ n ∉ r ∧ distinct r = true := by
  simp [distinct]

/-- in a list with pairwise distinct names the first element with a given name is *the* element -/
theorem findIdx_of_distinct {α : Type} (nm : α → Str) (l : List α) (i : Nat) (x : α)
    (hd : distinct (l.map nm) = true) (hx : l[i]? = some x) :
    l.findIdx? (fun y => nm y = nm x) = some i := by
  induction l generalizing i with
  | nil => simp at hx
  | cons y r ih =>
    simp only [List.map_cons, distinct_cons] at hd
    cases i with
    | zero =>
      simp at hx; subst hx
      simp [List.findIdx?_cons]
    | succ j =>
      simp at hx
      have hmem : x ∈ r := List.mem_of_getElem? hx
      have hne : ¬ nm y = nm x := by
        intro h
        apply hd.1
        rw [h]
        exact List.mem_map_of_mem hmem
      simp [List.findIdx?_cons, hne, ih j hd.2 hx]

/-! ## well-formed forests -/

theorem wfList_get {l : List Sec} (h : wfList l = true) {i : Nat} {s : Sec} (hs : l[i]? = some s) :
    s.wf = true := by
  induction l generalizing i with
  | nil => simp at hs
  | cons y r ih =>
    simp only [wfList, Sec.wf.wfList, Bool.and_eq_true] at h
    cases i with
    | zero => simp at hs; subst hs; exact h.1
    | succ j => simp at hs; exact ih h.2 hs

theorem Sec.wf_iff (s : Sec) : s.wf = true ↔ propsOk s.props = true ∧ wfForest s.subs = true := by
  cases s with
  | mk n t ps ss => simp [Sec.wf, wfForest, wfList, and_assoc]

theorem wfForest_get {l : List Sec} (h : wfForest l = true) {i : Nat} {s : Sec}
    (hs : l[i]? = some s) :
    plainName s.name = true ∧ wfForest s.subs = true ∧ propsOk s.props = true ∧
      l.findIdx? (fun y => y.name = s.name) = some i := by
  simp only [wfForest, Bool.and_eq_true] at h
  obtain ⟨⟨h1, h2⟩, h3⟩ := h
  have hw := (Sec.wf_iff s).1 (wfList_get h1 hs)
  refine ⟨?_, hw.2, hw.1, findIdx_of_distinct Sec.name l i s h3 hs⟩
  simp only [List.all_eq_true, List.mem_map, forall_exists_index, and_imp] at h2
  exact h2 _ s (List.mem_of_getElem? hs) rfl

/-! ## positions -/

theorem kidsAt_append (l : List Sec) (q r : Pos) :
    kidsAt l (q ++ r) = (kidsAt l q).bind (fun l' => kidsAt l' r) := by
  induction q generalizing l with
  | nil => simp [kidsAt]
  | cons i q ih =>
    simp only [List.cons_append, kidsAt]
    cases l[i]? with
    | none => simp
    | some s => simp [ih]

theorem kidsAt_snoc (l l' : List Sec) (q : Pos) (i : Nat) (s : Sec)
    (hq : kidsAt l q = some l') (hs : l'[i]? = some s) : kidsAt l (q ++ [i]) = some s.subs := by
  simp [kidsAt_append, hq, kidsAt, hs]

theorem secAt_append (l l' : List Sec) (q r : Pos) (hr : r ≠ [])
    (hq : kidsAt l q = some l') : secAt l (q ++ r) = secAt l' r := by
  induction q generalizing l with
  | nil => simp [kidsAt] at hq; subst hq; simp
  | cons i q ih =>
    simp only [kidsAt] at hq
    have hne : q ++ r ≠ [] := by simp [hr]
    cases hi : l[i]? with
    | none => simp [hi] at hq
    | some s =>
      simp only [hi] at hq
      cases hqr : q ++ r with
      | nil => exact absurd hqr hne
      | cons j t =>
        simp only [List.cons_append, hqr, secAt, hi]
        rw [← hqr]; exact ih _ hq

theorem secAt_single (l : List Sec) (i : Nat) : secAt l [i] = l[i]? := by simp [secAt]

theorem secAt_cons_cons (l : List Sec) (i j : Nat) (r : Pos) :
    secAt l (i :: j :: r) = (l[i]?).bind (fun s => secAt s.subs (j :: r)) := by
  simp only [secAt]
  cases l[i]? <;> simp

theorem secAt_cons (l : List Sec) (i : Nat) (r : Pos) (hr : r ≠ []) :
    secAt l (i :: r) = (l[i]?).bind (fun s => secAt s.subs r) := by
  cases r with
  | nil => exact absurd rfl hr
  | cons j t => exact secAt_cons_cons l i j t

/-- a valid Section position has a valid parent node -/
theorem kidsAt_of_secAt (l : List Sec) (p : Pos) (s : Sec) (h : secAt l p = some s) :
    kidsAt l p = some s.subs := by
  induction p generalizing l with
  | nil => simp [secAt] at h
  | cons i r ih =>
    cases r with
    | nil =>
      simp only [secAt] at h
      simp [kidsAt, h]
    | cons j t =>
      rw [secAt_cons_cons] at h
      cases hi : l[i]? with
      | none => simp [hi] at h
      | some s' =>
        simp only [hi, Option.bind_some] at h
        simp only [kidsAt, hi]
        exact ih _ h

theorem namesAlong_append (l l' : List Sec) (q r : Pos) (hq : kidsAt l q = some l') :
    namesAlong l (q ++ r) =
      (namesAlong l q).bind (fun a => (namesAlong l' r).map (fun b => a ++ b)) := by
  induction q generalizing l with
  | nil => simp [kidsAt] at hq; subst hq; simp [namesAlong]
  | cons i q ih =>
    simp only [kidsAt] at hq
    cases hi : l[i]? with
    | none => simp [hi] at hq
    | some s =>
      simp only [hi] at hq
      simp only [List.cons_append, namesAlong, hi, ih _ hq]
      cases namesAlong s.subs q <;> cases namesAlong l' r <;> simp

theorem namesAlong_isSome_of_kidsAt (l : List Sec) (q : Pos) (h : (kidsAt l q).isSome) :
    (namesAlong l q).isSome := by
  induction q generalizing l with
  | nil => simp [namesAlong]
  | cons i q ih =>
    simp only [kidsAt] at h
    simp only [namesAlong]
    cases hi : l[i]? with
    | none => simp [hi] at h
    | some s =>
      simp only [hi] at h
      have := ih _ h
      simpa [hi] using this

theorem namesAlong_length (l : List Sec) (q : Pos) (ns : List Str) (h : namesAlong l q = some ns) :
    ns.length = q.length := by
  induction q generalizing l ns with
  | nil => simp [namesAlong] at h; subst h; rfl
  | cons i q ih =>
    simp only [namesAlong] at h
    cases hi : l[i]? with
    | none => simp [hi] at h
    | some s =>
      simp only [hi] at h
      cases hn : namesAlong s.subs q with
      | none => simp [hn] at h
      | some ms =>
        simp [hn] at h; subst h
        simp [ih _ _ hn]

/-- the names along a position of a well-formed forest are plain -/
theorem namesAlong_plain (l : List Sec) (q : Pos) (ns : List Str) (hw : wfForest l = true)
    (h : namesAlong l q = some ns) : ∀ n ∈ ns, plainName n = true := by
  induction q generalizing l ns with
  | nil => simp [namesAlong] at h; subst h; simp
  | cons i q ih =>
    simp only [namesAlong] at h
    cases hi : l[i]? with
    | none => simp [hi] at h
    | some s =>
      simp only [hi] at h
      obtain ⟨hp, hs, _, _⟩ := wfForest_get hw hi
      cases hn : namesAlong s.subs q with
      | none => simp [hn] at h
      | some ms =>
        simp [hn] at h; subst h
        intro n hn'
        simp at hn'
        rcases hn' with rfl | hn'
        · exact hp
        · exact ih _ _ hs hn n hn'

/-- the forest below a valid node of a well-formed forest is well formed -/
theorem wfForest_kidsAt (l l' : List Sec) (q : Pos) (hw : wfForest l = true)
    (h : kidsAt l q = some l') : wfForest l' = true := by
  induction q generalizing l with
  | nil => simp [kidsAt] at h; subst h; exact hw
  | cons i q ih =>
    simp only [kidsAt] at h
    cases hi : l[i]? with
    | none => simp [hi] at h
    | some s =>
      simp only [hi] at h
      exact ih _ (wfForest_get hw hi).2.1 h

/-- what well-formedness says about the Section at a valid position -/
theorem secAt_facts (l : List Sec) (p : Pos) (s : Sec) (hw : wfForest l = true)
    (h : secAt l p = some s) :
    plainName s.name = true ∧ wfForest s.subs = true ∧ propsOk s.props = true := by
  induction p generalizing l with
  | nil => simp [secAt] at h
  | cons i r ih =>
    cases r with
    | nil =>
      simp only [secAt] at h
      obtain ⟨a, b, c, _⟩ := wfForest_get hw h
      exact ⟨a, b, c⟩
    | cons j t =>
      rw [secAt_cons_cons] at h
      cases hi : l[i]? with
      | none => simp [hi] at h
      | some s' =>
        simp only [hi, Option.bind_some] at h
        exact ih _ (wfForest_get hw hi).2.1 h

theorem secAt_ne_nil (l : List Sec) (p : Pos) (s : Sec) (h : secAt l p = some s) : p ≠ [] := by
  intro hp; subst hp; simp [secAt] at h

theorem namesAlong_of_secAt (l : List Sec) (p : Pos) (s : Sec) (h : secAt l p = some s) :
    ∃ ns, namesAlong l p = some ns := by
  have := namesAlong_isSome_of_kidsAt l p (by simp [kidsAt_of_secAt l p s h])
  exact Option.isSome_iff_exists.1 this

end PathTree

namespace Py

open Py.Posix

/-! ## split / join -/

theorem splitOn_cons_sep (sep : Char) (s : List Char) : splitOn sep (sep :: s) = [] :: splitOn sep s := by
  simp [splitOn]

theorem splitOn_ne_nil (sep : Char) (s : List Char) : splitOn sep s ≠ [] := by
  induction s with
  | nil => simp [splitOn]
  | cons c cs ih =>
    simp only [splitOn]
    split
    · simp
    · split <;> simp

theorem no_sep_of_not_mem {sep : Char} {s : List Char} (h : sep ∉ s) : ∀ c ∈ s, (c == sep) = false := by
  intro c hc
  simp only [beq_eq_false_iff_ne, ne_eq]
  rintro rfl
  exact h hc

/-- `"/".join(segs).split("/") == segs` for slash-free segments -/
theorem splitOn_joinSlash (ns : List (List Char)) (hne : ns ≠ []) (h : ∀ n ∈ ns, '/' ∉ n) :
    splitOn '/' (joinSlash ns) = ns := by
  induction ns with
  | nil => exact absurd rfl hne
  | cons n r ih =>
    cases r with
    | nil =>
      simp only [joinSlash]
      exact splitOn_no_sep _ _ (no_sep_of_not_mem (h n (by simp)))
    | cons m t =>
      simp only [joinSlash]
      rw [splitOn_append_sep _ _ _ (no_sep_of_not_mem (h n (by simp)))]
      rw [ih (by simp) (fun x hx => h x (by simp [hx]))]

theorem not_mem_joinSlash (c : Char) (hc : c ≠ '/') (ns : List (List Char)) (h : ∀ n ∈ ns, c ∉ n) :
    c ∉ joinSlash ns := by
  induction ns with
  | nil => simp [joinSlash]
  | cons n r ih =>
    cases r with
    | nil => simpa [joinSlash] using h n (by simp)
    | cons m t =>
      simp only [joinSlash, List.mem_append, List.mem_cons, not_or]
      exact ⟨h n (by simp), hc, ih (fun x hx => h x (by simp [hx]))⟩

end Py

namespace Path
open PathTree Py Py.Posix

/-! ## _get_section_by_path -/

/-- walking down along child names reaches the position whose names these are -/
theorem resolve_descend (d : Doc) (q r : Pos) (l : List Sec) (ns : List Str)
    (hq : kidsAt d.secs q = some l) (hw : wfForest l = true) (hr : r ≠ [])
    (hn : namesAlong l r = some ns) :
    resolveSegs d q ns = .ok (q ++ r) := by
  induction r generalizing q l ns with
  | nil => exact absurd rfl hr
  | cons i r ih =>
    simp only [namesAlong] at hn
    cases hi : l[i]? with
    | none => simp [hi] at hn
    | some s =>
      simp only [hi] at hn
      obtain ⟨hp, hs, _, hidx⟩ := wfForest_get hw hi
      have hp' := (plainName_iff _).1 hp
      cases hm : namesAlong s.subs r with
      | none => simp [hm] at hn
      | some ms =>
        simp [hm] at hn; subst hn
        have hlen := namesAlong_length _ _ _ hm
        unfold resolveSegs
        simp only [hp'.1, false_and, ↓reduceIte, hp'.2.2.2.2, hp'.2.2.2.1, hq, matchIdx, hidx,
          Option.map_some]
        cases r with
        | nil =>
          have : ms = [] := by cases ms <;> simp_all
          simp [this]
        | cons j t =>
          have hms : ms ≠ [] := by
            intro h; subst h; simp at hlen
          simp only [hms, ↓reduceIte]
          have := ih (q ++ [i]) s.subs ms (kidsAt_snoc _ _ _ _ _ hq hi) hs (by simp) hm
          simpa using this

theorem plain_head_ne_nil {ns : List Str} (h : ∀ n ∈ ns, plainName n = true) : ns ≠ [[]] := by
  intro hns
  subst hns
  have := h [] (by simp)
  simp [plainName] at this

/-- resolving an absolute path: from anywhere, continue from the Document -/
theorem resolve_absolute (d : Doc) (cur p : Pos) (ns : List Str) (hw : d.wf = true) (hp : p ≠ [])
    (hn : namesAlong d.secs p = some ns) :
    getSectionByPath d cur ('/' :: joinSlash ns) = .ok p := by
  have hplain := namesAlong_plain _ _ _ hw hn
  have hlen := namesAlong_length _ _ _ hn
  have hne : ns ≠ [] := by
    intro h; subst h
    cases p <;> simp_all
  have hsl : ∀ n ∈ ns, '/' ∉ n := fun n hn' => ((plainName_iff n).1 (hplain n hn')).2.1
  unfold getSectionByPath
  rw [splitOn_cons_sep, splitOn_joinSlash ns hne hsl]
  unfold resolveSegs
  simp only [hne, ne_eq, not_false_eq_true, and_self, ↓reduceIte, plain_head_ne_nil hplain]
  have := resolve_descend d [] p d.secs ns (by simp [kidsAt]) hw hp hn
  simpa using this

/-- `(path + ":" + name).split(":")` -/
theorem splitOn_colon_path (path name : List Char) (hp : ':' ∉ path) (hn : ':' ∉ name) :
    splitOn ':' (path ++ ':' :: name) = [path, name] := by
  rw [splitOn_append_sep _ _ _ (no_sep_of_not_mem hp), splitOn_no_sep _ _ (no_sep_of_not_mem hn)]

/-- looking a Property up in the Section a path leads to -/
theorem property_lookup (d : Doc) (cur p : Pos) (s : Sec) (k : Nat) (pr : PropT) (path : List Char)
    (hw : d.wf = true) (hpath : ':' ∉ path) (hres : getSectionByPath d cur path = .ok p)
    (hp : secAt d.secs p = some s) (hk : s.props[k]? = some pr) :
    getPropertyByPath d cur (path ++ ':' :: pr.name) = .ok (p, k) := by
  obtain ⟨_, _, hprops⟩ := secAt_facts _ _ _ hw hp
  simp only [propsOk, Bool.and_eq_true] at hprops
  have hplain : plainName pr.name = true := by
    have := hprops.1
    simp only [List.all_eq_true, List.mem_map, forall_exists_index, and_imp] at this
    exact this _ pr (List.mem_of_getElem? hk) rfl
  have hcolon : ':' ∉ pr.name := ((plainName_iff _).1 hplain).2.2.1
  have hidx := findIdx_of_distinct PropT.name s.props k pr hprops.2 hk
  unfold getPropertyByPath
  rw [splitOn_colon_path _ _ hpath hcolon]
  simp only [hres]
  have hj : joinColon [pr.name] = pr.name := rfl
  rw [hj]
  unfold lookupProp
  simp only [secAt_ne_nil _ _ _ hp, ↓reduceIte, hp, hidx]

end Path
